#!/bin/sh
# usage: tools/sweep.sh <tier> <seed-from> <seed-to> [ids...]
# Runs the registered checks for several seeds on SNAPSHOTS of /verif and of the repository (so that work can go on
# in both while the sweep runs); prints ALARM lines, exit 1 if any check did not exit 0.  Development aid only.
here=$(cd "$(dirname "$0")/.." && pwd)
tier=$1; a=$2; b=$3; shift 3
work=$(mktemp -d /tmp/bec2sweep.XXXXXX)
trap 'rm -rf "$work"' EXIT
rsync -a --exclude replays "$here/" "$work/verif/"
rsync -a --exclude t "${VERIF_REPO:-/repo}/" "$work/repo/"
cd "$work/verif" || exit 2
ids=${*:-$(python3 -c "import json;print(' '.join(c['property_id'] for c in json.load(open('MANIFEST.json'))['checks']))")}
bad=0
for s in $(seq "$a" "$b"); do
  for id in $ids; do
    out=$(VERIF_REPO="$work/repo" VERIF_SEED=$s ./check "$id" "$tier" 2>&1); rc=$?
    if [ $rc -ne 0 ]; then bad=1; echo "ALARM $id seed=$s rc=$rc"; echo "$out" | tail -4; mkdir -p /tmp/sweep_replays; cp replays/$id-$tier-$s-*.json /tmp/sweep_replays/ 2>/dev/null; fi
  done
done
[ $bad = 0 ] && echo "sweep clean: $tier seeds $a..$b ($ids)"
exit $bad
