#!/bin/sh
# usage: tools/sweep.sh <tier> <seed-from> <seed-to> [ids...] ; runs the registered checks for several seeds on the current tree
cd "$(dirname "$0")/.." || exit 2
tier=$1; a=$2; b=$3; shift 3
ids=${*:-$(python3 -c "import json;print(' '.join(c['property_id'] if 'property_id' in c else c['id'] for c in json.load(open('MANIFEST.json'))['checks']))")}
bad=0
for s in $(seq "$a" "$b"); do
  for id in $ids; do
    out=$(VERIF_SEED=$s ./check "$id" "$tier" 2>&1); rc=$?
    if [ $rc -ne 0 ]; then bad=1; echo "ALARM $id seed=$s rc=$rc"; echo "$out" | tail -4; mkdir -p /tmp/sweep; cp replays/$id-$tier-$s-*.json /tmp/sweep/ 2>/dev/null; fi
  done
done
[ $bad = 0 ] && echo "sweep clean: $tier seeds $a..$b ($ids)"
exit $bad
