#!/bin/sh
# usage: tools/refactest.sh <srcdir> : behaviour-preserving refactorings written by sub-agents (<srcdir>/Rxx/_seed/patch.diff)
# are applied one at a time to a clone of the repository; the quick checks of the properties the touched code belongs to run on a
# SNAPSHOT of /verif; every check must exit 0 (a refactoring that keeps the behaviour must not raise an alarm).  Development aid.
src=$1
here=$(cd "$(dirname "$0")/.." && pwd)
work=$(mktemp -d /tmp/bec2refac.XXXXXX)
trap 'rm -rf "$work"' EXIT
rsync -a --exclude replays "$here/" "$work/verif/"
git clone -q "${VERIF_REPO:-/repo}" "$work/repo"
cd "$work/verif" || exit 2
props_of() {
  case $1 in
    R01) echo C01 C03 C04 C05 C06 C14 C02;; R02) echo C10 C11 C12;; R03) echo C13 C14;;
    R04) echo C15 C08 C09 C02 C07 C14;; R05) echo C02 C07 C04 C11 C09 C14 C03;; R06) echo C12 C11 C01 C05 C14 C09 C19 C06;;
    R07) echo C16 C06 C08 C09 C07 C02 C14;; R08) echo C16 C06;; R09) echo C19 C18;; R10) echo C17 C18 C19 C20 C09;;
    R11) echo C18 C17 C19 C09;; R12) echo C20 C19 C17;; *) echo;;
  esac
}
for d in "$src"/R*/; do
  id=$(basename "$d")
  [ -f "$d/_seed/patch.diff" ] || { echo "$id: no patch yet"; continue; }
  if ! git -C "$work/repo" apply --check "$d/_seed/patch.diff" 2>/dev/null; then echo "$id: patch does not apply"; continue; fi
  git -C "$work/repo" apply "$d/_seed/patch.diff"
  for p in $(props_of "$id"); do
    out=$(VERIF_REPO="$work/repo" ./check "$p" quick 2>&1); rc=$?
    if [ $rc -ne 0 ]; then echo "ALARM $id $p rc=$rc"; echo "$out" | tail -3 | cut -c1-300; mkdir -p /tmp/refac_replays/$id; cp replays/$p-quick-*.json /tmp/refac_replays/$id/ 2>/dev/null; rm -rf replays; else echo "$id $p quiet"; fi
  done
  git -C "$work/repo" checkout -- . ; git -C "$work/repo" clean -fdq
done
