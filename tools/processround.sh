#!/bin/sh
# usage: tools/processround.sh <srcdir> <suffix> <round> [ids...] : copy and test the sub-agents' seeds that are ready
src=$1; suf=$2; rnd=$3; shift 3
cd "$(dirname "$0")/.." || exit 2
ids=${*:-C01 C02 C03 C04 C05 C06 C07 C08 C09 C10 C11 C12 C13 C14 C15 C16 C17 C18 C19 C20}
for i in $ids; do
  if [ -f "$src/$i/_seed/patch.diff" ] && [ ! -d "seeded/${i}${suf}" ]; then
    tools/addseed.sh "$i" "$src" "$suf" "$rnd" 2>&1 | tail -1
  fi
done
git -C "${VERIF_REPO:-/repo}" status --short | grep -v '^??'
