#!/bin/sh
# usage: tools/addseed.sh <id> <srcdir> <suffix> <round> : copy a sub-agent's _seed/ into seeded/<id><suffix> and test it
id=$1; src=$2; suffix=$3; round=$4
cd "$(dirname "$0")/.." || exit 2
mkdir -p seeded/${id}${suffix} && cp $src/$id/_seed/patch.diff $src/$id/_seed/demo.py $src/$id/_seed/meta.json seeded/${id}${suffix}/
python3 - <<PY
import json
p='seeded/${id}${suffix}/meta.json'
d=json.load(open(p)); d['round']=$round; json.dump(d,open(p,'w'),indent=1)
PY
tools/seedtest.sh ${id}${suffix} 2>&1 | tail -1
