#!/usr/bin/env python3-vt
"""writes lean/Bec2Verif/Lemmas/PrimeCerts.lean and lean/Bec2Verif/Lemmas/CurveCerts.lean: for every named
short-Weierstrass curve of the bundled python-ecdsa (constants from Gen/Curves.lean, regenerated from the source on every
run) for which the needed factorisations are found within the time limit: Lucas certificates for the field prime (and the
group order), the certificate that x^3+ax+b has no root in F_p, and the kernel evaluation of n*G = infinity.
Curves with a cofactor (a point of order 2 exists) and curves whose p-1 cannot be factored here are skipped and listed."""
import os, re, signal, sys
import sympy

SMALL = 10000
LIMIT = int(os.environ.get("FACTOR_LIMIT", "150"))
here = os.path.dirname(os.path.abspath(__file__))
src = open(os.path.join(here, "..", "lean", "Bec2Verif", "Gen", "Curves.lean")).read()
curves = []
for m in re.finditer(r"def (\w+) : CurveRec := \{([^}]*)\}", src):
    body = m.group(2)
    v = {k: int(re.search(r"\b%s := (-?\d+)" % k, body).group(1)) for k in ("p", "a", "b", "gx", "gy", "n", "h")}
    v["name"] = m.group(1)
    curves.append(v)


class TO(Exception):
    pass


def _h(*a):
    raise TO()


signal.signal(signal.SIGALRM, _h)
import json
CACHE = os.path.join(here, "factor_cache.json")
fac_cache = {int(k): ({int(q): e for q, e in v.items()} if v is not None else None)
             for k, v in (json.load(open(CACHE)).items() if os.path.exists(CACHE) else [])}


def factor(n):
    if n in fac_cache:
        return fac_cache[n]
    signal.alarm(LIMIT)
    try:
        f = sympy.factorint(n)
    except TO:
        f = None
    finally:
        signal.alarm(0)
    fac_cache[n] = f
    if f is not None:
        json.dump({str(k): ({str(q): e for q, e in v.items()}) for k, v in fac_cache.items() if v is not None},
                  open(CACHE, "w"))
    return f


def certifiable(p):
    if p < SMALL:
        return True
    f = factor(p - 1)
    return f is not None and all(certifiable(q) for q in f)


def witness(p, fac):
    for a in range(2, 500):
        if pow(a, p - 1, p) == 1 and all(pow(a, (p - 1) // q, p) != 1 for q in fac):
            return a
    raise SystemExit("no witness for %d" % p)


done, pout = {}, []


def cert(p):
    if p in done:
        return
    if p < SMALL:
        pout.append(f"theorem prime_{p} : Nat.Prime {p} := by norm_num\n")
        done[p] = True
        return
    fac = factor(p - 1)
    for q in sorted(fac):
        cert(q)
    a = witness(p, fac)
    qs = ", ".join(f"({q}, {e})" for q, e in sorted(fac.items()))
    cases = "\n".join(f"    | exact prime_{q}" for q in sorted(fac))
    mem = " | ".join(["rfl"] * len(fac))
    pout.append(f"""theorem prime_{p} : Nat.Prime {p} := by
  refine lucas_cert {p} {a} [{qs}] {p.bit_length() + 1} (by decide +kernel) (by decide +kernel) ?_ (by decide +kernel) (by decide +kernel) (by decide +kernel)
  intro x hx
  simp only [List.mem_cons, List.not_mem_nil, or_false] at hx
  rcases hx with {mem} <;> first
{cases}
""")
    done[p] = True


def cubic_cert(p, a, b):
    def mulT(u, v):
        d0 = u[0] * v[0]
        d1 = u[0] * v[1] + u[1] * v[0]
        d2 = u[0] * v[2] + u[1] * v[1] + u[2] * v[0]
        d3 = u[1] * v[2] + u[2] * v[1]
        d4 = u[2] * v[2]
        return ((d0 - b * d3) % p, (d1 - a * d3 - b * d4) % p, (d2 - a * d4) % p)

    def powX(e):
        if e == 0:
            return (1, 0, 0)
        h = powX(e // 2)
        s = mulT(h, h)
        return mulT(s, (0, 1, 0)) if e % 2 else s

    sys.setrecursionlimit(10000)
    h = powX(p)
    g = (h[0], (h[1] - 1) % p, h[2])
    cols = [mulT(g, (1, 0, 0)), mulT(g, (0, 1, 0)), mulT(g, (0, 0, 1))]
    M = [[cols[j][i] for j in range(3)] + [1 if i == 0 else 0] for i in range(3)]
    for c in range(3):
        piv = next((r for r in range(c, 3) if M[r][c] % p), None)
        if piv is None:
            return None                       # x^p - x and f have a common factor: the cubic has a root
        M[c], M[piv] = M[piv], M[c]
        inv = pow(M[c][c], -1, p)
        M[c] = [x * inv % p for x in M[c]]
        for r in range(3):
            if r != c and M[r][c]:
                f = M[r][c]
                M[r] = [(x - f * y) % p for x, y in zip(M[r], M[c])]
    B = tuple(M[i][3] for i in range(3))
    assert mulT(g, B) == (1, 0, 0)
    return B


cout, group_ok, order_ok, skipped = [], [], [], []
must = {"NIST256p"}
for c in curves:
    name, p, n = c["name"], c["p"], c["n"]
    if c["h"] != 1:
        skipped.append(f"{name}: cofactor {c['h']} (the curve has a point of order 2: outside CurveOK)")
        continue
    if not certifiable(p):
        skipped.append(f"{name}: p - 1 not factored within {LIMIT} s per number")
        continue
    B = cubic_cert(p, c["a"], c["b"])
    if B is None:
        skipped.append(f"{name}: the cubic has a root in F_p")
        continue
    cert(p)
    fuel = p.bit_length() + 1
    cout.append(f"""theorem {name}_group : GroupCert Gen.{name} :=
  groupCert_of Gen.{name} {p} Lucas.prime_{p} (by decide +kernel) (by decide +kernel) {fuel} (by decide +kernel)
    ({B[0]}, {B[1]}, {B[2]}) (by decide +kernel) (by decide +kernel)
    ⟨by decide +kernel, by decide +kernel⟩ ⟨by decide +kernel, by decide +kernel⟩ (by decide +kernel) (by decide +kernel)
    (by decide +kernel)
""")
    group_ok.append(name)
    if certifiable(n):
        cert(n)
        cout.append(f"""theorem {name}_order : OrderCert Gen.{name} :=
  ⟨{n}, by decide +kernel, Lucas.prime_{n}, by decide +kernel⟩
""")
        order_ok.append(name)
    else:
        skipped.append(f"{name}: n - 1 not factored within {LIMIT} s per number (group certificate only)")
    print(name, "group", "order" if name in order_ok else "-", flush=True)

p256 = next(c for c in curves if c["name"] == "NIST256p")
phdr = '''import Bec2Verif.Lemmas.Lucas
import Bec2Verif.Gen.Curves
import Mathlib.Tactic.NormNum.Prime
/-!
GENERATED by tools/gen_curve_certs.py - do not edit.
Lucas certificates, checked by the kernel (modular exponentiations by `decide +kernel`), for the field primes and group
orders of the named curves and, recursively, for every prime in the factorisations they use.
-/
namespace Bec2Verif.Lucas

set_option maxRecDepth 100000
set_option linter.style.nameCheck false

'''
ptail = f'''
/-- the field prime of NIST P-256 in the current source -/
theorem p256_p_prime : Nat.Prime Gen.NIST256p.p.toNat := by
  have : Gen.NIST256p.p.toNat = {p256["p"]} := by decide +kernel
  rw [this]; exact prime_{p256["p"]}

/-- the group order of NIST P-256 in the current source -/
theorem p256_n_prime : Nat.Prime Gen.NIST256p.n.toNat := by
  have : Gen.NIST256p.n.toNat = {p256["n"]} := by decide +kernel
  rw [this]; exact prime_{p256["n"]}

end Bec2Verif.Lucas
'''
open(os.path.join(here, "..", "lean", "Bec2Verif", "Lemmas", "PrimeCerts.lean"), "w").write(phdr + "\n".join(pout) + ptail)
chdr = '''import Bec2Verif.Lemmas.CurveCert
import Bec2Verif.Lemmas.PrimeCerts
/-!
GENERATED by tools/gen_curve_certs.py - do not edit.
Certificates for the named curves of the bundled python-ecdsa (constants regenerated from the source on every run).
Not certified here:
''' + "".join(f"* {s}\n" for s in skipped) + '''-/
namespace Bec2Verif.Cert
open Bec2Verif

set_option maxRecDepth 100000
set_option linter.style.nameCheck false

'''
ctail = f'''
/-- the curves with a group certificate -/
def groupCertified : List Gen.CurveRec := [{", ".join("Gen." + n for n in group_ok)}]

theorem groupCertified_ok : ∀ r ∈ groupCertified, GroupCert r := by
  intro r hr
  simp only [groupCertified, List.mem_cons, List.not_mem_nil, or_false] at hr
  rcases hr with {" | ".join(["rfl"] * len(group_ok))}
''' + "\n".join(f"  · exact {n}_group" for n in group_ok) + f'''

/-- the curves whose group order is also certified prime -/
def orderCertified : List Gen.CurveRec := [{", ".join("Gen." + n for n in order_ok)}]

theorem orderCertified_ok : ∀ r ∈ orderCertified, GroupCert r ∧ OrderCert r := by
  intro r hr
  simp only [orderCertified, List.mem_cons, List.not_mem_nil, or_false] at hr
  rcases hr with {" | ".join(["rfl"] * len(order_ok))}
''' + "\n".join(f"  · exact ⟨{n}_group, {n}_order⟩" for n in order_ok) + '''

end Bec2Verif.Cert
'''
open(os.path.join(here, "..", "lean", "Bec2Verif", "Lemmas", "CurveCerts.lean"), "w").write(chdr + "\n".join(cout) + ctail)
print("primes:", len(done), "group:", group_ok, "order:", order_ok)
print("skipped:", skipped)
