#!/usr/bin/env python3
"""Regenerate MANIFEST.json from the table below (keeps it schema-valid)."""
import json, os
V = os.path.dirname(os.path.dirname(os.path.abspath(__file__)))
props = [json.loads(l) for l in open(os.path.join(V, "properties.jsonl"))]
from checks_table import CHECKS, NOT_APPLICABLE  # noqa
m = {
    "version": 1,
    "setup_cmd": "cd lean && lake build Bec2Verif bec2model",
    "hooks": {
        "guard": "BEC2FORMAT_VERIF",
        "enable": "no source hooks: the harness monkey-patches module attributes (RNG, key generator, threading.Lock) at run time from outside /repo; the guard name is reserved and unused",
        "baseline_off_cmd": "cd /repo && /venv/bin/python -m pytest -ra -q -p no:cacheprovider --timeout=900 --continue-on-collection-errors",
        "source_commits": [],
        "add_only": True,
    },
    "engines": [{
        "name": "lean4-model-proof+correspondence",
        "path": "lean/ (Lean 4 model, specs, theorems) + harness/ (extract.py, correspondence driver) + check",
        "serves_properties": sorted(CHECKS),
        "kind_free_text": "machine-checked proof in Lean 4 about a hand-written executable model; model tied to /repo on every run by regenerated constants (Gen/*.lean, kernel re-checked) and by a differential correspondence check of the compiled model against the real code",
    }],
    "checks": [],
    "notes": "See DESIGN.md. Exit 2 = internal error/time-out (never 0 or 1).",
    "not_applicable": [],
}
for p in props:
    pid = p["id"]
    if pid in CHECKS:
        c = CHECKS[pid]
        m["checks"].append({
            "property_id": pid,
            "quick_cmd": f"./check {pid} quick",
            "thorough_cmd": f"./check {pid} thorough",
            "evidence_file": f"evidence/{pid}.json",
            "replay_cmd_template": f"./check {pid} --replay {{path}}",
            "engine": "lean4-model-proof+correspondence",
            "level_claimed": {"category": "proof", "text": c["text"], "design_ref": c.get("ref", "DESIGN.md section 8, " + pid)},
            "level_note": c["note"],
            "technique": c.get("technique", "Lean 4 theorems about an executable model + differential correspondence with the real code"),
        })
    else:
        m["not_applicable"].append({"property_id": pid, "reason": NOT_APPLICABLE.get(pid, "check not built yet (work in progress, DESIGN.md section 12)")})
json.dump(m, open(os.path.join(V, "MANIFEST.json"), "w"), indent=1)
print("checks:", [c["property_id"] for c in m["checks"]], "n/a:", len(m["not_applicable"]))
