#!/usr/bin/env python3
"""Run the repository's pinned suite (guard off) and compare with BASELINE.json's stable passes."""
import json, subprocess, sys, tempfile, os
import xml.etree.ElementTree as ET
base = json.load(open("/root/.vp/BASELINE.json"))
want = set(base["stable_pass"])
tmp = tempfile.mkdtemp(prefix="bec2verif_base_")
xml = os.path.join(tmp, "r.xml")
cmd = base["cmd"].replace("<file>", xml)
subprocess.run(cmd, shell=True, stdout=subprocess.DEVNULL, stderr=subprocess.DEVNULL)
got = set()
for tc in ET.parse(xml).getroot().iter("testcase"):
    if not any(ch.tag in ("failure", "error", "skipped") for ch in tc):
        got.add(f"{tc.get('classname')}::{tc.get('name')}")
missing = sorted(want - got)
print(f"stable passes expected {len(want)}, passing now {len(want & got)}, missing {len(missing)}")
for m in missing[:20]:
    print("  MISSING", m)
import shutil; shutil.rmtree(tmp)
sys.exit(1 if missing else 0)
