#!/bin/sh
# usage: tools/seedtest.sh [ids...] : applies each saved seeded change to the repository working tree, runs the quick
# check of its property, and restores the tree; prints one line per seed.  Development aid.
cd "$(dirname "$0")/.." || exit 2
repo=${VERIF_REPO:-/repo}
ids=${*:-$(ls seeded)}
for id in $ids; do
  [ -f "seeded/$id/patch.diff" ] || continue
  if ! git -C "$repo" apply --check "$PWD/seeded/$id/patch.diff" 2>/dev/null; then echo "$id: patch does not apply"; continue; fi
  git -C "$repo" apply "$PWD/seeded/$id/patch.diff"
  prop=$(echo "$id" | cut -c1-3)                      # C16b -> C16 (second-round seeds)
  if [ -f "harness/$(echo $prop | tr A-Z a-z).py" ]; then
    # the evidence file of the property is kept as the last run on the UNCHANGED tree wrote it (runs against a seeded
    # tree must never end up in the committed evidence)
    [ -f "evidence/$prop.json" ] && cp "evidence/$prop.json" "evidence/.$prop.json.keep"
    out=$(./check "$prop" quick 2>&1 | tail -1)
    echo "$id: $out" | sed 's/evaluations.*failures/…/' 
    [ -f "evidence/.$prop.json.keep" ] && mv "evidence/.$prop.json.keep" "evidence/$prop.json"
  else
    echo "$id: no check yet"
  fi
  git -C "$repo" checkout -- . 
done
git -C "$repo" status --short | grep -v '^??' 
