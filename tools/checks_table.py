CHECKS = {
 "C15": {
  "text": "Theorems step_eq / crc_eq (Props/C15.lean): for every 16-bit start value and every byte string the model of crc8404B equals the bit-serial CRC-16/MCRF4XX and stays below 2^16 (structural proof: xor-linearity of the bit step + two 256-entry kernel evaluations; induction over the string). The model is tied to the code by comparing the step table (2^20 sampled rows quick, all 2^24 entries thorough) and strings, and the code is compared directly with an independent bit-serial oracle.",
  "note": "Trusted: Lean kernel (propext, Classical.choice, Quot.sound), the 12-line bit-serial spec, the correspondence harness, Python int semantics of ^ & << >>. Default start value regenerated from the source and pinned to 0xFFFF by a kernel-checked theorem.",
  "technique": "Lean 4 proof (xor-linearity + induction) on a model tied to crc8404B by exhaustive step-table correspondence",
 },
 "C01": {
  "text": "Theorems fromBinary_toBinary / readBinary_writeBinary(_aes) (Props/C01.lean): for EVERY crypto plug-in whose MAC is 16 bytes (instantiated for the bundled AES adapter with no hypothesis left), every key, offset, list of plain components with distinct tags and declared length 1..payload length, and MAC check on or off, the model of from_binary/read_file returns exactly what the model of to_binary/write_file wrote (induction over the component list through parseDesc/parseEntry/parseEntries/readComps round-trip lemmas, no bound on sizes). The model is tied to the code by running writer and reader (stream and path I/O, text envelope included) on generated file objects on both sides and comparing bytes/fields, and the property is evaluated directly on the real code.",
  "note": "Trusted: Lean kernel + 3 standard axioms; hand-written models Model/{Bf3,Text,Crypto,Aes}.lean tied by correspondence; Gen/* regenerated. Text envelope and CRLF translation: modelled and correspondence-checked (proved where Props/C01Text.lean says so). Locale codec of path I/O outside the model (UTF-8 forced).",
 },
}
NOT_APPLICABLE = {}
