CHECKS = {
 "C15": {
  "text": "Theorems step_eq / crc_eq (Props/C15.lean): for every 16-bit start value and every byte string the model of crc8404B equals the bit-serial CRC-16/MCRF4XX and stays below 2^16 (structural proof: xor-linearity of the bit step + two 256-entry kernel evaluations; induction over the string). The model is tied to the code by comparing the step table (2^20 sampled rows quick, all 2^24 entries thorough) and strings, and the code is compared directly with an independent bit-serial oracle.",
  "note": "Trusted: Lean kernel (propext, Classical.choice, Quot.sound), the 12-line bit-serial spec, the correspondence harness, Python int semantics of ^ & << >>. Default start value regenerated from the source and pinned to 0xFFFF by a kernel-checked theorem.",
  "technique": "Lean 4 proof (xor-linearity + induction) on a model tied to crc8404B by exhaustive step-table correspondence",
 },
}
NOT_APPLICABLE = {}
