import json,os,sys
ids=sys.argv[1:]
for l in open('/verif/properties.jsonl'):
    d=json.loads(l)
    if d['id'] in ids:
        open(f"/tmp/wt18/{d['id']}.property.json","w").write(json.dumps(d,indent=1))
t='''You are testing how robust a software project's guarantees are. You get ONE semantic property of the Python project baltech-ag/bec2format (a reader/writer for BALTECH BF3/BEC2 firmware files with bundled copies of python-ecdsa and pyaes under appnotes/register_crypto_plugin/) and a private scratch git worktree of it at /tmp/wt18/@ID@ . The property (JSON, with anchors into the code) is in the file /tmp/wt18/@ID@.property.json .

Task: make ONE small, realistic change to the source in /tmp/wt18/@ID@ (the kind of slip a maintainer could make in a refactor, optimisation or "cleanup": an off-by-one, a wrong comparison, a dropped reduction, a cached value, a changed default, a swapped index, a missing edge case, a changed exception class, a reordered statement, a dropped keyword argument ...) such that
  1. the code still imports and runs,
  2. the repository's own test suite still passes exactly as before (same set of passing tests), and
  3. the property above is now violated for some concrete input that you can demonstrate.
It must NOT be one of the changes that were already tried:
@AVOID@
Pick a DIFFERENT mechanism: read the property's statement, quantifier and anchors carefully and look for a code path, input class or clause of the statement that none of the listed changes touches (rarely used parameters or convenience functions inside the anchored line ranges, boundary sizes, a second call on the same object, unusual but legal combinations of inputs, state kept between calls, error paths).

Rules:
- Work ONLY inside /tmp/wt18/@ID@ (and your own files under /tmp/wt18/@ID@/_seed/). Never touch /repo or /verif, never read /verif.
- Python to use: /venv/bin/python (the project is importable from the worktree root; for the appnotes packages add /tmp/wt18/@ID@/appnotes to sys.path, e.g. `import register_crypto_plugin`, which registers the AES and ECC plug-ins). OpenSSL CLI: /root/miniconda/bin/openssl.
- Test suite command (run it from the worktree root, BEFORE and AFTER your change, and compare the sets of passing test ids from the junit xml):  cd /tmp/wt18/@ID@ && rm -rf .hypothesis && /venv/bin/python -m pytest -q -p no:cacheprovider --timeout=900 --continue-on-collection-errors -p no:randomly --hypothesis-seed=0 --junitxml=/tmp/wt18/@ID@_before.xml   (and ..._after.xml)
  (about 60 tests fail already on the unchanged tree - that is expected; what matters is that no passing test is lost.) The suite takes a few minutes. No network is available. The test run may create a directory `t/` in the worktree: delete it before making the patch.
- Keep the change minimal (a few lines). Do not edit tests.

Deliver, under /tmp/wt18/@ID@/_seed/ :
  patch.diff  - `git -C /tmp/wt18/@ID@ diff -- . ':(exclude)_seed'` (must apply with `git apply` to a clean checkout of HEAD)
  demo.py     - a self-contained script taking the tree root from env TREE (default: the worktree), that exits 0 on the unchanged code and 1 on the changed code, printing the concrete input on which the property fails
  meta.json   - {"property": "@ID@", "summary": what was changed and why it breaks the property, "needs_to_manifest": which inputs show it, "files": [...], "ran": [the commands you actually ran and their results]}
Verify the demo on BOTH the changed worktree (exit 1) and a pristine export (`git -C /tmp/wt18/@ID@ archive HEAD | tar -x -C <dir>`, exit 0), then delete the pristine export. Finish with a short report: the change, the failing input, the test-suite comparison. If after honest effort you cannot find a change that keeps the suite passing, say so and explain.
'''
for i in ids:
    av=[]
    for suf in ('','b','c','d','e','f','g','h','i','j','k','l','m'):
        f=f'/verif/seeded/{i}{suf}/meta.json'
        if os.path.exists(f):
            m=json.load(open(f)); av.append("  - "+m['summary'][:420].replace('\n',' '))
    open(f'/tmp/wt18/prompt_{i}.txt','w').write(t.replace('@ID@',i).replace('@AVOID@',"\n".join(av)))
print("ok")
