#!/usr/bin/env python3
"""print the surviving mutants of a tools/mutate.py result file, compactly"""
import json, sys, collections
rs = [json.loads(l) for l in open(sys.argv[1])]
print(collections.Counter(r["verdict"] for r in rs))
skip = set(sys.argv[2:])
for r in sorted(rs, key=lambda r: (r["line"] or 0)):
    if r["verdict"] == "killed" or r["qual"] in skip:
        continue
    d = [l for l in r.get("diff","").splitlines() if l[:1] in "+-" and not l.startswith(("+++", "---"))]
    print(f"#{r['idx']} L{r['line']} {r['qual']} [{r['desc']}] {r['verdict']} {r.get('detail','')[:100]}")
    for l in d[:4]:
        print("    " + l[:190])
