#!/usr/bin/env python3
"""Mutation analysis of the checks (development aid, not part of the registered checks).

    tools/mutate.py list <repo-relative file>                 number of mutants per function
    tools/mutate.py run  <repo-relative file> [-j N] [-o out.jsonl] [--only REGEX] [--max M] [--tier quick]

Every mutant is one small syntactic change (comparison / boolean / arithmetic operator, integer constant +-1, dropped
statement, `raise` removed, dropped keyword argument, swapped positional arguments, slice bound dropped, `not` removed,
condition negated).  Each worker owns a scratch copy of the repository and of /verif under /tmp/bec2mut.*, writes the
mutated file there and runs the checks that are responsible for the changed function until one of them reports a
violation.  A mutant that survives all of them is printed with its diff: either it is equivalent (the property still
holds) or the checks have a gap.  Nothing is written to /repo or /verif.
"""
import argparse
import ast
import copy
import difflib
import json
import multiprocessing as mp
import os
import re
import shutil
import subprocess
import sys
import tempfile

VERIF = os.path.dirname(os.path.dirname(os.path.abspath(__file__)))
REPO = os.environ.get("VERIF_REPO", "/repo")

# checks responsible for a function: first match on "<file>:<qualified name>" wins; cheap checks first
RULES = [
    (r"bf3file\.py:.*(bf2|pfid2|annotations|exec_bf2instrs|emit_bf3comp|is_known_tagtype|Bf2BinLine)", ["C13", "C14"]),
    (r"bf3file\.py:.*(conf_dict|set_config|_get_config_ndx)", ["C10", "C11"]),
    (r"bf3file\.py:.*derive_comments", ["C11", "C12"]),
    (r"bf3file\.py:.*(parse_bf3_file|hex2bin|read_file|from_binary|dir_from_binary|from_encrypted_raw_data)", ["C01", "C05", "C06", "C14", "C04"]),
    (r"bf3file\.py:.*(write|to_binary|dir_to_binary|get_raw_data|cmac|Bf3Component|__init__)", ["C01", "C03", "C06", "C02"]),
    (r"bf3file\.py:", ["C01", "C03", "C05", "C06", "C10", "C11", "C13", "C14"]),
    (r"bec2file\.py:crc8404B", ["C15", "C08"]),
    (r"bec2file\.py:.*(AesEncryptorMixin|SoftwareCustKey|CustKeyEncryptor|ConfigSecurityCode)", ["C08", "C02", "C14"]),
    (r"bec2file\.py:.*Ecc(Encryptor|Decryptor)", ["C09", "C02", "C07", "C14"]),
    (r"bec2file\.py:.*derive_auth_blocks", ["C11"]),
    (r"bec2file\.py:.*(unpack|read_file|from_binary)", ["C02", "C07", "C14", "C04"]),
    (r"bec2file\.py:", ["C02", "C07", "C03", "C11", "C09", "C08", "C14"]),
    (r"configid\.py:", ["C12", "C11"]),
    (r"bytes_reader\.py:", ["C05", "C01", "C14", "C02", "C04"]),
    (r"crypto\.py:", ["C09", "C07", "C02", "C06", "C16", "C19", "C14"]),
    (r"register_crypto_plugin/__init__\.py:", ["C09", "C07", "C16", "C06", "C08", "C02", "C14"]),
    (r"pyaes/", ["C16"]),
    (r"ecdsa/_rwlock\.py:", ["C20"]),
    (r"ecdsa/(ecdh)\.py:", ["C17"]),
    (r"ecdsa/(rfc6979)\.py:", ["C18"]),
    (r"ecdsa/(der)\.py:", ["C19", "C18"]),
    (r"ecdsa/(curves)\.py:", ["C19", "C17"]),
    (r"ecdsa/(util)\.py:", ["C18", "C19"]),
    (r"ecdsa/(numbertheory)\.py:", ["C19", "C17", "C18"]),
    (r"ecdsa/(ecdsa)\.py:", ["C18", "C17"]),
    (r"ecdsa/(keys)\.py:", ["C19", "C18", "C17"]),
    (r"ecdsa/(ellipticcurve)\.py:", ["C17", "C19", "C18", "C20"]),
]


def checks_for(relfile, qual):
    key = f"{relfile}:{qual}"
    for rx, cs in RULES:
        if re.search(rx, key):
            return cs
    return []


# ------------------------------------------------------------------------------------------------ mutant generation

CMP = {ast.Eq: [ast.NotEq], ast.NotEq: [ast.Eq], ast.Lt: [ast.LtE, ast.GtE], ast.LtE: [ast.Lt, ast.Gt], ast.Gt: [ast.GtE, ast.LtE],
       ast.GtE: [ast.Gt, ast.Lt], ast.Is: [ast.IsNot], ast.IsNot: [ast.Is], ast.In: [ast.NotIn], ast.NotIn: [ast.In]}
BIN = {ast.Add: [ast.Sub], ast.Sub: [ast.Add], ast.Mult: [ast.FloorDiv], ast.FloorDiv: [ast.Mult], ast.Mod: [ast.FloorDiv],
       ast.LShift: [ast.RShift], ast.RShift: [ast.LShift], ast.BitAnd: [ast.BitOr], ast.BitOr: [ast.BitAnd], ast.BitXor: [ast.BitAnd]}


class Site:
    def __init__(self, path, kind, desc, lineno, qual):
        self.path, self.kind, self.desc, self.lineno, self.qual = path, kind, desc, lineno, qual


def node_at(tree, path):
    n = tree
    for field, idx in path:
        n = getattr(n, field)
        if idx is not None:
            n = n[idx]
    return n


def set_at(tree, path, new):
    parent = node_at(tree, path[:-1])
    field, idx = path[-1]
    if idx is None:
        setattr(parent, field, new)
    else:
        getattr(parent, field)[idx] = new


def walk(node, path, qual, out):
    """collect mutation sites; `path` addresses the node from the module"""
    if isinstance(node, (ast.FunctionDef, ast.AsyncFunctionDef, ast.ClassDef)):
        qual = (qual + "." if qual else "") + node.name
    is_doc = lambda st: isinstance(st, ast.Expr) and isinstance(st.value, ast.Constant) and isinstance(st.value.value, str)
    ln = getattr(node, "lineno", None)
    if isinstance(node, ast.Compare):
        for i, op in enumerate(node.ops):
            for new in CMP.get(type(op), []):
                out.append((Site(path, "cmp", f"{type(op).__name__}->{new.__name__}", ln, qual), ("cmp", i, new)))
    elif isinstance(node, ast.BoolOp):
        out.append((Site(path, "bool", "and<->or", ln, qual), ("bool",)))
        if len(node.values) >= 2:
            for i in range(len(node.values)):
                out.append((Site(path, "bool", f"drop operand {i}", ln, qual), ("dropop", i)))
    elif isinstance(node, ast.UnaryOp) and isinstance(node.op, ast.Not):
        out.append((Site(path, "not", "remove not", ln, qual), ("unnot",)))
    elif isinstance(node, ast.BinOp):
        for new in BIN.get(type(node.op), []):
            out.append((Site(path, "bin", f"{type(node.op).__name__}->{new.__name__}", ln, qual), ("bin", new)))
    elif isinstance(node, ast.Constant) and isinstance(node.value, bool):
        out.append((Site(path, "const", f"{node.value}->{not node.value}", ln, qual), ("const", not node.value)))
    elif isinstance(node, ast.Constant) and isinstance(node.value, int):
        out.append((Site(path, "const", f"{node.value}->{node.value + 1}", ln, qual), ("const", node.value + 1)))
        if node.value > 0:
            out.append((Site(path, "const", f"{node.value}->{node.value - 1}", ln, qual), ("const", node.value - 1)))
    elif isinstance(node, ast.Call):
        for i, kw in enumerate(node.keywords):
            if kw.arg:
                out.append((Site(path, "call", f"drop keyword {kw.arg}", ln, qual), ("dropkw", i)))
        if len(node.args) >= 2 and not any(isinstance(a, ast.Starred) for a in node.args):
            out.append((Site(path, "call", "swap first two arguments", ln, qual), ("swapargs",)))
    elif isinstance(node, ast.Subscript) and isinstance(node.slice, ast.Slice):
        if node.slice.lower is not None:
            out.append((Site(path, "slice", "drop lower bound", ln, qual), ("sl", "lower")))
        if node.slice.upper is not None:
            out.append((Site(path, "slice", "drop upper bound", ln, qual), ("sl", "upper")))
    elif isinstance(node, ast.If) or isinstance(node, ast.While):
        out.append((Site(path, "cond", "negate condition", ln, qual), ("negate",)))
    elif isinstance(node, ast.IfExp):
        out.append((Site(path, "cond", "negate condition", ln, qual), ("negate",)))
    # statement deletion
    for field in ("body", "orelse", "finalbody"):
        stmts = getattr(node, field, None)
        if isinstance(stmts, list) and stmts and isinstance(stmts[0], ast.stmt):
            for i, st in enumerate(stmts):
                if is_doc(st):
                    continue
                sl = getattr(st, "lineno", None)
                if isinstance(st, (ast.Expr, ast.Assign, ast.AugAssign, ast.Raise, ast.Delete)) and qual:
                    out.append((Site(path + [(field, i)], "stmt", f"delete {type(st).__name__}", sl, qual), ("delstmt",)))
                if isinstance(st, ast.Return) and st.value is not None and qual:
                    out.append((Site(path + [(field, i)], "stmt", "return None", sl, qual), ("retnone",)))
                if isinstance(st, (ast.Break, ast.Continue)) and qual:
                    out.append((Site(path + [(field, i)], "stmt", f"delete {type(st).__name__}", sl, qual), ("delstmt",)))
    # recurse (not into annotations, decorators, default docstrings)
    for field, value in ast.iter_fields(node):
        if field in ("annotation", "returns", "decorator_list", "type_comment", "bases", "keywords") and not isinstance(node, ast.Call):
            continue
        if isinstance(value, list):
            for i, v in enumerate(value):
                if isinstance(v, ast.AST) and not (isinstance(v, ast.stmt) and is_doc(v)):
                    walk(v, path + [(field, i)], qual, out)
        elif isinstance(value, ast.AST):
            walk(value, path + [(field, None)], qual, out)


def apply(tree, site, action):
    t = copy.deepcopy(tree)
    n = node_at(t, site.path)
    a = action[0]
    if a == "cmp":
        n.ops[action[1]] = action[2]()
    elif a == "bool":
        n.op = ast.Or() if isinstance(n.op, ast.And) else ast.And()
    elif a == "dropop":
        vals = [v for i, v in enumerate(n.values) if i != action[1]]
        set_at(t, site.path, vals[0] if len(vals) == 1 else ast.BoolOp(op=n.op, values=vals))
    elif a == "unnot":
        set_at(t, site.path, n.operand)
    elif a == "bin":
        n.op = action[1]()
    elif a == "const":
        n.value = action[1]
    elif a == "dropkw":
        del n.keywords[action[1]]
    elif a == "swapargs":
        n.args[0], n.args[1] = n.args[1], n.args[0]
    elif a == "sl":
        setattr(n.slice, action[1], None)
    elif a == "negate":
        n.test = ast.UnaryOp(op=ast.Not(), operand=n.test)
    elif a == "delstmt":
        set_at(t, site.path, ast.Pass())
    elif a == "retnone":
        n.value = ast.Constant(value=None)
    ast.fix_missing_locations(t)
    return ast.unparse(t)


def mutants(relfile, only=None):
    src = open(os.path.join(REPO, relfile)).read()
    tree = ast.parse(src)
    base = ast.unparse(tree)
    out = []
    walk(tree, [], "", out)
    res = []
    seen = {base}
    for site, action in out:
        if not site.qual:
            continue                                   # module-level code: constants are tied by the extractor
        if only and not re.search(only, f"{site.qual}:{site.kind}:{site.desc}"):
            continue
        try:
            code = apply(tree, site, action)
        except Exception:
            continue
        if code in seen:
            continue
        seen.add(code)
        res.append((site, code))
    return base, res


# ------------------------------------------------------------------------------------------------ running

def worker_init(workroot, relfile):
    global W_REPO, W_VERIF, W_REL
    ident = mp.current_process()._identity[0]
    W_REL = relfile
    d = os.path.join(workroot, f"w{ident}")
    W_REPO, W_VERIF = os.path.join(d, "repo"), os.path.join(d, "verif")
    if not os.path.isdir(d):
        os.makedirs(d)
        subprocess.run(["rsync", "-a", "--exclude", "t", "--exclude", ".hypothesis", REPO + "/", W_REPO + "/"], check=True)
        subprocess.run(["rsync", "-a", "--exclude", "replays", "--exclude", "seeded", VERIF + "/", W_VERIF + "/"], check=True)


def run_one(job):
    idx, site_d, code, base, checks, tier, seed = job
    target = os.path.join(W_REPO, W_REL)
    orig = open(os.path.join(REPO, W_REL)).read()
    open(target, "w").write(code)
    env = dict(os.environ, VERIF_REPO=W_REPO, VERIF_SEED=str(seed), VERIF_NCPU="4", PYTHONDONTWRITEBYTECODE="1")
    verdict, by, detail = "survived", None, ""
    try:
        # must still import
        r = subprocess.run(["/venv/bin/python", "-c", "import bec2format, register_crypto_plugin"], env=dict(env, PYTHONPATH=f"{W_REPO}:{W_REPO}/appnotes"),
                           capture_output=True, text=True, timeout=120)
        if r.returncode != 0:
            return dict(idx=idx, **site_d, verdict="does-not-import")
        for c in checks:
            try:
                r = subprocess.run(["./check", c, tier], cwd=W_VERIF, env=env, capture_output=True, text=True, timeout=1500)
            except subprocess.TimeoutExpired:
                verdict, by, detail = "killed", c, "timeout"
                break
            if r.returncode == 1:
                verdict, by = "killed", c
                break
            if r.returncode != 0:
                verdict, by, detail = "harness-crash", c, (r.stdout + r.stderr)[-400:]
                break
    finally:
        open(target, "w").write(orig)
    diff = ""
    if verdict != "killed":
        diff = "".join(difflib.unified_diff(base.splitlines(True), code.splitlines(True), "a", "b", n=1))[:1500]
    return dict(idx=idx, **site_d, verdict=verdict, by=by, detail=detail, diff=diff)


def main():
    ap = argparse.ArgumentParser()
    ap.add_argument("cmd", choices=["list", "run"])
    ap.add_argument("file")
    ap.add_argument("-j", type=int, default=4)
    ap.add_argument("-o", default=None)
    ap.add_argument("--only", default=None)
    ap.add_argument("--max", type=int, default=None)
    ap.add_argument("--tier", default="quick")
    ap.add_argument("--seed", type=int, default=0)
    ap.add_argument("--sample", type=int, default=None, help="take every k-th mutant")
    a = ap.parse_args()
    base, ms = mutants(a.file, a.only)
    if a.sample:
        ms = ms[::a.sample]
    if a.max:
        ms = ms[:a.max]
    if a.cmd == "list":
        from collections import Counter
        c = Counter(s.qual for s, _ in ms)
        for q, n in sorted(c.items()):
            print(f"{n:5d} {q}  -> {' '.join(checks_for(a.file, q))}")
        print(len(ms), "mutants")
        return
    out = open(a.o or f"/tmp/mutants_{os.path.basename(a.file)}.jsonl", "w")
    workroot = tempfile.mkdtemp(prefix="bec2mut.")
    jobs = []
    for i, (s, code) in enumerate(ms):
        cs = checks_for(a.file, s.qual)
        if not cs:
            continue
        jobs.append((i, dict(qual=s.qual, kind=s.kind, desc=s.desc, line=s.lineno), code, base, cs, a.tier, a.seed))
    print(f"{len(jobs)} mutants, {a.j} workers, scratch {workroot}", flush=True)
    n = {"killed": 0, "survived": 0, "harness-crash": 0, "does-not-import": 0}
    try:
        with mp.get_context("fork").Pool(a.j, initializer=worker_init, initargs=(workroot, a.file)) as pool:
            for r in pool.imap_unordered(run_one, jobs):
                n[r["verdict"]] += 1
                out.write(json.dumps(r) + "\n")
                out.flush()
                if r["verdict"] in ("survived", "harness-crash"):
                    print(f"{r['verdict'].upper()} #{r['idx']} {a.file}:{r['line']} {r['qual']} [{r['kind']}: {r['desc']}] {r.get('detail', '')[:200]}", flush=True)
                if sum(n.values()) % 25 == 0:
                    print(f"  progress {sum(n.values())}/{len(jobs)} {n}", flush=True)
    finally:
        shutil.rmtree(workroot, ignore_errors=True)
    print("done", n)


if __name__ == "__main__":
    main()
