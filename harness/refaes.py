"""
Independent reference AES (FIPS-197, byte-oriented, S-box computed from the GF(2^8) inverse and
the affine map) and CBC/SHA helpers.  Shares nothing with pyaes: used only as an oracle in the
failing-input search / direct property evaluation.
"""


def xtime(a):
    a <<= 1
    return (a ^ 0x11B) & 0xFF if a & 0x100 else a


def gmul(a, b):
    r = 0
    while b:
        if b & 1:
            r ^= a
        a = xtime(a)
        b >>= 1
    return r


def _sbox():
    inv = [0] * 256
    for x in range(1, 256):
        y = x
        for _ in range(253):       # x^254
            y = gmul(y, x)
        inv[x] = y
    s = []
    for x in range(256):
        b = inv[x]
        r = 0
        for i in range(8):
            bit = ((b >> i) ^ (b >> ((i + 4) % 8)) ^ (b >> ((i + 5) % 8)) ^ (b >> ((i + 6) % 8)) ^ (b >> ((i + 7) % 8))
                   ^ (0x63 >> i)) & 1
            r |= bit << i
        s.append(r)
    return s


SBOX = _sbox()
INV_SBOX = [0] * 256
for _i, _v in enumerate(SBOX):
    INV_SBOX[_v] = _i


def expand_key(key):
    nk = len(key) // 4
    nr = nk + 6
    w = [list(key[4 * i:4 * i + 4]) for i in range(nk)]
    rc = 1
    for i in range(nk, 4 * (nr + 1)):
        t = list(w[i - 1])
        if i % nk == 0:
            t = t[1:] + t[:1]
            t = [SBOX[b] for b in t]
            t[0] ^= rc
            rc = xtime(rc)
        elif nk > 6 and i % nk == 4:
            t = [SBOX[b] for b in t]
        w.append([a ^ b for a, b in zip(w[i - nk], t)])
    return w, nr


def _add(state, w, r):
    for c in range(4):
        for i in range(4):
            state[c][i] ^= w[4 * r + c][i]


def encrypt_block(key, block):
    w, nr = expand_key(key)
    st = [list(block[4 * c:4 * c + 4]) for c in range(4)]       # st[c][r]
    _add(st, w, 0)
    for rnd in range(1, nr + 1):
        st = [[SBOX[b] for b in col] for col in st]
        st = [[st[(c + r) % 4][r] for r in range(4)] for c in range(4)]   # ShiftRows
        if rnd != nr:
            st = [[gmul(col[0], 2) ^ gmul(col[1], 3) ^ col[2] ^ col[3],
                   col[0] ^ gmul(col[1], 2) ^ gmul(col[2], 3) ^ col[3],
                   col[0] ^ col[1] ^ gmul(col[2], 2) ^ gmul(col[3], 3),
                   gmul(col[0], 3) ^ col[1] ^ col[2] ^ gmul(col[3], 2)] for col in st]
        _add(st, w, rnd)
    return bytes(b for col in st for b in col)


def decrypt_block(key, block):
    w, nr = expand_key(key)
    st = [list(block[4 * c:4 * c + 4]) for c in range(4)]
    _add(st, w, nr)
    for rnd in range(nr - 1, -1, -1):
        st = [[st[(c - r) % 4][r] for r in range(4)] for c in range(4)]   # InvShiftRows
        st = [[INV_SBOX[b] for b in col] for col in st]
        _add(st, w, rnd)
        if rnd != 0:
            st = [[gmul(col[0], 14) ^ gmul(col[1], 11) ^ gmul(col[2], 13) ^ gmul(col[3], 9),
                   gmul(col[0], 9) ^ gmul(col[1], 14) ^ gmul(col[2], 11) ^ gmul(col[3], 13),
                   gmul(col[0], 13) ^ gmul(col[1], 9) ^ gmul(col[2], 14) ^ gmul(col[3], 11),
                   gmul(col[0], 11) ^ gmul(col[1], 13) ^ gmul(col[2], 9) ^ gmul(col[3], 14)] for col in st]
    return bytes(b for col in st for b in col)


def cbc_encrypt(key, iv, data):
    assert len(data) % 16 == 0
    out, prev = b"", iv
    for i in range(0, len(data), 16):
        prev = encrypt_block(key, bytes(a ^ b for a, b in zip(data[i:i + 16], prev)))
        out += prev
    return out


def cbc_decrypt(key, iv, data):
    assert len(data) % 16 == 0
    out, prev = b"", iv
    for i in range(0, len(data), 16):
        out += bytes(a ^ b for a, b in zip(decrypt_block(key, data[i:i + 16]), prev))
        prev = data[i:i + 16]
    return out


def zero_pad(d):
    return d + bytes(-len(d) % 16)


def cmac(key, data, iv=None):
    return cbc_encrypt(key, iv or bytes(16), zero_pad(data))[-16:]


def bitserial(data, start=0xFFFF):
    """independent oracle: CRC-16/MCRF4XX straight from the definition"""
    crc = start
    for b in data:
        crc ^= b
        for _ in range(8):
            crc = (crc >> 1) ^ 0x8408 if crc & 1 else crc >> 1
    return crc



# self-test against FIPS-197 Appendix C
assert encrypt_block(bytes(range(16)), bytes.fromhex("00112233445566778899aabbccddeeff")).hex() == \
    "69c4e0d86a7b0430d8cdb78070b4c55a"
assert encrypt_block(bytes(range(32)), bytes.fromhex("00112233445566778899aabbccddeeff")).hex() == \
    "8ea2b7ca516745bfeafc49904b496089"
assert decrypt_block(bytes(range(24)), bytes.fromhex("dda97ca4864cdfe06eaf70a0ec0d7191")).hex() == \
    "00112233445566778899aabbccddeeff"


# ---- SP 800-38A modes on top of encrypt_block / decrypt_block (reference for prop.aesmode) ----------------------------
def mode_stream(kind, key, iv, ctr, seg, data, decrypt=False):
    """the whole message through one mode (ECB/CBC: whole blocks; CFB: whole segments; OFB/CTR: any length)"""
    out = bytearray()
    if kind == "ecb":
        for i in range(0, len(data), 16):
            out += (decrypt_block if decrypt else encrypt_block)(key, data[i:i + 16])
    elif kind == "cbc":
        prev = iv
        for i in range(0, len(data), 16):
            b = data[i:i + 16]
            if decrypt:
                out += bytes(x ^ y for x, y in zip(decrypt_block(key, b), prev))
                prev = b
            else:
                prev = encrypt_block(key, bytes(x ^ y for x, y in zip(b, prev)))
                out += prev
    elif kind == "cfb":
        reg = iv
        for i in range(0, len(data), seg):
            s = data[i:i + seg]
            o = bytes(x ^ y for x, y in zip(s, encrypt_block(key, reg)))
            out += o
            reg = (reg + (s if decrypt else o))[-16:]
    elif kind == "ofb":
        reg, ks = iv, b""
        while len(ks) < len(data):
            reg = encrypt_block(key, reg)
            ks += reg
        out += bytes(x ^ y for x, y in zip(data, ks))
    elif kind == "ctr":
        c, ks = ctr % 2 ** 128, b""
        while len(ks) < len(data):
            ks += encrypt_block(key, c.to_bytes(16, "big"))
            c = (c + 1) % 2 ** 128
        out += bytes(x ^ y for x, y in zip(data, ks))
    else:
        raise ValueError(kind)
    return bytes(out)
