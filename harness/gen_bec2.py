"""generators for BEC2 files (protocol encoding), shared by C02/C03/C04/C06/C07/C09"""
import gen_bf3 as g
from core import hx

P256_N = 0xFFFFFFFF00000000FFFFFFFFFFFFFFFFBCE6FAADA7179E84F3B9CAC2FC632551


def gen_scalar(rng):
    r = rng.random()
    if r < 0.25:
        return rng.choice([1, 2, 3, P256_N - 2, P256_N - 1, 2**255, 2**128, 2**64 - 1])
    return rng.randrange(1, P256_N)


def config_blob(rng):
    """a TLV configuration blob as set_config builds it: length-prefixed blocks closed by 00"""
    out = b""
    for _ in range(rng.randrange(1, 4)):
        blk = g.rbytes(rng, rng.choice([3, 8, 20, 60, 117]))
        out += bytes([len(blk)]) + blk
    return out + b"\x00"


def add_config_comp(rng, comps, blob=None):
    blob = blob if blob is not None else (config_blob(rng) if rng.random() < 0.7 else g.gen_payload(rng, 120))
    desc = [(0xC3, b"\x03"), (0xC2, b"\x02"), (0xC1, b"\x03"), (0xC5, b"\x01")]
    c = g.show_comp(desc, blob, len(blob), True)
    return c if comps == "-" else comps + ";" + c


def gen_file(rng, with_config=None, ecc=True):
    key = g.gen_key(rng)
    if key == bytes(16) and rng.random() < 0.5:
        key = g.rbytes(rng, 15) + b"\x00"
    kinds = []
    pool = ["c", "e", "u"] if ecc else ["c", "u"]
    n = min(rng.choice([1, 1, 2, 2, 3]), len(pool))      # kinds are distinct: never ask for more than there are
    while len(kinds) < n:
        k = rng.choice(pool)
        if k not in kinds:
            kinds.append(k)
    rng.shuffle(kinds)
    blocks, encs, ephs = [], [], []
    ck_key = g.gen_key(rng)
    priv = {}
    for k in kinds:
        if k == "c":
            blocks.append("c")
            if rng.random() < 0.5:
                encs.append(f"C{hx(ck_key)}:-:0")
            else:
                pos = rng.randrange(0, 17)
                ck = g.rbytes(rng, 10)
                if rng.random() < 0.35:
                    # value collision: the session key itself contains the ten bytes of the customer key
                    o = rng.randrange(0, 7)
                    key = key[:o] + ck + key[o + 10:]
                encs.append(f"C{hx(ck_key)}:{hx(ck)}:{pos}")
        elif k == "e":
            sel = rng.randrange(0, 4)
            d = gen_scalar(rng)
            priv[sel] = d
            blocks.append(f"e{sel}")
            encs.append(f"D{sel}:{d}")
            ephs.append(str(gen_scalar(rng)))
        else:
            code = g.rbytes(rng, 8) if rng.random() < 0.9 else bytes(8)
            ver = rng.choice([0, 1, 127, 128, 255, rng.randrange(256)])
            blocks.append(f"u{hx(code)}:{ver}")
            if rng.random() < 0.5:
                encs.append(f"S{hx(code)}")
    # encryptors that belong to other recipients: ECC keys of other selectors, in any order (a security-code encryptor
    # with another code is not a "matching decryptor": the update block has no selector, a wrong code is a format error)
    if rng.random() < 0.4:
        used = {int(b[1:]) for b in blocks if b.startswith("e")}
        for sel2 in rng.sample([x for x in range(4) if x not in used], rng.choice([1, 1, 2])):
            encs.append(f"D{sel2}:{gen_scalar(rng)}")
    rng.shuffle(encs)
    comps = g.gen_comps(rng, 300, 3)
    if with_config or (with_config is None and rng.random() < 0.6):
        comps = add_config_comp(rng, comps)
    return {"key": hx(key), "blocks": ",".join(blocks), "encs": ",".join(encs) or "-", "ephs": ",".join(ephs) or "-",
            "comps": comps, "kinds": kinds}
