"""C12 — configuration identifiers match the config and their text form round-trips."""
import gen_cfg as gc
import gen_bf3 as g
from core import hx

TRUSTED = [
    "Lean 4.33 kernel; axioms propext, Classical.choice, Quot.sound only",
    "Model/ConfigId.lean (fromPrj, fromDev, toStr, the two hand-written matchers for the two fixed regular expressions) tied to "
    "configid.py by correspondence: each numeric field range exhaustively, adversarial names, all subsets of the naming values",
    "Gen/Unicode.lean: the characters re's \\d / int() accept, regenerated from the running interpreter",
]
ASSUMPTIONS = [
    "KNOWN FINDING D7 (inherent in the text format): a name-only identifier whose name is itself shaped like a numeric identifier "
    "prints to text that parses as a numeric identifier - parse_print_nameonly_partial proves the rest, _witness refutes the full statement",
    "customer 9999 ('unknown') is excluded by the property's quantifier; lone surrogates cannot be a Lean Char",
]
LEANCHECKER_MODULES = ["Bec2Verif.Props.C12"]

NAMES = ["Testname", "x", "Lobby (version 01)", "a (version 99) b", "(version 07)", " lead", "trail ", "Tür ☃", "12345", "1-2-3",
         "name  with  spaces", "٣٤", "a\tb", "0", "None", "v (version 1)", "x (version 123)", ")", "(", "00001-0002-0003-04",
         "٠٠٠٠١-٠٠٠٢-٠٠٠٣-٠٤ arabic digits",
         # characters that mean something to a formatting or pattern language the name might be pushed through
         "{", "}", "{}", "{0}", "{name}", "{{site}} door", "Reader {A}", "cfg {", "%s", "%d %", "100%", "\\d+", "a\\1", "$0", "^x$", ".*",
         "[a-z]", "a|b", "x?", "(?P<n>y)", "\\", "'", '"', "name\u2028x", "a\x00b",
         # an identifier-shaped group that is NOT at the start of the name (the numeric form is only recognised at the start)
         "foo 12345-1234-1234-12", "x12345-0001-0000-01", "copy of 00001-0002-0003-04 door reader", "112345-1234-1234-12",
         "see 12345-1234-1234-12"]


def sid(c, p, d, v, name):
    so = lambda x: "n" if x is None else str(x)
    return f"{so(c)},{so(p)},{so(d)},{v},{'n' if name is None else hx(name.encode())}"


def run(ctx):
    rng = ctx.rng
    ctx.rule = ("each numeric field range exhaustively with the other fields at 3 values (customer 0..99999 without 9999, project "
                "0..9999, device 0..9999, version 0..99); names from an adversarial list (digits/dashes, '(version NN)' once/twice, "
                "leading/trailing spaces, Unicode digits); name-only identifiers; texts to parse: printed forms, mutations, junk; "
                "all subsets of the 0x0620 naming values with byte widths 0..4; non-trivial = distinct case")
    ids = []
    step = 1 if not ctx.quick else 7
    others = [(1, 2, 3, 4), (99999, 9999, 9999, 99), (0, 0, 0, 0)]
    for c in range(0, 100000, step):
        if c != 9999:
            o = others[c % 3]
            ids.append(sid(c, o[1], o[2], o[3], NAMES[c % len(NAMES)] if c % 5 else None))
    for p in range(0, 10000):
        o = others[p % 3]
        ids.append(sid(o[0] if o[0] != 9999 else 1, p, o[2], o[3], NAMES[p % len(NAMES)] if p % 4 else None))
        ids.append(sid(o[0] if o[0] != 9999 else 1, o[1], p, o[3], NAMES[p % len(NAMES)] if p % 3 else None))
    for v in range(0, 100):
        for o in others:
            ids.append(sid(o[0], o[1], o[2], v, rng.choice(NAMES)))
            ids.append(sid(None, None, None, v, rng.choice(NAMES)))
    ctx.exhaustive["customer_0..99999"] = not ctx.quick
    ctx.exhaustive["project_0..9999"] = True
    ctx.exhaustive["device_0..9999"] = True
    ctx.exhaustive["version_0..99"] = True
    # out-of-range fields: compared between model and code, not part of the property
    odd = [sid(100000, 1, 2, 3, "x"), sid(1, 10000, 2, 3, None), sid(1, 2, 10000, 100, "x"), sid(1, 2, 3, 100, None),
           sid(None, None, None, 100, "x"), sid(9999, 1, 2, 3, "x"), sid(None, None, None, 5, None), sid(1, None, None, 5, ""),
           sid(1, 9999, 9999, 5, "x"), sid(12345678, 1, 0, 7, "n")]
    ctx.correspond([f"cfgid.str {i}" for i in ids + odd], "cfgid.str")
    inq = [i for i in ids]
    # name-only identifiers whose name looks numeric are the known finding D7: evaluated, matched against known_findings.json
    ctx.check_props([f"prop.c12 {i}" for i in inq[:: 3 if ctx.quick else 1]], "prop.c12")
    ctx.check_props([f"prop.c12 {sid(None, None, None, 3, '00001-0002-0003-04 x')}"], "prop.c12-d7")
    # parsing
    texts = []
    base = ["10234-5678-6789-09 Testname", "10234-5678-6789-09", "Lobby (version 01) (version 05)", "x (version 03)", "",
            "10234-5678-6789-9 x", "1234-5678-6789-09", "10234-5678-6789-09x", "10234-5678-6789-09  two spaces",
            "a\n (version 03)", "a (version 03)\nb", "a (version 03", "(version 03)", " (version 03)", "a (version 3)",
            "٠٠٠٠١-٠٠٠٢-٠٠٠٣-٠٤ x", "a (version ٠٣)", "10234-5678-6789-09 line\nnext", "09999-0001-0002-03 n", "a (version 03) (version x)",
            "foo 12345-1234-1234-12 (version 03)", "x12345-1234-1234-12", "a\n12345-1234-1234-12 b", "see 12345-1234-1234-12 for details"]
    texts += base
    for _ in range(300 if ctx.quick else 20000):
        t = rng.choice(base)
        k = rng.randrange(5)
        if k == 0 and t:
            i = rng.randrange(len(t))
            t = t[:i] + rng.choice("0123456789- ()vx\n٣") + t[i + 1:]
        elif k == 1 and t:
            i = rng.randrange(len(t))
            t = t[:i] + t[i + 1:]
        elif k == 2:
            t = t + rng.choice([" (version 07)", " x", "-", "0"])
        elif k == 3:
            ins = rng.choice(["x", " ", "foo ", "1", "see ", "\n", "0", "-", "(", "copy of "])
            i = 0 if rng.random() < 0.6 else rng.randrange(len(t) + 1)
            t = t[:i] + ins + t[i:]
        texts.append(t)
    tl = [hx(t.encode()) for t in texts]
    ctx.correspond([f"cfgid.parse {t}" for t in tl], "cfgid.parse")
    ctx.check_props([f"prop.c12parse {t}" for t in tl], "prop.c12parse")
    # identifier from configuration
    ds = [gc.show_dict(list({k: v for k, v in gc.naming_items(rng)}.items())) for _ in range(400 if ctx.quick else 20000)]
    ctx.correspond([f"cfgid.prj {d}" for d in ds] + [f"cfgid.dev {d}" for d in ds], "cfgid.from")
    ctx.check_props([f"prop.c12cfg {d}" for d in ds], "prop.c12cfg")


def search(ctx):
    rng = ctx.rng
    ctx.check_props([f"prop.c12 {sid(rng.randrange(100000), rng.randrange(10000), rng.randrange(10000), rng.randrange(100), rng.choice(NAMES))}"
                     for _ in range(5000)], "search.c12")
