"""
Adapters that call the real code of REPO in-process and canonicalise results
into protocol result strings.  One function per protocol op.
"""
import io
import os
import sys

REPO = os.environ.get("VERIF_REPO", "/repo")
for p in (os.path.join(REPO, "appnotes"), REPO):
    if p not in sys.path:
        sys.path.insert(0, p)
sys.dont_write_bytecode = True

OPS = {}


def op(name):
    def deco(f):
        OPS[name] = f
        return f
    return deco


def hx(b) -> str:
    b = bytes(b)
    return b.hex() if b else "-"


def unhx(s: str) -> bytes:
    return b"" if s == "-" else bytes.fromhex(s)


def err(e: BaseException) -> str:
    import binascii
    if isinstance(e, binascii.Error):          # a ValueError subclass whose class name is just "Error"
        return "err ValueError"
    return "err " + type(e).__name__


class CStream(io.StringIO):
    """a text stream that belongs to the caller: the library reads from it or writes to it, it does not close it"""
    closed_by_callee = 0

    def close(self):
        CStream.closed_by_callee += 1
        super().close()

    def __del__(self):          # garbage collection is not the library closing the stream
        pass


def evaluate(line: str) -> str:
    parts = line.split(" ")
    f = OPS.get(parts[0])
    if f is None:
        mod = parts[0].split(".")[0]
        raise KeyError("no implementation adapter for op " + parts[0])
    before = CStream.closed_by_callee
    res = f(*parts[1:])
    if CStream.closed_by_callee != before:
        return ("FAIL " if parts[0].startswith("prop.") else "err CallerStreamClosed ") + \
            "the call closed a stream object that was handed to it (streams belong to the caller; only paths are opened and closed)"
    return res


def mkfile(comments=None, comps=None):
    """a Bf3File the way callers build one: arguments that are empty are left to the constructor's defaults"""
    from bec2format.bf3file import Bf3File
    if not comments and not comps:
        return Bf3File()
    if not comments:
        return Bf3File(components=comps)
    if not comps:
        return Bf3File(comments)
    return Bf3File(comments, comps)


def pristine_problem():
    """objects built with the constructors' defaults, after everything this process has evaluated: still as new?"""
    from bec2format.bf3file import Bf3File
    from bec2format.bec2file import Bec2File
    try:
        f, b = Bf3File(), Bec2File(Bf3File())
    except Exception as e:
        return f"building Bf3File() / Bec2File(Bf3File()) raises {type(e).__name__}: {e}"
    if f.comments or f.components:
        return f"a new Bf3File() has comments {dict(f.comments)!r:.100} and {len(f.components)} components"
    if b.auth_blocks or b.bf3file.comments or b.bf3file.components:
        return f"a new Bec2File(Bf3File()) has {len(b.auth_blocks)} auth blocks / comments {dict(b.bf3file.comments)!r:.100}"
    if len(b.session_key) != 16:
        return "a new Bec2File(Bf3File()) has no 16-byte session key"
    return None


# op modules register themselves
import impl_crc  # noqa: E402,F401
import impl_bf3  # noqa: E402,F401
import impl_bec2  # noqa: E402,F401
import impl_aes  # noqa: E402,F401
import impl_cfg  # noqa: E402,F401
import impl_bf2  # noqa: E402,F401
import impl_c14  # noqa: E402,F401
import impl_ec  # noqa: E402,F401
import impl_rw  # noqa: E402,F401
import impl_c19  # noqa: E402,F401
import impl_c18  # noqa: E402,F401
