"""
Adapters that call the real code of REPO in-process and canonicalise results
into protocol result strings.  One function per protocol op.
"""
import os
import sys

REPO = os.environ.get("VERIF_REPO", "/repo")
for p in (os.path.join(REPO, "appnotes"), REPO):
    if p not in sys.path:
        sys.path.insert(0, p)
sys.dont_write_bytecode = True

OPS = {}


def op(name):
    def deco(f):
        OPS[name] = f
        return f
    return deco


def hx(b) -> str:
    b = bytes(b)
    return b.hex() if b else "-"


def unhx(s: str) -> bytes:
    return b"" if s == "-" else bytes.fromhex(s)


def err(e: BaseException) -> str:
    import binascii
    if isinstance(e, binascii.Error):          # a ValueError subclass whose class name is just "Error"
        return "err ValueError"
    return "err " + type(e).__name__


def evaluate(line: str) -> str:
    parts = line.split(" ")
    f = OPS.get(parts[0])
    if f is None:
        mod = parts[0].split(".")[0]
        raise KeyError("no implementation adapter for op " + parts[0])
    return f(*parts[1:])


# op modules register themselves
import impl_crc  # noqa: E402,F401
import impl_bf3  # noqa: E402,F401
import impl_bec2  # noqa: E402,F401
import impl_aes  # noqa: E402,F401
import impl_cfg  # noqa: E402,F401
import impl_bf2  # noqa: E402,F401
import impl_c14  # noqa: E402,F401
import impl_ec  # noqa: E402,F401
import impl_rw  # noqa: E402,F401
import impl_c19  # noqa: E402,F401
import impl_c18  # noqa: E402,F401
