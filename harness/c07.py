"""C07 — one fresh session key per file, wrapped identically by every auth block."""
import gen_bf3 as g
import gen_bec2 as gb
from core import hx

TRUSTED = [
    "Lean 4.33 kernel; axioms propext, Classical.choice, Quot.sound only",
    "Model/Bec2.lean tied to bec2file.py by correspondence; randomness is an oracle: the real RNG and key generator are replaced "
    "by recording stubs and the recorded call history is compared with what the model consumes",
    "every_block_wraps_session_key uses CryptoInv (C16) and EccLaws (C17)",
]
ASSUMPTIONS = ["entropy of os.urandom / SigningKey.generate is outside any model: freshness is proved as 'disjoint consecutive "
               "segments of the random stream, one draw per file, one key generation per ECC block per write'"]
LEANCHECKER_MODULES = ["Bec2Verif.Props.C07"]


def distinct_scalars(rng, n):
    out = set()
    while len(out) < n:
        out.add(gb.gen_scalar(rng))
    out = list(out)
    rng.shuffle(out)
    return ",".join(str(x) for x in out) or "-"


def run(ctx):
    rng = ctx.rng
    ctx.rule = ("histories: 1-4 constructions without key x 1-3 writes each over block lists of every kind combination; RNG / key "
                "generation call log compared with the model's consumption; headers spliced from two differing keys; re-writing "
                "files read with a single decryptor; non-trivial = distinct history")
    n = 40 if ctx.quick else 1500
    hist, splice, unk, pk = [], [], [], []
    for _ in range(n):
        f = gb.gen_file(rng, with_config=False)
        f["encs"] = ",".join(e if not e.startswith("C") else ":".join(e.split(":")[:2] + ["0"]) for e in f["encs"].split(","))
        nf, nw = rng.choice([1, 2, 2, 3, 4]), rng.choice([1, 2, 3])
        necc = f["blocks"].count("e")
        ephs = distinct_scalars(rng, necc * nf * nw)
        hist.append(f"prop.c07 {nf},{nw} {f['blocks']} {f['encs']} {ephs} {hx(g.rbytes(rng, 16 * nf))}")
        k2 = g.gen_key(rng)
        while hx(k2) == f['key']:      # the splice needs two different session keys
            k2 = g.rbytes(rng, 16)
        e2 = ",".join(str(gb.gen_scalar(rng)) for _ in range(2 * necc)) or "-"
        splice.append(f"prop.c07splice {f['key']} {hx(k2)} {f['blocks']} {f['encs']} {e2}")
        e3 = ",".join(str(gb.gen_scalar(rng)) for _ in range(necc)) or "-"
        unk.append(f"prop.c07unknown {f['key']} {f['blocks']} {f['encs']} {f['ephs']} {e3} {rng.randrange(3)}")
        pk.append(f"bec2.pack {f['key']} {f['blocks']} {f['encs']} {f['ephs']}")
        # too few / surplus ephemerals: the consumption count itself is compared
        pk.append(f"bec2.pack {f['key']} {f['blocks']} {f['encs']} {f['ephs']},5,6" if f['ephs'] != "-"
                  else f"bec2.pack {f['key']} {f['blocks']} {f['encs']} 7,8")
    ctx.correspond(pk, "bec2.pack")
    ctx.check_props(hist, "prop.c07")
    ctx.check_props(splice, "prop.c07splice")
    ctx.check_props(unk, "prop.c07unknown")
    ctx.check_props([f"prop.c07default {sel} {gb.gen_scalar(rng)} {hx(g.rbytes(rng, 16))} {w}" for sel in range(4) for w in "01"], "prop.c07default")
    ctx.check_props([f"prop.c07realrand {rng.randrange(4)} {gb.gen_scalar(rng)} 3" for _ in range(4 if ctx.quick else 40)], "prop.c07realrand")


def search(ctx):
    pass
