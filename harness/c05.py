"""C05 — the reader accepts a binary exactly when it is well-formed and authentic."""
import copy
import gen_bf3 as g
import layout
from core import hx

TRUSTED = [
    "Lean 4.33 kernel; axioms propext, Classical.choice, Quot.sound only",
    "Spec/Layout.lean (declarative container layout, WellFormed) is the statement of the property; trusted as a spec",
    "Model/Bf3.lean reader tied to bf3file.py/bytes_reader.py by correspondence on structurally edited binaries "
    "(MACs recomputed by the harness so that only the rule under test is broken)",
    "harness/layout.py + refaes.py: independent strict parser used as oracle for the direct evaluation on the real code",
]
ASSUMPTIONS = ["theorem is for every registered crypto plug-in (MAC an arbitrary function); nothing cryptographic is assumed"]
LEANCHECKER_MODULES = ["Bec2Verif.Props.C05"]

EDITS = ["none", "adr+1", "adr-1", "adr-relative", "adr-swap", "stored+1", "stored-1", "declared>stored", "declared=0",
         "declared-1", "dup-tag", "taglen+1", "taglen-1", "taglen-big", "dlen+1", "dlen-1", "dlen-big", "dlen-cut-in-tag",
         "elen+1", "elen-1", "elen=0", "dirsize+1", "dirsize-1", "dirsize-big", "no-sentinel", "sentinel-nonzero",
         "sentinel-extra", "swap-entries-reindexed", "swap-entries-old-index", "iv-index+1", "iv-zero-based", "iv-mod-256",
         "trailing", "truncate-payload", "pmac-flip", "emac-flip", "payload-flip", "empty-payload",
         "enc-tag-on-plain", "reorder-tags", "drop-entry", "dup-entry", "stray-after-mac"]


def make_body(rng, key, pos, many=False):
    n = rng.choice([1, 1, 2, 2, 3, 4]) if not many else rng.choice([256, 257, 258, 300])
    ents = []
    for _ in range(n):
        desc = g.gen_desc(rng, maxtl=120) if not many else []
        p = g.gen_payload(rng, 200) if not many else g.rbytes(rng, rng.choice([1, 1, 2, 16]))
        ents.append(layout.Entry(desc, p, rng.choice([len(p), len(p), 1, max(1, len(p) - 1)])))
    if rng.random() < 0.3:
        # the same payload twice (one image per hardware variant): equal stored bytes, equal payload MAC
        src = rng.choice(ents)
        ents.insert(rng.randrange(len(ents) + 1), layout.Entry(g.gen_desc(rng, maxtl=120), src.payload, src.declared))
    b = layout.Body(ents, pos)
    b.relayout(key)
    return b


def apply_edit(rng, b, key, kind):
    """returns the bytes of the edited body (MACs recomputed unless the edit is about a MAC)"""
    es = b.entries
    i = rng.randrange(len(es)) if len(es) < 200 else rng.randrange(254, len(es))    # many entries: beyond one-byte indices
    e = es[i]
    remac, relen, readr = True, False, False
    if kind == "adr+1":
        e.adr += 1
    elif kind == "adr-1":
        e.adr -= 1
    elif kind == "adr-relative":
        for x in es:
            x.adr -= b.pos
    elif kind == "adr-swap" and len(es) > 1:
        j = (i + 1) % len(es)
        e.adr, es[j].adr = es[j].adr, e.adr
    elif kind == "stored+1":
        e.stored += 1
    elif kind == "stored-1":
        e.stored -= 1
    elif kind == "declared>stored":
        e.declared = e.stored + rng.choice([1, 2, 100])
    elif kind == "declared=0":
        e.declared = 0
    elif kind == "declared-1":
        e.declared = max(0, e.declared - 1)
    elif kind == "dup-tag":
        if not e.tags:
            e.tags.append(layout.Tag(0xC3, b"\x01"))
        t = rng.choice(e.tags)
        e.tags.insert(rng.randrange(len(e.tags) + 1), layout.Tag(t.t, g.rbytes(rng, rng.randrange(0, 3))))
        relen = readr = True
    elif kind in ("taglen+1", "taglen-1", "taglen-big"):
        if not e.tags:
            e.tags.append(layout.Tag(0xC3, b"\x01\x02"))
            b.relayout(key)
        t = rng.choice(e.tags)
        t.ln = t.ln + 1 if kind == "taglen+1" else max(0, t.ln - 1) if kind == "taglen-1" else rng.choice([200, 255])
    elif kind in ("dlen+1", "dlen-1", "dlen-big", "dlen-cut-in-tag"):
        if not e.tags:
            e.tags.append(layout.Tag(0xC3, b"\x01\x02\x03"))
            e.tags.append(layout.Tag(0xC1, b"\x07\x08"))
            b.relayout(key)
        if kind == "dlen-cut-in-tag":
            e.dlen = max(0, e.dlen - rng.randrange(1, len(e.tags[-1].ser())) if len(e.tags[-1].ser()) > 1 else e.dlen - 1)
        else:
            e.dlen = e.dlen + 1 if kind == "dlen+1" else max(0, e.dlen - 1) if kind == "dlen-1" else 255
    elif kind == "elen+1":
        e.elen += 1
    elif kind == "elen-1":
        e.elen -= 1
    elif kind == "elen=0":
        e.elen = 0
    elif kind == "dirsize+1":
        b.dirsize += 1
    elif kind == "dirsize-1":
        b.dirsize -= 1
    elif kind == "dirsize-big":
        b.dirsize += rng.choice([16, 255, 65536])
    elif kind == "no-sentinel":
        b.sentinel = b""
        b.dirsize -= 1
    elif kind == "sentinel-nonzero":
        b.sentinel = bytes([rng.randrange(1, 256)])
    elif kind == "sentinel-extra":
        b.sentinel = b"\x00" + g.rbytes(rng, rng.choice([1, 2]))
        b.dirsize += len(b.sentinel) - 1
        for x in es:
            x.adr += len(b.sentinel) - 1
    elif kind == "swap-entries-reindexed" and len(es) > 1:
        j = (i + 1) % len(es)
        es[i], es[j] = es[j], es[i]
        readr = True
    elif kind == "swap-entries-old-index" and len(es) > 1:
        j = (i + 1) % len(es)
        es[i].iv_index, es[j].iv_index = i + 1, j + 1
        es[i], es[j] = es[j], es[i]
        readr = True
    elif kind == "iv-index+1":
        e.iv_index = i + 2
    elif kind == "iv-zero-based":
        for n, x in enumerate(es):
            x.iv_index = n
    elif kind == "iv-mod-256":
        for n, x in enumerate(es):
            x.iv_index = (n + 1) % 256
    elif kind == "trailing":
        b.trailing = g.rbytes(rng, rng.choice([1, 2, 16])) if rng.random() < 0.7 else b"\x00"
    elif kind == "truncate-payload":
        es[-1].payload = es[-1].payload[:-1]
        remac = rng.random() < 0.5
    elif kind == "pmac-flip":
        remac = False
        e.pmac = bytes([e.pmac[0] ^ 1]) + e.pmac[1:]
        # entry MAC recomputed over the changed entry so that only the payload MAC is wrong
        iv = (i + 1).to_bytes(16, "big")
        import refaes
        e.emac = refaes.cmac(key, b.entry_body(e), iv)
    elif kind == "emac-flip":
        remac = False
        k = rng.randrange(16)
        e.emac = e.emac[:k] + bytes([e.emac[k] ^ (1 << rng.randrange(8))]) + e.emac[k + 1:]
    elif kind == "payload-flip":
        remac = False
        k = rng.randrange(len(e.payload))
        e.payload = e.payload[:k] + bytes([e.payload[k] ^ (1 << rng.randrange(8))]) + e.payload[k + 1:]
    elif kind == "empty-payload":
        e.payload, e.stored, e.declared = b"", 0, 0
        readr = True
    elif kind == "enc-tag-on-plain":
        e.tags = [t for t in e.tags if t.t != 0xC2] + [layout.Tag(0xC2, b"\x02")]
        relen = readr = True
    elif kind == "reorder-tags":
        rng.shuffle(e.tags)
    elif kind == "stray-after-mac":
        # one byte too many inside the entry, BEHIND its MAC.  A reader that takes the MAC over "everything but the last 16
        # bytes" then covers fields || MAC[0], so the MAC has to be self-referential: MAC(fields || b)[0] = b.  Found by
        # varying a free tag value (about two tries).
        import refaes
        stray = bytes([rng.randrange(256)])
        free = layout.Tag(0x7E, b"\x00")
        e.tags.append(free)
        found = False
        for v in range(256):
            free.v = bytes([v])
            e.stray = b""
            b.relayout(key)                                  # lengths, addresses, MACs of the well-formed body
            e.elen += 1                                      # the entry announces one byte more ...
            b.dirsize += 1                                   # ... the directory too ...
            for x in es:
                x.adr += 1                                   # ... and every payload moves by one
            b.remac(key)
            idx = es.index(e) + 1
            iv = (e.iv_index if e.iv_index is not None else idx).to_bytes(16, "big")
            body = b.entry_body(e)
            for cand in range(256):
                m = refaes.cmac(key, body + bytes([cand]), iv)
                if m[0] == cand:
                    e.emac, e.stray, found = m, stray, True
                    break
            if found:
                break
        if not found:
            raise ValueError("no self-referential MAC found")
        return b.ser()
    elif kind == "drop-entry" and len(es) > 1:
        del es[i]
        relen = readr = True
    elif kind == "dup-entry":
        es.insert(i, copy.deepcopy(e))
        relen = readr = True
    if relen or readr:
        b.relayout(key, fix_lengths=relen, fix_adr=readr, fix_macs=False)
        if kind in ("dup-tag", "enc-tag-on-plain", "drop-entry", "dup-entry", "empty-payload",
                    "swap-entries-reindexed", "swap-entries-old-index"):
            b.relayout(key, fix_lengths=True, fix_adr=True, fix_macs=False)
    if remac:
        b.remac(key)
    return b.ser()


def gen_cases(ctx, per_edit):
    rng = ctx.rng
    out = []
    for kind in EDITS:
        for _ in range(per_edit):
            key = g.gen_key(rng)
            pos = rng.choice([5, 5, 5, 0, 7, 44, 255, 256, 65536])
            b = make_body(rng, key, pos)
            try:
                data = apply_edit(rng, b, key, kind)
            except (OverflowError, ValueError):
                continue
            ctx.count("edit:" + kind)
            out.append((kind, hx(key), pos, hx(data)))
    # directories with more entries than a one-byte index can count (entry MAC chained from the full entry index)
    for kind in ("none", "iv-mod-256", "iv-index+1", "emac-flip", "adr+1", "drop-entry"):
        key = g.gen_key(rng)
        b = make_body(rng, key, 5, many=True)
        try:
            data = apply_edit(rng, b, key, kind)
        except (OverflowError, ValueError):
            continue
        ctx.count("edit-many:" + kind)
        out.append((kind, hx(key), 5, hx(data)))
    return out


def run(ctx):
    ctx.rule = ("valid bodies (1-4 entries, tags, payloads incl. trailing zeros) with one structured edit each out of "
                f"{len(EDITS)} kinds (addresses, lengths, tag lists, entry/directory sizes, sentinel, entry order, IV index, "
                "trailing bytes, MAC/payload flips), MACs recomputed with an independent AES so that only the rule under "
                "test is broken; start offsets 0..65536; non-trivial = distinct binary")
    cases = gen_cases(ctx, 25 if ctx.quick else 600)
    lines = [f"bf3.frombin 1 {k} {pos} {d}" for _, k, pos, d in cases]
    lines += [f"bf3.frombin 0 {k} {pos} {d}" for _, k, pos, d in cases[::3]]
    ctx.correspond(lines, "frombin")
    r = ctx.check_props([f"prop.c05 1 {k} {pos} {d}" for _, k, pos, d in cases], "prop.c05")
    ctx.check_props([f"prop.c05 0 {k} {pos} {d}" for _, k, pos, d in cases[::3]], "prop.c05-nochk")
    for (kind, *_), res in zip(cases, r):
        ctx.count(f"verdict:{kind}:{res.split()[1] if len(res.split()) > 1 else res}")


def search(ctx):
    cases = gen_cases(ctx, 150)
    ctx.check_props([f"prop.c05 1 {k} {pos} {d}" for _, k, pos, d in cases], "search.c05")
