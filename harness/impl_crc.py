from impl import op, hx, unhx, err
from bec2format.bec2file import crc8404B


@op("crc")
def crc(d, s):
    return "ok " + str(crc8404B(unhx(d), int(s)))


@op("crcstep")
def crcstep(cur, c):
    return "ok " + str(crc8404B(bytes([int(c)]), int(cur)))


@op("crcrow")
def crcrow(cur):
    cur = int(cur)
    acc = 7
    for c in range(256):
        acc = (acc * 65599 + crc8404B(bytes([c]), cur)) % 18446744073709551557
    return "ok " + str(acc)


from refaes import bitserial  # noqa: E402


@op("prop.crc")
def prop_crc(d, s):
    data, start = unhx(d), int(s)
    got = crc8404B(data, start)
    want = bitserial(data, start)
    if got != want:
        return f"FAIL crc8404B={got} bit-serial={want}"
    if not 0 <= got < 65536:
        return f"FAIL result {got} does not fit in 16 bits"
    # `data` is any sequence of byte values, not only `bytes`
    for what, mk in (("bytearray", bytearray), ("list of ints", list), ("tuple", tuple), ("memoryview", memoryview),
                     ("memoryview of a bytearray", lambda b: memoryview(bytearray(b))), ("generator", lambda b: (c for c in b))):
        try:
            g2 = crc8404B(mk(data), start)
        except Exception as e:
            return f"FAIL the same bytes as {what}: {type(e).__name__}: {e}"
        if g2 != want:
            return f"FAIL the same bytes as {what}: crc8404B={g2} bit-serial={want}"
    return "ok"


@op("prop.crcdefault")
def prop_crcdefault(d):
    data = unhx(d)
    got = crc8404B(data)
    want = bitserial(data, 0xFFFF)
    return "ok" if got == want else f"FAIL default start: crc8404B={got} bit-serial(0xFFFF)={want}"


@op("prop.crcrow")
def prop_crcrow(cur):
    cur = int(cur)
    for c in range(256):
        got = crc8404B(bytes([c]), cur)
        want = bitserial(bytes([c]), cur)
        if got != want or not 0 <= got < 65536:
            return f"FAIL start={cur} byte={c} crc8404B={got} bit-serial={want}"
    return "ok"
