"""C14 — parsers fail only with format errors (or ValueError), always terminate, leave global state unchanged."""
import gen_c14 as gc
from core import hx

TRUSTED = [
    "Lean 4.33 kernel; axioms propext, Classical.choice, Quot.sound only",
    "Model/Entry.lean (text envelope + BF3 reader, BEC2 reader, BF2 importer, ConfigId parser, filter formatter) tied to "
    "bf3file.py / bec2file.py / bytes_reader.py / configid.py / the crypto plug-in by correspondence on malformed inputs: "
    "the complete result or the exception class of every case is compared",
    "termination: the model functions are total Lean definitions; the non-permitted marker outOfFuel shows that no "
    "fuel-bounded loop of the model runs out of fuel; for the real code a per-case watchdog turns a hang into a failing input",
    "library-global state (bec2format.crypto module attributes) is observed by the harness before/after every call, not modelled",
]
ASSUMPTIONS = [
    "NoInfiniteSecret (Props/C14.lean): python-ecdsa's InvalidSharedSecretError needs d*Q = infinity for a validated point, "
    "i.e. n | d - excluded by the group law (C17 obligation), not proved here; irrelevant when no private ECC key is offered",
    "str methods (split, strip, startswith, int(), bytes.fromhex via binascii) are modelled on code points with tables "
    "regenerated from this interpreter (Gen/Unicode.lean)",
]
LEANCHECKER_MODULES = ["Bec2Verif.Props.C14"]


def cases(ctx, scale):
    rng = ctx.rng
    props, corr = [], []
    for chk, key, text in gc.bf3_cases(rng, 12 * scale):
        t = gc.sstr(text)
        props.append(f"prop.c14bf3 {chk} {hx(key)} {t}")
        corr.append(f"bf3.readtext {chk} {hx(key)} {t}")
    for chk, decs, text in gc.bec2_cases(rng, 8 * scale):
        t = gc.sstr(text)
        props.append(f"prop.c14bec2 {chk} {decs} {t}")
        corr.append(f"bec2.readtext {chk} {decs} {t}")
    for enf, text in gc.bf2_cases(rng, 8 * scale):
        t = gc.sstr(text)
        props.append(f"prop.c14bf2 {enf} {t}")
        corr.append(f"bf2.import {enf} {t}")
    for s in gc.cfg_cases(rng, 40 * scale):
        props.append(f"prop.c14cfg {gc.sstr(s)}")
        corr.append(f"cfgid.parse {gc.sstr(s)}")
    for f in gc.pfid2_cases(rng, 30 * scale):
        props.append(f"prop.c14pfid2 {hx(f)}")
        corr.append(f"pfid2 {hx(f)}")
    return props, corr


def run(ctx):
    ctx.rule = ("mutations (characters, ranges, lines, bytes, truncations, duplications) of valid BF3/BEC2/BF2 files written by "
                "the Lean model / grammar generator, 41 structured BF3 edits and 21 BEC2 header edits with intact MACs, crafted "
                "BF2 instruction lines, decryptor sets none/matching/public-only/other private/wrong key, random text; "
                "non-trivial = distinct input")
    props, corr = cases(ctx, 4 if ctx.quick else 60)
    res = ctx.check_props(props, "prop.c14")
    for l, r in zip(props, res):
        ctx.count(l.split()[0][5:] + ":" + " ".join(r.split()[:2]))
    ctx.correspond(corr, "entry-points")


def search(ctx):
    props, _ = cases(ctx, 30)
    ctx.check_props(props, "search.c14")
