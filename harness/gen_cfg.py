"""generators for configuration dictionaries (protocol encoding k:v:content)"""
from core import hx
import gen_bf3 as g


def show_dict(items):
    return ",".join(f"{k}:{'n' if v is None else v}:{'n' if c is None else hx(c)}" for (k, v), c in items) or "-"


def gen_dict(rng, maxn=60, oversize=True, naming=True):
    n = rng.choice([0, 1, 2, 3, 5, 8, 12, 20, 40, maxn])
    items = {}
    delkeys = set()
    keys = [rng.choice([0, 1, 0x00FF, 0x0100, 0x0202, 0x0620, 0xFFFF, rng.randrange(65536)]) for _ in range(max(1, n // 3 + 1))]
    mode = rng.choice(["mixed", "mixed", "mixed", "sets", "dels"])
    while len(items) < n:
        k = rng.choice(keys) if rng.random() < 0.8 else rng.randrange(65536)
        r = rng.random()
        if mode == "sets":
            r = 0.9
        elif mode == "dels":
            r = rng.random() * 0.4
        if r < 0.15:
            if any(kk == k for (kk, _) in items):
                continue
            items[(k, None)] = None
            delkeys.add(k)
        elif k in delkeys:
            continue
        elif r < 0.4:
            items[(k, rng.choice([0, 1, 0x7F, 0xFE, rng.randrange(255)]))] = None
        else:
            ln = rng.choice([0, 1, 2, 4, 8, 16, 30, 50, 60, 105, 106, 107, 108, 109, 110, 111, rng.randrange(0, 112)])
            if oversize and rng.random() < 0.04:
                ln = rng.choice([112, 113, 120, 200, 254])
            items[(k, rng.choice([0, 1, 0x7F, 0xFE, rng.randrange(255)]))] = g.rbytes(rng, ln)
    items = list(items.items())
    rng.shuffle(items)
    return items


def gen_boundary_dict(rng):
    """entries of one key whose merged sizes land on 116/117/118 (the generator solves for content lengths)"""
    k = rng.randrange(65536)
    target = rng.choice([116, 117, 118, 117, 117])
    nitems = rng.choice([1, 2, 3, 4])
    # block = 3 (group header) + sum(2 + len_i) [+ 1 closing FF counted by the size check]
    room = target - 3 - 1 - 2 * nitems
    if room < 0:
        nitems, room = 1, target - 3 - 1 - 2
    cuts = sorted(rng.randrange(0, room + 1) for _ in range(nitems - 1))
    lens = [b - a for a, b in zip([0] + cuts, cuts + [room])]
    items = [((k, v), g.rbytes(rng, ln)) for v, ln in enumerate(lens)]
    tail = rng.choice(["none", "same", "other", "del"])
    if tail == "same":
        items.append(((k, 200), g.rbytes(rng, rng.randrange(0, 5))))
    elif tail == "other":
        items.append(((k + 1 if k < 65535 else 0, 1), g.rbytes(rng, rng.randrange(0, 5))))
    elif tail == "del":
        items.append(((k, 201), None))
    if rng.random() < 0.3:
        big = ((rng.randrange(0, k) if k > 0 else 0, 7), g.rbytes(rng, rng.choice([112, 150, 254])))
        if big[0] not in [i[0] for i in items]:
            items.insert(0, big)       # oversize entry in first position (sorted order: smaller key)
    rng.shuffle(items)
    return items


NAMES = [b"Testname", b"x", b"", b"Lobby (version 01)", b"00001-0002-0003-04 x", "Tür ☃".encode(), b"a b  c", b"12345", b"-", b"\xff\xfe"]


def naming_items(rng):
    """any subset of the 0x0620 naming values with byte widths 0..4"""
    out = []
    for vid in (0x01, 0x02, 0x03, 0x04, 0x05, 0x06, 0x07, 0x20):
        if rng.random() < 0.55:
            if vid in (0x03, 0x06):
                c = rng.choice(NAMES)
            else:
                w = rng.choice([0, 1, 2, 2, 4, 4])
                val = rng.choice([0, 1, 9, 99, 100, 9998, 9999, 10000, 10234, 65535, rng.randrange(2 ** 32)])
                c = (val % (256 ** w)).to_bytes(w, "big") if w else b""
            out.append(((0x0620, vid), c))
    if rng.random() < 0.5:
        out.append(((0x0202, 0x82), g.rbytes(rng, rng.choice([8, 8, 0, 4]))))
    rng.shuffle(out)
    return out
