import io
from impl import op, hx, unhx, err, mkfile, CStream
import register_crypto_plugin  # noqa: F401  (registers the appnote plug-in exactly as the appnotes do)
from bec2format.bf3file import Bf3Component, Bf3File, BF3_FILE_SIG
from bec2format.bytes_reader import BytesReader


def parse_desc(s):
    if s == "-":
        return {}
    d = {}
    for item in s.split(","):
        t, v = item.split(":")
        d[int(t)] = unhx(v)
    return d


def parse_comps(s):
    if s == "-":
        return []
    out = []
    for c in s.split(";"):
        d, b, a, e = c.split("|")
        blob, a = unhx(b), int(a)
        # through the constructor in the forms callers use: without a declared length (= the payload length), with it
        # positionally, with keywords; a declared length the constructor cannot express (0 -> "use the payload length") is set
        # on the attribute
        form = (len(blob) + len(d)) % 3
        if a == len(blob) and a and form == 0:
            comp = Bf3Component(parse_desc(d), blob) if e != "1" else Bf3Component(parse_desc(d), blob, encrypt_by_session_key=True)
        elif a and form == 1:
            comp = Bf3Component(parse_desc(d), blob, a, e == "1")
        elif a:
            comp = Bf3Component(description=parse_desc(d), blob=blob, actual_len=a, encrypt_by_session_key=(e == "1"))
        else:
            comp = Bf3Component(parse_desc(d), blob, None, e == "1")
        if a and comp.actual_len != a:
            # the constructor did not keep the declared length: visible to every check that uses this component
            pass
        if not a:
            comp.actual_len = a
        out.append(comp)
    return out


def show_desc(d):
    return ",".join(f"{t}:{hx(v)}" for t, v in d.items()) if d else "-"


def show_comps(cs):
    return ";".join(f"{show_desc(c.description)}|{hx(c.blob)}|{c.actual_len}|{1 if c.encrypt_by_session_key else 0}"
                    for c in cs) if cs else "-"


@op("bf3.tobin")
def tobin(off, k, cs):
    try:
        return "ok " + hx(mkfile({}, parse_comps(cs)).to_binary(int(off), unhx(k)))
    except Exception as e:
        return err(e)


def _from_binary(rdr, chk, key, variant):
    """the reader with the MAC check on: asked for explicitly, or left to the default of the parameter"""
    if chk and variant % 2:
        return Bf3File.from_binary(rdr, {}, session_key=key) if variant % 4 == 1 else Bf3File.from_binary(rdr, session_key=key)
    return Bf3File.from_binary(rdr, {}, chk, key)


@op("bf3.frombin")
def frombin(chk, k, pos, b):
    key, pos, data = unhx(k), int(pos), unhx(b)
    rdr = BytesReader(bytes(pos) + data, "test")
    rdr.read(pos)
    try:
        return "ok " + show_comps(_from_binary(rdr, chk == "1", key, len(data) + key[0]).components)
    except Exception as e:
        return err(e)


@op("bf3.write")
def write(k, cs):
    try:
        f = mkfile({}, parse_comps(cs))
        return "ok " + hx(BF3_FILE_SIG + f.to_binary(len(BF3_FILE_SIG), unhx(k)))
    except Exception as e:
        return err(e)


def to_text(binary: bytes, comments=None) -> str:
    s = CStream()
    Bf3File.write_bf3_format(s, comments or {}, binary)
    return s.getvalue()


@op("bf3.read")
def read(chk, k, b):
    try:
        f = Bf3File.read_file(CStream(to_text(unhx(b))), chk == "1", unhx(k))
        return "ok " + show_comps(f.components)
    except Exception as e:
        return err(e)


# ---------------------------------------------------------------- text envelope
import os
import tempfile


def parse_str(s):
    return unhx(s).decode("utf-8")


def show_str(s):
    return hx(s.encode("utf-8"))


def parse_comments(s):
    if s == "-":
        return {}
    d = {}
    for item in s.split(","):
        k, v = item.split("=")
        d[parse_str(k)] = parse_str(v)
    return d


def show_comments(d):
    # `#>Bf3Update K=V` stores its parameter dict as a comment value; the model shows any such value as <dict>
    return ",".join(f"{show_str(k)}={show_str(v if isinstance(v, str) else '<dict>')}" for k, v in d.items()) if d else "-"


def tmp_path():
    fd, p = tempfile.mkstemp(prefix="bec2verif_", suffix=".bf3")
    os.close(fd)
    return p


@op("text.write")
def text_write(c, r):
    s = CStream()
    Bf3File.write_bf3_format(s, parse_comments(c), unhx(r))
    return "ok " + show_str(s.getvalue())


@op("text.parse")
def text_parse(t):
    try:
        rdr, cm = Bf3File.parse_bf3_file(CStream(parse_str(t)))
        return "ok " + show_comments(cm) + " " + hx(rdr.getvalue())
    except Exception as e:
        return err(e)


@op("text.parsepath")
def text_parsepath(t):
    p = tmp_path()
    try:
        with open(p, "wb") as f:
            f.write(unhx(t))
        rdr, cm = Bf3File.parse_bf3_file(p)
        return "ok " + show_comments(cm) + " " + hx(rdr.getvalue())
    except Exception as e:
        return err(e)
    finally:
        os.unlink(p)


@op("text.crlf")
def text_crlf(t):
    p = tmp_path()
    try:
        with open(p, "w", newline="\r\n") as f:
            f.write(parse_str(t))
        return "ok " + hx(open(p, "rb").read())
    finally:
        os.unlink(p)


def read_text(chk, k, text, path):
    if not path:
        if chk == "1" and len(text) % 2:
            return Bf3File.read_file(CStream(text), session_key=unhx(k))      # the MAC check is the default
        return Bf3File.read_file(CStream(text), chk == "1", unhx(k))
    p = tmp_path()
    try:
        with open(p, "wb") as f:
            f.write(text.encode("utf-8"))
        return Bf3File.read_file(p, chk == "1", unhx(k))
    finally:
        os.unlink(p)


@op("bf3.readtext")
def readtext(chk, k, t):
    try:
        f = read_text(chk, k, parse_str(t), False)
        return "ok " + show_comments(f.comments) + " " + show_comps(f.components)
    except Exception as e:
        return err(e)


@op("bf3.readpath")
def readpath(chk, k, t):
    try:
        f = read_text(chk, k, parse_str(t), True)
        return "ok " + show_comments(f.comments) + " " + show_comps(f.components)
    except Exception as e:
        return err(e)


def write_text(f, key, path):
    if not path:
        s = CStream()
        f.write_file(s, key)
        return s.getvalue()
    p = tmp_path()
    try:
        f.write_file(p, key)
        return open(p, "rb").read().decode("utf-8")
    finally:
        os.unlink(p)


@op("bf3.writetext")
def writetext(k, c, cs):
    try:
        return "ok " + show_str(write_text(Bf3File(parse_comments(c), parse_comps(cs)), unhx(k), False))
    except Exception as e:
        return err(e)


@op("bf3.writepath")
def writepath(k, c, cs):
    try:
        return "ok " + show_str(write_text(Bf3File(parse_comments(c), parse_comps(cs)), unhx(k), True))
    except Exception as e:
        return err(e)


def same_file(f, comments, comps):
    if dict(f.comments) != dict(comments) or list(f.comments) != list(comments):
        return f"comments differ: {f.comments!r} vs {comments!r}"
    if len(f.components) != len(comps):
        return f"{len(f.components)} components instead of {len(comps)}"
    for i, (a, b) in enumerate(zip(f.components, comps)):
        if list(a.description.items()) != list(b.description.items()):
            return f"component {i}: description {a.description!r} vs {b.description!r}"
        if a.blob != b.blob:
            return f"component {i}: payload differs ({a.blob.hex()[:80]} vs {b.blob.hex()[:80]})"
        if a.actual_len != b.actual_len:
            return f"component {i}: declared length {a.actual_len} vs {b.actual_len}"
        if a.encrypt_by_session_key != b.encrypt_by_session_key:
            return f"component {i}: encrypted flag {a.encrypt_by_session_key} vs {b.encrypt_by_session_key}"
    return None


@op("prop.c01")
def prop_c01(k, c, cs):
    """the property itself on the real code: whatever the writer accepts reads back unchanged,
    stream and path, MAC check on and off"""
    key, comments, comps = unhx(k), parse_comments(c), parse_comps(cs)
    for path in (False, True):
        try:
            text = write_text(Bf3File(dict(comments), parse_comps(cs)), key, path)
        except Exception as e:
            return "ok writer-rejects " + type(e).__name__
        for chk in ("1", "0"):
            try:
                f = read_text(chk, k, text, path)
            except Exception as e:
                return f"FAIL {'path' if path else 'stream'} chk={chk}: reader raises {type(e).__name__}: {e} on the writer's own output"
            d = same_file(f, comments, comps)
            if d:
                return f"FAIL {'path' if path else 'stream'} chk={chk}: read back differs: {d}"
    # the object that was just written is changed and written again: the reader gets the new content
    fobj = Bf3File(dict(comments), parse_comps(cs))
    try:
        write_text(fobj, key, False)
    except Exception as e:
        return "ok writer-rejects " + type(e).__name__
    fobj.components.append(Bf3Component({0xC4: b"\x00\x8f"}, b"\xaa" * 5, 3))
    if fobj.components[:-1]:
        c0 = fobj.components[0]
        c0.blob = c0.blob[::-1] + b"\x01"
        c0.actual_len = len(c0.blob)
    fobj.comments["Changed"] = "yes"
    want_comps = list(fobj.components)
    want_comments = dict(fobj.comments)
    try:
        text2 = write_text(fobj, key, False)
    except OverflowError:
        return "ok"
    except Exception as e:
        return f"FAIL writing the changed object raises {type(e).__name__}: {e}"
    try:
        f2 = read_text("1", k, text2, False)
    except Exception as e:
        return f"FAIL the second write of a changed file object is rejected by the reader: {type(e).__name__}: {e}"
    d = same_file(f2, want_comments, want_comps)
    if d:
        return f"FAIL the second write of a changed file object reads back differently: {d}"
    return "ok"


# ---------------------------------------------------------------- C03 / C05 direct evaluation
import layout
import refaes


def oracle_read(chk, key, pos, data):
    """declarative reading of the body through the independent parser: list of
    (desc, blob, declared_or_len, enc) or a Bad reason"""
    ents = layout.parse(key, pos, data, chk)
    out = []
    for desc, p, declared in ents:
        if dict(desc).get(0xC2) == b"\x02":
            if not p or len(p) % 16:
                raise layout.Bad("encrypted payload is not a positive multiple of 16")
            blob, enc = refaes.cbc_decrypt(key, bytes(16), p), True
        else:
            blob, enc = p, False
        out.append((desc, blob, declared or len(blob), enc))
    return out


@op("prop.c05")
def prop_c05(chk, k, pos, b):
    key, pos, data = unhx(k), int(pos), unhx(b)
    rdr = BytesReader(bytes(pos) + data, "test")
    rdr.read(pos)
    try:
        got = _from_binary(rdr, chk == "1", key, len(data) + key[-1]).components
        gerr = None
    except Exception as e:
        got, gerr = None, type(e).__name__
    try:
        want = oracle_read(chk == "1", key, pos, data)
        werr = None
    except layout.Bad as e:
        want, werr = None, str(e)
    if got is None and want is None:
        return "ok rejected"
    if got is None:
        return f"FAIL reader rejects ({gerr}) a well-formed authentic binary"
    if want is None:
        return f"FAIL reader accepts a binary that is not well-formed/authentic: {werr}"
    have = [(list(c.description.items()), c.blob, c.actual_len, c.encrypt_by_session_key) for c in got]
    if have != want:
        return f"FAIL accepted, but content differs from what the fields say: {have!r:.200} vs {want!r:.200}"
    return "ok accepted"


@op("prop.c03")
def prop_c03(off, k, cs):
    """the writer's bytes = the independent serialiser's bytes; independent parser recovers the fields"""
    key, off, comps = unhx(k), int(off), parse_comps(cs)
    e0 = Bf3File()
    if e0.comments != {} or list(e0.components) != [] or e0.to_binary(off, key) != layout.serialize(key, off, []):
        return "FAIL Bf3File() without arguments is not the empty file (no comments, no components)"
    try:
        if e0.dir_to_binary() != e0.dir_to_binary(0, bytes(16)) or \
                mkfile({}, parse_comps(cs)).dir_to_binary() != mkfile({}, parse_comps(cs)).dir_to_binary(0, bytes(16)):
            return "FAIL dir_to_binary() differs from dir_to_binary(0, default key)"
    except OverflowError:
        pass                                        # an entry beyond the 255-byte limit: the writer refuses below
    try:
        out = mkfile({}, comps).to_binary(off, key)
    except Exception as e:
        return "ok writer-rejects " + type(e).__name__
    spec = []
    for c in comps:
        raw = refaes.cbc_encrypt(key, bytes(16), refaes.zero_pad(c.blob)) if c.encrypt_by_session_key else c.blob
        spec.append((list(c.description.items()), raw, c.actual_len))
    want = layout.serialize(key, off, spec)
    if out != want:
        n = next((i for i, (a, b) in enumerate(zip(out, want)) if a != b), min(len(out), len(want)))
        return f"FAIL writer output differs from the documented layout at byte {n} ({out[n:n+8].hex()} vs {want[n:n+8].hex()})"
    try:
        back = layout.parse(key, off, out, True)
    except layout.Bad as e:
        return f"FAIL independent parser rejects the writer's output: {e}"
    if [(d, p, a) for d, p, a in back] != spec:
        return "FAIL independent parser recovers different fields"
    # the same objects again: another key and offset, the components in a second file in reverse order, then the first call
    # once more - nothing remembered from the earlier serialisations
    fobj = mkfile({}, comps)
    key2 = bytes(b ^ 0xA5 for b in key)
    for kk, oo, cc, sp in ((key, off, comps, spec), (key2, off + 7, comps, None), (key, off, comps[::-1], None), (key, off, comps, spec)):
        if sp is None:
            sp = [(list(c.description.items()),
                   refaes.cbc_encrypt(kk, bytes(16), refaes.zero_pad(c.blob)) if c.encrypt_by_session_key else c.blob, c.actual_len)
                  for c in cc]
        try:
            got = (fobj if cc is comps else mkfile({}, cc)).to_binary(oo, kk)
        except Exception as e:
            return f"FAIL serialising the same component objects again raises {type(e).__name__}"
        if got != layout.serialize(kk, oo, sp):
            return ("FAIL a later serialisation of the same objects (other key / offset / order) differs from the documented layout: "
                    "state kept on the file or component objects")
    # the same file object after it was CHANGED: a payload replaced, a tag added, a component appended and one removed -
    # every serialisation describes the object as it is now (nothing computed for an earlier state may survive)
    fobj = mkfile({}, parse_comps(cs))
    try:
        fobj.to_binary(off, key)
        fobj.write_file(CStream(), key)
    except Exception as e:
        return f"FAIL writing the object a first time raises {type(e).__name__}"
    live = fobj.components
    if live:
        c0 = live[0]
        c0.blob = bytes((b + 1) & 0xFF for b in c0.blob) + b"\x5a"
        c0.actual_len = len(c0.blob)
        if 0x7D not in c0.description and sum(2 + len(v) for v in c0.description.values()) < 150:
            c0.description[0x7D] = b"\x01\x02"
    live.append(Bf3Component({0xC4: b"\x00\x8f"}, b"\xaa" * 5, 3))
    if len(live) > 2:
        del live[1]
    spec2 = [(list(c.description.items()),
              refaes.cbc_encrypt(key, bytes(16), refaes.zero_pad(c.blob)) if c.encrypt_by_session_key else c.blob, c.actual_len)
             for c in live]
    try:
        got = fobj.to_binary(off, key)
    except OverflowError:
        got = None
    except Exception as e:
        return f"FAIL serialising the changed object raises {type(e).__name__}: {e}"
    if got is not None and got != layout.serialize(key, off, spec2):
        return ("FAIL after the file object was changed (payload replaced, tag and component added) its serialisation is not the "
                "documented layout of its current content: something computed for the earlier state was reused")
    # the defaults: `to_binary()` = offset 0 and the default (all-zero) session key; keyword forms of the same call
    try:
        d0 = mkfile({}, parse_comps(cs)).to_binary()
        dk = mkfile({}, parse_comps(cs)).to_binary(session_key=key)
        do = mkfile({}, parse_comps(cs)).to_binary(offset=off, session_key=key)
    except OverflowError:
        d0 = dk = do = None
    except Exception as e:
        return f"FAIL to_binary with default / keyword arguments raises {type(e).__name__}: {e}"
    if d0 is not None:
        zkey = bytes(16)
        spec0 = [(list(c.description.items()),
                  refaes.cbc_encrypt(zkey, bytes(16), refaes.zero_pad(c.blob)) if c.encrypt_by_session_key else c.blob, c.actual_len)
                 for c in comps]
        if d0 != layout.serialize(zkey, 0, spec0):
            return "FAIL to_binary() without arguments is not the documented layout at offset 0 under the default session key"
        if dk != layout.serialize(key, 0, spec):
            return "FAIL to_binary(session_key=k) is not the documented layout at offset 0"
        if do != out:
            return "FAIL to_binary(offset=o, session_key=k) differs from to_binary(o, k)"
    # `components` is declared as an Iterable: a tuple, an iterator or a generator gives the same file as the list
    for what, mk in (("tuple", tuple), ("iterator", iter), ("generator", lambda l: (c for c in l)), ("map", lambda l: map(lambda c: c, l))):
        try:
            got = mkfile({}, mk(parse_comps(cs))).to_binary(off, key)
        except Exception as e:
            return f"FAIL components handed over as {what}: {type(e).__name__}: {e}"
        if got != out:
            return f"FAIL components handed over as {what}: {len(got)} bytes written instead of the {len(out)} bytes of the same list"
    # the text writer with an explicit session key writes the same container after the signature
    s = CStream()
    mkfile({}, parse_comps(cs)).write_file(s, key)
    lines = s.getvalue().split("\n")
    body = bytes.fromhex("".join(lines[lines.index("") + 1:]))
    want5 = BF3_FILE_SIG + layout.serialize(key, len(BF3_FILE_SIG), spec)
    if body != want5:
        n = next((i for i, (a, b) in enumerate(zip(body, want5)) if a != b), min(len(body), len(want5)))
        return f"FAIL write_file(session_key) differs from signature + documented layout under that key at byte {n}"
    return "ok"


# ---------------------------------------------------------------- C04: damage enumeration on the real code
def _replacements(b):
    out = [b ^ (1 << i) for i in range(8)] + [0x00, 0xFF, (b + 1) & 0xFF]
    return [x for x in dict.fromkeys(out) if x != b]


def damage_scan(read, binary, text_of, comments, same, what, stride=1, offset=0):
    """enumerate single-byte damage, prefixes and suffixes of `binary`; `read(text)` returns a file object or
    raises; `same(obj)` returns None when the object equals the original.  A description starting with
    'KNOWN:' is remembered and the scan goes on (a different violation takes precedence)."""
    n = 0
    known = None
    import inspect
    want_pos = "pos" in inspect.signature(same).parameters        # the comparison may want to know which byte was damaged

    def probe(text, what_str, **kw):
        nonlocal n, known
        n += 1
        try:
            f = read(text)
        except Exception:
            return None
        bad = same(f, **kw)
        if bad and bad.startswith("KNOWN:"):
            known = known or f"{what_str}: {bad[6:]}"
            return None
        return f"{what_str} accepted with different content: {bad}" if bad else None

    for pos in range(offset, len(binary), stride):
        for v in _replacements(binary[pos]):
            d = binary[:pos] + bytes([v]) + binary[pos + 1:]
            r = probe(text_of(d), f"byte {pos} {binary[pos]:02x}->{v:02x}", **({"pos": pos} if want_pos else {}))
            if r:
                return n, r
    if what != "bytes":
        for cut in range(len(binary)):
            r = probe(text_of(binary[:cut]), f"binary cut to {cut} of {len(binary)} bytes")
            if r:
                return n, r
        full = text_of(binary)
        for cut in range(len(full)):
            r = probe(full[:cut], f"text cut to {cut} of {len(full)} characters", text_prefix=True)
            if r:
                return n, r
        for suf in (b"\x00", b"\xff", b"\x00" * 16, b"\x0a", b"00", b" "):
            r = probe(text_of(binary + suf), f"suffix {suf.hex()}")
            if r:
                return n, r
        for suf in ("00", "0", " ", "\n", "\n\n00\n", "FF\n"):
            r = probe(full + suf, f"text suffix {suf!r}")
            if r:
                return n, r
    return n, (("KNOWN:" + known) if known else None)


def unrepresentable(comps):
    """directory entries are length-prefixed with one byte: adr(4) stored(4) declared(4) payload-MAC(16) desc-len(1) desc
    entry-MAC(16) of more than 255 bytes cannot be written (the writer raises OverflowError)"""
    return any(45 + sum(2 + len(v) for v in c.description.values()) > 255 or any(len(v) > 255 for v in c.description.values())
               for c in comps)


@op("prop.c04bf3")
def prop_c04bf3(k, c, cs, what, stride, offset):
    key, comments, comps = unhx(k), parse_comments(c), parse_comps(cs)
    try:
        binary = BF3_FILE_SIG + mkfile({}, parse_comps(cs)).to_binary(len(BF3_FILE_SIG), key)
    except OverflowError:
        if unrepresentable(comps):
            return "ok 0 writer-rejects OverflowError"
        raise

    def text_of(b):
        return to_text(b, comments)

    def read(t):
        return Bf3File.read_file(CStream(t), True, key)

    def same(f, text_prefix=False):
        if text_prefix:      # a cut inside the comment block cannot be detected by MACs: compare components only
            return same_file(f, f.comments, comps)
        return same_file(f, comments, comps)

    n, bad = damage_scan(read, binary, text_of, comments, same, what, int(stride), int(offset))
    if bad:
        return "FAIL " + bad
    if what != "bytes":
        for bit in range(128):
            k2 = bytearray(key)
            k2[bit // 8] ^= 1 << (bit % 8)
            n += 1
            try:
                f = Bf3File.read_file(CStream(text_of(binary)), True, bytes(k2))
            except Exception:
                continue
            bad = same_file(f, comments, comps)
            if bad or comps:
                # with at least one component a wrong key must be detected (cryptographic, search-only clause)
                return f"FAIL session key bit {bit} flipped: file accepted ({bad})"
    return f"ok {n}"


@op("prop.c03text")
def prop_c03text(c, r):
    comments, raw = parse_comments(c), unhx(r)
    s = CStream()
    Bf3File.write_bf3_format(s, comments, raw)
    lines = s.getvalue().split("\n")
    want = [f"{k}: {v}" for k, v in comments.items()]
    if lines[:len(want)] != want:
        return "FAIL comment lines are not 'key: value' in order"
    if lines[len(want)] != "":
        return "FAIL no blank separator line after the comments"
    hexl = lines[len(want) + 1:]
    if hexl[-1] != "":
        return "FAIL text does not end with a newline"
    hexl = hexl[:-1]
    for ln in hexl:
        if len(ln) > 80:
            return f"FAIL hex line of {len(ln)} columns"
        if any(ch not in "0123456789ABCDEF" for ch in ln):
            return "FAIL hex text is not upper-case hex"
    if "".join(hexl) != raw.hex().upper():
        return "FAIL hex text does not spell the binary"
    if any(len(ln) != 80 for ln in hexl[:-1] if hexl and ln is not hexl[-1]) and len(raw) > 40:
        pass
    return "ok"
