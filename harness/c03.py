"""C03 — written bytes have exactly the documented BF3/BEC2 container layout."""
import gen_bf3 as g
import gen_bec2 as gb
from core import hx

TRUSTED = [
    "Lean 4.33 kernel; axioms propext, Classical.choice, Quot.sound only",
    "Spec/Layout.lean: closed-form layout written from the format description (trusted as the spec)",
    "Model/Bf3.lean, Model/Bec2.lean, Model/Text.lean tied to the code by the correspondence run (bytes compared at start "
    "offsets 0..65536)",
    "harness/layout.py + refaes.py: independently written serialiser/parser with an independent AES (oracle)",
]
ASSUMPTIONS = ["'independent AES' inside the theorem = C16 (table theorems + adapter theorems); the harness uses a separate byte-oriented AES"]
LEANCHECKER_MODULES = ["Bec2Verif.Props.C03"]
OFFS = [0, 5, 7, 255, 256, 65535, 65536, 44, 1000]


def run(ctx):
    rng = ctx.rng
    ctx.rule = ("file contents as in C01/C02 (plain and encrypted components, 0..6 components, 0..8 tags), start offsets "
                f"{OFFS}, all key classes; BEC2 framing with every block kind; text envelope on raw lengths 0..200; "
                "non-trivial = distinct case with >= 1 component")
    n = 250 if ctx.quick else 6000
    cases = []
    for _ in range(n):
        comps = g.gen_comps(rng, 400)
        r = rng.random()
        if r < 0.25:
            comps = gb.add_config_comp(rng, comps)
        elif r < 0.6:
            comps = g.gen_mixed_comps(rng)
        cases.append((rng.choice(OFFS), hx(g.gen_key(rng)), comps))
    for comps in g.threshold_comps(rng):
        cases.append((rng.choice(OFFS), hx(g.gen_key(rng)), comps))
    nontriv = lambda line, res: not line.endswith(" -")
    ctx.correspond([f"bf3.tobin {o} {k} {c}" for o, k, c in cases], "tobin", nontriv)
    ctx.check_props([f"prop.c03 {o} {k} {c}" for o, k, c in cases], "prop.c03")
    bc = [gb.gen_file(rng) for _ in range(60 if ctx.quick else 1500)]
    ctx.correspond([f"bec2.tobin {f['key']} {f['blocks']} {f['comps']} {f['encs']} {f['ephs']}" for f in bc], "bec2.tobin")
    ctx.check_props([f"prop.c03bec2 {f['key']} {f['blocks']} {f['comps']} {f['encs']} {f['ephs']}" for f in bc], "prop.c03bec2")
    tx = []
    for ln in list(range(0, 201)) + [rng.randrange(200, 3000) for _ in range(10)]:
        tx.append((g.gen_comments(rng), hx(g.rbytes(rng, ln))))
    ctx.exhaustive["text_raw_lengths_0..200"] = True
    ctx.correspond([f"text.write {c} {r}" for c, r in tx], "text.write")
    ctx.check_props([f"prop.c03text {c} {r}" for c, r in tx], "prop.c03text")


def search(ctx):
    rng = ctx.rng
    ctx.check_props([f"prop.c03 {rng.choice(OFFS)} {hx(g.gen_key(rng))} {g.gen_comps(rng, 400)}" for _ in range(2000)], "search.c03")
