"""Independent minimal DER tree parser / serialiser used to build structurally consistent malformed encodings:
a node is edited (content cut, emptied, extended, tag changed, child dropped or duplicated) and all enclosing
lengths are recomputed, so that only the edited element is wrong."""


def enc_len(n):
    if n < 0x80:
        return bytes([n])
    b = n.to_bytes((n.bit_length() + 7) // 8, "big")
    return bytes([0x80 | len(b)]) + b


class Node:
    def __init__(self, tag, content=None, children=None, wrap=None):
        self.tag, self.content, self.children, self.wrap = tag, content, children, wrap

    def body(self):
        if self.children is not None:
            inner = b"".join(c.ser() for c in self.children)
            return (self.wrap or b"") + inner
        return self.content

    def ser(self):
        b = self.body()
        if getattr(self, "hollow", None) is not None:
            # the length field announces the whole body, only a part of it is there
            return bytes([self.tag]) + enc_len(len(b)) + b[:self.hollow]
        return bytes([self.tag]) + enc_len(len(b)) + b

    def walk(self):
        yield self
        for c in self.children or []:
            yield from c.walk()


def parse(data, depth=0):
    """list of nodes; constructed tags, and OCTET/BIT STRINGs that contain well-formed DER, are opened"""
    out, pos = [], 0
    while pos < len(data):
        tag = data[pos]
        if pos + 1 >= len(data):
            raise ValueError("short")
        l0 = data[pos + 1]
        if l0 < 0x80:
            ln, hl = l0, 2
        else:
            k = l0 & 0x7F
            if k == 0 or pos + 2 + k > len(data):
                raise ValueError("bad length")
            ln, hl = int.from_bytes(data[pos + 2:pos + 2 + k], "big"), 2 + k
        body = data[pos + hl:pos + hl + ln]
        if len(body) != ln:
            raise ValueError("short body")
        node = Node(tag, content=body)
        if depth < 6:
            try:
                if tag & 0x20:
                    node = Node(tag, children=parse(body, depth + 1))
                elif tag == 0x04 and body[:1] == b"\x30":
                    node = Node(tag, children=parse(body, depth + 1))
                elif tag == 0x03 and body[:2] in (b"\x00\x30",):
                    node = Node(tag, children=parse(body[1:], depth + 1), wrap=b"\x00")
            except ValueError:
                node = Node(tag, content=body)
        out.append(node)
        pos += hl + ln
    return out


def mutations(data, rng, limit=None):
    """yields (description, bytes) of structurally consistent edits of a DER encoding"""
    roots = parse(data)
    nodes = [n for r in roots for n in r.walk()]
    edits = []
    for i, n in enumerate(nodes):
        kinds = ["empty", "tag", "hollow0", "hollow1"]
        if n.children is None:
            kinds += ["cut1", "cutfront", "extend", "cuthalf"]
        else:
            kinds += ["dropchild", "dupchild", "leaf"]
        for k in kinds:
            edits.append((i, k))
    rng.shuffle(edits)
    for (i, k) in edits[:limit]:
        roots2 = parse(data)
        nodes2 = [n for r in roots2 for n in r.walk()]
        n = nodes2[i]
        if k == "empty":
            n.children, n.content, n.wrap = None, b"", None
        elif k == "hollow0":
            n.hollow = 0
        elif k == "hollow1":
            n.hollow = 1
        elif k == "tag":
            n.tag = rng.choice([0x02, 0x03, 0x04, 0x05, 0x06, 0x30, 0x31, 0xA0, 0xA1, 0x80, n.tag ^ 0x20])
        elif k == "cut1":
            n.content = n.content[:-1]
        elif k == "cutfront":
            n.content = n.content[1:]
        elif k == "cuthalf":
            n.content = n.content[:len(n.content) // 2]
        elif k == "extend":
            n.content = n.content + bytes([rng.randrange(256)])
        elif k == "dropchild":
            if n.children:
                del n.children[rng.randrange(len(n.children))]
        elif k == "dupchild":
            if n.children:
                j = rng.randrange(len(n.children))
                n.children.insert(j, n.children[j])
        elif k == "leaf":
            n.content, n.children, n.wrap = bytes([rng.randrange(256) for _ in range(rng.randrange(0, 4))]), None, None
        yield (f"{k} of node {i} (tag {nodes[i].tag:#04x})", b"".join(r.ser() for r in roots2))
