"""C15 — CRC-16/MCRF4XX: correspondence of Crc.stepPy/crcPy with crc8404B and
direct comparison of the real code with a bit-serial oracle."""
from core import hx

TITLE = "CRC-16/MCRF4XX"
TRUSTED = [
    "Lean 4.33 kernel; axioms propext, Classical.choice, Quot.sound only",
    "Spec/CrcBitSerial.lean is the definition of CRC-16/MCRF4XX (reflected poly 0x8408, no final XOR)",
    "correspondence harness: Model/Crc.lean = bec2format.bec2file.crc8404B on the step table and on strings",
    "Python int semantics of ^, &, <<, >> on non-negative ints = Lean Nat bit operations",
]


def run(ctx):
    rng = ctx.rng
    ctx.rule = ("step-table rows (one row = all 256 byte values for a start value, digest compared between "
                "model and code, and every entry compared with a bit-serial oracle); strings: all strings of "
                "length <= 2 over a 16-value alphabet x 64 start values, random long strings, start values "
                "beyond 16 bits; non-trivial = distinct protocol line")
    if ctx.quick:
        starts = sorted(set([0, 1, 0xFF, 0x100, 0xFFFF, 0x8408, 0x8000, 0x00FF, 0xFF00]
                            + [rng.randrange(65536) for _ in range(4096)]))
        ctx.exhaustive["crc_step_table_2^24"] = False
    else:
        starts = list(range(65536))
        ctx.exhaustive["crc_step_table_2^24"] = True
    ctx.correspond([f"crcrow {s}" for s in starts], "row")
    ctx.check_props([f"prop.crcrow {s}" for s in starts], "prop.row")
    ctx.extra["crc_steps_compared"] = len(starts) * 256

    alpha = [0x00, 0x01, 0x02, 0x0F, 0x10, 0x31, 0x42, 0x7F, 0x80, 0x81, 0x84, 0x08, 0xAA, 0xF0, 0xFE, 0xFF]
    st64 = [0, 1, 0xFFFF, 0xFF00, 0x00FF, 0x8408, 0x1021, 0x6F91] + [rng.randrange(65536) for _ in range(56)]
    strs = [b""] + [bytes([a]) for a in alpha] + [bytes([a, b]) for a in alpha for b in alpha]
    lines = [f"crc {hx(s)} {st}" for s in strs for st in st64]
    ctx.exhaustive["strings_len<=2_alphabet16_x_64_starts"] = True
    n = 2000 if ctx.quick else 20000
    for _ in range(n):
        ln = rng.choice([1, 2, 3, 15, 16, 17, 18, 19, 253, 255, 256, rng.randrange(1, 400)])
        s = bytes(rng.randrange(256) for _ in range(ln))
        if rng.random() < 0.2:
            s = s[: ln // 2] + bytes(ln - ln // 2)
        lines.append(f"crc {hx(s)} {rng.choice([0xFFFF, 0xFFFF, 0, rng.randrange(65536)])}")
    # the code does not mask: start values beyond 16 bits are compared too (outside the property's quantifier)
    for _ in range(200):
        s = bytes(rng.randrange(256) for _ in range(rng.randrange(0, 6)))
        lines.append(f"crc {hx(s)} {rng.choice([65536, 65537, 1 << 20, rng.randrange(1 << 16, 1 << 40)])}")
    ctx.correspond(lines, "str")
    plines = [("prop." + l) for l in lines if int(l.split()[2]) < 65536]
    ctx.check_props(plines, "prop.str")
    ctx.check_props([f"prop.crcdefault {l.split()[1]}" for l in lines[:3000]], "prop.default")
