"""
Entry point:  main.py <Cxx> <quick|thorough>      run the check of one property
              main.py <Cxx> --replay <file>       re-run a recorded case on model and code
Exit status: 0 property held on everything explored; 1 VIOLATION; 2 internal error / time-out.
"""
import importlib
import json
import os
import subprocess
import sys
import time
import traceback

sys.dont_write_bytecode = True
HERE = os.path.dirname(os.path.abspath(__file__))
sys.path.insert(0, HERE)
import core  # noqa: E402
from core import Ctx, InternalError  # noqa: E402


def run_extract():
    env = dict(os.environ)
    p = subprocess.run([sys.executable, "-B", os.path.join(HERE, "extract.py")], env=env,
                       stdout=subprocess.PIPE, stderr=subprocess.STDOUT, text=True, timeout=600)
    if p.returncode != 0:
        raise InternalError("extract.py failed (the repository does not import?):\n" + p.stdout[-3000:])
    return p.stdout.strip()


def replay(prop, path):
    rec = json.load(open(path))
    ops = rec.get("ops") or ([rec["op"]] if "op" in rec else [])
    print(json.dumps({k: v for k, v in rec.items() if k not in ("ops",)}, indent=1)[:3000])
    core.lean_build(["bec2model"])
    for line in ops:
        b = core.impl_eval([line], parallel=False)[0]
        if line.startswith("prop."):
            print(f"op:    {line[:500]}\n code: {b}")
        else:
            a = core.model_eval([line])[0]
            print(f"op:    {line[:500]}\n model: {a[:500]}\n code:  {b[:500]}\n " + ("AGREE" if a == b else "DIFFER"))
    return 0


def main():
    if len(sys.argv) < 3:
        print(__doc__)
        return 2
    prop = sys.argv[1].upper()
    if sys.argv[2] == "--replay":
        return replay(prop, sys.argv[3])
    tier = sys.argv[2]
    if tier not in ("quick", "thorough"):
        print(__doc__)
        return 2
    seed = int(os.environ.get("VERIF_SEED", "0") or 0)
    ctx = Ctx(prop, tier, seed)
    checker_cmd = (f"cd lean && lake build Bec2Verif.Props.{prop} bec2model && "
                   f"lake env lean Bec2Verif/Audit/{prop}.lean")
    # a check that does not finish is a defect of the check, not a verdict: exit 2 after the budget of the tier
    import threading
    budget = int(os.environ.get("VERIF_BUDGET_S", "1500" if tier == "quick" else "14400"))

    def _overrun():
        print(f"[{prop}] INTERNAL ERROR: the check did not finish within {budget} s", flush=True)
        import faulthandler
        faulthandler.dump_traceback()
        os._exit(2)
    wd = threading.Timer(budget, _overrun)
    wd.daemon = True
    wd.start()
    try:
        mod = importlib.import_module(prop.lower())
        ctx.trusted_base = list(getattr(mod, "TRUSTED", []))
        ctx.assumptions = list(getattr(mod, "ASSUMPTIONS", []))
        ex = run_extract()
        print(f"[{prop}] {ex}", flush=True)
        for line in ex.split("\n"):
            if line.startswith("EXTRACT-PROBLEM "):
                ctx.broken.append({"what": "a constant the model is regenerated from can no longer be read from the source: "
                                           + line[len("EXTRACT-PROBLEM "):]})
        ok, log = core.lean_build(["bec2model"])
        if not ok:
            raise InternalError("the model driver does not build:\n" + log[-3000:])
        ok, log = core.lean_build([f"Bec2Verif.Props.{prop}"])
        if not ok:
            errs = [l for l in log.split("\n") if l.startswith("error")]
            ctx.broken.append({"what": f"lake build Bec2Verif.Props.{prop} fails", "errors": errs[:8]})
        wanted, discharged, problems = core.lean_audit(prop) if ok else (
            __import__("re").findall(r"^#print axioms\s+(\S+)",
                                     open(os.path.join(core.LEAN, "Bec2Verif", "Audit", prop + ".lean")).read(),
                                     __import__("re").M), 0, [])
        ctx.obligations, ctx.discharged = wanted, discharged
        for p in problems:
            ctx.broken.append({"what": p})
        hits = core.forbidden_scan()
        if hits:
            ctx.broken.append({"what": "forbidden construct in Lean sources", "hits": hits[:10]})
        if tier == "thorough" and ok and hasattr(mod, "LEANCHECKER_MODULES"):
            rc, out = core.sh(["lake", "env", "leanchecker"] + mod.LEANCHECKER_MODULES, cwd=core.LEAN, timeout=3600)
            ctx.extra["leanchecker"] = {"modules": mod.LEANCHECKER_MODULES, "rc": rc, "tail": out[-300:]}
            if rc != 0:
                ctx.broken.append({"what": "leanchecker rejects the compiled modules", "log": out[-1000:]})
        print(f"[{prop}] obligations {discharged}/{len(wanted)} discharged; build {'ok' if ok else 'BROKEN'}", flush=True)
        mod.run(ctx)
        if (ctx.disagreements or ctx.broken) and not ctx.failures and hasattr(mod, "search"):
            print(f"[{prop}] proof obligation or correspondence broken: searching for a failing input ...", flush=True)
            mod.search(ctx)
    except InternalError as e:
        print(f"[{prop}] INTERNAL ERROR: {e}", flush=True)
        return 2
    except Exception:
        traceback.print_exc()
        return 2

    known = core.load_known()
    unlisted = []
    for f in ctx.failures:
        k = core.match_known(prop, f, known)
        if k is None:
            unlisted.append(f)
        elif k not in ctx.known_hits:
            ctx.known_hits.append(k)
    for k in ctx.known_hits:
        print(f"KNOWN-FINDING: property={prop} {k['what']}")
    rc = 0
    nviol = 0
    if unlisted:
        for n, f in enumerate(unlisted[:5]):
            path = core.write_replay(ctx, n, {
                "kind": "property fails on the real code", "op": f["op"], "observed": f["observed"],
                "label": f["label"], "disagreements": ctx.disagreements[:3], "broken": ctx.broken[:3]})
            print(f"VIOLATION property={prop} replay={path}")
        nviol = len(unlisted)
        rc = 1
    elif ctx.disagreements or ctx.broken:
        path = core.write_replay(ctx, 0, {
            "kind": "proof obligation or correspondence no longer checks; no failing input found",
            "no_longer_checks": ([b["what"] for b in ctx.broken] +
                                 [f"correspondence {d['label']} (Lean model vs code)" for d in ctx.disagreements[:3]]),
            "broken": ctx.broken[:5], "disagreements": ctx.disagreements[:5],
            "ops": [d["op"] for d in ctx.disagreements[:5]]})
        print(f"VIOLATION property={prop} replay={path} no-failing-input-found")
        nviol = 1
        rc = 1
    ev = core.write_evidence(ctx, nviol, checker_cmd)
    print(f"[{prop}] {tier} seed={seed}: {ctx.evaluations} evaluations, {len(ctx.distinct)} distinct, "
          f"{len(ctx.disagreements)} disagreements, {len(ctx.failures)} property failures "
          f"({len(ctx.known_hits)} known), {time.time() - ctx.t0:.1f}s -> exit {rc}; evidence {os.path.relpath(ev, core.VERIF)}")
    return rc


if __name__ == "__main__":
    code = main()
    sys.stdout.flush()
    if core._POOL is not None:
        core._POOL.terminate()
    os._exit(code)
