"""number of public / private key formats enumerated by impl_c19 (kept separate so that the generator does not import the code under test)"""
N_PUB = 4 + 2 * 3 * 2
N_PRIV = 1 + 2 * 2 * 2 * 2
