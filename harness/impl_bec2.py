import io
from hashlib import sha256
from impl import op, hx, unhx, err, mkfile, CStream
import impl_bf3 as b3
import register_crypto_plugin as plugin
import bec2format.crypto as crypto
import bec2format.bec2file as bec2
from bec2format.bec2file import (AesEncryptorMixin, SoftwareCustKeyEncryptor, ConfigSecurityCodeEncryptor,
                                 EccEncryptor, EccDecryptor, InitCustKeyAuthBlock, InitEccAuthBlock,
                                 UpdateAuthBlock, UnknownAuthBlock, Bec2File, BEC2_FILE_SIG)
from bec2format.bf3file import Bf3File, Bf3Component
from register_crypto_plugin.ecdsa import NIST256p, SigningKey


def priv_key(d: int):
    return plugin.PrivateEccKeyProxy(SigningKey.from_secret_exponent(d, curve=NIST256p))


class Oracle:
    """deterministic stand-in for os.urandom / key generation; records every draw"""

    def __init__(self, ephs=(), rand=b""):
        self.ephs, self.rand = list(ephs), bytes(rand)
        self.log = []

    def __enter__(self):
        self.saved = (getattr(crypto, "__PrivateEccKey"), getattr(crypto, "__random_bytes"))
        oracle = self

        class Stub(plugin.PrivateEccKeyProxy):
            @classmethod
            def generate(cls):
                oracle.log.append("keygen")
                if not oracle.ephs:
                    raise RuntimeError("harness: ephemeral-key oracle exhausted")
                return priv_key(oracle.ephs.pop(0))

        def rnd(n):
            oracle.log.append(f"rand{n}")
            if len(oracle.rand) < n:
                raise RuntimeError("harness: random oracle exhausted")
            out, oracle.rand = oracle.rand[:n], oracle.rand[n:]
            return out

        crypto.register_PrivateEccKey(Stub)
        crypto.register_random_bytes(rnd)
        return self

    def __exit__(self, *a):
        crypto.register_PrivateEccKey(self.saved[0])
        crypto.register_random_bytes(self.saved[1])


FRESH_KEY = bytes([0xA5]) * 16          # what random_bytes(16) returns while a file is read (Driver: `freshKey`)


def parse_int(s):
    return -int(s[1:]) if s.startswith("n") else int(s)


def parse_block(s):
    if s == "c":
        return InitCustKeyAuthBlock()
    if s[0] == "e":
        return InitEccAuthBlock(int(s[1:]))
    if s[0] == "u":
        c, v = s[1:].split(":")
        return UpdateAuthBlock(unhx(c), int(v))
    t, r = s[1:].split(":")
    return UnknownAuthBlock(int(t), unhx(r))


def parse_blocks(s):
    return [] if s == "-" else [parse_block(x) for x in s.split(",")]


def show_block(b):
    if isinstance(b, InitCustKeyAuthBlock):
        return "c"
    if isinstance(b, InitEccAuthBlock):
        return f"e{b.key_selector}"
    if isinstance(b, UpdateAuthBlock):
        return f"u{hx(b.config_security_code)}:{b.version}"
    return f"x{b.tag}:{hx(b.binary_value)}"


def show_blocks(bs):
    bs = list(bs)
    return ",".join(show_block(b) for b in bs) if bs else "-"


def parse_enc(s):
    body = s[1:]
    if s[0] == "C":
        k, ck, pos = body.split(":")
        return SoftwareCustKeyEncryptor(unhx(k), unhx(ck), parse_int(pos))
    if s[0] == "P":
        sel, pub = body.split(":")
        return EccEncryptor(int(sel), crypto.create_public_ecc_key_from_raw_fmt(unhx(pub)))
    if s[0] == "D":
        sel, d = body.split(":")
        return EccDecryptor(int(sel), priv_key(int(d)))
    return ConfigSecurityCodeEncryptor(unhx(body))


def parse_encs(s):
    return [] if s == "-" else [parse_enc(x) for x in s.split(",")]


def parse_nats(s):
    return [] if s == "-" else [int(x) for x in s.split(",")]


def guard(f):
    def g(*a):
        try:
            return f(*a)
        except RuntimeError as e:
            if str(e).startswith("harness:"):
                raise
            return err(e)
        except Exception as e:
            return err(e)
    g.__name__ = f.__name__
    return g


@op("wrap")
@guard
def wrap(k, d):
    return "ok " + hx(AesEncryptorMixin(unhx(k)).encrypt(unhx(d)))


@op("unwrap")
@guard
def unwrap(k, d):
    return "ok " + hx(AesEncryptorMixin(unhx(k)).decrypt(unhx(d)))


@op("ck.enc")
@guard
def ck_enc(k, ck, pos, d):
    return "ok " + hx(SoftwareCustKeyEncryptor(unhx(k), unhx(ck), parse_int(pos)).encrypt(unhx(d)))


@op("ck.dec")
@guard
def ck_dec(k, ck, pos, d):
    return "ok " + hx(SoftwareCustKeyEncryptor(unhx(k), unhx(ck), parse_int(pos)).decrypt(unhx(d)))


@op("sha256")
def sha(d):
    return "ok " + hx(sha256(unhx(d)).digest())


@op("csc.key")
@guard
def csc_key(c):
    return "ok " + hx(ConfigSecurityCodeEncryptor(unhx(c)).cipher._key)


@op("ecc.pub")
@guard
def ecc_pub(d):
    return "ok " + hx(priv_key(int(d)).public_key.to_raw_bin_fmt())


@op("ecc.load")
@guard
def ecc_load(r):
    return "ok " + hx(crypto.create_public_ecc_key_from_raw_fmt(unhx(r)).to_raw_bin_fmt())


@op("ecc.dh")
@guard
def ecc_dh(d, r):
    return "ok " + hx(priv_key(int(d)).compute_dh_secret(crypto.create_public_ecc_key_from_raw_fmt(unhx(r))))


@op("ecc.enc")
@guard
def ecc_enc(pub, eph, d):
    with Oracle([int(eph)]):
        return "ok " + hx(EccEncryptor(0, crypto.create_public_ecc_key_from_raw_fmt(unhx(pub))).encrypt(unhx(d)))


@op("ecc.dec")
@guard
def ecc_dec(priv, d):
    return "ok " + hx(EccDecryptor(0, priv_key(int(priv))).decrypt(unhx(d)))


@op("bec2.pack")
@guard
def bec2_pack(k, bs, es, ephs):
    with Oracle(parse_nats(ephs)) as o:
        f = Bec2File(Bf3File(), parse_blocks(bs), unhx(k))
        out = f.pack_auth_blocks(parse_encs(es))
        return "ok " + hx(out) + " " + str(len(o.ephs))


@op("bec2.tobin")
@guard
def bec2_tobin(k, bs, cs, es, ephs):
    with Oracle(parse_nats(ephs)) as o:
        f = Bec2File(mkfile({}, b3.parse_comps(cs)), parse_blocks(bs), unhx(k))
        out = f.to_binary(parse_encs(es))
        return "ok " + hx(out) + " " + str(len(o.ephs))


def show_file(f):
    return f"{hx(f.session_key)} {show_blocks(f.auth_blocks.values())} {b3.show_comps(f.bf3file.components)}"


@op("bec2.read")
@guard
def bec2_read(chk, es, b):
    with Oracle((), FRESH_KEY):          # `session_key or random_bytes(16)` in the constructor the reader calls
        f = Bec2File.read_file(CStream(b3.to_text(unhx(b))), parse_encs(es), chk == "1")
    return "ok " + show_file(f)


@op("bec2.readtext")
@guard
def bec2_readtext(chk, es, t):
    with Oracle((), FRESH_KEY):
        f = Bec2File.read_file(CStream(b3.parse_str(t)), parse_encs(es), chk == "1")
    return "ok " + b3.show_comments(f.bf3file.comments) + " " + show_file(f)


# ------------------------------------------------------------------ direct property evaluation
import refaes
from refaes import bitserial


def frame_check(key, payload, ct):
    """independent check of the container frame (C08): returns None or a description"""
    if len(ct) % 16 or not ct:
        return f"ciphertext length {len(ct)} is not a positive multiple of 16"
    fr = refaes.cbc_decrypt(key, bytes(16), ct)
    if fr[0:1] != b"B":
        return "frame does not start with 'B'"
    if fr[1] != len(payload) + 2:
        return f"length byte {fr[1]} != payload length + 2 = {len(payload) + 2}"
    z = len(fr) - 2 - len(payload) - 2
    if not 1 <= z <= 16:
        return f"{z} padding bytes (must be 1..16)"
    if fr[2:2 + z] != bytes(z):
        return "padding bytes are not zero"
    if fr[2 + z:2 + z + len(payload)] != payload:
        return "payload bytes differ"
    if fr[-2:] != bitserial(payload).to_bytes(2, "big"):
        return "CRC-16 differs from the bit-serial CRC of the payload"
    return None


@op("prop.c08")
def prop_c08(k, d):
    key, p = unhx(k), unhx(d)
    enc = AesEncryptorMixin(key)
    try:
        ct = enc.encrypt(p)
    except OverflowError:
        return "ok overflow" if len(p) > 253 else f"FAIL writer raises OverflowError for a {len(p)}-byte payload"
    except Exception as e:
        return f"FAIL wrap raises {type(e).__name__}: {e}"
    if len(p) > 253:
        return f"FAIL a {len(p)}-byte payload was wrapped (length byte cannot hold it)"
    bad = frame_check(key, p, ct)
    if bad:
        return "FAIL frame: " + bad
    try:
        back = AesEncryptorMixin(key).decrypt(ct)
    except Exception as e:
        return f"FAIL unwrap of the wrapper's own output raises {type(e).__name__}: {e}"
    if back != p:
        return f"FAIL unwrap returns {back.hex()} instead of the payload"
    # the same long-lived encryptor and one long-lived decryptor, several frames: every call starts from the zero IV
    dec = AesEncryptorMixin(key)
    for n, q in enumerate((p, p[::-1], p[:len(p) // 2], p)):
        try:
            ct2 = enc.encrypt(q)
        except Exception as e:
            return f"FAIL call {n + 2} on the same encryptor raises {type(e).__name__}: {e}"
        bad = frame_check(key, q, ct2)
        if bad:
            return f"FAIL frame of call {n + 2} on the same encryptor object: " + bad
        try:
            back = dec.decrypt(ct2)
        except Exception as e:
            return f"FAIL call {n + 1} on the same decryptor object raises {type(e).__name__}: {e}"
        if back != q:
            return f"FAIL call {n + 1} on the same decryptor object returns {back.hex()} instead of the payload"
    # under another key: must be an error (holds up to 2^-24; search-only clause)
    other = bytes([key[0] ^ 1]) + key[1:]
    try:
        got = AesEncryptorMixin(other).decrypt(ct)
        return f"FAIL frame made under another key unwraps to {got.hex()[:40]}"
    except Exception:
        pass
    return "ok"


@op("prop.c08bad")
def prop_c08bad(k, f):
    """a hand-made frame with a wrong marker or a wrong CRC must be reported as an error"""
    key, fr = unhx(k), unhx(f)
    ct = refaes.cbc_encrypt(key, bytes(16), fr)
    try:
        got = AesEncryptorMixin(key).decrypt(ct)
    except Exception as e:
        return "ok " + type(e).__name__
    return f"FAIL invalid frame {fr.hex()} accepted, payload {got.hex()}"


@op("prop.c08ck")
def prop_c08ck(k, ck, pos, d):
    key, c, pos, p = unhx(k), unhx(ck), int(pos), unhx(d)
    e = SoftwareCustKeyEncryptor(key, c, pos)
    ct = e.encrypt(p)
    fr = refaes.cbc_decrypt(key, bytes(16), ct)
    inner = fr[len(fr) - 2 - len(p):-2]
    want = p[:pos] + c + p[pos + 10:]
    if inner != want:
        return f"FAIL wrapped plaintext {inner.hex()} != payload with the customer key in its slot {want.hex()}"
    try:
        back = SoftwareCustKeyEncryptor(key, c, pos).decrypt(ct)
    except Exception as ex:
        return f"FAIL unwrap of the wrapper's own output raises {type(ex).__name__}: {ex}"
    if back != p[:pos] + bytes(10) + p[pos + 10:]:
        return f"FAIL unwrap returns {back.hex()} (slot not blanked or payload changed)"
    # the same objects used again
    d2 = SoftwareCustKeyEncryptor(key, c, pos)
    for n in range(3):
        q = p[:pos] + bytes(10) + bytes((b + n) & 0xFF for b in p[pos + 10:])
        ct2 = e.encrypt(q)
        fr2 = refaes.cbc_decrypt(key, bytes(16), ct2)
        if fr2[0:1] != b"B" or fr2[len(fr2) - 2 - len(q):-2] != q[:pos] + c + q[pos + 10:]:
            return f"FAIL call {n + 2} on the same customer-key encryptor: frame does not hold the payload with the key in its slot"
        try:
            if d2.decrypt(ct2) != q:
                return f"FAIL call {n + 1} on the same customer-key decryptor returns a different payload"
        except Exception as ex:
            return f"FAIL call {n + 1} on the same customer-key decryptor raises {type(ex).__name__}: {ex}"
    other = bytes([c[0] ^ 0x55]) + c[1:]
    try:
        SoftwareCustKeyEncryptor(key, other, pos).decrypt(ct)
        return "FAIL a different customer key is accepted"
    except bec2.Bec2FileFormatError:
        pass
    return "ok"


@op("prop.csc")
def prop_csc(c):
    code = unhx(c)
    e = ConfigSecurityCodeEncryptor(code)
    want = sha256(code).digest()[:16]
    ct = e.encrypt(b"0123456789abcdef\x05")
    if frame_check(want, b"0123456789abcdef\x05", ct):
        return "FAIL security-code container is not keyed with SHA-256(code)[:16]: " + frame_check(want, b"0123456789abcdef\x05", ct)
    d = ConfigSecurityCodeEncryptor(code)
    for n, q in enumerate((b"second frame of the same object", b"", b"0123456789abcdef\x05")):
        ct2 = e.encrypt(q)
        bad = frame_check(want, q, ct2)
        if bad:
            return f"FAIL call {n + 2} on the same security-code encryptor: " + bad
        try:
            if d.decrypt(ct2) != q:
                return f"FAIL call {n + 1} on the same security-code decryptor returns a different payload"
        except Exception as ex:
            return f"FAIL call {n + 1} on the same security-code decryptor raises {type(ex).__name__}: {ex}"
    return "ok"


@op("prop.c04bec2")
def prop_c04bec2(k, bs, cs, es, ephs, what, stride, offset):
    key, comps = unhx(k), b3.parse_comps(cs)
    try:
        with Oracle(parse_nats(ephs)):
            f0 = Bec2File(mkfile({}, b3.parse_comps(cs)), parse_blocks(bs), key)
            binary = f0.to_binary(parse_encs(es))
    except OverflowError:
        if b3.unrepresentable(comps):
            return "ok 0 writer-rejects OverflowError"
        raise
    encs = parse_encs(es)

    def read(t):
        return Bec2File.read_file(CStream(t), encs)          # the MAC check is the default

    def known(f):
        return [show_block(b) for b in f.auth_blocks.values() if not isinstance(b, UnknownAuthBlock)]

    try:
        base = read(b3.to_text(binary))
    except Exception as e:
        return "ok 0 undamaged-file-not-readable-with-these-decryptors " + type(e).__name__
    blocks0 = known(base)

    # positions of the unauthenticated framing bytes of the header: tag and length byte of every auth block
    hdr_framing = set()
    _p = len(BEC2_FILE_SIG)
    for _t, _v in _header_tlvs(binary)[0]:
        hdr_framing.update((_p, _p + 1))
        if _t == 3 and _v:
            hdr_framing.add(_p + 2)          # the key-selector byte of an ECC block: plain, outside any container
        _p += 2 + len(_v)
    hdr_framing.update((_p, _p + 1))

    def same(f, text_prefix=False, pos=None):
        # reference = what the UNDAMAGED file reads as (a customer key placed over the session-key field makes even that
        # differ from the key the writer was given: write/read agreement is C07's subject, not damage detection)
        if f.session_key != base.session_key:
            opened = [b for b in f.auth_blocks.values() if not isinstance(b, UnknownAuthBlock)]
            if not base.bf3file.components and not f.bf3file.components and opened and all(isinstance(b, InitEccAuthBlock) for b in opened):
                # nothing in a file without components is MACed under the session key, and an ECC block has no integrity
                # check of its own (the customer-key / update containers have marker + CRC)
                return (f"KNOWN:EMPTY-DIRECTORY-ECC the file has no components and only ECC auth blocks were opened: the damaged "
                        f"block yields session key {f.session_key.hex()} instead of {base.session_key.hex()} and nothing can contradict it")
            return f"session key {f.session_key.hex()} instead of {base.session_key.hex()}"
        d = b3.same_file(f.bf3file, f.bf3file.comments if text_prefix else {}, base.bf3file.components)
        if d:
            return d
        # blocks the reader could open must be the original ones; opaque (undecryptable) blocks carry no
        # authenticated content and are outside 'content'
        kf = known(f)
        if kf != blocks0:
            it = iter(blocks0)
            if pos is not None and pos not in hdr_framing:
                # the known findings are about the tag / length bytes of the header; the VALUE of a block the reader can open
                # is protected by its container (marker, CRC) - damage there that goes through is something else
                return f"decrypted auth blocks {kf} instead of {blocks0} after damage inside a block's value"
            if all(any(x == y for y in it) for x in kf):
                # header tag/length bytes are not authenticated: an opened block can be turned into an opaque one
                return (f"KNOWN:HEADER-DOWNGRADE opened auth blocks {kf} are a proper sub-list of the original "
                        f"{blocks0} (session key and components unchanged)")
            if sorted(kf) == sorted(blocks0):
                # same root cause: the tag byte of a block nobody opened was turned into the tag of an opened kind; the
                # dictionary of blocks keeps the position of the first block with that tag, so the opened blocks come back
                # in another order
                return (f"KNOWN:HEADER-REORDER opened auth blocks {kf} are the original ones {blocks0} in another order "
                        f"(session key and components unchanged)")
            rest = list(blocks0)
            if all((x in rest) and (rest.remove(x) is None) for x in kf):
                # both at once: the tag of an opened block was replaced by the tag of ANOTHER opened kind of the same file - the
                # block becomes opaque (downgrade) and takes the dictionary position of that kind (reorder)
                return (f"KNOWN:HEADER-REORDER opened auth blocks {kf} are part of the original ones {blocks0} in another order "
                        f"(session key and components unchanged)")
            return f"decrypted auth blocks {kf} instead of {blocks0}"
        return None

    n, bad = b3.damage_scan(read, binary, lambda b: b3.to_text(b), {}, same, what, int(stride), int(offset))
    if bad and bad.startswith("KNOWN:"):
        return "FAIL-KNOWN " + bad[6:]
    return ("FAIL " + bad) if bad else f"ok {n}"


def _expected_comps(comps):
    """what reading returns for the written components: encrypted ones come back zero-padded"""
    out = []
    for c in comps:
        if c.encrypt_by_session_key and c.description.get(0xC2) == b"\x02":
            blob = c.blob + bytes(-len(c.blob) % 16)
            c2 = b3.Bf3Component(dict(c.description), blob, None, True)
            c2.actual_len = c.actual_len
            out.append(c2)
        else:
            out.append(c)
    return out


import layout


@op("prop.c03bec2")
def prop_c03bec2(k, bs, cs, es, ephs):
    """BEC2 framing: signature, TLV auth blocks closed by 00 00, body laid out at offset = header length"""
    key, comps = unhx(k), b3.parse_comps(cs)
    try:
        with Oracle(parse_nats(ephs)):
            f0 = Bec2File(mkfile({}, b3.parse_comps(cs)), parse_blocks(bs), key)
            out = f0.to_binary(parse_encs(es))
    except Exception as e:
        return "ok writer-rejects " + type(e).__name__
    if out[:5] != b"BEC2\x00":
        return "FAIL signature"
    o, tags = 5, []
    while True:
        if o + 2 > len(out):
            return "FAIL header TLV list is not closed by 00 00"
        t, ln = out[o], out[o + 1]
        o += 2
        if t == 0 and ln == 0:
            break
        tags.append(t)
        o += ln
    want_tags = [b.tag for b in f0.auth_blocks.values()]
    if tags != want_tags:
        return f"FAIL header block tags {tags} != {want_tags}"
    spec = []
    for c in comps:
        raw = refaes.cbc_encrypt(key, bytes(16), refaes.zero_pad(c.blob)) if c.encrypt_by_session_key else c.blob
        spec.append((list(c.description.items()), raw, c.actual_len))
    want = layout.serialize(key, o, spec)
    if out[o:] != want:
        return f"FAIL body after the {o}-byte header differs from the documented layout at offset {o}"
    return "ok"


# ------------------------------------------------------------------ C02 / C06 / C07 / C09 direct evaluation
import itertools
import os
import subprocess
import tempfile
import base64


def _header_tlvs(binary):
    """[(tag, value)] of the BEC2 header and the offset of the body"""
    assert binary[:5] == BEC2_FILE_SIG
    o, out = 5, []
    while True:
        t, ln = binary[o], binary[o + 1]
        o += 2
        if t == 0 and ln == 0:
            return out, o
        out.append((t, binary[o:o + ln]))
        o += ln


def _matching_decryptor(block, writer_encs):
    """the decryptor that opens `block` (writer side knows the secrets)"""
    if isinstance(block, InitCustKeyAuthBlock):
        return next(e for e in writer_encs if isinstance(e, SoftwareCustKeyEncryptor))
    if isinstance(block, InitEccAuthBlock):
        return next(e for e in writer_encs if isinstance(e, EccDecryptor) and e.key_selector == block.key_selector)
    return ConfigSecurityCodeEncryptor(block.config_security_code)


@op("prop.c02")
def prop_c02(k, bs, cs, es, ephs):
    key, comps = unhx(k), b3.parse_comps(cs)
    wencs = parse_encs(es)
    try:
        block_objs = parse_blocks(bs)
        if key[0] & 1:
            # the same block objects have already been used for another file with another session key
            with Oracle([(n % (2 ** 255)) + 1 for n in parse_nats(ephs)]):
                Bec2File(mkfile({}, []), block_objs, bytes(b ^ 0x5A for b in key)).to_binary(wencs)
        with Oracle(parse_nats(ephs)):
            # `auth_blocks` and `components` are declared as Iterables: handed over as list, tuple or one-shot iterators
            how = key[1] % 3
            f0 = Bec2File(mkfile({}, b3.parse_comps(cs) if how == 0 else iter(b3.parse_comps(cs))),
                          block_objs if how == 0 else (tuple(block_objs) if how == 1 else (b for b in block_objs)), key)
            if key[2] % 2:
                s = CStream()
                f0.write_file(s, wencs)
                text = s.getvalue()
            else:
                # `bf3file: str | TextIO`: written to a path and read back as text
                pth = b3.tmp_path()
                try:
                    f0.write_file(pth, wencs)
                    with open(pth, newline="") as fh:
                        text = fh.read().replace("\r\n", "\n")
                finally:
                    os.unlink(pth)
    except OverflowError:
        return "ok writer-rejects OverflowError"      # an entry beyond the 255-byte directory-entry limit
    except Exception as e:
        return f"FAIL writer raises {type(e).__name__}: {e}"
    blocks = list(f0.auth_blocks.values())
    decs = [_matching_decryptor(b, wencs) for b in blocks]
    binary = unhx_text(text)
    tlvs, _ = _header_tlvs(binary)
    want_comps = _expected_comps(comps)
    n = 0
    for r in range(1, len(decs) + 1):
        for idx in itertools.combinations(range(len(decs)), r):
            sub = [decs[i] for i in idx]
            # ... and the same decryptors followed by public-key-only encryptors for the ECC blocks they do not open (such an
            # encryptor matches the block but cannot decrypt: the block stays opaque)
            pubonly = [EccEncryptor(d.key_selector, d.public_key) for j, d in enumerate(decs)
                       if j not in idx and isinstance(d, EccEncryptor)]
            orders = [sub, list(reversed(sub))] if len(sub) > 1 else [sub]
            if pubonly:
                orders.append(sub + pubonly)
            for order in orders:
                n += 1
                try:
                    if n % 3:
                        f = Bec2File.read_file(CStream(text), order, True)
                    else:
                        pth = b3.tmp_path()
                        try:
                            with open(pth, "w", newline="") as fh:
                                fh.write(text)
                            f = Bec2File.read_file(pth, order, True)
                        finally:
                            os.unlink(pth)
                except Exception as e:
                    return f"FAIL decryptors {idx}: reader raises {type(e).__name__}: {e}"
                if f.session_key != key:
                    return f"FAIL decryptors {idx}: session key {f.session_key.hex()} != {key.hex()}"
                got = list(f.auth_blocks.values())
                if len(got) != len(blocks):
                    return f"FAIL decryptors {idx}: {len(got)} auth blocks instead of {len(blocks)}"
                for i, (g, b) in enumerate(zip(got, blocks)):
                    if i in idx:
                        if show_block(g) != show_block(b):
                            return f"FAIL decryptors {idx}: block {i} read as {show_block(g)} instead of {show_block(b)}"
                    else:
                        if not isinstance(g, UnknownAuthBlock) or g.tag != tlvs[i][0] or g.binary_value != tlvs[i][1]:
                            return f"FAIL decryptors {idx}: unopened block {i} not preserved as opaque TLV"
                d = b3.same_file(f.bf3file, {}, want_comps)
                if d:
                    return f"FAIL decryptors {idx}: {d}"
    return f"ok {n}"


def unhx_text(text):
    lines = text.split("\n")
    i = lines.index("")
    return bytes.fromhex("".join(lines[i + 1:]))


@op("prop.c06")
def prop_c06(k, cs, code, ckey):
    """encrypted components: stored as AES-128-CBC/zero IV of the zero-padded content under the session key,
    read back to the original up to the declared length; secrets never in clear"""
    key, comps = unhx(k), b3.parse_comps(cs)
    code, ckey = unhx(code), unhx(ckey)
    given_key = key
    for framing in ("bf3", "bec2", "bec2-nokey"):
        key = given_key
        try:
            if framing == "bec2-nokey":
                # no session key given: the file object draws one (registered random source, no oracle) - the same one for the
                # auth blocks, the directory MACs, the component cipher and whoever asks the object afterwards
                f0 = Bec2File(mkfile({}, b3.parse_comps(cs)), [InitCustKeyAuthBlock(), UpdateAuthBlock(code, 7)])
                before = f0.session_key
                binary = f0.to_binary([SoftwareCustKeyEncryptor(bytes(range(16)), ckey, 0)])
                key = f0.session_key
                if not isinstance(key, bytes) or len(key) != 16 or key != before:
                    return f"FAIL {framing}: the file object reports the session key {before!r} before and {key!r} after writing"
                body_off = _header_tlvs(binary)[1]
            elif framing == "bf3":
                if len(cs) % 2:
                    binary = b3.BF3_FILE_SIG + mkfile({}, b3.parse_comps(cs)).to_binary(5, key)
                else:
                    # the way files are really written: write_file(stream, session_key) - text, of which the hex part is taken
                    out = CStream()
                    mkfile({}, b3.parse_comps(cs)).write_file(out, key)
                    tl = out.getvalue().split("\n")
                    binary = bytes.fromhex("".join(tl[tl.index("") + 1:]))
                body_off = 5
            else:
                f0 = Bec2File(mkfile({}, b3.parse_comps(cs)), [InitCustKeyAuthBlock(), UpdateAuthBlock(code, 7)], key)
                binary = f0.to_binary([SoftwareCustKeyEncryptor(bytes(range(16)), ckey, 0)])
                body_off = _header_tlvs(binary)[1]
        except OverflowError as e:
            # directory entries are length-prefixed with one byte: an entry of more than 255 bytes is unrepresentable
            # entry = adr(4) stored(4) declared(4) payload-MAC(16) desc-len(1) desc entry-MAC(16)
            big = [c for c in comps if 45 + sum(2 + len(v) for v in c.description.values()) > 255
                   or any(len(v) > 255 for v in c.description.values())]
            if big:
                return "ok writer-rejects OverflowError"
            return f"FAIL {framing}: writer raises OverflowError for representable components: {e}"
        except Exception as e:
            return f"FAIL {framing}: writer raises {type(e).__name__}: {e}"
        try:
            ents = layout.parse(key, body_off, binary[body_off:], True)
        except layout.Bad as e:
            return f"FAIL {framing}: independent parser rejects the written file: {e}"
        for i, (c, (desc, payload, declared)) in enumerate(zip(comps, ents)):
            if c.encrypt_by_session_key:
                want = refaes.cbc_encrypt(key, bytes(16), refaes.zero_pad(c.blob))
                if payload != want:
                    return f"FAIL {framing}: component {i} is not stored as AES-128-CBC(zero IV) of the zero-padded content"
        # secrets in clear?
        needles = [("session key", key)] if key != bytes(16) else []
        if framing != "bf3":
            needles += [("security code", code), ("customer key", ckey)]
        for c in comps:
            if c.encrypt_by_session_key:
                for o in range(0, len(c.blob) - 15, 16):
                    blk = c.blob[o:o + 16]
                    if len(set(blk)) > 4:
                        needles.append(("configuration plaintext", blk))
        for what, nd in needles:
            if len(nd) >= 8 and len(set(nd)) > 4 and nd in binary:
                return f"FAIL {framing}: {what} appears in clear in the written file"
        # read back
        try:
            if framing == "bf3":
                got = Bf3File.read_file(CStream(b3.to_text(binary)), True, key).components
            else:
                back = Bec2File.read_file(CStream(b3.to_text(binary)), [SoftwareCustKeyEncryptor(bytes(range(16)), ckey, 0)], True)
                if back.session_key != key:
                    return f"FAIL {framing}: the file reads back with another session key than the writing object reports"
                got = back.bf3file.components
        except Exception as e:
            return f"FAIL {framing}: reader raises {type(e).__name__}: {e}"
        for i, (c, g) in enumerate(zip(comps, got)):
            if c.encrypt_by_session_key and c.description.get(0xC2) == b"\x02":
                if g.blob[:c.actual_len] != c.blob[:c.actual_len] or g.actual_len != c.actual_len:
                    return f"FAIL {framing}: component {i} does not decrypt to the original up to its declared length"
                if not g.encrypt_by_session_key:
                    return f"FAIL {framing}: component {i} read back without the encrypted flag"
    return "ok"


@op("prop.c06nocipher")
def prop_c06nocipher(k, cs, mode):
    """cipher not registered / raising at the n-th call: writing must fail, never emit plaintext"""
    key = unhx(k)
    saved = getattr(crypto, "__AES128")
    calls = {"n": 0}
    fail_at = int(mode) if mode not in ("missing", "strict") else None

    class Flaky(saved):
        def encrypt(self, data):
            calls["n"] += 1
            if calls["n"] == fail_at:
                raise RuntimeError("cipher failure injected")
            return super().encrypt(data)

    class Strict(saved):
        """a cipher that, like most AES libraries, refuses data that is not a whole number of blocks: the zero padding is the
        library's job (`crypto.pad`), not the plug-in's"""
        _mac = False

        def mac(self, data):                     # MACs are taken over unaligned data by design (the plug-in pads those)
            self._mac = True
            try:
                return super().mac(data)
            finally:
                self._mac = False

        def encrypt(self, data):
            if not self._mac and (len(data) % 16 or not data):
                raise ValueError(f"strict cipher: {len(data)} bytes are not a whole number of blocks")
            return super().encrypt(data)

    if mode == "strict":
        try:
            want = mkfile({}, b3.parse_comps(cs)).to_binary(5, key)
        except OverflowError:
            return "ok writer-rejects OverflowError"      # an entry beyond the 255-byte directory-entry limit
        try:
            crypto.register_AES128(Strict)
            try:
                got = mkfile({}, b3.parse_comps(cs)).to_binary(5, key)
            except ValueError as e:
                return f"FAIL the library hands the registered cipher unpadded data: {e}"
            except OverflowError:
                return "ok writer-rejects OverflowError"
            return "ok strict" if got == want else "FAIL another file is written under a cipher that insists on whole blocks"
        finally:
            crypto.register_AES128(saved)
    try:
        crypto.register_AES128(crypto.AES128 if mode == "missing" else Flaky)
        try:
            out = mkfile({}, b3.parse_comps(cs)).to_binary(5, key)
        except NotImplementedError:
            return "ok NotImplementedError" if mode == "missing" else "FAIL NotImplementedError from a registered cipher"
        except RuntimeError as e:
            return "ok propagated" if "injected" in str(e) else f"FAIL {e}"
        except Exception as e:
            return f"ok raised {type(e).__name__}"
        if mode == "missing" and b3.parse_comps(cs):
            return "FAIL file written although no cipher is registered"
        if fail_at is not None and calls["n"] >= fail_at:
            return "FAIL cipher failure swallowed: file written"
        return "ok not-reached"
    finally:
        crypto.register_AES128(saved)


@op("prop.c07")
def prop_c07(seq, bs, es, ephs, rand):
    """histories of constructions and writes: one fresh 16-byte key per file, never redrawn on write;
    one fresh ephemeral key per ECC block per write; all blocks wrap the body key"""
    nfiles, nwrites = (int(x) for x in seq.split(","))
    rnd = unhx(rand)
    wencs = parse_encs(es)
    with Oracle(parse_nats(ephs), rnd) as o:
        files = []
        for i in range(nfiles):
            before = len(o.log)
            f = Bec2File(Bf3File(), parse_blocks(bs))
            if o.log[before:] != ["rand16"]:
                return f"FAIL construction {i} drew {o.log[before:]} instead of exactly one 16-byte random key"
            if f.session_key != rnd[16 * i:16 * i + 16]:
                return f"FAIL construction {i}: key is not the next 16 fresh random bytes"
            files.append(f)
        if len({f.session_key for f in files}) != len(files):
            return "FAIL two files share a session key"
        necc = sum(1 for b in files[0].auth_blocks.values() if isinstance(b, InitEccAuthBlock))
        seen_points = set()
        for i, f in enumerate(files):
            for w in range(nwrites):
                before = len(o.log)
                key_before = f.session_key
                binary = f.to_binary(wencs)
                drew = o.log[before:]
                if drew != ["keygen"] * necc:
                    return f"FAIL write {w} of file {i} drew {drew}; expected {necc} key generation(s) and no random bytes"
                if f.session_key != key_before:
                    return "FAIL the session key changed on writing"
                tlvs, off = _header_tlvs(binary)
                for (t, v), blk in zip(tlvs, f.auth_blocks.values()):
                    if isinstance(blk, InitEccAuthBlock):
                        if v[2:66] in seen_points:
                            return "FAIL an ephemeral public point was reused"
                        seen_points.add(v[2:66])
                    dec = _matching_decryptor(blk, wencs)
                    try:
                        _, sk = type(blk).unpack(v, [dec])
                    except Exception as e:
                        return f"FAIL block tag {t} of the writer's own header does not unpack: {type(e).__name__}"
                    if sk != f.session_key:
                        return f"FAIL block tag {t} wraps {sk.hex()} but the body key is {f.session_key.hex()}"
                try:
                    layout.parse(f.session_key, off, binary[off:], True)
                except layout.Bad as e:
                    return f"FAIL body is not authenticated by the session key: {e}"
    return "ok"


@op("prop.c07splice")
def prop_c07splice(k1, k2, bs, es, ephs):
    """blocks wrapping two different keys spliced into one header must be rejected"""
    wencs = parse_encs(es)
    blocks = parse_blocks(bs)
    if len(blocks) < 2 or k1 == k2:
        return "ok n/a"
    with Oracle(parse_nats(ephs)):
        a = Bec2File(Bf3File(), parse_blocks(bs), unhx(k1)).to_binary(wencs)
        b = Bec2File(Bf3File(), parse_blocks(bs), unhx(k2)).to_binary(wencs)
    ta, offa = _header_tlvs(a)
    tb, _ = _header_tlvs(b)
    spl = [ta[0]] + tb[1:]
    hdr = BEC2_FILE_SIG + b"".join(bytes([t, len(v)]) + v for t, v in spl) + b"\x00\x00"
    body = Bf3File().to_binary(len(hdr), unhx(k1))
    decs = [_matching_decryptor(x, wencs) for x in Bec2File(Bf3File(), parse_blocks(bs), unhx(k1)).auth_blocks.values()]
    try:
        f = Bec2File.read_file(CStream(b3.to_text(hdr + body)), decs, True)
    except bec2.Bec2FileFormatError:
        pass
    except Exception as e:
        pass
    else:
        return f"FAIL header whose blocks wrap different keys accepted with key {f.session_key.hex()}"
    # degenerate keys: one block is a genuine container (right wrapping key, marker, CRC) around a payload that yields an
    # empty, a short or an over-long "session key"; the other blocks wrap the real key.  Still different keys: rejected.
    bl = bs.split(",")
    el = [] if es == "-" else es.split(",")
    for i, b in enumerate(bl):
        if b.startswith("u"):
            wk = sha256(unhx(b[1:].split(":")[0])).digest()[:16]
        elif b == "c" and any(x[0] == "C" for x in el):
            wk = unhx(next(x for x in el if x[0] == "C")[1:].split(":")[0])
        else:
            continue
        t, v = ta[i]
        if not v or len(v) % 16:
            continue
        fr = refaes.cbc_decrypt(wk, bytes(16), v)
        if fr[0:1] != b"B" or fr[1] < 2:
            continue
        payload = fr[len(fr) - 2 - (fr[1] - 2):-2]
        k1b = unhx(k1)
        for what, alt in (("an empty", b""), ("a 15-byte", k1b[:15]), ("no", None)):
            if b == "c":      # customer-key slot, then the key: the reader takes the last 16 bytes
                pv = payload[:-16] + alt if alt is not None else b""
                spec = next(x for x in el if x[0] == "C")[1:].split(":")
                blanked = bytearray(pv)
                if spec[1] != "-":
                    p0 = parse_int(spec[2])
                    blanked[p0:p0 + 10] = bytes(10)[:max(0, min(10, len(pv) - p0))] if 0 <= p0 <= len(pv) else b""
                implied = bytes(blanked)[-16:]
            else:             # the key, then the version byte: the reader takes the first 16 bytes
                pv = alt + payload[16:] if alt is not None else b""
                implied = pv[:16]
            if implied == k1b:
                continue
            z = 16 - ((len(pv) + 4) % 16)
            fr2 = b"B" + bytes([len(pv) + 2]) + bytes(z) + pv + bitserial(pv).to_bytes(2, "big")
            t2 = list(ta)
            t2[i] = (t, refaes.cbc_encrypt(wk, bytes(16), fr2))
            hdr2 = BEC2_FILE_SIG + b"".join(bytes([x, len(y)]) + y for x, y in t2) + b"\x00\x00"
            body2 = Bf3File().to_binary(len(hdr2), k1b)
            try:
                with Oracle((), FRESH_KEY):
                    f = Bec2File.read_file(CStream(b3.to_text(hdr2 + body2)), decs, True)
            except Exception:
                continue
            return (f"FAIL block {i} re-wrapped around {what} session key next to blocks that wrap {k1}: accepted with key "
                    f"{f.session_key.hex()}")
    return "ok rejected"


@op("prop.c07unknown")
def prop_c07unknown(k, bs, es, ephs, ephs2, keep):
    """blocks without a matching decryptor are kept byte for byte when the file is written again"""
    key = unhx(k)
    wencs = parse_encs(es)
    blist = parse_blocks(bs)
    if key[3] % 2:
        # a block of a kind this version does not know at all (a tag outside the class map), anywhere in the header
        # tag 00 with a value is an ordinary block too (only 00 00 ends the list)
        utag = [0x04, 0x7F, 0xFE, 0x10, 0x00][key[5] % 5]
        uval = bytes(key[6:6 + key[7] % 9]) * 3
        blist.insert(key[4] % (len(blist) + 1), UnknownAuthBlock(utag, uval if (utag or uval) else b"\xaa\xbb\xcc"))
    with Oracle(parse_nats(ephs)):
        f0 = Bec2File(Bf3File(), blist, key)
        a = f0.to_binary(wencs)
    blocks = list(f0.auth_blocks.values())
    opened = [i for i, b in enumerate(blocks) if not isinstance(b, UnknownAuthBlock)]
    keep = opened[int(keep) % len(opened)]
    dec = _matching_decryptor(blocks[keep], wencs)
    # second reading list: the decryptor of one block, followed by the writer's encrypt-only encryptors (public ECC keys):
    # they match other blocks but cannot open them, so those blocks still have no decryptor
    pubonly = [e if type(e) is EccEncryptor else EccEncryptor(e.key_selector, e.public_key)
               for e in wencs if isinstance(e, EccEncryptor) and e is not dec]
    for rlist, what in (([dec], "one decryptor"), ([dec] + pubonly, "one decryptor + the writer's public-key encryptors")):
        try:
            f = Bec2File.read_file(CStream(b3.to_text(a)), list(rlist), True)
        except Exception as e:
            return f"FAIL reading with {what} raises {type(e).__name__}: {e}"
        with Oracle(parse_nats(ephs2)):
            b = f.to_binary([dec])
        ta, _ = _header_tlvs(a)
        tb, _ = _header_tlvs(b)
        if len(ta) != len(tb):
            return f"FAIL number of header blocks changed on re-writing ({what})"
        for i, (x, y) in enumerate(zip(ta, tb)):
            if i != keep and x != y:
                return f"FAIL unopened block {i} (tag {x[0]}) changed on re-writing ({what})"
            if i == keep and x[0] != y[0]:
                return f"FAIL opened block {i} moved ({what})"
        if f.session_key != key:
            return f"FAIL the file object read with {what} carries session key {f.session_key.hex()} instead of {key.hex()}"
    # the rewritten file still has ONE session key: the kept blocks and the re-packed block wrap the same key,
    # and it is the key of the original file
    if f.session_key != key:
        return f"FAIL the file object read with a subset of decryptors carries session key {f.session_key.hex()} instead of {key.hex()}"
    try:
        g2 = Bec2File.read_file(CStream(b3.to_text(b)), list(wencs) + [dec], True)
    except Exception as e:
        return f"FAIL the re-written file is not readable with all decryptors: {type(e).__name__}: {e}"
    if g2.session_key != key:
        return f"FAIL the re-written file wraps session key {g2.session_key.hex()} instead of {key.hex()}"
    return "ok"


def _pem(kind, der):
    b = base64.encodebytes(der).decode()
    return f"-----BEGIN {kind}-----\n{b}-----END {kind}-----\n"


def _openssl_derive(priv_pem, peer_der):
    d = tempfile.mkdtemp(prefix="bec2verif_ossl_")
    try:
        kp, pp = os.path.join(d, "k.pem"), os.path.join(d, "p.pem")
        open(kp, "w").write(priv_pem)
        open(pp, "w").write(_pem("PUBLIC KEY", peer_der))
        r = subprocess.run(["openssl", "pkeyutl", "-derive", "-inkey", kp, "-peerkey", pp],
                           stdout=subprocess.PIPE, stderr=subprocess.PIPE, timeout=30)
        if r.returncode != 0:
            raise RuntimeError("openssl: " + r.stderr.decode()[:200])
        return r.stdout
    finally:
        for f in os.listdir(d):
            os.unlink(os.path.join(d, f))
        os.rmdir(d)


def _sec1_der(d):
    """SEC1 ECPrivateKey for P-256 with named curve, built by hand (independent of the library's DER code)"""
    priv = d.to_bytes(32, "big")
    oid = bytes.fromhex("06082A8648CE3D030107")
    body = b"\x02\x01\x01" + b"\x04\x20" + priv + b"\xa0" + bytes([len(oid)]) + oid
    return b"\x30" + bytes([len(body)]) + body


HEADER27 = bytes.fromhex("3059301306072A8648CE3D020106082A8648CE3D03010703420004")


@op("prop.c09")
def prop_c09(sel, d, eph, k, explicit):
    """the ECC block is: selector, 04, a valid ephemeral P-256 point, AES-128-CBC(SHA-256(ECDH x)[:16]) of the session
    key - checked by decrypting it with OpenSSL's ECDH and an independent AES"""
    sel, d, eph, key = int(sel), int(d), int(eph), unhx(k)
    priv_pem = _pem("EC PRIVATE KEY", _sec1_der(d))
    r = subprocess.run(["openssl", "ec", "-pubout", "-outform", "DER"], input=priv_pem.encode(),
                       stdout=subprocess.PIPE, stderr=subprocess.PIPE, timeout=30)
    if r.returncode != 0:
        raise RuntimeError("harness: openssl ec failed " + r.stderr.decode()[:200])
    pub_der = r.stdout
    with Oracle([eph]):
        # the recipient as a public-key encryptor or - "Decryptor AND Encryptor" - as the decryptor that holds the private key
        encs = ([EccEncryptor(sel, crypto.create_public_ecc_key_from_der_fmt(pub_der))] if eph % 2 else [EccDecryptor(sel, priv_key(d))]) \
            if explicit == "1" else []
        if explicit != "1":
            return "ok n/a"
        # recipients of the other selectors (the published keys) and a security-code encryptor stand before / behind the
        # one this block is for: the block must still be addressed to the key of ITS selector
        others = [EccEncryptor(s2) for s2 in range(4) if s2 != sel] + [ConfigSecurityCodeEncryptor(bytes(8))]
        cut = eph % (len(others) + 1)
        encs = others[:cut] + encs + others[cut:]
        raw = InitEccAuthBlock(sel).pack(key, encs)
    if raw[0] != sel or raw[1] != 4 or len(raw) != 2 + 64 + 16:
        return f"FAIL block is not selector, 04, X, Y, 16 bytes ciphertext (len {len(raw)})"
    x, y = int.from_bytes(raw[2:34], "big"), int.from_bytes(raw[34:66], "big")
    p = 0xffffffff00000001000000000000000000000000ffffffffffffffffffffffff
    bb = 0x5ac635d8aa3a93e7b3ebbd55769886bc651d06b0cc53b0f63bce3c3e27d2604b
    if not (x < p and y < p and (y * y - (x * x * x - 3 * x + bb)) % p == 0):
        return "FAIL ephemeral point is not a valid P-256 point"
    secret = _openssl_derive(priv_pem, HEADER27 + raw[2:66])
    aes_key = sha256(secret).digest()[:16]
    got = refaes.cbc_decrypt(aes_key, bytes(16), raw[66:])
    if got != key:
        return f"FAIL OpenSSL ECDH + SHA-256 + AES-128-CBC recovers {got.hex()} instead of the session key"
    # and the library's own decryptor agrees
    blk, sk = InitEccAuthBlock.unpack(raw, [EccDecryptor(sel, priv_key(d))])
    if sk != key or blk.key_selector != sel:
        return "FAIL the library's decryptor does not recover the session key"
    return "ok"


@op("prop.c07default")
def prop_c07default(sel, eph, k, with_update):
    """a file written WITHOUT a recipient for its ECC block: the block is for the published key of ITS selector and wraps the
    session key of the file (the ephemeral scalar comes from the oracle, so the block can be opened with eph * published key)"""
    import refec
    sel, eph, key = int(sel), int(eph), unhx(k)
    P = refec.P256
    blocks = [InitEccAuthBlock(sel)] + ([UpdateAuthBlock(bytes(range(8)), 5)] if with_update == "1" else [])
    f = Bec2File(mkfile({}, [Bf3Component({0xC3: b"\x02"}, b"payload")]), blocks, key)
    with Oracle([eph]):
        try:
            hdr = f.pack_auth_blocks()
        except KeyError:
            return "ok KeyError" if sel not in EccEncryptor.DEFAULT_PUBLIC_KEYS else "FAIL KeyError for a published selector"
    if hdr[0] != 3:
        return "FAIL the ECC block is not the first block"
    raw = hdr[2:2 + hdr[1]]
    if raw[0] != sel or raw[1] != 4 or len(raw) != 82:
        return "FAIL malformed ECC block"
    pub = bytes(EccEncryptor.DEFAULT_PUBLIC_KEYS[sel])[-64:]
    Q = (int.from_bytes(pub[:32], "big"), int.from_bytes(pub[32:], "big"))
    shared = refec.mul(P, eph, Q)[0].to_bytes(32, "big")
    got = refaes.cbc_decrypt(sha256(shared).digest()[:16], bytes(16), raw[66:])
    if got != key:
        return (f"FAIL the ECC block announces selector {sel} but the holder of the published key of selector {sel} recovers "
                f"{got.hex()} instead of the session key of the file")
    return "ok"


@op("prop.c07realrand")
def prop_c07realrand(sel, d, nfiles):
    """no oracle: the registered key generator and random source themselves.  Every file written without a session key gets
    its own 16-byte key, every ECC block its own ephemeral P-256 key pair, and the recipient - whose private key is loaded
    from its DER form, as the application notes do - recovers the key with an ECIES written with the independent arithmetic"""
    import refec
    sel, d, nfiles = int(sel), int(d), int(nfiles)
    P = refec.P256
    recipient_priv = plugin.PrivateEccKeyProxy.create_from_der_fmt(_sec1_der(d))
    if recipient_priv is None:
        return "FAIL PrivateEccKey.create_from_der_fmt returns no key object"
    q = refec.mul(P, d, (P["gx"], P["gy"]))
    if recipient_priv.public_key.to_raw_bin_fmt() != q[0].to_bytes(32, "big") + q[1].to_bytes(32, "big"):
        return "FAIL the private key loaded from DER has another public key than d*G"
    keys, ephs = [], []
    for i in range(nfiles):
        f = Bec2File(mkfile({}, [Bf3Component({0xC3: b"\x02"}, bytes([i]) * 20)]), [InitEccAuthBlock(sel)])
        if not isinstance(f.session_key, bytes) or len(f.session_key) != 16:
            return f"FAIL a file built without session key has the key {f.session_key!r}"
        keys.append(f.session_key)
        for w in range(2):
            hdr = f.pack_auth_blocks([EccEncryptor(sel, recipient_priv.public_key)])
            raw = hdr[2:2 + hdr[1]]
            if raw[0] != sel or raw[1] != 4 or len(raw) != 82:
                return "FAIL malformed ECC block"
            E = (int.from_bytes(raw[2:34], "big"), int.from_bytes(raw[34:66], "big"))
            if not refec.on_curve(P, E):
                return "FAIL the ephemeral public key of an ECC block is not a point of P-256"
            ephs.append(E)
            shared = refec.mul(P, d, E)[0].to_bytes(32, "big")
            got = refaes.cbc_decrypt(sha256(shared).digest()[:16], bytes(16), raw[66:])
            if got != f.session_key:
                return "FAIL the recipient does not recover the session key from a block made with a generated ephemeral key"
            back, sk = InitEccAuthBlock.unpack(raw, [EccDecryptor(sel, recipient_priv)])
            if sk != f.session_key:
                return "FAIL EccDecryptor with the DER-loaded private key does not recover the session key"
    if len(set(keys)) != len(keys):
        return "FAIL two files drew the same session key"
    if len(set(ephs)) != len(ephs):
        return "FAIL two ECC blocks used the same ephemeral key"
    return "ok"


@op("prop.c09hist")
def prop_c09hist(sel, seed, steps):
    """ONE InitEccAuthBlock object (and one Bec2File holding it) packed again and again for different recipients: every
    block is addressed to the recipient of THAT call - an explicit encryptor of the block's selector, else the published
    key - judged by an ECIES written with the independent arithmetic (ephemeral scalar from the oracle)"""
    import random as _r
    import refec
    rng = _r.Random(int(seed))
    sel = int(sel)
    P = refec.P256
    G = (P["gx"], P["gy"])
    blk = InitEccAuthBlock(sel)
    dA, dB = rng.randrange(1, P["n"]), rng.randrange(1, P["n"])

    def raw_pub(d):
        q = refec.mul(P, d, G)
        return q[0].to_bytes(32, "big") + q[1].to_bytes(32, "big")

    recipients = {
        "default": (lambda: [], bytes(EccEncryptor.DEFAULT_PUBLIC_KEYS[sel])[-64:]),
        "A": (lambda: [EccEncryptor(sel, crypto.create_public_ecc_key_from_raw_fmt(raw_pub(dA)))], raw_pub(dA)),
        "B": (lambda: [ConfigSecurityCodeEncryptor(bytes(8)), EccDecryptor(sel, priv_key(dB))], raw_pub(dB)),
        "other-selector": (lambda: [EccEncryptor((sel + 1) % 4, crypto.create_public_ecc_key_from_raw_fmt(raw_pub(dA)))],
                           bytes(EccEncryptor.DEFAULT_PUBLIC_KEYS[sel])[-64:]),
    }
    trail = []
    bec = None
    # the recipients' own long-lived decryptor objects: each opens every block that was made for it, one after the other
    openers = {"A": EccDecryptor(sel, priv_key(dA)), "B": EccDecryptor(sel, priv_key(dB))}
    for step in range(int(steps)):
        who = rng.choice(list(recipients))
        mk, pub = recipients[who]
        eph = rng.randrange(1, P["n"])
        key = bytes(rng.randrange(256) for _ in range(16))
        via_file = rng.random() < 0.4
        trail.append(f"{who}{'(file)' if via_file else ''}")
        with Oracle([eph]):
            if via_file:
                if bec is None:
                    bec = Bec2File(mkfile({}, []), [blk], key)
                bec.session_key = key
                hdr = bec.pack_auth_blocks(mk())
                raw = hdr[2:2 + hdr[1]]
            else:
                raw = blk.pack(key, mk())
        if raw[0] != sel or raw[1] != 4 or len(raw) != 82:
            return f"FAIL step {step} ({' '.join(trail)}): malformed block"
        Q = (int.from_bytes(pub[:32], "big"), int.from_bytes(pub[32:], "big"))
        shared = refec.mul(P, eph, Q)[0].to_bytes(32, "big")
        got = refaes.cbc_decrypt(sha256(shared).digest()[:16], bytes(16), raw[66:])
        if got != key:
            return (f"FAIL after packing the same block object for {' '.join(trail)}: the last block is not addressed to its "
                    f"recipient ({who}): the recipient's key recovers {got.hex()} instead of the session key {key.hex()}")
        if who in openers:
            try:
                back, sk = InitEccAuthBlock.unpack(raw, [openers[who]])
            except Exception as e:
                return f"FAIL after {' '.join(trail)}: the recipient's long-lived decryptor object raises {type(e).__name__}: {e}"
            if sk != key:
                return (f"FAIL after {' '.join(trail)}: the recipient's long-lived decryptor object (it has opened "
                        f"{sum(1 for t in trail[:-1] if t.startswith(who))} blocks before) recovers {bytes(sk).hex()} instead of {key.hex()}")
    return "ok"


@op("prop.c09default")
def prop_c09default(sel, eph, k):
    """without explicit recipient the block is addressed to the published key of its selector"""
    sel, eph, key = int(sel), int(eph), unhx(k)
    used = []
    orig = EccEncryptor.encrypt

    def spy(self, pt):
        used.append(self.public_key.to_der_fmt())
        return orig(self, pt)

    EccEncryptor.encrypt = spy
    try:
        with Oracle([eph]):
            try:
                raw = InitEccAuthBlock(sel).pack(key, [])
            except KeyError:
                return "ok KeyError" if sel not in EccEncryptor.DEFAULT_PUBLIC_KEYS else "FAIL KeyError for a published selector"
    finally:
        EccEncryptor.encrypt = orig
    if sel not in EccEncryptor.DEFAULT_PUBLIC_KEYS:
        return "FAIL a block for a selector without published key was written"
    if used != [EccEncryptor.DEFAULT_PUBLIC_KEYS[sel]]:
        return f"FAIL block for selector {sel} is not addressed to the published key of that selector"
    if raw[0] != sel:
        return "FAIL selector byte"
    return "ok"


@op("prop.c09reject")
def prop_c09reject(d, rawpoint):
    """unwrapping refuses ephemeral points that are not valid curve points"""
    d, pt = int(d), unhx(rawpoint)
    blk = b"\x00\x04" + pt + bytes(16)
    try:
        InitEccAuthBlock.unpack(blk, [EccDecryptor(0, priv_key(d))])
    except Exception as e:
        return "ok " + type(e).__name__
    return "FAIL invalid ephemeral point accepted"
