import io
from hashlib import sha256
from impl import op, hx, unhx, err
import impl_bf3 as b3
import register_crypto_plugin as plugin
import bec2format.crypto as crypto
import bec2format.bec2file as bec2
from bec2format.bec2file import (AesEncryptorMixin, SoftwareCustKeyEncryptor, ConfigSecurityCodeEncryptor,
                                 EccEncryptor, EccDecryptor, InitCustKeyAuthBlock, InitEccAuthBlock,
                                 UpdateAuthBlock, UnknownAuthBlock, Bec2File, BEC2_FILE_SIG)
from bec2format.bf3file import Bf3File
from register_crypto_plugin.ecdsa import NIST256p, SigningKey


def priv_key(d: int):
    return plugin.PrivateEccKeyProxy(SigningKey.from_secret_exponent(d, curve=NIST256p))


class Oracle:
    """deterministic stand-in for os.urandom / key generation; records every draw"""

    def __init__(self, ephs=(), rand=b""):
        self.ephs, self.rand = list(ephs), bytes(rand)
        self.log = []

    def __enter__(self):
        self.saved = (getattr(crypto, "__PrivateEccKey"), getattr(crypto, "__random_bytes"))
        oracle = self

        class Stub(plugin.PrivateEccKeyProxy):
            @classmethod
            def generate(cls):
                oracle.log.append("keygen")
                if not oracle.ephs:
                    raise RuntimeError("harness: ephemeral-key oracle exhausted")
                return priv_key(oracle.ephs.pop(0))

        def rnd(n):
            oracle.log.append(f"rand{n}")
            if len(oracle.rand) < n:
                raise RuntimeError("harness: random oracle exhausted")
            out, oracle.rand = oracle.rand[:n], oracle.rand[n:]
            return out

        crypto.register_PrivateEccKey(Stub)
        crypto.register_random_bytes(rnd)
        return self

    def __exit__(self, *a):
        crypto.register_PrivateEccKey(self.saved[0])
        crypto.register_random_bytes(self.saved[1])


def parse_int(s):
    return -int(s[1:]) if s.startswith("n") else int(s)


def parse_block(s):
    if s == "c":
        return InitCustKeyAuthBlock()
    if s[0] == "e":
        return InitEccAuthBlock(int(s[1:]))
    if s[0] == "u":
        c, v = s[1:].split(":")
        return UpdateAuthBlock(unhx(c), int(v))
    t, r = s[1:].split(":")
    return UnknownAuthBlock(int(t), unhx(r))


def parse_blocks(s):
    return [] if s == "-" else [parse_block(x) for x in s.split(",")]


def show_block(b):
    if isinstance(b, InitCustKeyAuthBlock):
        return "c"
    if isinstance(b, InitEccAuthBlock):
        return f"e{b.key_selector}"
    if isinstance(b, UpdateAuthBlock):
        return f"u{hx(b.config_security_code)}:{b.version}"
    return f"x{b.tag}:{hx(b.binary_value)}"


def show_blocks(bs):
    bs = list(bs)
    return ",".join(show_block(b) for b in bs) if bs else "-"


def parse_enc(s):
    body = s[1:]
    if s[0] == "C":
        k, ck, pos = body.split(":")
        return SoftwareCustKeyEncryptor(unhx(k), unhx(ck), parse_int(pos))
    if s[0] == "P":
        sel, pub = body.split(":")
        return EccEncryptor(int(sel), crypto.create_public_ecc_key_from_raw_fmt(unhx(pub)))
    if s[0] == "D":
        sel, d = body.split(":")
        return EccDecryptor(int(sel), priv_key(int(d)))
    return ConfigSecurityCodeEncryptor(unhx(body))


def parse_encs(s):
    return [] if s == "-" else [parse_enc(x) for x in s.split(",")]


def parse_nats(s):
    return [] if s == "-" else [int(x) for x in s.split(",")]


def guard(f):
    def g(*a):
        try:
            return f(*a)
        except RuntimeError as e:
            if str(e).startswith("harness:"):
                raise
            return err(e)
        except Exception as e:
            return err(e)
    g.__name__ = f.__name__
    return g


@op("wrap")
@guard
def wrap(k, d):
    return "ok " + hx(AesEncryptorMixin(unhx(k)).encrypt(unhx(d)))


@op("unwrap")
@guard
def unwrap(k, d):
    return "ok " + hx(AesEncryptorMixin(unhx(k)).decrypt(unhx(d)))


@op("ck.enc")
@guard
def ck_enc(k, ck, pos, d):
    return "ok " + hx(SoftwareCustKeyEncryptor(unhx(k), unhx(ck), parse_int(pos)).encrypt(unhx(d)))


@op("ck.dec")
@guard
def ck_dec(k, ck, pos, d):
    return "ok " + hx(SoftwareCustKeyEncryptor(unhx(k), unhx(ck), parse_int(pos)).decrypt(unhx(d)))


@op("sha256")
def sha(d):
    return "ok " + hx(sha256(unhx(d)).digest())


@op("csc.key")
@guard
def csc_key(c):
    return "ok " + hx(ConfigSecurityCodeEncryptor(unhx(c)).cipher._key)


@op("ecc.pub")
@guard
def ecc_pub(d):
    return "ok " + hx(priv_key(int(d)).public_key.to_raw_bin_fmt())


@op("ecc.load")
@guard
def ecc_load(r):
    return "ok " + hx(crypto.create_public_ecc_key_from_raw_fmt(unhx(r)).to_raw_bin_fmt())


@op("ecc.dh")
@guard
def ecc_dh(d, r):
    return "ok " + hx(priv_key(int(d)).compute_dh_secret(crypto.create_public_ecc_key_from_raw_fmt(unhx(r))))


@op("ecc.enc")
@guard
def ecc_enc(pub, eph, d):
    with Oracle([int(eph)]):
        return "ok " + hx(EccEncryptor(0, crypto.create_public_ecc_key_from_raw_fmt(unhx(pub))).encrypt(unhx(d)))


@op("ecc.dec")
@guard
def ecc_dec(priv, d):
    return "ok " + hx(EccDecryptor(0, priv_key(int(priv))).decrypt(unhx(d)))


@op("bec2.pack")
@guard
def bec2_pack(k, bs, es, ephs):
    with Oracle(parse_nats(ephs)) as o:
        f = Bec2File(Bf3File(), parse_blocks(bs), unhx(k))
        out = f.pack_auth_blocks(parse_encs(es))
        return "ok " + hx(out) + " " + str(len(o.ephs))


@op("bec2.tobin")
@guard
def bec2_tobin(k, bs, cs, es, ephs):
    with Oracle(parse_nats(ephs)) as o:
        f = Bec2File(Bf3File({}, b3.parse_comps(cs)), parse_blocks(bs), unhx(k))
        out = f.to_binary(parse_encs(es))
        return "ok " + hx(out) + " " + str(len(o.ephs))


def show_file(f):
    return f"{hx(f.session_key)} {show_blocks(f.auth_blocks.values())} {b3.show_comps(f.bf3file.components)}"


@op("bec2.read")
@guard
def bec2_read(chk, es, b):
    f = Bec2File.read_file(io.StringIO(b3.to_text(unhx(b))), parse_encs(es), chk == "1")
    return "ok " + show_file(f)


@op("bec2.readtext")
@guard
def bec2_readtext(chk, es, t):
    f = Bec2File.read_file(io.StringIO(b3.parse_str(t)), parse_encs(es), chk == "1")
    return "ok " + b3.show_comments(f.bf3file.comments) + " " + show_file(f)


# ------------------------------------------------------------------ direct property evaluation
import refaes
from refaes import bitserial


def frame_check(key, payload, ct):
    """independent check of the container frame (C08): returns None or a description"""
    if len(ct) % 16 or not ct:
        return f"ciphertext length {len(ct)} is not a positive multiple of 16"
    fr = refaes.cbc_decrypt(key, bytes(16), ct)
    if fr[0:1] != b"B":
        return "frame does not start with 'B'"
    if fr[1] != len(payload) + 2:
        return f"length byte {fr[1]} != payload length + 2 = {len(payload) + 2}"
    z = len(fr) - 2 - len(payload) - 2
    if not 1 <= z <= 16:
        return f"{z} padding bytes (must be 1..16)"
    if fr[2:2 + z] != bytes(z):
        return "padding bytes are not zero"
    if fr[2 + z:2 + z + len(payload)] != payload:
        return "payload bytes differ"
    if fr[-2:] != bitserial(payload).to_bytes(2, "big"):
        return "CRC-16 differs from the bit-serial CRC of the payload"
    return None


@op("prop.c08")
def prop_c08(k, d):
    key, p = unhx(k), unhx(d)
    enc = AesEncryptorMixin(key)
    try:
        ct = enc.encrypt(p)
    except OverflowError:
        return "ok overflow" if len(p) > 253 else f"FAIL writer raises OverflowError for a {len(p)}-byte payload"
    except Exception as e:
        return f"FAIL wrap raises {type(e).__name__}: {e}"
    if len(p) > 253:
        return f"FAIL a {len(p)}-byte payload was wrapped (length byte cannot hold it)"
    bad = frame_check(key, p, ct)
    if bad:
        return "FAIL frame: " + bad
    try:
        back = AesEncryptorMixin(key).decrypt(ct)
    except Exception as e:
        return f"FAIL unwrap of the wrapper's own output raises {type(e).__name__}: {e}"
    if back != p:
        return f"FAIL unwrap returns {back.hex()} instead of the payload"
    # under another key: must be an error (holds up to 2^-24; search-only clause)
    other = bytes([key[0] ^ 1]) + key[1:]
    try:
        got = AesEncryptorMixin(other).decrypt(ct)
        return f"FAIL frame made under another key unwraps to {got.hex()[:40]}"
    except Exception:
        pass
    return "ok"


@op("prop.c08bad")
def prop_c08bad(k, f):
    """a hand-made frame with a wrong marker or a wrong CRC must be reported as an error"""
    key, fr = unhx(k), unhx(f)
    ct = refaes.cbc_encrypt(key, bytes(16), fr)
    try:
        got = AesEncryptorMixin(key).decrypt(ct)
    except Exception as e:
        return "ok " + type(e).__name__
    return f"FAIL invalid frame {fr.hex()} accepted, payload {got.hex()}"


@op("prop.c08ck")
def prop_c08ck(k, ck, pos, d):
    key, c, pos, p = unhx(k), unhx(ck), int(pos), unhx(d)
    e = SoftwareCustKeyEncryptor(key, c, pos)
    ct = e.encrypt(p)
    fr = refaes.cbc_decrypt(key, bytes(16), ct)
    inner = fr[len(fr) - 2 - len(p):-2]
    want = p[:pos] + c + p[pos + 10:]
    if inner != want:
        return f"FAIL wrapped plaintext {inner.hex()} != payload with the customer key in its slot {want.hex()}"
    back = SoftwareCustKeyEncryptor(key, c, pos).decrypt(ct)
    if back != p[:pos] + bytes(10) + p[pos + 10:]:
        return f"FAIL unwrap returns {back.hex()} (slot not blanked or payload changed)"
    other = bytes([c[0] ^ 0x55]) + c[1:]
    try:
        SoftwareCustKeyEncryptor(key, other, pos).decrypt(ct)
        return "FAIL a different customer key is accepted"
    except bec2.Bec2FileFormatError:
        pass
    return "ok"


@op("prop.csc")
def prop_csc(c):
    code = unhx(c)
    e = ConfigSecurityCodeEncryptor(code)
    want = sha256(code).digest()[:16]
    ct = e.encrypt(b"0123456789abcdef\x05")
    if frame_check(want, b"0123456789abcdef\x05", ct):
        return "FAIL security-code container is not keyed with SHA-256(code)[:16]: " + frame_check(want, b"0123456789abcdef\x05", ct)
    return "ok"


@op("prop.c04bec2")
def prop_c04bec2(k, bs, cs, es, ephs, what, stride, offset):
    key, comps = unhx(k), b3.parse_comps(cs)
    with Oracle(parse_nats(ephs)):
        f0 = Bec2File(Bf3File({}, b3.parse_comps(cs)), parse_blocks(bs), key)
        binary = f0.to_binary(parse_encs(es))
    encs = parse_encs(es)

    def read(t):
        return Bec2File.read_file(io.StringIO(t), encs, True)

    def known(f):
        return [show_block(b) for b in f.auth_blocks.values() if not isinstance(b, UnknownAuthBlock)]

    try:
        base = read(b3.to_text(binary))
    except Exception as e:
        return "ok 0 undamaged-file-not-readable-with-these-decryptors " + type(e).__name__
    blocks0 = known(base)

    def same(f, text_prefix=False):
        if f.session_key != key:
            return f"session key {f.session_key.hex()} instead of {key.hex()}"
        d = b3.same_file(f.bf3file, f.bf3file.comments if text_prefix else {}, base.bf3file.components)
        if d:
            return d
        # blocks the reader could open must be the original ones; opaque (undecryptable) blocks carry no
        # authenticated content and are outside 'content'
        kf = known(f)
        if kf != blocks0:
            it = iter(blocks0)
            if all(any(x == y for y in it) for x in kf):
                # header tag/length bytes are not authenticated: an opened block can be turned into an opaque one
                return (f"KNOWN:HEADER-DOWNGRADE opened auth blocks {kf} are a proper sub-list of the original "
                        f"{blocks0} (session key and components unchanged)")
            return f"decrypted auth blocks {kf} instead of {blocks0}"
        return None

    n, bad = b3.damage_scan(read, binary, lambda b: b3.to_text(b), {}, same, what, int(stride), int(offset))
    if bad and bad.startswith("KNOWN:"):
        return "FAIL-KNOWN " + bad[6:]
    return ("FAIL " + bad) if bad else f"ok {n}"


def _expected_comps(comps):
    """what reading returns for the written components: encrypted ones come back zero-padded"""
    out = []
    for c in comps:
        if c.encrypt_by_session_key and c.description.get(0xC2) == b"\x02":
            blob = c.blob + bytes(-len(c.blob) % 16)
            c2 = b3.Bf3Component(dict(c.description), blob, None, True)
            c2.actual_len = c.actual_len
            out.append(c2)
        else:
            out.append(c)
    return out


import layout


@op("prop.c03bec2")
def prop_c03bec2(k, bs, cs, es, ephs):
    """BEC2 framing: signature, TLV auth blocks closed by 00 00, body laid out at offset = header length"""
    key, comps = unhx(k), b3.parse_comps(cs)
    try:
        with Oracle(parse_nats(ephs)):
            f0 = Bec2File(Bf3File({}, b3.parse_comps(cs)), parse_blocks(bs), key)
            out = f0.to_binary(parse_encs(es))
    except Exception as e:
        return "ok writer-rejects " + type(e).__name__
    if out[:5] != b"BEC2\x00":
        return "FAIL signature"
    o, tags = 5, []
    while True:
        if o + 2 > len(out):
            return "FAIL header TLV list is not closed by 00 00"
        t, ln = out[o], out[o + 1]
        o += 2
        if t == 0 and ln == 0:
            break
        tags.append(t)
        o += ln
    want_tags = [b.tag for b in f0.auth_blocks.values()]
    if tags != want_tags:
        return f"FAIL header block tags {tags} != {want_tags}"
    spec = []
    for c in comps:
        raw = refaes.cbc_encrypt(key, bytes(16), refaes.zero_pad(c.blob)) if c.encrypt_by_session_key else c.blob
        spec.append((list(c.description.items()), raw, c.actual_len))
    want = layout.serialize(key, o, spec)
    if out[o:] != want:
        return f"FAIL body after the {o}-byte header differs from the documented layout at offset {o}"
    return "ok"
