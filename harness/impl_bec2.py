import io
from hashlib import sha256
from impl import op, hx, unhx, err
import impl_bf3 as b3
import register_crypto_plugin as plugin
import bec2format.crypto as crypto
import bec2format.bec2file as bec2
from bec2format.bec2file import (AesEncryptorMixin, SoftwareCustKeyEncryptor, ConfigSecurityCodeEncryptor,
                                 EccEncryptor, EccDecryptor, InitCustKeyAuthBlock, InitEccAuthBlock,
                                 UpdateAuthBlock, UnknownAuthBlock, Bec2File, BEC2_FILE_SIG)
from bec2format.bf3file import Bf3File
from register_crypto_plugin.ecdsa import NIST256p, SigningKey


def priv_key(d: int):
    return plugin.PrivateEccKeyProxy(SigningKey.from_secret_exponent(d, curve=NIST256p))


class Oracle:
    """deterministic stand-in for os.urandom / key generation; records every draw"""

    def __init__(self, ephs=(), rand=b""):
        self.ephs, self.rand = list(ephs), bytes(rand)
        self.log = []

    def __enter__(self):
        self.saved = (getattr(crypto, "__PrivateEccKey"), getattr(crypto, "__random_bytes"))
        oracle = self

        class Stub(plugin.PrivateEccKeyProxy):
            @classmethod
            def generate(cls):
                oracle.log.append("keygen")
                if not oracle.ephs:
                    raise RuntimeError("harness: ephemeral-key oracle exhausted")
                return priv_key(oracle.ephs.pop(0))

        def rnd(n):
            oracle.log.append(f"rand{n}")
            if len(oracle.rand) < n:
                raise RuntimeError("harness: random oracle exhausted")
            out, oracle.rand = oracle.rand[:n], oracle.rand[n:]
            return out

        crypto.register_PrivateEccKey(Stub)
        crypto.register_random_bytes(rnd)
        return self

    def __exit__(self, *a):
        crypto.register_PrivateEccKey(self.saved[0])
        crypto.register_random_bytes(self.saved[1])


def parse_int(s):
    return -int(s[1:]) if s.startswith("n") else int(s)


def parse_block(s):
    if s == "c":
        return InitCustKeyAuthBlock()
    if s[0] == "e":
        return InitEccAuthBlock(int(s[1:]))
    if s[0] == "u":
        c, v = s[1:].split(":")
        return UpdateAuthBlock(unhx(c), int(v))
    t, r = s[1:].split(":")
    return UnknownAuthBlock(int(t), unhx(r))


def parse_blocks(s):
    return [] if s == "-" else [parse_block(x) for x in s.split(",")]


def show_block(b):
    if isinstance(b, InitCustKeyAuthBlock):
        return "c"
    if isinstance(b, InitEccAuthBlock):
        return f"e{b.key_selector}"
    if isinstance(b, UpdateAuthBlock):
        return f"u{hx(b.config_security_code)}:{b.version}"
    return f"x{b.tag}:{hx(b.binary_value)}"


def show_blocks(bs):
    bs = list(bs)
    return ",".join(show_block(b) for b in bs) if bs else "-"


def parse_enc(s):
    body = s[1:]
    if s[0] == "C":
        k, ck, pos = body.split(":")
        return SoftwareCustKeyEncryptor(unhx(k), unhx(ck), parse_int(pos))
    if s[0] == "P":
        sel, pub = body.split(":")
        return EccEncryptor(int(sel), crypto.create_public_ecc_key_from_raw_fmt(unhx(pub)))
    if s[0] == "D":
        sel, d = body.split(":")
        return EccDecryptor(int(sel), priv_key(int(d)))
    return ConfigSecurityCodeEncryptor(unhx(body))


def parse_encs(s):
    return [] if s == "-" else [parse_enc(x) for x in s.split(",")]


def parse_nats(s):
    return [] if s == "-" else [int(x) for x in s.split(",")]


def guard(f):
    def g(*a):
        try:
            return f(*a)
        except RuntimeError as e:
            if str(e).startswith("harness:"):
                raise
            return err(e)
        except Exception as e:
            return err(e)
    g.__name__ = f.__name__
    return g


@op("wrap")
@guard
def wrap(k, d):
    return "ok " + hx(AesEncryptorMixin(unhx(k)).encrypt(unhx(d)))


@op("unwrap")
@guard
def unwrap(k, d):
    return "ok " + hx(AesEncryptorMixin(unhx(k)).decrypt(unhx(d)))


@op("ck.enc")
@guard
def ck_enc(k, ck, pos, d):
    return "ok " + hx(SoftwareCustKeyEncryptor(unhx(k), unhx(ck), parse_int(pos)).encrypt(unhx(d)))


@op("ck.dec")
@guard
def ck_dec(k, ck, pos, d):
    return "ok " + hx(SoftwareCustKeyEncryptor(unhx(k), unhx(ck), parse_int(pos)).decrypt(unhx(d)))


@op("sha256")
def sha(d):
    return "ok " + hx(sha256(unhx(d)).digest())


@op("csc.key")
@guard
def csc_key(c):
    return "ok " + hx(ConfigSecurityCodeEncryptor(unhx(c)).cipher._key)


@op("ecc.pub")
@guard
def ecc_pub(d):
    return "ok " + hx(priv_key(int(d)).public_key.to_raw_bin_fmt())


@op("ecc.load")
@guard
def ecc_load(r):
    return "ok " + hx(crypto.create_public_ecc_key_from_raw_fmt(unhx(r)).to_raw_bin_fmt())


@op("ecc.dh")
@guard
def ecc_dh(d, r):
    return "ok " + hx(priv_key(int(d)).compute_dh_secret(crypto.create_public_ecc_key_from_raw_fmt(unhx(r))))


@op("ecc.enc")
@guard
def ecc_enc(pub, eph, d):
    with Oracle([int(eph)]):
        return "ok " + hx(EccEncryptor(0, crypto.create_public_ecc_key_from_raw_fmt(unhx(pub))).encrypt(unhx(d)))


@op("ecc.dec")
@guard
def ecc_dec(priv, d):
    return "ok " + hx(EccDecryptor(0, priv_key(int(priv))).decrypt(unhx(d)))


@op("bec2.pack")
@guard
def bec2_pack(k, bs, es, ephs):
    with Oracle(parse_nats(ephs)) as o:
        f = Bec2File(Bf3File(), parse_blocks(bs), unhx(k))
        out = f.pack_auth_blocks(parse_encs(es))
        return "ok " + hx(out) + " " + str(len(o.ephs))


@op("bec2.tobin")
@guard
def bec2_tobin(k, bs, cs, es, ephs):
    with Oracle(parse_nats(ephs)) as o:
        f = Bec2File(Bf3File({}, b3.parse_comps(cs)), parse_blocks(bs), unhx(k))
        out = f.to_binary(parse_encs(es))
        return "ok " + hx(out) + " " + str(len(o.ephs))


def show_file(f):
    return f"{hx(f.session_key)} {show_blocks(f.auth_blocks.values())} {b3.show_comps(f.bf3file.components)}"


@op("bec2.read")
@guard
def bec2_read(chk, es, b):
    f = Bec2File.read_file(io.StringIO(b3.to_text(unhx(b))), parse_encs(es), chk == "1")
    return "ok " + show_file(f)


@op("bec2.readtext")
@guard
def bec2_readtext(chk, es, t):
    f = Bec2File.read_file(io.StringIO(b3.parse_str(t)), parse_encs(es), chk == "1")
    return "ok " + b3.show_comments(f.bf3file.comments) + " " + show_file(f)
