"""C02 — BEC2 write-then-read recovers key, auth blocks and content for every key."""
import gen_bf3 as g
import gen_bec2 as gb
from core import hx
from refaes import bitserial

TRUSTED = [
    "Lean 4.33 kernel; axioms propext, Classical.choice, Quot.sound only",
    "Model/Bec2.lean, Model/P256.lean, Model/Ec.lean, Model/Sha256.lean tied to bec2file.py / the appnote plug-in / python-ecdsa / "
    "hashlib by the correspondence run (writer bytes and reader results with the RNG and key generator replaced by recording stubs)",
    "named hypotheses of bec2_read_write: CryptoInv (proved for the bundled AES plug-in: C16 aes_plugin_instance; bec2_read_write_aes), EccLaws = ECDH symmetric + generated "
    "public keys load (C17), MacLen (proved for the adapter)",
]
ASSUMPTIONS = [
    "customer-key position for the 26-byte init block is 0 (the 10-byte placeholder); other positions overwrite session-key "
    "bytes and are outside 'legal position' (compared between model and code, not part of the property)",
]
LEANCHECKER_MODULES = ["Bec2Verif.Props.C02"]


def crc_zero_versions(rng, key):
    """versions 0..255 for which CRC(key || version) has a 0x00 byte (frames the old rstrip broke)"""
    return [v for v in range(256) if 0 in bitserial(key + bytes([v])).to_bytes(2, "big")]


def gen_cases(ctx, n):
    rng = ctx.rng
    out = []
    for i in range(n):
        f = gb.gen_file(rng)
        # customer key only at the placeholder
        f["encs"] = ",".join(e if not e.startswith("C") else ":".join(e.split(":")[:2] + ["0"]) for e in f["encs"].split(","))
        if i % 4 == 0:
            key = g.rbytes(rng, 16 - (i // 4) % 17) + bytes((i // 4) % 17)   # k || 00^j
            f["key"] = hx(key) if key != bytes(16) else hx(g.rbytes(rng, 15) + b"\x00")
        if i % 5 == 0 and "u" in f["kinds"]:
            key = bytes.fromhex(f["key"])
            vs = crc_zero_versions(rng, key)
            if vs:
                f["blocks"] = ",".join((b.split(":")[0] + ":" + str(rng.choice(vs))) if b.startswith("u") else b
                                       for b in f["blocks"].split(","))
        out.append(f)
    return out


def run(ctx):
    ctx.rule = ("BEC2 files: every non-empty ordered subset of block kinds, selectors 0..3, versions incl. those whose CRC has a "
                "00 byte, session keys k||00^j for j=0..16, edge and random ECC scalars, customer key absent/present, content as "
                "in C01 plus an encrypted configuration component; read back with every subset (and both orders) of matching "
                "decryptors; non-trivial = distinct file")
    cases = gen_cases(ctx, 60 if ctx.quick else 2500)
    args = [f"{f['key']} {f['blocks']} {f['comps']} {f['encs']} {f['ephs']}" for f in cases]
    w = ctx.correspond(["bec2.tobin " + a for a in args], "bec2.tobin")
    rd = []
    for f, res in zip(cases, w):
        if res.startswith("ok "):
            b = res.split()[1]
            rd.append(f"bec2.read 1 {f['encs']} {b}")
            es = f["encs"].split(",")
            if len(es) > 1:
                rd.append(f"bec2.read 1 {','.join(es[1:])} {b}")
                rd.append(f"bec2.read 0 {es[0]} {b}")
            rd.append(f"bec2.read 1 - {b}")
    ctx.correspond(rd, "bec2.read")
    ctx.check_props(["prop.c02 " + a for a in args], "prop.c02")


def search(ctx):
    cases = gen_cases(ctx, 400)
    ctx.check_props([f"prop.c02 {f['key']} {f['blocks']} {f['comps']} {f['encs']} {f['ephs']}" for f in cases], "search.c02")
