"""generators for BF3 file objects (protocol encoding), shared by C01..C07"""
from core import hx

TAG_IDS = [0, 1, 2, 0x7F, 0x80, 0xC1, 0xC2, 0xC3, 0xC4, 0xC5, 0xC6, 0xC7, 0xC8, 0xC9, 0xFE, 0xFF]
PAY_LENS = [1, 2, 15, 16, 17, 31, 32, 33, 39, 40, 41, 47, 48, 49, 79, 80, 81, 119, 120, 121, 160, 255, 256, 257]


def rbytes(rng, n):
    return bytes(rng.randrange(256) for _ in range(n))


def gen_key(rng):
    r = rng.random()
    if r < 0.15:
        return bytes(16)
    if r < 0.35:
        j = rng.randrange(1, 16)
        return rbytes(rng, 16 - j) + bytes(j)          # trailing zero bytes
    if r < 0.45:
        return bytes(b | 0x80 for b in rbytes(rng, 16))  # top bit of every word set
    if r < 0.5:
        return bytes([0xFF] * 16)
    return rbytes(rng, 16)


def gen_payload(rng, big=2000):
    r = rng.random()
    n = rng.choice(PAY_LENS) if r < 0.7 else rng.randrange(1, big)
    p = rbytes(rng, n)
    r = rng.random()
    if r < 0.25:
        z = min(n, rng.choice([1, 2, 3, 15, 16, 17, 20]))
        p = p[: n - z] + bytes(z)                         # trailing zeros
    elif r < 0.32:
        p = bytes(n)                                      # all zero
    elif r < 0.37:
        p = bytes(n - 1) + b"\x01" if n > 1 else p
    return p


def gen_desc(rng, plain=True, maxtl=210):
    n = rng.choice([0, 0, 1, 1, 2, 3, 4, 8])
    ids = []
    pool = TAG_IDS + [rng.randrange(256) for _ in range(4)]
    while len(ids) < n:
        t = rng.choice(pool)
        if t not in ids:
            ids.append(t)
    d, tl = [], 0
    for t in ids:
        ln = rng.choice([0, 1, 1, 2, 4, 15, 16, 17, 64, 200, rng.randrange(0, 211)])
        if maxtl - tl - 2 < 0:
            break
        ln = min(ln, maxtl - tl - 2)
        if rng.random() < 0.02:
            ln += rng.choice([1, 2, 50])                  # now and then beyond the 255-byte entry limit
        v = rbytes(rng, ln)
        if t == 0xC2 and plain and rng.random() < 0.5:
            v = rng.choice(ENC_NEAR)
        if plain and t == 0xC2 and v == b"\x02":
            v = b"\x00"
        d.append((t, v))
        tl += 2 + ln
    if plain and rng.random() < 0.12 and all(t != 0xC2 for t, _ in d) and maxtl - tl >= 6:
        # a plain component whose ENC tag is *almost* the session-key marker (numerically 2, or 02 followed by more)
        d.insert(rng.randrange(len(d) + 1), (0xC2, rng.choice(ENC_NEAR)))
    return d


ENC_NEAR = [b"\x00\x02", b"\x02\x00", b"\x00\x00\x02", b"\x02\x02", b"", b"\x00", b"\x01", b"\x03", b"\x82", b"\x00\x00\x00\x02"]


def show_desc(d):
    return ",".join(f"{t}:{hx(v)}" for t, v in d) if d else "-"


def show_comp(d, blob, actual, enc):
    return f"{show_desc(d)}|{hx(blob)}|{actual}|{1 if enc else 0}"


def gen_plain_comp(rng, big=2000):
    blob = gen_payload(rng, big)
    actual = rng.choice([len(blob), len(blob), 1, max(1, len(blob) - 1), rng.randrange(1, len(blob) + 1)])
    return show_comp(gen_desc(rng), blob, actual, False)


def gen_enc_comp(rng, big=300, tagged=True):
    """a component marked for session-key encryption (any position, any length mod 16)"""
    blob = gen_payload(rng, big)
    d = [(t, v) for t, v in gen_desc(rng, maxtl=60) if t != 0xC2]
    if tagged:
        d.insert(rng.randrange(len(d) + 1), (0xC2, b"\x02"))
    actual = rng.choice([len(blob), len(blob), 1, max(1, len(blob) - 1)])
    return show_comp(d, blob, actual, True)


def _with_twin(rng, comps):
    """now and then the same payload twice (one image stored per hardware variant): same stored bytes, same MAC"""
    if comps and rng.random() < 0.25:
        d, blob, actual, enc = rng.choice(comps).split("|")
        if enc == "0" and rng.random() < 0.6:
            d = show_desc(gen_desc(rng))
        comps.insert(rng.randrange(len(comps) + 1), f"{d}|{blob}|{actual}|{enc}")
    return comps


def gen_mixed_comps(rng, big=300, maxn=5, penc=0.4):
    """plain and encrypted components in any order"""
    n = rng.choice([1, 2, 2, 3, 3, maxn])
    return ";".join(_with_twin(rng, [gen_enc_comp(rng, big, rng.random() < 0.9) if rng.random() < penc
                                     else gen_plain_comp(rng, big) for _ in range(n)]))


def gen_comps(rng, big=2000, maxn=6):
    n = rng.choice([0, 1, 1, 2, 2, 3, maxn])
    return ";".join(_with_twin(rng, [gen_plain_comp(rng, big) for _ in range(n)])) or "-"


def threshold_comps(rng, enc=True):
    """component lists beyond the sizes one-byte / 12-bit / 16-bit counters and internal buffers can hold:
    more than 255 components, payloads of 4 KiB+1 and 64 KiB+1 bytes (plain and encrypted)"""
    many = ";".join(show_comp([], rbytes(rng, rng.choice([1, 2, 16])), 1, False) for _ in range(rng.choice([256, 257, 300])))
    d = [(0xC3, b"\x03")]
    big1 = show_comp(d, rbytes(rng, 4097), 4097, False) + ";" + (show_comp(d + [(0xC2, b"\x02")], rbytes(rng, 4111), 4111, True) if enc else show_comp(d, rbytes(rng, 4111), 4100, False)) + ";" + show_comp([], b"\x01", 1, False)
    big2 = show_comp(d, rbytes(rng, 65537), 65537, False) + ";" + show_comp([], b"\x02\x00", 2, False)
    return [many, big1, big2]


WORDS = ["FirmwareId", "FirmwareVersion", "Creator", "Configuration", " a", "a b", "Bf3Update", "x" * 30, "ß→☃",
         "K", "1", "-", "#", "key with spaces", "\ttab"]
VALUES = ["", "1053", "1.02.03", "a:b", "::", "x y  z", "ß→☃ unicode", "v" * 100, "0", "Yes", "a: b: c", "=", ","]


def gen_comments(rng):
    n = rng.choice([0, 0, 1, 2, 3, 5])
    ks = []
    while len(ks) < n:
        k = rng.choice(WORDS) if rng.random() < 0.8 else "".join(
            rng.choice("abcXYZ 019_-.()[]äλ") for _ in range(rng.randrange(1, 12)))
        if k not in ks and ":" not in k and "\n" not in k and "\r" not in k and "=" not in k and "," not in k:
            ks.append(k)
    out = []
    for k in ks:
        v = rng.choice(VALUES) if rng.random() < 0.8 else "".join(
            rng.choice("abc XYZ:019_-.()äλ") for _ in range(rng.randrange(0, 20))).strip()
        out.append(f"{hx(k.encode())}={hx(v.encode())}")
    return ",".join(out) or "-"
