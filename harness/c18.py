"""C18 — signatures verify, reject tampering, interoperate and follow RFC 6979."""
import gen_bf3 as g
from core import hx

TRUSTED = [
    "Lean 4.33 kernel; axioms propext, Classical.choice, Quot.sound only",
    "Model/Ecdsa.lean (sign with the blinded nonce, verifies with its range checks, digest truncation, signature codecs, "
    "RFC 6979 nonce derivation over a parametric hash) tied to ecdsa.py, keys.py, util.py, rfc6979.py by correspondence",
    "C17 (python-ecdsa's point arithmetic is the group law) for the sign-then-verify theorem",
    "independent oracles: harness/refec.py (textbook ECDSA), an RFC 6979 implementation written from the RFC on top of "
    "hashlib/hmac, OpenSSL 3.5 (dgst -sign/-verify, pkeyutl nonce-type:1 = RFC 6979)",
]
ASSUMPTIONS = ["hash functions are hashlib's (SHA-256 also modelled); that a changed message has a different digest is "
               "collision resistance of the hash, not proved: tamper rejection is evaluated for every single-bit change"]
LEANCHECKER_MODULES = ["Bec2Verif.Props.C18"]

NAMED = ["NIST192p", "NIST224p", "NIST256p", "NIST384p", "NIST521p", "SECP256k1", "BRAINPOOLP160r1", "BRAINPOOLP192r1",
         "BRAINPOOLP224r1", "BRAINPOOLP256r1", "BRAINPOOLP320r1", "BRAINPOOLP384r1", "BRAINPOOLP512r1", "SECP112r1",
         "SECP112r2", "SECP128r1", "SECP160r1"]
HASHES = ["sha1", "sha224", "sha256", "sha384", "sha512"]
# digest length = order length and an order far below 2^qlen: digests >= n are frequent (RFC 6979 bits2octets reduction)
SAME_LEN = [("BRAINPOOLP160r1", "sha1"), ("BRAINPOOLP224r1", "sha224"), ("BRAINPOOLP256r1", "sha256"),
            ("BRAINPOOLP384r1", "sha384"), ("BRAINPOOLP512r1", "sha512"), ("NIST256p", "sha256"), ("SECP160r1", "sha1")]


def corr_lines(ctx, rng, quick):
    """sign / verifies / truncation / codecs / RFC 6979 on model and code"""
    import refec
    from c17 import refec_curve, small_curves, sint
    out = []
    doms = [(c["spec"], c) for c in small_curves(23, 2)] + [(n, refec_curve(ctx, n)) for n in (NAMED if not quick else rng.sample(NAMED, 5))]
    for spec, c in doms:
        n, p = c["n"], c["p"]
        G = (c["gx"], c["gy"])
        small = ":" in spec
        for _ in range(40 if small else (2 if quick else 10)):
            d = rng.randrange(1, n)
            h = rng.choice([rng.randrange(0, 2 * n), 0, n, rng.randrange(2 ** 300)]) if not small else rng.randrange(0, 3 * n)
            k = rng.choice([rng.randrange(1, n), 1, n - 1, 0, n, n + 1, 2 * n, 2 * n - 1]) if not small else rng.randrange(0, 2 * n + 2)
            out.append(f"ecdsa.sign {spec} {d} {h} {k}")
            Q = refec.mul(c, d, G)
            z = rng.randrange(2, p)
            qrep = rng.choice([f"{Q[0]},{Q[1]},1,{n},0", f"{Q[0] * z * z % p},{Q[1] * z ** 3 % p},{z},{n},0", f"{Q[0]},{Q[1]},1,0,0",
                               f"{Q[0]},{Q[1]},1,{n},1", f"{Q[0] * z * z % p},{Q[1] * z ** 3 % p},{z},{n},1"])   # precomputed public key
            e = h % (2 ** 600)
            kk = k % n or 1                      # the verifies cases below need a genuine signature: nonce k mod n (1 if that is 0)
            R = refec.mul(c, kk, G)
            r = R[0] % n
            s = pow(kk, -1, n) * (e + r * d) % n
            cases = [(r, s), (r, (n - s) % n), ((r + 1) % n, s), (r, (s + 1) % n), (r, s + n), (0, s), (r, 0), (n, s), (r, n), (r + n, s),
                     (r, s + 2 * n), (r, s - n),
                     ((-e * pow(d, -1, n)) % n, max(1, s))]
            for (rr, ss) in cases if not quick or small else cases[:5] + cases[-1:]:
                out.append(f"ecdsa.verifies {spec} {qrep} {e} {sint(rr)} {sint(ss)}")
            if small:
                for rr in range(0, n + 1, max(1, n // 7)):
                    out.append(f"ecdsa.verifies {spec} {qrep} {e} {rr} {rng.randrange(0, n + 1)}")
        if not small:
            ln = (n.bit_length() + 7) // 8
            d = rng.randrange(1, n)
            Q = refec.mul(c, d, G)
            for _ in range(2 if quick else 8):
                dg = g.rbytes(rng, rng.choice([20, 28, 32, 48, 64, ln, ln + 1, 1, 0]))
                for allow in "01":
                    out.append(f"ecdsa.trunc {hx(dg)} {ln} {n} {allow}")
                rr, ss = rng.randrange(1, n), rng.randrange(1, n)
                for kind in ("string", "der", "string_canonize", "der_canonize"):
                    out.append(f"sig.enc {kind} {rr} {ss} {n}")
                sd = _der_sig(rr, ss)
                st = rr.to_bytes(ln, "big") + ss.to_bytes(ln, "big")
                out.append(f"sig.dec der {hx(sd)} {n}")
                out.append(f"sig.dec string {hx(st)} {n}")
                for cut in range(0, len(sd), max(1, len(sd) // 9)):
                    out.append(f"sig.dec der {hx(sd[:cut])} {n}")
                out.append(f"sig.dec der {hx(sd + b'x')} {n}")
                import dertree
                body = _der_int(rr) + _der_int(ss)
                for junk in (b"\x00", b"\x05\x00", b"\x02\x01\x01", g.rbytes(rng, rng.randrange(1, 6))):
                    out.append(f"sig.dec der {hx(b'\x30' + dertree.enc_len(len(body) + len(junk)) + body + junk)} {n}")
                for _what, blob in dertree.mutations(sd, rng, limit=None if not quick else 8):
                    out.append(f"sig.dec der {hx(blob)} {n}")
                out.append(f"sig.dec string {hx(st[:-1])} {n}")
                out.append(f"sig.dec string {hx(st + b'x')} {n}")
                m = bytearray(sd)
                m[rng.randrange(len(m))] ^= rng.choice([1, 0x80, 0xFF])
                out.append(f"sig.dec der {hx(bytes(m))} {n}")
                # verify_digest end to end (decoder errors -> BadSignatureError)
                e = int.from_bytes(dg[:ln], "big")
                if len(dg[:ln]) * 8 > n.bit_length():
                    e >>= len(dg[:ln]) * 8 - n.bit_length()
                kk = rng.randrange(1, n)
                R = refec.mul(c, kk, G)
                r = R[0] % n
                s = pow(kk, -1, n) * (e + r * d) % n
                if r and s:
                    good = _der_sig(r, s)
                    qrep = f"{Q[0]},{Q[1]},1,{n},0"
                    out.append(f"ecdsa.verifydigest {spec} {qrep} {ln} {hx(good)} {hx(dg)} der 1")
                    out.append(f"ecdsa.verifydigest {spec} {qrep} {ln} {hx(good)} {hx(dg)} der 0")
                    out.append(f"ecdsa.verifydigest {spec} {qrep} {ln} {hx(good[:-1])} {hx(dg)} der 1")
                    out.append(f"ecdsa.verifydigest {spec} {qrep} {ln} {hx(r.to_bytes(ln, 'big') + s.to_bytes(ln, 'big'))} {hx(dg)} string 1")
                    out.append(f"ecdsa.verifydigest {spec} {qrep} {ln} {hx(_der_sig(r, (s + 1) % n))} {hx(dg)} der 1")
            for _ in range(2 if quick else 10):
                x = rng.randrange(1, n)
                data = g.rbytes(rng, rng.choice([32, 20, 64, ln, 0]))
                out.append(f"rfc6979.k {n} {x} {hx(data)} {rng.choice([0, 0, 1, 3])} {hx(g.rbytes(rng, rng.choice([0, 0, 8])))}")
                out.append(f"rfc6979.b2o {hx(data)} {n}")
    return out


def _der_int(v):
    b = v.to_bytes(max(1, (v.bit_length() + 7) // 8), "big")
    if b[0] & 0x80:
        b = b"\x00" + b
    return b"\x02" + bytes([len(b)]) + b


def _der_sig(r, s):
    body = _der_int(r) + _der_int(s)
    import dertree
    return b"\x30" + dertree.enc_len(len(body)) + body


def run(ctx):
    rng = ctx.rng
    quick = ctx.quick
    ctx.correspond(corr_lines(ctx, rng, quick), "ecdsa-model")
    ctx.rule = ("all 17 curves x SHA-1..SHA-512 (digests shorter, equal and longer than the order; pairs with digest length = "
                "order length and orders far below 2^qlen on purpose) x six signature encodings, random keys, messages and nonces, "
                "edge nonces 1, 2, n-1; OpenSSL in both directions and its RFC 6979 mode; every single-bit change of message and "
                "signature (string and DER), truncations, another key; r, s in {0, n, n+1, 2n, 2^k, n-s}, malformed encodings")
    from c17 import refec_curve
    props = []
    for name in NAMED:
        c = refec_curve(ctx, name)
        n = c["n"]
        hs = HASHES if not quick else rng.sample(HASHES, 2)
        for h in hs:
            for i in range(1 if quick else 4):
                d = rng.choice([rng.randrange(1, n), 1, n - 1]) if i else rng.randrange(1, n)
                k = rng.choice([rng.randrange(1, n), 1, 2, n - 1]) if i else rng.randrange(1, n)
                m = g.rbytes(rng, rng.choice([0, 1, 20, 100]))
                props.append(f"prop.c18sv {name} {d} {h} {hx(m)} {k} {1 if i == 0 else 0}")
        d, k = rng.randrange(1, n), rng.randrange(1, n)
        m = g.rbytes(rng, 12)
        stride = 16 if quick else 1
        for off in range(1 if quick else 1):
            props.append(f"prop.c18tamper {name} {d} {rng.choice(hs)} {hx(m)} {k} {stride} {rng.randrange(stride)}")
        props.append(f"prop.c18range {name} {d} {rng.choice(hs)} {hx(m)}")
        props.append(f"prop.c18hist {name} {rng.randrange(1 << 30)} {10 if quick else 60}")
    for name, h in SAME_LEN:
        c = refec_curve(ctx, name)
        for _ in range(4 if quick else 30):
            props.append(f"prop.c18sv {name} {rng.randrange(1, c['n'])} {h} {hx(g.rbytes(rng, 9))} {rng.randrange(1, c['n'])} 1")
    res = ctx.check_props(props, "prop.c18")
    for l, r in zip(list(dict.fromkeys(props)), res):
        ctx.count(l.split()[0] + ":" + " ".join(r.split()[:2]))


def search(ctx):
    """a proof obligation or the correspondence no longer checks: look for a failing input on the real code with a wider net"""
    rng = ctx.rng
    from c17 import refec_curve
    props = []
    for name in NAMED:
        n = refec_curve(ctx, name)["n"]
        for h in HASHES:
            for d, k in [(rng.randrange(1, n), rng.randrange(1, n)), (1, n - 1), (n - 1, 1), (rng.randrange(1, n), 2)]:
                props.append(f"prop.c18sv {name} {d} {h} {hx(g.rbytes(rng, rng.choice([0, 3, 40])))} {k} 0")
        props.append(f"prop.c18tamper {name} {rng.randrange(1, n)} {rng.choice(HASHES)} {hx(g.rbytes(rng, 12))} {rng.randrange(1, n)} 4 {rng.randrange(4)}")
        for h in rng.sample(HASHES, 2):
            props.append(f"prop.c18range {name} {rng.randrange(1, n)} {h} {hx(g.rbytes(rng, 12))}")
    ctx.check_props(props, "search.c18")
