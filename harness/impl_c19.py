"""C19 adapters and direct evaluation: key and point encodings of the bundled python-ecdsa and the 27-byte P-256 header
of bec2format/crypto.py"""
import binascii
import os
import subprocess
import tempfile
import traceback
from impl import op, err, unhx, hx, REPO
from register_crypto_plugin.ecdsa import curves, keys, der, errors, ellipticcurve, numbertheory, util
from register_crypto_plugin.ecdsa.curves import UnknownCurveError
from bec2format import crypto as bcrypto
import register_crypto_plugin  # noqa: F401  (registers the plug-in)
import refec
from impl_ec import OPENSSL, OSSL_NAMES, pint, sint

DOCUMENTED = (der.UnexpectedDER, errors.MalformedPointError, UnknownCurveError, ValueError)

POINT_ENC = ["raw", "uncompressed", "compressed", "hybrid"]
PUB_FORMS = [("str", e, None) for e in POINT_ENC] + \
            [(f, e, c) for f in ("der", "pem") for e in ("uncompressed", "compressed", "hybrid") for c in ("named_curve", "explicit")]
PRIV_FORMS = [("str", None, None, None)] + \
             [(f, fmt, e, c) for f in ("der", "pem") for fmt in ("ssleay", "pkcs8") for e in ("uncompressed", "compressed")
              for c in ("named_curve", "explicit")]


def curve_of(name):
    return curves.curve_by_name(name)


def refcurve(c):
    fp = c.curve
    return dict(p=int(fp.p()), a=int(fp.a()), b=int(fp.b()), gx=int(c.generator.x()), gy=int(c.generator.y()), n=int(c.order))


def enc_pub(vk, form):
    f, e, c = form
    if f == "str":
        return vk.to_string(e)
    if f == "der":
        return vk.to_der(e, c)
    return vk.to_pem(e, c)


def dec_pub(data, form, curve):
    f, e, c = form
    if f == "str":
        return keys.VerifyingKey.from_string(data, curve)
    if f == "der":
        return keys.VerifyingKey.from_der(data)
    return keys.VerifyingKey.from_pem(data)


def enc_priv(sk, form):
    f, fmt, e, c = form
    if f == "str":
        return sk.to_string()
    if f == "der":
        return sk.to_der(e, fmt, c)
    return sk.to_pem(e, fmt, c)


def dec_priv(data, form, curve):
    f = form[0]
    if f == "str":
        return keys.SigningKey.from_string(data, curve)
    if f == "der":
        return keys.SigningKey.from_der(data)
    return keys.SigningKey.from_pem(data)


def where(e):
    tb = traceback.extract_tb(e.__traceback__)
    fr = [t for t in tb if t.filename.startswith(REPO)]
    return f"{os.path.basename(fr[-1].filename)}:{fr[-1].lineno} in {fr[-1].name}" if fr else "?"


@op("prop.c19rt")
def prop_c19rt(cname, d):
    """every encoding of the key pair with private scalar d decodes to the same key; coordinates against refec"""
    curve = curve_of(cname)
    c = refcurve(curve)
    d = pint(d)
    sk = keys.SigningKey.from_secret_exponent(d, curve)
    vk = sk.verifying_key
    q = refec.mul(c, d, (c["gx"], c["gy"]))
    pt = vk.pubkey.point
    if (int(pt.x()), int(pt.y())) != q:
        return "FAIL public point differs from d*G of the independent arithmetic"
    ln = (c["p"].bit_length() + 7) // 8
    if vk.to_string("raw") != q[0].to_bytes(ln, "big") + q[1].to_bytes(ln, "big"):
        return "FAIL raw encoding is not x || y in fixed length"
    if vk.to_string("uncompressed") != b"\x04" + vk.to_string("raw"):
        return "FAIL uncompressed encoding is not 04 || x || y"
    if vk.to_string("compressed") != bytes([2 + (q[1] & 1)]) + q[0].to_bytes(ln, "big"):
        return "FAIL compressed encoding is not (02|03) || x"
    if vk.to_string("hybrid") != bytes([6 + (q[1] & 1)]) + vk.to_string("raw"):
        return "FAIL hybrid encoding is not (06|07) || x || y"
    for form in PUB_FORMS:
        try:
            data = enc_pub(vk, form)
            back = dec_pub(data, form, curve)
        except Exception as e:
            return f"FAIL public key {form}: {type(e).__name__} at {where(e)}"
        if back != vk or back.to_string("raw") != vk.to_string("raw") or back.curve != curve:
            return f"FAIL public key changed by {form}"
    for form in PRIV_FORMS:
        try:
            data = enc_priv(sk, form)
            back = dec_priv(data, form, curve)
        except Exception as e:
            return f"FAIL private key {form}: {type(e).__name__} at {where(e)}"
        if back.privkey.secret_multiplier != d or back.verifying_key != vk or back.curve != curve:
            return f"FAIL private key changed by {form}"
    # PEM is nothing but the DER of the SAME form in base64 armour (64 characters per line), written out independently here:
    # the point encoding, the private-key format and the parameter encoding asked for must reach the DER inside
    import base64

    def armour(derb, label):
        b64 = base64.b64encode(derb)
        return (f"-----BEGIN {label}-----\n".encode() + b"".join(b64[i:i + 64] + b"\n" for i in range(0, len(b64), 64))
                + f"-----END {label}-----\n".encode())
    for form in PUB_FORMS:
        if form[0] == "pem":
            got = enc_pub(vk, form)
            want = armour(enc_pub(vk, ("der",) + tuple(form[1:])), "PUBLIC KEY")
            if (got if isinstance(got, bytes) else got.encode()) != want:
                return f"FAIL public key PEM {form[1:]} is not the base64 armour of the DER encoding of the same form"
    for form in PRIV_FORMS:
        if form[0] == "pem":
            got = enc_priv(sk, form)
            label = "EC PRIVATE KEY" if form[1] == "ssleay" else "PRIVATE KEY"
            want = armour(enc_priv(sk, ("der",) + tuple(form[1:])), label)
            if (got if isinstance(got, bytes) else got.encode()) != want:
                return f"FAIL private key PEM {form[1:]} is not the base64 armour of the DER encoding of the same form"
    # the DER forms themselves: the point inside has the encoding that was asked for
    for pe in ("uncompressed", "compressed", "hybrid"):
        inner = vk.to_string(pe)
        for ce in ("named_curve", "explicit"):
            try:
                db = vk.to_der(pe, ce)
            except Exception as e:
                return f"FAIL to_der({pe}, {ce}) raises {type(e).__name__}"
            if not db.endswith(inner) or db[-len(inner) - 1] != 0:
                return f"FAIL to_der({pe}, {ce}) does not end with the {pe} point string as BIT STRING content"
    # the same long-lived objects, forms in a random order with repeats, a precomputation and decoded copies in between:
    # every encoding equals that of a fresh object for the same key (no memory of earlier calls)
    import random
    rng = random.Random(d)
    objs_v = [vk, keys.VerifyingKey.from_string(vk.to_string("compressed"), curve)]
    objs_s = [sk, keys.SigningKey.from_string(sk.to_string(), curve)]
    log = []
    for _ in range(14):
        if rng.random() < 0.15:
            try:
                rng.choice(objs_v).precompute(lazy=rng.random() < 0.5)
            except Exception as e:
                return f"FAIL precompute after {log}: {type(e).__name__} at {where(e)}"
            log.append("precompute")
            continue
        try:
            if rng.random() < 0.6:
                form = rng.choice(PUB_FORMS)
                log.append(form)
                got = enc_pub(rng.choice(objs_v), form)
                want = enc_pub(keys.SigningKey.from_secret_exponent(d, curve).verifying_key, form)
                if rng.random() < 0.3:
                    objs_v.append(dec_pub(got, form, curve))
            else:
                form = rng.choice(PRIV_FORMS)
                log.append(form)
                got = enc_priv(rng.choice(objs_s), form)
                want = enc_priv(keys.SigningKey.from_secret_exponent(d, curve), form)
                if rng.random() < 0.3:
                    objs_s.append(dec_priv(got, form, curve))
        except Exception as e:
            return f"FAIL history {log}: {type(e).__name__} at {where(e)}"
        if got != want:
            return f"FAIL history {log}: the last encoding differs from that of a fresh key object ({got.hex()} / {want.hex()})"
    return "ok"


def _run(args, data=None):
    return subprocess.run([OPENSSL] + args, input=data, capture_output=True, timeout=60)


@op("prop.c19ossl")
def prop_c19ossl(cname, d):
    """byte compatibility with OpenSSL in both directions (named-curve DER/PEM, SEC1 and PKCS#8, point forms)"""
    if cname not in OSSL_NAMES:
        return "ok n/a"
    curve = curve_of(cname)
    d = pint(d)
    sk = keys.SigningKey.from_secret_exponent(d, curve)
    vk = sk.verifying_key
    # library -> OpenSSL: OpenSSL must read the key and re-encode it to the very same bytes
    r = _run(["ec", "-inform", "DER", "-outform", "DER"], sk.to_der(format="ssleay"))
    if r.returncode != 0:
        if b"unknown group" in r.stderr or b"unsupported" in r.stderr.lower() or b"not supported" in r.stderr.lower():
            return "ok ossl-unsupported-curve"
        return f"FAIL OpenSSL rejects the library's SEC1 private key: {r.stderr[-120:]!r}"
    if r.stdout != sk.to_der(format="ssleay"):
        return "FAIL OpenSSL re-encodes the library's SEC1 private key differently"
    r = _run(["pkey", "-inform", "DER", "-outform", "DER"], sk.to_der(format="pkcs8"))
    if r.returncode != 0:
        return f"FAIL OpenSSL rejects the library's PKCS#8 private key: {r.stderr[-120:]!r}"
    try:
        back = keys.SigningKey.from_der(r.stdout)
    except Exception as e:
        return f"FAIL library rejects OpenSSL's PKCS#8 re-encoding: {type(e).__name__}"
    if back.privkey.secret_multiplier != d:
        return "FAIL PKCS#8 through OpenSSL changes the key"
    r = _run(["pkey", "-pubin", "-inform", "DER", "-outform", "DER"], vk.to_der())
    if r.returncode != 0 or r.stdout != vk.to_der():
        return "FAIL OpenSSL does not reproduce the library's SubjectPublicKeyInfo"
    # OpenSSL -> library: public key derived by OpenSSL from the private key, in the three point forms
    for form in ("uncompressed", "compressed", "hybrid"):
        r = _run(["ec", "-inform", "DER", "-pubout", "-outform", "DER", "-conv_form", form], sk.to_der())
        if r.returncode != 0:
            return f"FAIL OpenSSL cannot write the public key in {form} form"
        try:
            v2 = keys.VerifyingKey.from_der(r.stdout)
        except Exception as e:
            return f"FAIL library rejects OpenSSL's {form} public key: {type(e).__name__}"
        if v2 != vk:
            return f"FAIL OpenSSL's {form} public key decodes to a different key"
        if r.stdout != vk.to_der(point_encoding=form):
            return f"FAIL {form} SubjectPublicKeyInfo differs from OpenSSL's bytes"
    r = _run(["ec", "-inform", "DER", "-outform", "PEM"], sk.to_der())
    if r.returncode == 0:
        try:
            if keys.SigningKey.from_pem(r.stdout).privkey.secret_multiplier != d:
                return "FAIL OpenSSL PEM decodes to a different private key"
        except Exception as e:
            return f"FAIL library rejects OpenSSL's PEM private key: {type(e).__name__}"
    r = _run(["ec", "-inform", "DER", "-outform", "DER", "-param_enc", "explicit"], sk.to_der())
    if r.returncode == 0:
        try:
            k2 = keys.SigningKey.from_der(r.stdout)
            if k2.privkey.secret_multiplier != d or k2.curve != curve:
                return "FAIL explicit-parameter key from OpenSSL decodes to a different key or curve"
        except Exception as e:
            return f"FAIL library rejects OpenSSL's explicit-parameter private key: {type(e).__name__} at {where(e)}"
    return "ok ossl"


@op("prop.c19hdr")
def prop_c19hdr(d):
    """the fixed 27-byte header of bec2format.crypto converts between raw 64-byte and DER P-256 public keys, and the
    result is what the library and OpenSSL write"""
    d = pint(d)
    c = refec.P256
    q = refec.mul(c, d, refec.G(c))
    raw = q[0].to_bytes(32, "big") + q[1].to_bytes(32, "big")
    try:
        k = bcrypto.create_public_ecc_key_from_raw_fmt(raw)
        derb = k.to_der_fmt()
        raw2 = k.to_raw_bin_fmt()
    except Exception as e:
        return f"FAIL raw->key->raw raises {type(e).__name__} at {where(e)}"
    if raw2 != raw:
        return f"FAIL raw public key changed by the conversion ({len(raw2)} bytes back)"
    vk = keys.VerifyingKey.from_string(raw, curves.NIST256p)
    if derb != vk.to_der():
        return "FAIL DER form differs from the library's SubjectPublicKeyInfo"
    if len(derb) != 27 + 64 or derb[27:] != raw:
        return "FAIL DER form is not 27-byte header || raw key"
    k2 = bcrypto.create_public_ecc_key_from_der_fmt(derb)
    if k2.to_raw_bin_fmt() != raw:
        return "FAIL DER->key->raw differs"
    r = _run(["pkey", "-pubin", "-inform", "DER", "-outform", "DER"], derb)
    if r.returncode != 0 or r.stdout != derb:
        return "FAIL OpenSSL does not reproduce header || raw"
    return "ok"


def _decode(kind, data, form, curve):
    return dec_pub(data, form, curve) if kind == "pub" else dec_priv(data, form, curve)


@op("prop.c19mut")
def prop_c19mut(cname, d, kind, idx, stride, offset):
    """every truncation / extension of a valid encoding is rejected, and every single-byte mutation ends in a key or in
    one of the documented errors"""
    curve = curve_of(cname)
    d, idx, stride, offset = pint(d), int(idx), int(stride), int(offset)
    sk = keys.SigningKey.from_secret_exponent(d, curve)
    forms = PUB_FORMS if kind == "pub" else PRIV_FORMS
    form = forms[idx % len(forms)]
    data = enc_pub(sk.verifying_key, form) if kind == "pub" else enc_priv(sk, form)
    n = 0
    is_pem = form[0] == "pem"
    for cut in range(offset, len(data), stride):
        # truncation
        for variant, mutated in (("truncated", data[:cut]), ("extended", data + bytes([cut & 0xFF]) if not is_pem else None)):
            if mutated is None:
                continue
            try:
                _decode(kind, mutated, form, curve)
            except DOCUMENTED:
                n += 1
                continue
            except Exception as e:
                return f"FAIL {variant} {form} (at {cut} of {len(data)}): {type(e).__name__} at {where(e)}"
            if is_pem and variant == "truncated":
                # cutting inside the END line or the base64 padding may leave the DER intact
                try:
                    if der.unpem(mutated) == der.unpem(data):
                        continue
                except Exception:
                    pass
            return f"FAIL {variant} {form} (at {cut} of {len(data)}) accepted"
        # single-byte mutations
        for delta in (1, 0x80, 0xFF):
            m = bytearray(data)
            m[cut] ^= delta
            try:
                _decode(kind, bytes(m), form, curve)
            except DOCUMENTED:
                pass
            except Exception as e:
                return f"FAIL mutated {form} (byte {cut} ^ {delta:#x}): {type(e).__name__} at {where(e)}"
            n += 1
    return f"ok {n}"


@op("prop.c19point")
def prop_c19point(cname, x, y, why):
    """a point string is accepted exactly when it encodes a point of the curve; errors are MalformedPointError"""
    curve = curve_of(cname)
    c = refcurve(curve)
    x, y = pint(x), pint(y)
    ln = (c["p"].bit_length() + 7) // 8
    if not (0 <= x < 256 ** ln and 0 <= y < 256 ** ln):
        return "ok n/a"
    # must be accepted: on the curve and in the subgroup of the generator; must be rejected: not on the curve.
    # On a curve with a cofactor (SECP112r2: 4) a point of the curve outside that subgroup is decided by the library's
    # `n * point == INFINITY`, which (infinity being encoded as y = 0) also lets the points of order 2n through: the
    # property does not say which way those go, so either outcome is taken - but never another exception.
    cof = int(curve.curve.cofactor())
    on = refec.on_curve(c, (x, y))
    valid = on and (cof == 1 or refec.in_subgroup(c, (x, y)))
    free = on and not valid
    xs, ys = x.to_bytes(ln, "big"), y.to_bytes(ln, "big")
    for name, data in (("raw", xs + ys), ("uncompressed", b"\x04" + xs + ys), ("hybrid", bytes([6 + (y & 1)]) + xs + ys),
                       ("hybrid-wrong-parity", bytes([7 - (y & 1)]) + xs + ys), ("compressed", bytes([2 + (y & 1)]) + xs)):
        try:
            vk = keys.VerifyingKey.from_string(data, curve)
            got = (int(vk.pubkey.point.x()), int(vk.pubkey.point.y()))
        except errors.MalformedPointError:
            got = None
        except Exception as e:
            return f"FAIL {name} of a {why} point: {type(e).__name__} at {where(e)}"
        if name == "hybrid-wrong-parity":
            if got is not None:
                return "FAIL hybrid encoding with the wrong parity byte accepted"
            continue
        if name == "compressed":
            # a compressed string only carries x: accepted iff x is the abscissa of a point, then y has the coded parity
            has_x = (x < c["p"]) and _is_square(c, x)
            cfree = False
            if has_x and cof != 1:
                yy = refec.sqrt_mod((x * x * x + c["a"] * x + c["b"]) % c["p"], c["p"])
                cfree = not refec.in_subgroup(c, (x, yy))      # the same for both roots: n * (-P) = -(n * P)
            if not cfree and has_x != (got is not None):
                return f"FAIL compressed form of x {'rejected' if has_x else 'accepted'}"
            if got is not None and (got[0] != x or (got[1] & 1) != (y & 1) or not refec.on_curve(c, got)):
                return "FAIL compressed form decodes to a wrong point"
            continue
        if not free and valid != (got is not None):
            return f"FAIL {name} form of a {why} point {'rejected' if valid else 'accepted'}"
        if got is not None and got != (x, y):
            return f"FAIL {name} form decodes to a different point"
    return "ok " + ("valid" if valid else "invalid")


def _is_square(c, x):
    p = c["p"]
    rhs = (x * x * x + c["a"] * x + c["b"]) % p
    return rhs == 0 or pow(rhs, (p - 1) // 2, p) == 1


# ---------------------------------------------------------------------------------- DER primitives (correspondence)

def _g(f):
    def w(*a):
        try:
            return f(*a)
        except Exception as e:
            return err(e)
    return w


def _pair(r):
    return f"ok {hx(r[0])} {hx(r[1])}"


@op("der.len")
@_g
def der_len(n):
    return "ok " + hx(der.encode_length(int(n)))


@op("der.int")
@_g
def der_int(n):
    return "ok " + hx(der.encode_integer(int(n)))


@op("der.num")
@_g
def der_num(n):
    return "ok " + hx(der.encode_number(int(n)))


@op("der.oct")
@_g
def der_oct(b):
    return "ok " + hx(der.encode_octet_string(unhx(b)))


@op("der.bit")
@_g
def der_bit(b):
    return "ok " + hx(der.encode_bitstring(unhx(b), 0))


@op("der.seq")
@_g
def der_seq(bs):
    return "ok " + hx(der.encode_sequence(*[unhx(x) for x in bs.split(",")]))


@op("der.oid")
@_g
def der_oid(ns):
    v = [int(x) for x in ns.split(",")]
    return "ok " + hx(der.encode_oid(*v))


@op("der.cons")
@_g
def der_cons(t, v):
    return "ok " + hx(der.encode_constructed(int(t), unhx(v)))


@op("der.rdlen")
@_g
def der_rdlen(b):
    v, n = der.read_length(unhx(b))
    return f"ok {v} {n}"


@op("der.rmint")
@_g
def der_rmint(b):
    v, r = der.remove_integer(unhx(b))
    return f"ok {v} {hx(r)}"


@op("der.rmoct")
@_g
def der_rmoct(b):
    return _pair(der.remove_octet_string(unhx(b)))


@op("der.rmseq")
@_g
def der_rmseq(b):
    return _pair(der.remove_sequence(unhx(b)))


@op("der.rmbit")
@_g
def der_rmbit(b):
    return _pair(der.remove_bitstring(unhx(b), 0))


@op("der.rmobj")
@_g
def der_rmobj(b):
    v, r = der.remove_object(unhx(b))
    return f"ok {','.join(str(x) for x in v)} {hx(r)}"


@op("der.rmcons")
@_g
def der_rmcons(b):
    t, v, r = der.remove_constructed(unhx(b))
    return f"ok {t} {hx(v)} {hx(r)}"


@op("der.rdnum")
@_g
def der_rdnum(b):
    v, n = der.read_number(unhx(b))
    return f"ok {v} {n}"


@op("prop.c19struct")
def prop_c19struct(cname, d, seed, limit):
    """structurally consistent edits of DER keys (one element cut, emptied, retagged, dropped ... with all enclosing
    lengths recomputed): the decoders end in a key or in a documented error"""
    import random
    import dertree
    curve = curve_of(cname)
    rng = random.Random(int(seed))
    sk = keys.SigningKey.from_secret_exponent(pint(d), curve)
    n = 0
    for kind, forms_ in (("pub", PUB_FORMS), ("priv", PRIV_FORMS)):
        for form in forms_:
            if form[0] != "der":
                continue
            data = enc_pub(sk.verifying_key, form) if kind == "pub" else enc_priv(sk, form)
            if b"".join(r.ser() for r in dertree.parse(data)) != data:
                return f"FAIL {form}: the encoding is not canonical DER according to the independent parser"
            for desc, m in dertree.mutations(data, rng, int(limit) // 8 + 1):
                try:
                    _decode(kind, m, form, curve)
                except DOCUMENTED:
                    pass
                except Exception as e:
                    return f"FAIL {form} with {desc}: {type(e).__name__} at {where(e)} ({m.hex()})"
                n += 1
    return f"ok {n}"


@op("prop.c19explicit")
def prop_c19explicit(seed, count):
    """explicit curve parameters with arbitrary field 'primes', coefficients and base-point strings (compressed ones
    need a square root modulo the announced prime): Curve.from_der ends in a curve or in a documented error"""
    import random
    rng = random.Random(int(seed))
    n = 0
    for _ in range(int(count)):
        p = rng.choice([rng.randrange(0, 64), rng.randrange(0, 2 ** 16), 561, 1105, 2 ** 16 + 1, 2 ** 31 - 1, 2 ** 32 + 15, 4, 9, 25, 1, 0, 2, 3, 5])
        ln = max(1, (p.bit_length() + 7) // 8)
        a, b = rng.randrange(0, max(1, p)), rng.randrange(0, max(1, p))
        x = rng.randrange(0, max(1, p) + 2)
        base = rng.choice([bytes([rng.choice([2, 3])]) + (x % 256 ** ln).to_bytes(ln, "big"),
                           b"\x04" + (x % 256 ** ln).to_bytes(ln, "big") + rng.randrange(256 ** ln).to_bytes(ln, "big"),
                           bytes([rng.choice([6, 7])]) + bytes(2 * ln), b"", bytes([2]), bytes([rng.randrange(256)]) + bytes(ln)])
        els = [der.encode_integer(1),
               der.encode_sequence(der.encode_oid(1, 2, 840, 10045, 1, 1), der.encode_integer(p)),
               der.encode_sequence(der.encode_octet_string(a.to_bytes(ln, "big")), der.encode_octet_string(b.to_bytes(ln, "big"))),
               der.encode_octet_string(base), der.encode_integer(rng.choice([0, 1, 7, rng.randrange(1, 2 ** 16)]))]
        if rng.random() < 0.7:
            els.append(der.encode_integer(rng.choice([1, 2, 4, 0])))
        data = der.encode_sequence(*els)
        try:
            curves.Curve.from_der(data)
        except DOCUMENTED:
            pass
        except Exception as e:
            return f"FAIL explicit parameters p={p} base={base.hex()}: {type(e).__name__} at {where(e)} ({data.hex()})"
        n += 1
    return f"ok {n}"


# ---------------------------------------------------------------------------------- point strings, sqrt, SPKI

def _curvefp(s):
    if ":" in s:
        p, a, b = [pint(v) for v in s.split(":")[:3]]
        return ellipticcurve.CurveFp(p, a, b, 1)
    return curve_of(s).curve


@op("pt.enc")
@_g
def pt_enc(c, e, x, y):
    fp = _curvefp(c)
    P = ellipticcurve.PointJacobi(fp, int(x), int(y), 1)
    return "ok " + hx(P.to_bytes(e))


@op("pt.dec")
@_g
def pt_dec(c, d, v):
    fp = _curvefp(c)
    x, y = ellipticcurve.AbstractPoint().from_bytes(fp, unhx(d), validate_encoding=(v == "1"))
    return f"ok {int(x)} {int(y)}"


@op("nt.sqrt")
def nt_sqrt(a, p):
    try:
        return f"ok {int(numbertheory.square_root_mod_prime(int(a), int(p)))}"
    except numbertheory.Error:
        return "err SquareRootError"
    except Exception as e:
        return err(e)


@op("spki")
@_g
def spki(o, pt):
    oid = tuple(int(x) for x in o.split(","))
    inner = der.encode_sequence(keys.encoded_oid_ecPublicKey, der.encode_oid(*oid))
    return "ok " + hx(der.encode_sequence(inner, der.encode_bitstring(unhx(pt), 0)))


@op("spki.parse")
def spki_parse(d):
    """the DER part of VerifyingKey.from_der: observed through the curve it selects and the point string it hands on"""
    data = unhx(d)
    seen = {}
    orig = keys.VerifyingKey.from_string

    def spy(string, curve, *a, **k):
        seen["r"] = (curve.oid, bytes(string))
        raise _Stop()
    keys.VerifyingKey.from_string = classmethod(lambda cls, string, curve=None, *a, **k: spy(string, curve, *a, **k))
    try:
        try:
            keys.VerifyingKey.from_der(data, valid_curve_encodings=["named_curve"])
        except _Stop:
            oid, pt = seen["r"]
            return f"ok {','.join(str(x) for x in oid)} {hx(pt)}"
        except Exception as e:
            return err(e)
    finally:
        keys.VerifyingKey.from_string = orig
    return "err no-call"


class _Stop(Exception):
    pass


# ------------------------------------------------------------------ private keys in DER (SEC1 / PKCS #8), named curves
@op("key.toder")
@_g
def key_toder(fmt, oid, priv, pub):
    curve = curves.find_curve(tuple(int(x) for x in oid.split(",")))
    sk = keys.SigningKey.from_string(unhx(priv), curve)
    return "ok " + hx(sk.to_der(format=fmt, point_encoding="uncompressed"))


@op("key.fromder")
@_g
def key_fromder(d):
    sk = keys.SigningKey.from_der(unhx(d))
    return f"ok {sk.curve.name} {int(sk.privkey.secret_multiplier)}"


def _sint(i):
    i = int(i)
    return f"n{-i}" if i < 0 else str(i)


@op("curve.toder")
@_g
def curve_toder(p, a, b, gx, gy, order, cof, enc):
    """Curve.to_der("explicit", point_encoding) of a curve object with these parameters"""
    from register_crypto_plugin.ecdsa import ellipticcurve as ell
    pi = lambda t: -int(t[1:]) if t.startswith("n") else int(t)
    fp = ell.CurveFp(int(p), pi(a), pi(b), None if cof == "-" else int(cof))
    gen = ell.PointJacobi(fp, int(gx), int(gy), 1, int(order), generator=True)
    c = curves.Curve("custom", fp, gen, None)
    return "ok " + hx(c.to_der("explicit", enc))


@op("curve.fromder")
@_g
def curve_fromder(d):
    """Curve.from_der on explicit parameters: which curve object comes back"""
    c = curves.Curve.from_der(unhx(d))
    g0 = c.generator
    cof = c.curve.cofactor()
    return (f"ok {c.name} {int(c.curve.p())} {_sint(c.curve.a())} {_sint(c.curve.b())} {int(g0.x())} {int(g0.y())} "
            f"{int(g0.order())} {'-' if cof is None else int(cof)}")



# ---------------------------------------------------------------------------------- PEM armour (correspondence)

def _hx0(b):
    return hx(b) or "-"


def _un0(t):
    return b"" if t == "-" else unhx(t)


def _b64err(f):
    """binascii.Error is a subclass of ValueError; the model has the class ValueError for it"""
    import binascii

    def w(*a):
        try:
            return f(*a)
        except binascii.Error:
            return "err ValueError"
        except Exception as e:
            return err(e)
    return w


@op("pem.to")
@_b64err
def pem_to(name, d):
    return "ok " + hx(der.topem(_un0(d), _un0(name).decode("utf-8")))


@op("pem.un")
@_b64err
def pem_un(d):
    return "ok " + _hx0(der.unpem(_un0(d)))


@op("b64.enc")
@_b64err
def b64_enc(d):
    import base64
    return "ok " + _hx0(base64.b64encode(_un0(d)))


@op("b64.dec")
@_b64err
def b64_dec(d):
    import base64
    return "ok " + _hx0(base64.b64decode(_un0(d)))
