"""C17 — elliptic-curve arithmetic, ECDH and public-point validation."""
import refec
from core import hx

TRUSTED = [
    "Lean 4.33 kernel; axioms propext, Classical.choice, Quot.sound only",
    "Model/Ec.lean + Model/EcOps.lean (python-ecdsa's Jacobian formulas with their exact reductions and zero tests, "
    "NAF / table multiplication, mul_add, the affine Point class, key validation, ECDH) tied to ellipticcurve.py, "
    "ecdsa.py, keys.py, ecdh.py by correspondence: raw Jacobian coordinates AND affine values of every result are compared",
    "harness/refec.py: independent affine chord/tangent arithmetic (Python pow for inverses), oracle for the direct "
    "evaluation on the real code; OpenSSL (pkeyutl -derive) as second implementation for the named curves it supports",
]
ASSUMPTIONS = []
LEANCHECKER_MODULES = ["Bec2Verif.Props.C17"]

NAMED = ["NIST192p", "NIST224p", "NIST256p", "NIST384p", "NIST521p", "SECP256k1", "BRAINPOOLP160r1", "BRAINPOOLP192r1",
         "BRAINPOOLP224r1", "BRAINPOOLP256r1", "BRAINPOOLP320r1", "BRAINPOOLP384r1", "BRAINPOOLP512r1", "SECP112r1",
         "SECP112r2", "SECP128r1", "SECP160r1"]


def sint(i):
    return f"n{-i}" if i < 0 else str(i)


def is_prime(n):
    if n < 2:
        return False
    i = 2
    while i * i <= n:
        if n % i == 0:
            return False
        i += 1
    return True


def points_of(c):
    p = c["p"]
    sq = {}
    for y in range(p):
        sq.setdefault(y * y % p, []).append(y)
    pts = []
    for x in range(p):
        for y in sq.get((x * x * x + c["a"] * x + c["b"]) % p, []):
            pts.append((x, y))
    return pts


_small = {}


def small_curves(lo, count):
    """prime-order curves y^2 = x^3 + ax + b over F_p, p >= lo (deterministic search)"""
    key = (lo, count)
    if key in _small:
        return _small[key]
    out = []
    p = lo
    while len(out) < count:
        if is_prime(p) and p > 3:
            for a in (p - 3, 1, 0, 2):
                found = False
                for b in range(1, p):
                    if (4 * a ** 3 + 27 * b * b) % p == 0:
                        continue
                    c = dict(p=p, a=a, b=b)
                    pts = points_of(c)
                    n = len(pts) + 1
                    if is_prime(n) and n != p:
                        g = pts[0]
                        c.update(gx=g[0], gy=g[1], n=n, h=1, pts=pts)
                        c["spec"] = ":".join(sint(v) for v in (p, a if a != p - 3 else -3, b, g[0], g[1], n, 1))
                        c["a"] = a if a != p - 3 else -3
                        out.append(c)
                        found = True
                        break
                if found:
                    break
        p += 1
    _small[key] = out
    return out


def scalings(rng, c, P, k=3):
    """Jacobian representations of the affine point P (None = infinity): Z = 1, 2, random; Y also as produced by __neg__"""
    p = c["p"]
    if P is None:
        return ["inf", f"{rng.randrange(p)},0,1", f"{rng.randrange(p)},{rng.randrange(1, p)},0"][:k]
    x, y = P
    out = [f"{x},{y},1"]
    for z in [2, rng.randrange(3, p) if p > 4 else 2][:max(0, k - 1)]:
        out.append(f"{x * z * z % p},{y * z ** 3 % p},{z}")
    if y:
        out.append(f"{x},{sint(y - p)},1")
        z = rng.randrange(2, p)
        out.append(f"{x * z * z % p},{sint(y * z ** 3 % p - p)},{z}")
    return out


def edge_scalars(rng, n, k=6):
    bits = n.bit_length()
    s = [0, 1, 2, 3, n - 1, n, n + 1, 2 * n - 1, 2 * n, 2 * n + 1, -1, -2, -n, 1 - n]
    # near a multiple of the order the NAF walk passes through -P, -2P, ... (reduced) and adds the unreduced (x, -y)
    s += [n - 2, n - 3, n - 4, n + 2, 2 * n - 2, 2 * n - 3, 2 * n - 4, 2 * n + 2, 3 * n - 2, 4 * n - 4, rng.choice([n, 2 * n]) - rng.randrange(2, 40)]
    for _ in range(k):
        b = rng.randrange(1, bits + 2)
        s += [1 << b, (1 << b) - 1]
        s.append(rng.randrange(2 * n))
    return s


def run(ctx):
    rng = ctx.rng
    quick = ctx.quick
    ctx.rule = ("complete enumeration of small prime-order groups (all pairs of points incl. infinity, equal and inverse operands, "
                "each in 3-5 Jacobian representations incl. the unreduced -Y of __neg__; all scalars -2n-1..2n+1; mul_add over all "
                "pairs), edge scalars 0,1,2,n-1,n,n+1,2n,2^k,2^k-1,negative and random < 2n on all 17 named curves, generator "
                "(table) and plain (NAF) multiplication, random key pairs for ECDH (OpenSSL for named curves), off-curve / "
                "out-of-range / infinity / other-curve points; non-trivial = distinct case")
    corr, props = [], []
    # group orders 31 and 41 in the quick tier: n = 3 and n = 1 mod 4 take different ways through the NAF digits near n
    smalls = [small_curves(23, 3)[0], small_curves(23, 3)[2]] if quick else small_curves(23, 3) + small_curves(97, 2) + small_curves(211, 1)
    for c in smalls:
        d = c["spec"]
        pts = [None] + c["pts"]
        n = c["n"]
        ctx.count(f"small-curve p={c['p']} n={n}")
        big = len(pts) > 60
        for P in pts:
            reps_p = scalings(rng, c, P)
            for rp in reps_p:
                corr.append(f"ec.double {d} {rp}")
                props.append(f"prop.c17double {d} {rp}")
            Qs = pts if not big else rng.sample(pts, 25) + [P, None] + ([(P[0], (-P[1]) % c["p"])] if P else [])
            for Q in Qs:
                reps_q = scalings(rng, c, Q)
                pairs = [(a, b) for a in reps_p for b in reps_q]
                if quick or big:
                    pairs = rng.sample(pairs, min(len(pairs), 4)) + [(reps_p[0], reps_q[0])]
                for a, b in pairs:
                    corr.append(f"ec.add {d} {a} {b}")
                    props.append(f"prop.c17add {d} {a} {b}")
                corr.append(f"ec.eq {d} {reps_p[-1]} {reps_q[0]}")
                if rng.random() < (0.5 if P is None or Q is None else 0.15):
                    rp_, rq_ = rng.choice(reps_p), rng.choice(reps_q)
                    props.append(f"prop.c17neg {d} {rp_} {rq_}")
                    corr.append(f"ec.neg {d} {rp_}")
                    corr.append(f"ec.negadd {d} {rp_} {rq_}")
                if P and Q:
                    corr.append(f"ap.add {d} {P[0]},{P[1]} {Q[0]},{Q[1]}")
                    # other integer representatives of the same two points (what __neg__ / __mul__ build, what a caller may pass)
                    pq = c["p"]
                    ra = rng.choice([(P[0], P[1] - pq), (P[0], P[1] + pq), (P[0] + pq, P[1]), (P[0] - pq, P[1] - pq)])
                    rb = rng.choice([(Q[0], Q[1] - pq), (Q[0], Q[1] + pq), (Q[0] + pq, Q[1]), (Q[0], Q[1])])
                    corr.append(f"ap.add {d} {sint(ra[0])},{sint(ra[1])} {sint(rb[0])},{sint(rb[1])}")
                    # the property is evaluated on the representatives the class builds itself (`__mul__` makes (x, -y)): any y,
                    # reduced x.  With another representative of x the class compares raw integers and takes the chord formula for
                    # equal points (ValueError from the inverse) - model and code agree on that, the property does not speak of it
                    ra = rng.choice([(P[0], P[1] - pq), (P[0], P[1] + pq), (P[0], P[1] - 2 * pq)])
                    rb = rng.choice([(Q[0], Q[1] - pq), (Q[0], Q[1] + pq), (Q[0], Q[1])])
                    props.append(f"prop.c17affine {d} {sint(ra[0])},{sint(ra[1])} {sint(rb[0])},{sint(rb[1])} {rng.randrange(0, 2 * n + 2)}")
            if P is None:
                continue
            corr.append(f"ap.double {d} {P[0]},{P[1]}")
            corr.append(f"ap.neg {d} {P[0]},{P[1]}")
            ks = range(-2 * n - 1, 2 * n + 2) if not big else edge_scalars(rng, n, 3)
            for k in ks:
                rp = rng.choice(reps_p)
                order = rng.choice([n, n, 0])
                gen = 1 if (order and rng.random() < 0.4) else 0
                pj = f"{rp},{order},{gen}"
                corr.append(f"ec.mul {d} {pj} {sint(k)}")
                props.append(f"prop.c17mul {d} {pj} {sint(k)}")
                if rng.random() < 0.3:
                    corr.append(f"ap.mul {d} {rng.choice([n, 0])} {P[0]},{P[1]} {sint(k)}")
            # mul_add: all partners for a few scalar pairs, and both degenerate partners for all small scalars
            for Q in (pts if not big else rng.sample(pts, 10)) + [P, (P[0], (-P[1]) % c["p"])]:
                for _ in range(1 if quick else 2):
                    k1, k2 = rng.choice([rng.randrange(-n, 2 * n), 0, 1, n]), rng.choice([rng.randrange(-n, 2 * n), 0, 1, n - 1])
                    o = rng.choice([n, n, 0])
                    pj = f"{rng.choice(reps_p)},{o},{rng.choice([0, 0, 1]) if o else 0}"
                    qj = "inf" if Q is None else f"{rng.choice(scalings(rng, c, Q))},{o},{rng.choice([0, 0, 1]) if o else 0}"
                    corr.append(f"ec.muladd {d} {pj} {sint(k1)} {qj} {sint(k2)}")
                    props.append(f"prop.c17muladd {d} {pj} {sint(k1)} {qj} {sint(k2)}")
        # validation on the small curve: every (x, y) of a strip plus out-of-range values
        p = c["p"]
        for x in range(p if not big else 12):
            for y in rng.sample(range(p), min(p, 6)) + [0, p, p + 1, -1]:
                corr.append(f"ec.validate {d} {sint(x)} {sint(y)}")
        for _ in range(30 if quick else 200):
            P = rng.choice(c["pts"])
            corr.append(f"ec.dh {d} {rng.randrange(1, n)} {P[0]} {P[1]}")
    # the 17 named curves
    per = 1 if quick else 6
    for name in NAMED:
        c = refec_curve(ctx, name)
        n, p = c["n"], c["p"]
        G = (c["gx"], c["gy"])
        bases = [G] + [refec.mul(c, rng.randrange(1, n), G) for _ in range(per)]
        for P in bases:
            reps = scalings(rng, c, P)
            for k in edge_scalars(rng, n, 2 if quick else 8):
                rp = rng.choice(reps)
                order = rng.choice([n, n, 0])
                gen = 1 if (P == G and order and rng.random() < 0.5) else 0
                pj = f"{rp},{order},{gen}"
                corr.append(f"ec.mul {name} {pj} {sint(k)}")
                props.append(f"prop.c17mul {name} {pj} {sint(k)}")
            Q = refec.mul(c, rng.randrange(1, n), G)
            for Q2, tag in ((Q, "rand"), (P, "same"), ((P[0], (-P[1]) % p), "neg"), (None, "inf")):
                for a in rng.sample(reps, 2):
                    b = rng.choice(scalings(rng, c, Q2))
                    corr.append(f"ec.add {name} {a} {b}")
                    props.append(f"prop.c17add {name} {a} {b}")
                k1, k2 = rng.choice(edge_scalars(rng, n, 1)), rng.choice(edge_scalars(rng, n, 1))
                pj = f"{rng.choice(reps)},{n},{1 if P == G else 0}"
                qj = "inf" if Q2 is None else f"{rng.choice(scalings(rng, c, Q2))},{n},0"
                corr.append(f"ec.muladd {name} {pj} {sint(k1)} {qj} {sint(k2)}")
                props.append(f"prop.c17muladd {name} {pj} {sint(k1)} {qj} {sint(k2)}")
            corr.append(f"ec.double {name} {rng.choice(reps)}")
            for rq in scalings(rng, c, None) + [rng.choice(reps)]:
                props.append(f"prop.c17neg {name} {rq} {rng.choice(reps)}")
                props.append(f"prop.c17neg {name} {rng.choice(reps)} {rq}")
            for k in edge_scalars(rng, n, 1):
                if k >= 0:
                    corr.append(f"ap.mul {name} {rng.choice([n, 0])} {P[0]},{P[1]} {sint(k)}")
            for Q2 in (Q, P, (P[0], (-P[1]) % p)):
                ra = rng.choice([(P[0], P[1] - p), (P[0], P[1] + p), (P[0], P[1])])
                rb = rng.choice([(Q2[0], Q2[1] - p), (Q2[0], Q2[1] + p), (Q2[0], Q2[1])])
                corr.append(f"ap.add {name} {sint(ra[0])},{sint(ra[1])} {sint(rb[0])},{sint(rb[1])}")
                props.append(f"prop.c17affine {name} {sint(ra[0])},{sint(ra[1])} {sint(rb[0])},{sint(rb[1])} "
                             f"{sint(rng.choice([k for k in edge_scalars(rng, n, 1) if k >= 0]))}")
        for i in range(per + 1):
            da, db = rng.randrange(1, n), rng.randrange(1, n)
            if i == 0:
                da = rng.choice([1, 2, n - 1])
            props.append(f"prop.c17dh {name} {da} {db} {1 if i < 2 else 0}")
            Pb = refec.mul(c, db, G)
            corr.append(f"ec.dh {name} {da} {Pb[0]} {Pb[1]}")
        props.append(f"prop.c17dhhist {name} {rng.randrange(1 << 30)} {12 if quick else 40}")
        props.append(f"prop.c17dhcurves {name} {rng.choice([x for x in NAMED if x != name])} {rng.randrange(1 << 60)} {rng.randrange(1 << 60)}")
        props.append(f"prop.c17nearcurve {name} {rng.randrange(1 << 60)}")
        # invalid points
        P = bases[-1]
        other = refec_curve(ctx, NAMED[(NAMED.index(name) + 1) % len(NAMED)])
        bad = [((P[0], (P[1] + 1) % p), "off-curve"), ((P[0] ^ 1, P[1]), "off-curve"), ((P[0] + p, P[1]), "out-of-range"),
               ((P[0], P[1] + p), "out-of-range"), ((0, 0), "infinity-encoding"), ((p, 0), "out-of-range"),
               ((other["gx"] % p, other["gy"] % p), "other-curve"), (P, "valid"), (G, "valid"),
               ((P[0], p - P[1]), "valid")]
        for (x, y), why in bad:
            props.append(f"prop.c17invalid {name} {sint(x)} {sint(y)} {why}")
            corr.append(f"ec.validate {name} {sint(x)} {sint(y)}")
    props = list(dict.fromkeys(props))
    ctx.correspond(corr, "ec-ops")
    res = ctx.check_props(props, "prop.c17")
    for l, r in zip(props, res):
        ctx.count(l.split()[0] + ":" + " ".join(r.split()[:2]))


_named = {}


def refec_curve(ctx, name):
    """domain parameters of a named curve as regenerated from the source (Gen/Curves.lean) via the model driver"""
    if name not in _named:
        import json
        from core import model_eval
        _named[name] = json.loads(model_eval([f"curve.params {name}"])[0])
    return _named[name]


def search(ctx):
    pass
