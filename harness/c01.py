"""C01 — BF3 write-then-read returns the same file."""
import gen_bf3 as g
from core import hx

TRUSTED = [
    "Lean 4.33 kernel; axioms propext, Classical.choice, Quot.sound only",
    "Model/Bf3.lean, Model/Text.lean, Model/Crypto.lean, Model/Aes.lean are hand-written models of bf3file.py / "
    "bytes_reader.py / the appnote adapter / pyaes; tied to the code by the correspondence run of this check "
    "(writer output byte for byte, reader result field by field, stream and path I/O, MAC check on and off)",
    "Gen/Consts.lean, Gen/AesTables.lean, Gen/Unicode.lean regenerated from the running source every run",
    "CPython semantics of bytes/int.to_bytes/dict order/io text layer (newline translation) as modelled",
]
ASSUMPTIONS = [
    "path I/O uses UTF-8 (PYTHONUTF8=1); the locale codec is outside the model",
    "lone surrogates in comments are outside the generator (not representable as Lean Char)",
    "the text-envelope round trip (parse_bf3_file . write_bf3_format) is covered by the correspondence and by "
    "Props/C01Text.lean where proved; the binary container round trip is proved for every crypto plug-in with a 16-byte MAC",
]
LEANCHECKER_MODULES = ["Bec2Verif.Props.C01"]


def cases(ctx, n):
    rng = ctx.rng
    out = []
    for i in range(n):
        big = 600 if ctx.quick else 5000
        out.append((hx(g.gen_key(rng)), g.gen_comments(rng), g.gen_comps(rng, big)))
    return out


def run(ctx):
    rng = ctx.rng
    ctx.rule = ("file objects from the repo's own types: 0-6 plain components, 0-8 tags (ids incl. 0xC1..0xC9, 0, 255), "
                "tag values 0..210 bytes, payload lengths around multiples of 16 and 40, trailing-zero and all-zero payloads, "
                "declared length in {1, len-1, len, random}, keys: zero / trailing zeros / top bits / random, comments with "
                "spaces, colons in values, Unicode; written and read back through stream and path; non-trivial = distinct case "
                "with at least one component")
    n = 250 if ctx.quick else 6000
    cs = cases(ctx, n)
    # all payload lengths 1..L exhaustively, single component
    L = 130 if ctx.quick else 600
    for ln in range(1, L + 1):
        blob = bytes((7 * i + ln) & 0xFF for i in range(ln))
        if ln % 3 == 0:
            blob = blob[:-1] + b"\x00"
        cs.append((hx(g.gen_key(rng)), "-", g.show_comp([(0xC3, b"\x02")], blob, ln, False)))
    ctx.exhaustive[f"payload_lengths_1..{L}"] = True
    for comps in g.threshold_comps(rng, enc=False):
        cs.append((hx(g.gen_key(rng)), "-", comps))
    nontriv = lambda line, res: not line.endswith(" -")
    w = ctx.correspond([f"bf3.writetext {k} {c} {comps}" for k, c, comps in cs], "writetext", nontriv)
    wp = ctx.correspond([f"bf3.writepath {k} {c} {comps}" for k, c, comps in cs[: n // 2]], "writepath", nontriv)
    rd = []
    for (k, c, comps), res in zip(cs, w):
        if res.startswith("ok "):
            t = res[3:]
            rd.append(f"bf3.readtext 1 {k} {t}")
            rd.append(f"bf3.readtext 0 {k} {t}")
    for (k, c, comps), res in zip(cs[: n // 2], wp):
        if res.startswith("ok "):
            rd.append(f"bf3.readpath {rng.choice('01')} {k} {res[3:]}")
    ctx.correspond(rd, "read", lambda line, res: res.startswith("ok"))
    # off-quantifier shapes (compared between model and code; not part of the property)
    odd = []
    for _ in range(60 if ctx.quick else 600):
        k = hx(g.gen_key(rng))
        blob = g.gen_payload(rng, 100)
        kind = rng.randrange(5)
        if kind == 0:
            comp = g.show_comp([], b"", 0, False)                           # empty payload: mac raises
        elif kind == 1:
            comp = g.show_comp([], blob, len(blob) + rng.randrange(1, 5), False)   # declared > stored
        elif kind == 2:
            comp = g.show_comp([(rng.choice([256, 300, 70000]), b"x")], blob, len(blob), False)  # tag id overflow
        elif kind == 3:
            comp = g.show_comp([(1, bytes(rng.choice([211, 230, 255, 256, 300])))], blob, len(blob), False)  # entry overflow
        else:
            comp = g.show_comp([(0xC2, b"\x02")], blob, len(blob), False)  # plain but tagged as session-key encrypted
        odd.append(f"bf3.writetext {k} - {comp}")
    wo = ctx.correspond(odd, "odd-write")
    ctx.correspond([f"bf3.readtext 1 {l.split()[1]} {r[3:]}" for l, r in zip(odd, wo) if r.startswith("ok ")], "odd-read")
    ctx.notes.append("observation (outside the quantifier): declared length > payload length and a plain component "
                     "tagged ENC=SESSIONKEY are accepted by the writer and rejected/decrypted by the reader; model and code agree")
    # the property itself on the real code
    ctx.check_props([f"prop.c01 {k} {c} {comps}" for k, c, comps in cs], "prop.c01")


def search(ctx):
    cs = cases(ctx, 1500)
    ctx.check_props([f"prop.c01 {k} {c} {comps}" for k, c, comps in cs], "search.c01")
