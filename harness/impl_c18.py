"""C18 adapters and direct evaluation: ECDSA signatures of the bundled python-ecdsa against OpenSSL and an independent
RFC 6979 implementation"""
import hashlib
import hmac
import os
import subprocess
import tempfile
from impl import op, err, unhx, hx, REPO
from register_crypto_plugin.ecdsa import curves, keys, der, util, ecdsa as ecdsa_mod, rfc6979
from register_crypto_plugin.ecdsa.keys import BadSignatureError, BadDigestError
from impl_ec import OPENSSL, OSSL_NAMES, pint, sint
from impl_c19 import where
import refec

HASHES = {"sha1": hashlib.sha1, "sha224": hashlib.sha224, "sha256": hashlib.sha256, "sha384": hashlib.sha384,
          "sha512": hashlib.sha512}
ENCODERS = {"string": (util.sigencode_string, util.sigdecode_string), "strings": (util.sigencode_strings, util.sigdecode_strings),
            "der": (util.sigencode_der, util.sigdecode_der),
            "string_canonize": (util.sigencode_string_canonize, util.sigdecode_string),
            "strings_canonize": (util.sigencode_strings_canonize, util.sigdecode_strings),
            "der_canonize": (util.sigencode_der_canonize, util.sigdecode_der)}


def _run(args, data=None):
    return subprocess.run([OPENSSL] + args, input=data, capture_output=True, timeout=60)


# ---- independent RFC 6979 (written from the RFC text, uses only hashlib/hmac) ---------------------------------------

def ref_generate_k(q, x, hashfunc, h1, extra=b""):
    qlen = q.bit_length()
    rolen = (qlen + 7) // 8
    hlen = hashfunc().digest_size

    def bits2int(b):
        v = int.from_bytes(b, "big")
        bl = len(b) * 8
        return v >> (bl - qlen) if bl > qlen else v

    def int2octets(v):
        return v.to_bytes(rolen, "big")

    def bits2octets(b):
        z1 = bits2int(b)
        z2 = z1 - q
        return int2octets(z2 if z2 >= 0 else z1)
    V = b"\x01" * hlen
    K = b"\x00" * hlen
    K = hmac.new(K, V + b"\x00" + int2octets(x) + bits2octets(h1) + extra, hashfunc).digest()
    V = hmac.new(K, V, hashfunc).digest()
    K = hmac.new(K, V + b"\x01" + int2octets(x) + bits2octets(h1) + extra, hashfunc).digest()
    V = hmac.new(K, V, hashfunc).digest()
    while True:
        T = b""
        while len(T) < rolen:
            V = hmac.new(K, V, hashfunc).digest()
            T += V
        k = bits2int(T)
        if 1 <= k < q:
            return k
        K = hmac.new(K, V + b"\x00", hashfunc).digest()
        V = hmac.new(K, V, hashfunc).digest()


def ref_sign(c, d, e, k):
    """textbook ECDSA on the independent arithmetic; e = digest already converted to an integer"""
    n = c["n"]
    R = refec.mul(c, k, (c["gx"], c["gy"]))
    r = R[0] % n
    s = pow(k, -1, n) * (e + r * d) % n
    return r, s


def ref_verify(c, Q, e, r, s):
    n = c["n"]
    if not (1 <= r < n and 1 <= s < n):
        return False
    w = pow(s, -1, n)
    P = refec.add(c, refec.mul(c, e * w % n, (c["gx"], c["gy"])), refec.mul(c, r * w % n, Q))
    return P is not None and P[0] % n == r


def digest_int(digest, n):
    e = int.from_bytes(digest, "big")
    bl = len(digest) * 8
    return e >> (bl - n.bit_length()) if bl > n.bit_length() else e


def refcurve(curve):
    fp = curve.curve
    return dict(p=int(fp.p()), a=int(fp.a()), b=int(fp.b()), gx=int(curve.generator.x()), gy=int(curve.generator.y()),
                n=int(curve.order))


@op("prop.c18sv")
def prop_c18sv(cname, d, hname, msg, k, ossl):
    """sign -> verify in the library, in the independent arithmetic and in OpenSSL (both directions); deterministic
    signatures equal RFC 6979"""
    curve = curves.curve_by_name(cname)
    c = refcurve(curve)
    n = c["n"]
    d, k = pint(d), pint(k)
    hf = HASHES[hname]
    m = unhx(msg)
    sk = keys.SigningKey.from_secret_exponent(d, curve, hashfunc=hf)
    vk = sk.verifying_key
    Q = refec.mul(c, d, (c["gx"], c["gy"]))
    e = digest_int(hf(m).digest(), n)
    want = ref_sign(c, d, e, k)
    for name, (enc, dec) in ENCODERS.items():
        try:
            sig = sk.sign(m, hashfunc=hf, sigencode=enc, k=k)
        except ecdsa_mod.RSZeroError:
            return "ok rs-zero"
        except Exception as ex:
            return f"FAIL sign({name}) raises {type(ex).__name__} at {where(ex)}"
        try:
            r, s = dec(sig, n)
        except Exception as ex:
            return f"FAIL decoding the library's own {name} signature raises {type(ex).__name__}"
        exp_s = want[1] if "canonize" not in name or want[1] <= n // 2 else n - want[1]
        if (r, s) != (want[0], exp_s):
            return f"FAIL {name} signature is not the ECDSA signature for this nonce"
        try:
            ok = vk.verify(sig, m, hashfunc=hf, sigdecode=dec)
        except Exception as ex:
            return f"FAIL verify({name}) of the library's own signature raises {type(ex).__name__}"
        if ok is not True:
            return f"FAIL verify({name}) returns {ok!r}"
        if not ref_verify(c, Q, e, r, s):
            return f"FAIL {name} signature does not verify in the independent arithmetic"
    # deterministic
    try:
        dsig = sk.sign_deterministic(m, hashfunc=hf, sigencode=util.sigencode_strings)
    except Exception as ex:
        return f"FAIL sign_deterministic raises {type(ex).__name__} at {where(ex)}"
    kd = ref_generate_k(n, d, hf, hf(m).digest())
    rd, sd = ref_sign(c, d, e, kd)
    got = (int.from_bytes(dsig[0], "big"), int.from_bytes(dsig[1], "big"))
    if got != (rd, sd):
        return "FAIL deterministic signature differs from RFC 6979 (independent implementation)"
    if ossl == "1" and cname in OSSL_NAMES:
        with tempfile.TemporaryDirectory(prefix="bec2verif_") as td:
            skp, vkp, mp, sp = (os.path.join(td, x) for x in ("sk.pem", "vk.pem", "m.bin", "s.der"))
            open(skp, "wb").write(sk.to_pem())
            open(vkp, "wb").write(vk.to_pem())
            open(mp, "wb").write(m)
            # library -> OpenSSL
            open(sp, "wb").write(sk.sign(m, hashfunc=hf, sigencode=util.sigencode_der, k=k))
            r1 = _run(["dgst", "-" + hname, "-verify", vkp, "-signature", sp, mp])
            if r1.returncode != 0 and b"Verified OK" not in r1.stdout:
                if b"unsupported" in r1.stderr.lower() or b"unknown group" in r1.stderr.lower() or b"invalid digest" in r1.stderr.lower():
                    return "ok ossl-unsupported"
                return f"FAIL OpenSSL rejects the library's signature: {r1.stdout[-60:]!r} {r1.stderr[-80:]!r}"
            # OpenSSL -> library
            r2 = _run(["dgst", "-" + hname, "-sign", skp, mp])
            if r2.returncode != 0:
                return f"FAIL OpenSSL cannot sign with the library's key: {r2.stderr[-80:]!r}"
            try:
                if vk.verify(r2.stdout, m, hashfunc=hf, sigdecode=util.sigdecode_der) is not True:
                    return "FAIL OpenSSL's signature does not verify in the library"
            except Exception as ex:
                return f"FAIL OpenSSL's signature: {type(ex).__name__} in the library"
            # deterministic nonce (RFC 6979) in OpenSSL
            r3 = _run(["pkeyutl", "-sign", "-inkey", skp, "-rawin", "-in", mp, "-digest", hname, "-pkeyopt", "nonce-type:1"])
            if r3.returncode == 0:
                if r3.stdout != util.sigencode_der(rd, sd, n):
                    return "FAIL deterministic signature differs from OpenSSL's RFC 6979 signature"
                return "ok ossl+det"
            return "ok ossl"
    return "ok"


@op("prop.c18hist")
def prop_c18hist(cname, seed, steps):
    """a history on long-lived key objects: two key pairs (and a second VerifyingKey object of the first) sign and verify
    many messages with changing hashes, encodings and nonces; every signature is the textbook one for its nonce (RFC 6979
    nonce in deterministic mode) and every verification gives the textbook verdict, whatever came before"""
    import random
    rng = random.Random(int(seed))
    curve = curves.curve_by_name(cname)
    c = refcurve(curve)
    n = c["n"]
    Gp = (c["gx"], c["gy"])
    ds = [rng.randrange(1, n), rng.choice([1, n - 1, rng.randrange(1, n)])]
    sks = [keys.SigningKey.from_secret_exponent(d, curve, hashfunc=hashlib.sha1) for d in ds]
    vks = [sks[0].verifying_key, sks[1].verifying_key, keys.VerifyingKey.from_string(sks[0].verifying_key.to_string(), curve)]
    owner = [0, 1, 0]
    Qs = [refec.mul(c, d, Gp) for d in ds]
    pool = [b"", b"a", bytes(rng.randrange(256) for _ in range(33)), bytes(rng.randrange(256) for _ in range(70))]
    sigs = []                                    # (signer, message, hash name, r, s)
    log = []
    for _ in range(int(steps)):
        kind = rng.choice(["sign", "sign", "det", "verify", "verify", "verify", "pre"])
        if kind == "pre":
            v = rng.randrange(3)
            try:
                vks[v].precompute(lazy=rng.random() < 0.5)
            except Exception as ex:
                return f"FAIL {' '.join(log)} precompute raises {type(ex).__name__}"
            log.append(f"vk{v}.precompute")
            continue
        if kind in ("sign", "det"):
            i = rng.randrange(2)
            m = rng.choice(pool)
            hname = rng.choice(list(HASHES))
            hf = HASHES[hname]
            ename = rng.choice(list(ENCODERS))
            enc, dec = ENCODERS[ename]
            dg = hf(m).digest()
            e = digest_int(dg, n)
            try:
                if kind == "sign":
                    k = rng.choice([rng.randrange(1, n), 1, 2, n - 1])
                    if rng.random() < 0.5:
                        sig = sks[i].sign(m, hashfunc=hf, sigencode=enc, k=k)
                    else:
                        sig = sks[i].sign_digest(dg, sigencode=enc, k=k, allow_truncate=True)
                else:
                    extra = rng.choice([b"", b"", bytes(rng.randrange(256) for _ in range(8))])
                    k = ref_generate_k(n, ds[i], hf, dg, extra)
                    if rng.random() < 0.5:
                        sig = sks[i].sign_deterministic(m, hashfunc=hf, sigencode=enc, extra_entropy=extra)
                    else:
                        sig = sks[i].sign_digest_deterministic(dg, hashfunc=hf, sigencode=enc, extra_entropy=extra, allow_truncate=True)
            except ecdsa_mod.RSZeroError:
                continue
            except Exception as ex:
                return f"FAIL {' '.join(log)} then {kind}({hname},{ename}) by key {i} raises {type(ex).__name__} at {where(ex)}"
            log.append(f"sk{i}.{kind}[{hname},{ename}]")
            r0, s0 = ref_sign(c, ds[i], e, k)
            if "canonize" in ename and s0 > n // 2:
                s0 = n - s0
            try:
                got = dec(sig, n)
            except Exception as ex:
                return f"FAIL {' '.join(log)}: own signature does not decode ({type(ex).__name__})"
            if got != (r0, s0):
                return f"FAIL {' '.join(log)}: signature of key {i} over {m.hex()!r} is not the ECDSA signature for its nonce"
            sigs.append((i, m, hname, r0, s0))
            continue
        if not sigs:
            continue
        i, m, hname, r0, s0 = rng.choice(sigs)
        v = rng.randrange(3)
        m2 = m if rng.random() < 0.6 else rng.choice(pool)
        h2 = hname if rng.random() < 0.7 else rng.choice(list(HASHES))
        hf = HASHES[h2]
        ename = rng.choice(["string", "strings", "der"])
        enc, dec = ENCODERS[ename]
        dg = hf(m2).digest()
        want = ref_verify(c, Qs[owner[v]], digest_int(dg, n), r0, s0)
        log.append(f"vk{v}.verify[{h2},{ename},sig of key {i}]")
        try:
            if rng.random() < 0.5:
                res = vks[v].verify(enc(r0, s0, n), m2, hashfunc=hf, sigdecode=dec)
            else:
                res = vks[v].verify_digest(enc(r0, s0, n), dg, sigdecode=dec, allow_truncate=True)
        except BadSignatureError:
            res = False
        except Exception as ex:
            return f"FAIL {' '.join(log)} raises {type(ex).__name__} at {where(ex)}"
        if res is not want:
            return (f"FAIL {' '.join(log)}: verdict {res!r}, textbook ECDSA says {want} (message {m2.hex()!r}, r={r0}, s={s0}, "
                    f"key {owner[v]})")
    return "ok"


@op("prop.c18tamper")
def prop_c18tamper(cname, d, hname, msg, k, stride, offset):
    """every single-bit change of the message and of the encoded signature makes verification fail with
    BadSignatureError; another key fails too"""
    curve = curves.curve_by_name(cname)
    n = int(curve.order)
    d, k, stride, offset = pint(d), pint(k), int(stride), int(offset)
    hf = HASHES[hname]
    m = unhx(msg)
    sk = keys.SigningKey.from_secret_exponent(d, curve, hashfunc=hf)
    vk = sk.verifying_key
    other = keys.SigningKey.from_secret_exponent(d % (n - 2) + 1 if d % (n - 2) + 1 != d else d % (n - 3) + 2, curve).verifying_key
    count = 0
    for name in ("string", "der"):
        enc, dec = ENCODERS[name]
        try:
            sig = sk.sign(m, hashfunc=hf, sigencode=enc, k=k)
        except ecdsa_mod.RSZeroError:
            return "ok rs-zero"

        def check(sig2, m2, key, what):
            try:
                r = key.verify(sig2, m2, hashfunc=hf, sigdecode=dec)
            except BadSignatureError:
                return None
            except Exception as ex:
                return f"FAIL {what}: {type(ex).__name__} at {where(ex)} instead of BadSignatureError"
            return f"FAIL {what}: verification returns {r!r}"
        r = check(sig, m, other, f"{name} signature under another key")
        if r:
            return r
        for bit in range(offset, len(m) * 8, stride):
            m2 = bytearray(m)
            m2[bit // 8] ^= 1 << (bit % 8)
            # a changed message can only verify if the truncated digests coincide (never for a real hash)
            r = check(sig, bytes(m2), vk, f"message bit {bit} flipped ({name})")
            if r:
                return r
            count += 1
        for bit in range(offset, len(sig) * 8, stride):
            s2 = bytearray(sig)
            s2[bit // 8] ^= 1 << (bit % 8)
            r = check(bytes(s2), m, vk, f"signature bit {bit} flipped ({name}, {sig.hex()})")
            if r:
                return r
            count += 1
        for cut in range(0, len(sig)):
            r = check(sig[:cut], m, vk, f"signature truncated to {cut} bytes ({name})")
            if r:
                return r
        r = check(sig + b"\x00", m, vk, f"signature extended ({name})")
        if r:
            return r
    return f"ok {count}"


@op("prop.c18range")
def prop_c18range(cname, d, hname, msg):
    """out-of-range r, s and malformed encodings are rejected with BadSignatureError; over-long digests with BadDigestError"""
    curve = curves.curve_by_name(cname)
    n = int(curve.order)
    hf = HASHES[hname]
    m = unhx(msg)
    sk = keys.SigningKey.from_secret_exponent(pint(d), curve, hashfunc=hf)
    vk = sk.verifying_key
    r0, s0 = util.sigdecode_strings(sk.sign_deterministic(m, hashfunc=hf, sigencode=util.sigencode_strings), n)
    ln = util.orderlen(n)
    vals = [0, n, n + 1, 2 * n, n - 0, 1 << (8 * ln - 1), (1 << (8 * ln)) - 1]
    cases = [(v, s0) for v in vals] + [(r0, v) for v in vals] + [(0, 0), (n, n), (r0 + n, s0), (r0, s0 + n), (r0, n - s0)]
    for r, s in cases:
        if (r, s) == (r0, n - s0):
            # (r, n-s) is the other valid signature of the same message: must verify
            if vk.verify(util.sigencode_der(r, s, n), m, hashfunc=hf, sigdecode=util.sigdecode_der) is not True:
                return "FAIL (r, n-s) does not verify"
            continue
        for name, blob in (("der", util.sigencode_der(r, s, n)),
                           ("string", (r % 256 ** ln).to_bytes(ln, "big") + (s % 256 ** ln).to_bytes(ln, "big") if r < 256 ** ln and s < 256 ** ln else None)):
            if blob is None:
                continue
            try:
                res = vk.verify(blob, m, hashfunc=hf, sigdecode=ENCODERS[name][1])
            except BadSignatureError:
                continue
            except Exception as ex:
                return f"FAIL r={r - r0 and r} s-case ({name}): {type(ex).__name__} at {where(ex)}"
            return f"FAIL out-of-range signature r={'r0' if r == r0 else r} s={'s0' if s == s0 else s} accepted ({name}): {res!r}"
    # a signature whose combination point u1*G + u2*Q is the point at infinity: r = -e/d mod n, any s
    e = digest_int(hf(m).digest(), n)
    dd = pint(d)
    rinf = (-e * pow(dd, -1, n)) % n
    if rinf:
        for s in (1, 2, s0):
            try:
                vk.verify(util.sigencode_der(rinf, s, n), m, hashfunc=hf, sigdecode=util.sigdecode_der)
            except BadSignatureError:
                continue
            except Exception as ex:
                return f"FAIL signature with u1*G + u2*Q = infinity (r = -e/d): {type(ex).__name__} at {where(ex)}"
            return "FAIL signature with u1*G + u2*Q = infinity accepted"
    bad = [b"", b"\x30", b"\x30\x00", b"\x30\x03\x02\x01", b"\x30\x06\x02\x01\x01\x02\x01", b"\x30\x06\x02\x01\x01\x02\x01\x01\x00",
           b"\x31\x06\x02\x01\x01\x02\x01\x01", b"\x30\x06\x02\x01\x81\x02\x01\x01", b"\x30\x07\x02\x02\x00\x01\x02\x01\x01",
           b"\x30\x80\x02\x01\x01\x02\x01\x01", b"\x30\x81\x06\x02\x01\x01\x02\x01\x01", b"\x30\x06\x02\x00\x02\x02\x01\x01"]
    for blob in bad:
        try:
            vk.verify(blob, m, hashfunc=hf, sigdecode=util.sigdecode_der)
        except BadSignatureError:
            continue
        except Exception as ex:
            return f"FAIL malformed DER signature {blob.hex()}: {type(ex).__name__} at {where(ex)}"
        return f"FAIL malformed DER signature {blob.hex()} accepted"
    # structurally consistent malformations of the genuine DER signature (all enclosing lengths recomputed): anything that is
    # not the one DER encoding of (r0, s0) must be refused
    import random
    import zlib
    import dertree
    good = util.sigencode_der(r0, s0, n)
    body = good[2:] if good[1] < 0x80 else good[2 + (good[1] & 0x7F):]
    lrng = random.Random(zlib.crc32(good))
    variants = [(f"{junk.hex()} after s inside the SEQUENCE", b"\x30" + dertree.enc_len(len(body) + len(junk)) + body + junk)
                for junk in (b"\x00", b"\x05\x00", b"\x02\x01\x01", b"\xde\xad\xbe\xef", der.encode_integer(s0))]
    variants.append(("non-minimal length of the SEQUENCE", b"\x30" + bytes([0x80 | (len(dertree.enc_len(len(body))) )]) +
                     len(body).to_bytes(len(dertree.enc_len(len(body))), "big") + body))
    variants.append(("zero-padded r", b"\x30" + dertree.enc_len(len(body) + 1) + b"\x02" +
                     dertree.enc_len(len(der.encode_integer(r0)) - 2 + 1) + b"\x00" + der.encode_integer(r0)[2:] + der.encode_integer(s0)))
    variants += list(dertree.mutations(good, lrng))
    for what, blob in variants:
        if blob == good:
            continue
        try:
            res = vk.verify(blob, m, hashfunc=hf, sigdecode=util.sigdecode_der)
        except BadSignatureError:
            continue
        except Exception as ex:
            return f"FAIL malformed DER signature ({what}) {blob.hex()}: {type(ex).__name__} at {where(ex)}"
        return f"FAIL malformed DER signature ({what}) {blob.hex()} accepted: {res!r}"
    rs, ss = util.sigencode_strings(r0, s0, n)
    for what, pair in (("short r", (rs[1:], ss)), ("long r", (b"\x00" + rs, ss)), ("short s", (rs, ss[:-1])),
                       ("long s", (rs, ss + b"\x00")), ("three strings", (rs, ss, b"")), ("one string", (rs + ss,))):
        try:
            res = vk.verify(pair, m, hashfunc=hf, sigdecode=util.sigdecode_strings)
        except BadSignatureError:
            continue
        except Exception as ex:
            return f"FAIL malformed signature string pair ({what}): {type(ex).__name__} at {where(ex)}"
        return f"FAIL malformed signature string pair ({what}) accepted: {res!r}"
    for blob in (b"", b"\x01" * (2 * ln - 1), b"\x01" * (2 * ln + 1)):
        try:
            vk.verify(blob, m, hashfunc=hf, sigdecode=util.sigdecode_string)
        except BadSignatureError:
            continue
        except Exception as ex:
            return f"FAIL string signature of {len(blob)} bytes: {type(ex).__name__}"
        return f"FAIL string signature of {len(blob)} bytes accepted"
    # digests longer than the curve without truncation permission
    dg = hashlib.sha512(m).digest()
    if len(dg) > curve.baselen:
        try:
            sk.sign_digest(dg, k=5)
            return "FAIL over-long digest signed without allow_truncate"
        except BadDigestError:
            pass
        except Exception as ex:
            return f"FAIL over-long digest: {type(ex).__name__} instead of BadDigestError"
        try:
            vk.verify_digest(b"\x01" * (2 * ln), dg)
            return "FAIL over-long digest verified without allow_truncate"
        except BadDigestError:
            pass
        except Exception as ex:
            return f"FAIL over-long digest in verify: {type(ex).__name__} instead of BadDigestError"
    return "ok"


# ---------------------------------------------------------------------------------- correspondence adapters
from impl_ec import domain, parse_pj
from register_crypto_plugin.ecdsa import ellipticcurve as _ell


def _gd(f):
    def w(*a):
        try:
            return f(*a)
        except Exception as e:
            return err(e)
    return w


@op("ecdsa.sign")
@_gd
def ecdsa_sign(dom, sec, h, k):
    fp, gx, gy, n, hh, cv = domain(dom)
    gen = _ell.PointJacobi(fp, gx, gy, 1, n, generator=True)
    pub = ecdsa_mod.Public_key(gen, gen * pint(sec), verify=False) if pint(sec) % n else None
    if pub is None:
        pub = ecdsa_mod.Public_key(gen, gen, verify=False)
    priv = ecdsa_mod.Private_key(pub, pint(sec))
    sig = priv.sign(pint(h), pint(k))
    return f"ok {sint(sig.r)} {sint(sig.s)}"


@op("ecdsa.verifies")
@_gd
def ecdsa_verifies(dom, q, h, r, s):
    fp, gx, gy, n, hh, cv = domain(dom)
    gen = _ell.PointJacobi(fp, gx, gy, 1, n, generator=True)
    pub = ecdsa_mod.Public_key(gen, parse_pj(fp, q), verify=False)
    return "ok " + ("true" if pub.verifies(pint(h), ecdsa_mod.Signature(pint(r), pint(s))) else "false")


class _C:
    def __init__(self, baselen, order):
        self.baselen, self.order, self.name = baselen, order, "x"


@op("ecdsa.trunc")
@_gd
def ecdsa_trunc(dg, bl, o, a):
    return f"ok {keys._truncate_and_convert_digest(unhx(dg), _C(int(bl), int(o)), a == '1')}"


@op("sig.enc")
@_gd
def sig_enc(kind, r, s, o):
    f = {"string": util.sigencode_string, "der": util.sigencode_der, "string_canonize": util.sigencode_string_canonize,
         "der_canonize": util.sigencode_der_canonize}[kind]
    return "ok " + hx(f(int(r), int(s), int(o)))


@op("sig.dec")
@_gd
def sig_dec(kind, sig, o):
    f = {"string": util.sigdecode_string, "der": util.sigdecode_der}[kind]
    r, s = f(unhx(sig), int(o))
    return f"ok {r} {s}"


@op("rfc6979.k")
@_gd
def rfc_k(o, x, data, retry, extra):
    return f"ok {rfc6979.generate_k(int(o), int(x), hashlib.sha256, unhx(data), int(retry), unhx(extra))}"


@op("rfc6979.b2o")
@_gd
def rfc_b2o(data, o):
    return "ok " + hx(rfc6979.bits2octets(unhx(data), int(o)))


@op("ecdsa.verifydigest")
@_gd
def ecdsa_verifydigest(dom, q, bl, sig, dg, kind, allow):
    fp, gx, gy, n, hh, cv = domain(dom)
    vk = keys.VerifyingKey.from_public_point(parse_pj(fp, q), cv, validate_point=False)
    dec = util.sigdecode_der if kind == "der" else util.sigdecode_string
    return "ok " + ("true" if vk.verify_digest(unhx(sig), unhx(dg), sigdecode=dec, allow_truncate=(allow == "1")) else "false")
