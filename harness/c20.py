"""C20 — shared curve objects and the reader-writer lock under every schedule."""
TRUSTED = [
    "Lean 4.33 kernel; axioms propext, Classical.choice, Quot.sound only",
    "Model/RwLock.lean (one step = one source line of _rwlock.py executed by one thread) tied to the real code by a "
    "controlled scheduler (harness/rwexplore.py): line tracer + hand-over semaphores, threading.Lock replaced by a "
    "reporting stand-in; the COMPLETE reachable transition graph of the real code (states = positions, lock flags, "
    "counters read from the real objects; blocked attempts included) is compared with the model's graph",
    "CPython executes one source line of one thread at a time under the scheduler; switches inside a line (between "
    "bytecodes) are not explored: the lines of _rwlock.py contain one shared-state access each",
    "shared curve objects: that a multiplication gives the same group element whether or not the table exists / the "
    "coordinates were rescaled is C17 (mul_correct for both paths, scale_rep); the publication discipline of the real "
    "code (table and coordinates replaced by one assignment) is evaluated by preempting one thread before every "
    "source line of its operation and running complete operations of a second thread on the same object",
]
ASSUMPTIONS = ["a thread switch can occur before any source line (not inside one)",
               "one acquire/release cycle per thread; up to 2 readers + 2 writers explored on the real code, the "
               "theorems are for any number of threads"]
LEANCHECKER_MODULES = ["Bec2Verif.Props.C20"]

QUICK_CONFIGS = ["r", "w", "rr", "ww", "rw", "rrw", "rww"]
THOROUGH_CONFIGS = QUICK_CONFIGS + ["rrr", "www", "rrww"]


def run(ctx):
    rng = ctx.rng
    ctx.rule = ("complete state space of the real lock code for the thread configurations listed in the histogram (every "
                "interleaving at source-line granularity, switches also right after a release); shared generator / public "
                "point: preemption before every line event of k*G (lazy table), k*Q and to_affine (in-place rescaling), "
                "mul_add, each followed by 6 complete operations of a second thread; non-trivial = every case")
    cfgs = QUICK_CONFIGS if ctx.quick else THOROUGH_CONFIGS
    for c in cfgs:
        ctx.count("lock-config:" + c)
    # one exploration of the real code per configuration: the transition graph is compared with the model's, and the
    # property is evaluated on the real graph in the same pass (verdict=...); a failing verdict is a disagreement with
    # the model's verdict, and search() then reports the violating schedule
    ctx.correspond([f"rw.explore {c}" for c in cfgs], "lock-graph")
    if not ctx.quick:
        res = ctx.check_props([f"prop.c20lock {c}" for c in cfgs], "prop.c20lock")
        for c, r in zip(cfgs, res):
            ctx.count(f"lock:{c}:{r}")
    shared = []
    curves = ["SECP112r1"] if ctx.quick else ["SECP112r1", "NIST192p", "BRAINPOOLP160r1"]
    for cname in curves:
        for scenario, aop in (("gen", "mul"), ("gen", "muladd"), ("genz", "mul"), ("gentab", "mul"), ("gentab", "muladd"), ("pub", "mul"), ("pub", "affine"), ("pub", "muladd"), ("pub", "xy"), ("pub", "eq")):
            k1 = rng.randrange(3, 2 ** 100)
            k2 = rng.randrange(3, 2 ** 100)
            stride = 16 if scenario in ("gen", "genz") else (1 if aop in ("xy", "eq") else (2 if scenario == "gentab" else 4))
            for off in range(stride):
                shared.append(f"prop.c20shared {cname} {scenario} {aop} {k1} {k2} {stride} {off}")
    # the twisted-Edwards generators have their own table construction: a sample of its preemption points
    for cname in ("Ed25519", "Ed448"):
        stride = 257 if ctx.quick else 31
        for off in (rng.sample(range(stride), 6) if ctx.quick else range(stride)):
            shared.append(f"prop.c20edw {cname} {rng.randrange(3, 2 ** 200)} {rng.randrange(3, 2 ** 200)} {stride} {off}")
        # the shared public point: few source lines, every one of them a preemption point
        shared.append(f"prop.c20edw {cname} {rng.randrange(3, 2 ** 200)} {rng.randrange(3, 2 ** 200)} -1 0")
    res = ctx.check_props(shared, "prop.c20shared")
    pts = sum(int(r.split()[1]) for r in res if r.startswith("ok "))
    ctx.count("shared-object preemption points", pts)


def search(ctx):
    ctx.check_props([f"prop.c20lock {c}" for c in THOROUGH_CONFIGS], "search.c20lock")
