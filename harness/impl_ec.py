"""C17 adapters: the short-Weierstrass arithmetic, key validation and ECDH of the bundled python-ecdsa"""
import traceback
import os
import subprocess
import tempfile
from impl import op, err, REPO
from register_crypto_plugin.ecdsa import ellipticcurve, curves, ecdh, keys, errors, numbertheory
from register_crypto_plugin.ecdsa.ellipticcurve import CurveFp, PointJacobi, Point, INFINITY
import refec

_domains = {}


def pint(s):
    return -int(s[1:]) if s.startswith("n") else int(s)


def sint(i):
    i = int(i)
    return f"n{-i}" if i < 0 else str(i)


def domain(s):
    """-> (CurveFp, gx, gy, n, h, curves.Curve)"""
    d = _domains.get(s)
    if d is None:
        if ":" not in s:
            c = curves.curve_by_name(s)
            d = (c.curve, int(c.generator.x()), int(c.generator.y()), int(c.order), int(c.curve.cofactor()), c)
        else:
            p, a, b, gx, gy, n, h = [pint(x) for x in s.split(":")]
            fp = CurveFp(p, a, b, h)
            gen = PointJacobi(fp, gx, gy, 1, n, generator=True)
            d = (fp, gx, gy, n, h, curves.Curve("custom", fp, gen, (1, 2, 3, 4)))
        _domains[s] = d
    return d


def refcurve(s):
    fp, gx, gy, n, h, _ = domain(s)
    return dict(p=int(fp.p()), a=int(fp.a()), b=int(fp.b()), gx=gx, gy=gy, n=n, h=h)


def parse_pt(fp, s, order=None, gen=False):
    if s == "inf":
        return INFINITY
    x, y, z = [pint(v) for v in s.split(",")]
    return PointJacobi(fp, x, y, z, order, gen)


def parse_pj(fp, s):
    x, y, z, o, g = [pint(v) for v in s.split(",")]
    return PointJacobi(fp, x, y, z, o or None, bool(g))


def parse_apt(fp, s, order=None):
    if s == "inf":
        return INFINITY
    x, y = [pint(v) for v in s.split(",")]
    return Point(fp, x, y, order)


def show_pt(P):
    if P is INFINITY or (isinstance(P, Point) and P == INFINITY):
        return "ok inf"
    X, Y, Z = P._PointJacobi__coords
    j = f"J={sint(X)},{sint(Y)},{sint(Z)}"
    if not Y or not Z:
        return f"ok {j} A=inf"
    # affine value without touching the object (x()/y() do not scale in place)
    return f"ok {j} A={sint(P.x())},{sint(P.y())}"


def show_apt(P):
    if P == INFINITY:
        return "ok inf"
    return f"ok {sint(P.x())},{sint(P.y())}"


def guard(f):
    def g(*a):
        try:
            return f(*a)
        except Exception as e:
            return err(e)
    g.__name__ = f.__name__
    return g


@op("ec.add")
@guard
def ec_add(d, p, q):
    fp = domain(d)[0]
    P, Q = parse_pt(fp, p), parse_pt(fp, q)
    if P is INFINITY:
        return show_pt(Q) if Q is not INFINITY else "ok inf"
    return show_pt(P + Q)


@op("ec.neg")
@guard
def ec_neg(d, p):
    fp = domain(d)[0]
    P = parse_pt(fp, p)
    return "ok inf" if P is INFINITY else show_pt(-P)


@op("ec.negadd")
@guard
def ec_negadd(d, p, q):
    fp = domain(d)[0]
    P, Q = parse_pt(fp, p), parse_pt(fp, q)
    N = INFINITY if P is INFINITY else -P
    if N is INFINITY:
        return show_pt(Q) if Q is not INFINITY else "ok inf"
    return show_pt(N + Q)


@op("ec.double")
@guard
def ec_double(d, p):
    fp = domain(d)[0]
    P = parse_pt(fp, p)
    return "ok inf" if P is INFINITY else show_pt(P.double())


@op("ec.mul")
@guard
def ec_mul(d, p, k):
    fp = domain(d)[0]
    return show_pt(parse_pj(fp, p) * pint(k))


@op("ec.muladd")
@guard
def ec_muladd(d, p, k1, q, k2):
    fp = domain(d)[0]
    Q = INFINITY if q == "inf" else parse_pj(fp, q)
    return show_pt(parse_pj(fp, p).mul_add(pint(k1), Q, pint(k2)))


@op("ec.eq")
@guard
def ec_eq(d, p, q):
    fp = domain(d)[0]
    P, Q = parse_pt(fp, p), parse_pt(fp, q)
    if P is INFINITY and Q is INFINITY:
        return "ok true"
    if P is INFINITY:
        P, Q = Q, P
    return "ok " + ("true" if P == Q else "false")


@op("ap.add")
@guard
def ap_add(d, p, q):
    fp = domain(d)[0]
    return show_apt(parse_apt(fp, p) + parse_apt(fp, q))


@op("ap.double")
@guard
def ap_double(d, p):
    fp = domain(d)[0]
    return show_apt(parse_apt(fp, p).double())


@op("ap.neg")
@guard
def ap_neg(d, p):
    fp = domain(d)[0]
    return show_apt(-parse_apt(fp, p))


@op("ap.mul")
@guard
def ap_mul(d, o, p, e):
    fp = domain(d)[0]
    return show_apt(parse_apt(fp, p, pint(o) or None) * pint(e))


@op("ec.validate")
@guard
def ec_validate(d, x, y):
    fp, _, _, _, _, cv = domain(d)
    keys.VerifyingKey.from_public_point(PointJacobi(fp, pint(x), pint(y), 1), cv)
    return "ok valid"


def _dh(d, priv, x, y):
    fp, _, _, n, _, cv = domain(d)
    vk = keys.VerifyingKey.from_public_point(PointJacobi(fp, pint(x), pint(y), 1), cv, validate_point=False)
    sk = keys.SigningKey.from_secret_exponent(pint(priv), cv)
    return ecdh.ECDH(cv, sk, vk)


@op("ec.dh")
@guard
def ec_dh(d, priv, x, y):
    return "ok " + sint(_dh(d, priv, x, y).generate_sharedsecret())


# ---------------------------------------------------------------------------------- direct evaluation (C17)

def affine_of(c, s):
    """independent affine value of a Jacobian triple (python ints, pow for the inverse)"""
    if s == "inf":
        return None
    X, Y, Z = [pint(v) for v in s.split(",")]
    p = c["p"]
    if Z % p == 0 or not Y or not Z:
        return None
    zi = pow(Z, -1, p)
    return (X * zi * zi % p, Y * zi * zi * zi % p)


def got_affine(res):
    """affine value out of a protocol result of show_pt"""
    if res == "ok inf" or res.endswith("A=inf"):
        return None
    a = res.split("A=")[1]
    x, y = a.split(",")
    return (pint(x), pint(y))


def same(c, got, want):
    if got is None or want is None:
        return got is None and want is None
    return got[0] % c["p"] == want[0] and got[1] % c["p"] == want[1]


@op("prop.c17add")
def prop_c17add(d, p, q):
    c = refcurve(d)
    want = refec.add(c, affine_of(c, p), affine_of(c, q))
    res = ec_add(d, p, q)
    if not res.startswith("ok"):
        return f"FAIL P+Q raises {res[4:]}"
    if not same(c, got_affine(res), want):
        return f"FAIL P+Q = {got_affine(res)} but the group law gives {want}"
    res2 = ec_add(d, q, p)
    if not res2.startswith("ok") or not same(c, got_affine(res2), want):
        return f"FAIL Q+P = {res2} differs from P+Q = {want}"
    return "ok"


@op("prop.c17affine")
def prop_c17affine(d, p, q, k):
    """the affine Point class on points given by ANY integer representatives of their coordinates (the class itself builds
    (x, -y) in __mul__ and keeps whatever the caller passes): P + Q, Q + P, 2P, -P and k*P against the independent group law"""
    c = refcurve(d)
    fp = domain(d)[0]
    pp = c["p"]
    n = c["n"]

    def val(t):
        return None if t == "inf" else tuple(pint(v) % pp for v in t.split(","))

    def obj(t, order=None):
        return parse_apt(fp, t, order)

    def aff(P):
        return None if P == INFINITY else (int(P.x()) % pp, int(P.y()) % pp)

    P, Q = val(p), val(q)
    try:
        for what, got, want in (("P + Q", lambda: obj(p) + obj(q), refec.add(c, P, Q)),
                                ("Q + P", lambda: obj(q) + obj(p), refec.add(c, P, Q)),
                                ("P + Q (with order)", lambda: obj(p, n) + obj(q, n), refec.add(c, P, Q)),
                                ("2P", lambda: obj(p).double() if P else INFINITY, refec.add(c, P, P)),
                                ("-P", lambda: -obj(p) if P else INFINITY, None if P is None else (P[0], -P[1] % pp)),
                                ("(P + Q) + (-Q)", lambda: (obj(p) + obj(q)) + (-obj(q) if Q else INFINITY), P),
                                (f"{pint(k)} * P", lambda: obj(p) * pint(k) if P else INFINITY, refec.mul(c, pint(k) % n, P) if P else None),
                                (f"{pint(k)} * P (with order)", lambda: obj(p, n) * pint(k) if P else INFINITY,
                                 refec.mul(c, pint(k) % n, P) if P else None)):
            if pint(k) < 0 and "* P" in what:
                continue
            g = aff(got())
            if g != want:
                return f"FAIL affine {what} = {g} but the group law gives {want}"
    except Exception as e:
        if os.path.abspath(traceback.extract_tb(e.__traceback__)[-1].filename).startswith(os.path.abspath(REPO)):
            return f"FAIL affine arithmetic on points of the curve raises {type(e).__name__}: {e}"
        raise
    return "ok"


@op("prop.c17neg")
def prop_c17neg(d, p, q):
    """negation in the Jacobian class, for every representation of P incl. those of infinity: -P is the inverse of the group
    law, -(-P) = P, P + (-P) = infinity, (-P) + Q = Q - P, 2(-P) = -(2P), 3 * (-P) = -(3P)"""
    c = refcurve(d)
    fp, n = domain(d)[0], domain(d)[3]
    a, b = affine_of(c, p), affine_of(c, q)
    P, Q = parse_pt(fp, p, n), parse_pt(fp, q, n)
    if P is INFINITY:
        return "ok n/a"

    def aff(R):
        return None if (R is INFINITY or R == INFINITY) else (int(R.x()) % c["p"], int(R.y()) % c["p"])
    try:
        N = -P
        for what, got, want in (("-P", aff(N), refec.neg(c, a)), ("-(-P)", aff(-N), a), ("P + (-P)", aff(P + N), None),
                                ("(-P) + P", aff(N + P), None), ("(-P) + Q", aff(N + Q) if Q is not INFINITY else aff(N), refec.add(c, refec.neg(c, a), b)),
                                ("Q + (-P)", aff(Q + N) if Q is not INFINITY else aff(N), refec.add(c, refec.neg(c, a), b)),
                                ("2 * (-P)", aff(N.double()), refec.neg(c, refec.add(c, a, a))),
                                ("3 * (-P)", aff(N * 3), refec.neg(c, refec.mul(c, 3, a))),
                                ("(-P) == infinity", (N == INFINITY), a is None)):
            if got != want:
                return f"FAIL {what} = {got} but the group law gives {want}"
    except Exception as e:
        return f"FAIL negation / arithmetic with the negated point raises {type(e).__name__}: {e}"
    return "ok"


@op("prop.c17double")
def prop_c17double(d, p):
    c = refcurve(d)
    a = affine_of(c, p)
    want = refec.add(c, a, a)
    res = ec_double(d, p)
    if not res.startswith("ok") or not same(c, got_affine(res), want):
        return f"FAIL 2P = {res} but the group law gives {want}"
    return "ok"


@op("prop.c17mul")
def prop_c17mul(d, p, k):
    c = refcurve(d)
    fp = domain(d)[0]
    x, y, z, o, g = p.split(",")
    a = affine_of(c, f"{x},{y},{z}")
    want = refec.mul(c, pint(k), a)
    res = ec_mul(d, p, k)
    if not res.startswith("ok") or not same(c, got_affine(res), want):
        return f"FAIL k*P = {res} but the group law gives {want}"
    # k*P through __rmul__ and through the affine class
    if a is not None:
        try:
            ap = Point(fp, a[0], a[1], pint(o) or None) * pint(k)
            got = None if ap == INFINITY else (int(ap.x()), int(ap.y()))
        except Exception as e:
            return f"FAIL affine k*P raises {type(e).__name__}"
        if not same(c, got, want):
            return f"FAIL affine k*P = {got} but the group law gives {want}"
    return "ok"


@op("prop.c17muladd")
def prop_c17muladd(d, p, k1, q, k2):
    c = refcurve(d)
    pa = affine_of(c, ",".join(p.split(",")[:3]))
    qa = None if q == "inf" else affine_of(c, ",".join(q.split(",")[:3]))
    want = refec.add(c, refec.mul(c, pint(k1), pa), refec.mul(c, pint(k2), qa))
    res = ec_muladd(d, p, k1, q, k2)
    if not res.startswith("ok") or not same(c, got_affine(res), want):
        return f"FAIL k1*P + k2*Q = {res} but the group law gives {want}"
    return "ok"


OPENSSL = os.environ.get("VERIF_OPENSSL", "/root/miniconda/bin/openssl")
OSSL_NAMES = {"NIST192p": "prime192v1", "NIST224p": "secp224r1", "NIST256p": "prime256v1", "NIST384p": "secp384r1",
              "NIST521p": "secp521r1", "SECP256k1": "secp256k1", "BRAINPOOLP160r1": "brainpoolP160r1",
              "BRAINPOOLP192r1": "brainpoolP192r1", "BRAINPOOLP224r1": "brainpoolP224r1",
              "BRAINPOOLP256r1": "brainpoolP256r1", "BRAINPOOLP320r1": "brainpoolP320r1",
              "BRAINPOOLP384r1": "brainpoolP384r1", "BRAINPOOLP512r1": "brainpoolP512r1", "SECP112r1": "secp112r1",
              "SECP112r2": "secp112r2", "SECP128r1": "secp128r1", "SECP160r1": "secp160r1"}


def _run(args, data=None):
    return subprocess.run([OPENSSL] + args, input=data, capture_output=True, timeout=60)


def ossl_derive(name, sk_pem, pk_pem):
    """ECDH secret computed by OpenSSL from PEM keys; None when OpenSSL refuses"""
    with tempfile.TemporaryDirectory(prefix="bec2verif_") as td:
        a, b = os.path.join(td, "sk.pem"), os.path.join(td, "pk.pem")
        open(a, "wb").write(sk_pem)
        open(b, "wb").write(pk_pem)
        r = _run(["pkeyutl", "-derive", "-inkey", a, "-peerkey", b])
        return r.stdout if r.returncode == 0 else None


@op("prop.c17dh")
def prop_c17dh(d, da, db, ossl):
    """both parties compute the same secret, equal to the independent arithmetic and (named curves) to OpenSSL"""
    c = refcurve(d)
    cv = domain(d)[5]
    da, db = pint(da), pint(db)
    ska, skb = keys.SigningKey.from_secret_exponent(da, cv), keys.SigningKey.from_secret_exponent(db, cv)
    pa, pb = refec.mul(c, da, refec.G(c)), refec.mul(c, db, refec.G(c))
    for nm, sk, ref in (("A", ska, pa), ("B", skb, pb)):
        pt = sk.verifying_key.pubkey.point
        if (int(pt.x()), int(pt.y())) != ref:
            return f"FAIL public key of {nm} differs from d*G of the independent arithmetic"
    try:
        s1 = ecdh.ECDH(cv, ska, skb.verifying_key).generate_sharedsecret_bytes()
        s2 = ecdh.ECDH(cv, skb, ska.verifying_key).generate_sharedsecret_bytes()
    except Exception as e:
        return f"FAIL key agreement raises {type(e).__name__}"
    if s1 != s2:
        return "FAIL the two parties derive different secrets"
    want = refec.mul(c, da, pb)[0]
    ln = (c["p"].bit_length() + 7) // 8
    if s1 != want.to_bytes(ln, "big"):
        return "FAIL shared secret differs from x(da*db*G) of the independent arithmetic"
    if ossl == "1" and d in OSSL_NAMES:
        o = ossl_derive(d, ska.to_pem(), skb.verifying_key.to_pem())
        if o is None:
            return "ok ossl-unsupported"
        if o != s1:
            return "FAIL shared secret differs from OpenSSL's"
        return "ok ossl"
    return "ok"


@op("prop.c17dhhist")
def prop_c17dhhist(d, seed, steps):
    """a history of key loads (every loader of the ECDH class, plain attribute assignment, a fresh key) on two long-lived
    ECDH objects: after every step each object's secret is x(private * peer) of the independent arithmetic for the keys it
    holds *now*"""
    import random
    rng = random.Random(int(seed))
    c = refcurve(d)
    cv = domain(d)[5]
    n = c["n"]
    ln = (c["p"].bit_length() + 7) // 8
    named = d in OSSL_NAMES or cv.oid is not None
    objs = [ecdh.ECDH(cv), ecdh.ECDH()]
    held = [[None, None], [None, None]]            # (private scalar, peer scalar) per object
    log = []

    def scalar():
        return rng.choice([rng.randrange(1, n), 1, n - 1, rng.randrange(1, min(n, 1 << 16))])

    for _ in range(int(steps)):
        i = rng.randrange(2)
        e = objs[i]
        kind = rng.choice(["priv", "priv", "pub", "pub", "pub", "gen", "secret"])
        try:
            if kind == "priv":
                k = scalar()
                sk = keys.SigningKey.from_secret_exponent(k, cv)
                how = rng.choice(["obj", "bytes", "der", "pem"] if named else ["obj", "bytes"])
                if how == "obj":
                    e.load_private_key(sk)
                elif how == "bytes":
                    if e.curve is None:
                        e.set_curve(cv)
                    e.load_private_key_bytes(sk.to_string())
                elif how == "der":
                    e.load_private_key_der(sk.to_der())
                else:
                    e.load_private_key_pem(sk.to_pem())
                held[i][0] = k
                log.append(f"obj{i}.load_private_key[{how}]")
            elif kind == "gen":
                if e.curve is None:
                    e.set_curve(cv)
                e.generate_private_key()
                held[i][0] = int(e.private_key.privkey.secret_multiplier)
                log.append(f"obj{i}.generate_private_key")
            elif kind == "pub":
                k = scalar()
                vk = keys.SigningKey.from_secret_exponent(k, cv).verifying_key
                how = rng.choice(["obj", "bytes", "bytes-compressed", "assign", "der", "pem"] if named else ["obj", "bytes", "assign"])
                if how == "obj":
                    e.load_received_public_key(vk)
                elif how == "bytes":
                    if e.curve is None:
                        e.set_curve(cv)
                    e.load_received_public_key_bytes(vk.to_string(rng.choice(["raw", "uncompressed", "hybrid"])))
                elif how == "bytes-compressed":
                    if e.curve is None:
                        e.set_curve(cv)
                    e.load_received_public_key_bytes(vk.to_string("compressed"))
                elif how == "assign":
                    if e.curve is None:
                        e.set_curve(cv)
                    e.public_key = vk
                elif how == "der":
                    e.load_received_public_key_der(vk.to_der())
                else:
                    e.load_received_public_key_pem(vk.to_pem())
                held[i][1] = k
                log.append(f"obj{i}.load_received_public_key[{how}]")
            else:
                log.append(f"obj{i}.secret")
        except Exception as ex:
            return f"FAIL {' '.join(log)} then {kind} on obj{i}: {type(ex).__name__} at {where_(ex)}"
        for j, o in enumerate(objs):
            a, b = held[j]
            if a is None or b is None:
                try:
                    o.generate_sharedsecret_bytes()
                except ecdh.NoKeyError:
                    continue
                except Exception as ex:
                    return f"FAIL {' '.join(log)}: obj{j} lacks a key and raises {type(ex).__name__} instead of NoKeyError"
                return f"FAIL {' '.join(log)}: obj{j} lacks a key and still returns a secret"
            want = refec.mul(c, a * b % n, refec.G(c))
            try:
                got_b = o.generate_sharedsecret_bytes()
                got_i = o.generate_sharedsecret()
            except Exception as ex:
                return f"FAIL {' '.join(log)}: obj{j} raises {type(ex).__name__} at {where_(ex)}"
            if want is None:
                return f"FAIL {' '.join(log)}: obj{j} returns a secret for the point at infinity"
            if int(got_i) != want[0] or got_b != want[0].to_bytes(ln, "big"):
                return (f"FAIL {' '.join(log)}: obj{j} holds private {a} and peer {b}*G and returns {int(got_i)} "
                        f"instead of x({a}*{b}*G) = {want[0]}")
    return "ok"


def where_(ex):
    import traceback
    tb = traceback.extract_tb(ex.__traceback__)
    return f"{os.path.basename(tb[-1].filename)}:{tb[-1].lineno}" if tb else "?"


@op("prop.c17dhcurves")
def prop_c17dhcurves(da_name, db_name, ka, kb):
    """keys of two different curves mixed in one ECDH object, by every route (loaders, set_curve after loading, plain attribute
    assignment): the agreement must end in InvalidCurveError, never in a secret"""
    ca, cb = domain(da_name)[5], domain(db_name)[5]
    if ca == cb:
        return "ok n/a"
    ska = keys.SigningKey.from_secret_exponent(1 + pint(ka) % (int(ca.order) - 1), ca)
    skb = keys.SigningKey.from_secret_exponent(1 + pint(kb) % (int(cb.order) - 1), cb)
    vka, vkb = ska.verifying_key, skb.verifying_key

    def r1():
        e = ecdh.ECDH(); e.load_private_key(ska); e.set_curve(cb); e.load_received_public_key(vkb); return e
    def r2():
        e = ecdh.ECDH(curve=cb, public_key=vkb); e.private_key = ska; return e
    def r3():
        e = ecdh.ECDH(ca, ska); e.load_received_public_key(vkb); return e
    def r4():
        e = ecdh.ECDH(ca); e.public_key = vkb; e.load_private_key(ska); return e
    def r5():
        e = ecdh.ECDH(ca, ska, vka); e.set_curve(cb); return e
    def r6():
        e = ecdh.ECDH(ca, ska, vka); e.public_key = vkb; return e
    def r7():
        e = ecdh.ECDH(); e.load_received_public_key(vkb); e.load_private_key_bytes(ska.to_string()); return e
    for name, route in (("load_private_key, set_curve(other), load peer of other", r1), ("private_key assigned directly", r2),
                        ("peer of another curve loaded", r3), ("public_key assigned directly", r4), ("set_curve after both keys", r5),
                        ("public_key replaced by assignment", r6), ("private key bytes of another curve's length", r7)):
        try:
            e = route()
            sec = e.generate_sharedsecret_bytes()
        except (ecdh.InvalidCurveError, errors.MalformedPointError):
            continue
        except Exception as ex:
            if name.startswith("private key bytes"):
                continue          # a wrong-length string is refused by the key loader with its own error
            return f"FAIL {name}: {type(ex).__name__} instead of InvalidCurveError"
        if name.startswith("private key bytes") and len(ska.to_string()) == len(skb.to_string()):
            continue              # same byte length: the bytes are a legitimate key of the other curve
        return f"FAIL {name}: keys of {da_name} and {db_name} in one agreement give the secret {sec.hex()[:24]}... instead of InvalidCurveError"
    return "ok"


@op("prop.c17nearcurve")
def prop_c17nearcurve(name, seed):
    """a curve that differs from a supported one in ONE parameter only (b + 1; a + 1; another prime) is another curve: its
    field objects compare unequal, its points are not added to points of the supported curve, and a public key on it is
    refused by a key agreement on the supported curve (InvalidCurveError), whichever way it gets in"""
    import random as _r
    rng = _r.Random(pint(seed))
    fp, gx, gy, n, h, cv = domain(name)
    p, a, b = int(fp.p()), int(fp.a()), int(fp.b())
    sk = keys.SigningKey.from_secret_exponent(1 + rng.randrange(n - 1), cv)
    for what, (p2, a2, b2) in (("b + 1", (p, a, (b + 1) % p)), ("a + 1", (p, (a + 1) % p, b)), ("b + p (same curve)", (p, a, b + p))):
        fp2 = CurveFp(p2, a2, b2)
        same = what.endswith("(same curve)")
        if (fp == fp2) != same or (fp != fp2) == same:
            return f"FAIL the field objects of {name} and of the curve with {what} compare {'unequal' if same else 'equal'}"
        if same:
            continue
        c2 = dict(p=p2, a=a2, b=b2)
        x = rng.randrange(2, 1000)
        while True:
            y = refec.sqrt_mod((x ** 3 + a2 * x + b2) % p2, p2)
            if y:
                break
            x += 1
        if refec.on_curve(dict(p=p, a=a, b=b), (x, y)):
            continue
        g2 = PointJacobi(fp2, x, y, 1, n)
        other = curves.Curve("near-" + name, fp2, g2, (1, 2, 3, 4))
        if other == cv or not (other != cv):
            return f"FAIL the Curve object with {what} compares equal to {name}"
        try:
            s = PointJacobi(fp, gx, gy, 1, n) + g2
            return f"FAIL a point of {name} and a point of the curve with {what} are added (result {s.x() if s != INFINITY else 'inf'})"
        except ValueError:
            pass
        vk2 = keys.VerifyingKey.from_public_point(g2, other, validate_point=False)
        for route, how in (("load_received_public_key", lambda e: e.load_received_public_key(vk2)),
                           ("public_key assigned", lambda e: setattr(e, "public_key", vk2)),
                           ("load_received_public_key_bytes of its own encoding", lambda e: e.load_received_public_key_bytes(vk2.to_string("uncompressed")))):
            try:
                e = ecdh.ECDH(cv, sk)
                how(e)
                sec = e.generate_sharedsecret_bytes()
            except (ecdh.InvalidCurveError, errors.MalformedPointError):
                continue
            except Exception as ex:
                return f"FAIL {route} of a key on the curve with {what}: {type(ex).__name__} instead of InvalidCurveError"
            return (f"FAIL {route}: a public key on the curve with {what} (not a point of {name}) takes part in a key agreement on "
                    f"{name}, secret {sec.hex()[:24]}...")
    return "ok"


@op("prop.c17invalid")
def prop_c17invalid(d, x, y, why):
    """invalid points are rejected when loaded as public key and when used for key agreement"""
    fp, gx, gy, n, h, cv = domain(d)
    c = refcurve(d)
    x, y = pint(x), pint(y)
    valid = refec.on_curve(c, (x, y)) and (h == 1 or refec.mul(c, n, (x, y)) is None)
    ln = (c["p"].bit_length() + 7) // 8
    outcomes = []
    for how in ("point", "string", "ecdh"):
        try:
            if how == "point":
                keys.VerifyingKey.from_public_point(PointJacobi(fp, x, y, 1), cv)
            elif how == "string":
                if not (0 <= x < 256 ** ln and 0 <= y < 256 ** ln):
                    continue
                keys.VerifyingKey.from_string(x.to_bytes(ln, "big") + y.to_bytes(ln, "big"), cv)
            else:
                if not (0 <= x < 256 ** ln and 0 <= y < 256 ** ln):
                    continue
                e = ecdh.ECDH(cv, keys.SigningKey.from_secret_exponent(1 + (x + y) % (n - 1), cv))
                e.load_received_public_key_bytes(b"\x04" + x.to_bytes(ln, "big") + y.to_bytes(ln, "big"))
                e.generate_sharedsecret_bytes()
            outcomes.append((how, "accepted"))
        except (errors.MalformedPointError, ecdh.InvalidCurveError, ecdh.InvalidSharedSecretError) as e:
            outcomes.append((how, "rejected"))
        except Exception as e:
            return f"FAIL {how}: {why} point ends in {type(e).__name__}"
    # the same coordinates as point OBJECTS that live on another curve (same p and a, the b that makes them fit): the key's
    # curve decides, not the curve the object claims
    if not valid and 0 <= x < c["p"] and 0 <= y < c["p"]:
        b2 = (y * y - (x * x * x + c["a"] * x)) % c["p"]
        other = ellipticcurve.CurveFp(c["p"], c["a"], b2)
        for what, pt in (("PointJacobi", PointJacobi(other, x, y, 1)), ("Point", Point(other, x, y))):
            try:
                vk = keys.VerifyingKey.from_public_point(pt, cv)
            except (errors.MalformedPointError, ecdh.InvalidCurveError) as e:
                continue
            except Exception as e:
                return f"FAIL {why} point as {what} object of another curve ends in {type(e).__name__}"
            try:
                e2 = ecdh.ECDH(cv, keys.SigningKey.from_secret_exponent(1 + (x + y) % (n - 1), cv))
                e2.load_received_public_key(vk)
                e2.generate_sharedsecret_bytes()
            except (errors.MalformedPointError, ecdh.InvalidCurveError, ecdh.InvalidSharedSecretError):
                pass
            return f"FAIL {why} point accepted as public key when handed over as a {what} object that lives on another curve"
    for how, o in outcomes:
        if valid and o != "accepted":
            return f"FAIL valid point rejected by {how}"
        if not valid and o != "rejected":
            return f"FAIL {why} point accepted by {how}"
    return "ok " + ("valid" if valid else "invalid")
