"""C04 — damaged or truncated files are never silently accepted as different content."""
import gen_bf3 as g
import gen_bec2 as gb
from core import hx

TRUSTED = [
    "Lean 4.33 kernel; axioms propext, Classical.choice, Quot.sound only",
    "Spec/Layout.lean as the meaning of 'well-formed'; Model/Bf3.lean tied to the code by correspondence on damaged binaries",
    "the real reader is driven through every single-byte replacement class, every binary and text prefix, suffixes and "
    "key bit flips of generated authentic files (direct evaluation of the property)",
]
ASSUMPTIONS = [
    "single-byte damage inside a MAC'd span or a payload: detected for every plug-in unless the MAC collides "
    "(*_rejected_or_collision), and for the bundled AES plug-in always (mac_one_byte_replaced, payload_byte_damage_rejected, "
    "entry_byte_damage_rejected: CBC-MAC over an invertible block cipher cannot collide on a one-block difference); damage to "
    "several blocks at once keeps the collision alternative (cryptographic)",
    "'read with a different session key' and damage inside an encrypted auth block rest on a 16-bit CRC / AES not being the "
    "identity between keys: cryptographic, decided by search only",
    "damage to the unauthenticated length bytes (directory size, entry length, sentinel): covered by the exhaustive "
    "enumeration on the real code and by the correspondence, and structurally by fromBinary_ok_iff (C05); the dedicated "
    "case analysis is not a separate theorem yet",
]
LEANCHECKER_MODULES = ["Bec2Verif.Props.C04"]


def mutate(rng, b):
    pos = rng.randrange(len(b))
    v = rng.choice([b[pos] ^ (1 << rng.randrange(8)), 0, 0xFF, (b[pos] + 1) & 0xFF])
    if v == b[pos]:
        v ^= 1
    return b[:pos] + bytes([v]) + b[pos + 1:]


def run(ctx):
    rng = ctx.rng
    ctx.rule = ("authentic BF3 and BEC2 files (shapes of C01/C02, payloads ending in zeros included); on the real code: every "
                "byte position x {8 bit flips, 00, FF, +1}, every proper prefix of binary and of text, suffix alphabet, all 128 "
                "single-bit key changes; on model vs code: sampled damaged binaries, all prefixes of sampled files; "
                "non-trivial = distinct damaged variant")
    nf = 8 if ctx.quick else 300
    files = []
    for i in range(nf):
        comps = g.gen_comps(rng, 120, 3)
        if comps == "-" or i % 3 == 0:
            # last component plain with trailing zeros: the truncation witness shape
            p = g.rbytes(rng, rng.choice([5, 14, 30])) + bytes(rng.choice([1, 2, 6, 17]))
            extra = g.show_comp(g.gen_desc(rng, maxtl=40), p, len(p), False)
            comps = extra if comps == "-" else comps + ";" + extra
        files.append((hx(g.gen_key(rng)), g.gen_comments(rng), comps))
    # whole-file enumeration on the real code; split by position stride so that 16 workers share a file
    S = 4
    lines = []
    for k, c, cs in files:
        lines.append(f"prop.c04bf3 {k} {c} {cs} all 1 0" if False else f"prop.c04bf3 {k} {c} {cs} prefix 1000000 0")
        for off in range(S):
            lines.append(f"prop.c04bf3 {k} {c} {cs} bytes {S} {off}")
    # files whose payloads are longer than any internal buffer or chunk size (4 KiB, 64 KiB): sampled positions, spread over
    # the whole file, so that damage far in front of the end of a long MAC'd span is tried
    bigs = g.threshold_comps(rng, enc=True)[1:2] + g.threshold_comps(rng, enc=False)[1:2] + ([] if ctx.quick else g.threshold_comps(rng)[2:3])
    for cs in bigs:
        k = hx(g.gen_key(rng))
        stride = 211 if len(cs) < 40000 else 4099
        for off in rng.sample(range(stride), 4 if ctx.quick else 16):
            lines.append(f"prop.c04bf3 {k} - {cs} bytes {stride} {off}")
    r = ctx.check_props(lines, "prop.c04bf3")
    ctx.extra["damaged_variants_on_real_code_bf3"] = sum(int(x.split()[1]) for x in r if x.startswith("ok "))
    bfiles = [gb.gen_file(rng, ecc=(i % 4 == 3)) for i in range(4 if ctx.quick else 120)]
    lines = []
    for f in bfiles:
        args = f"{f['key']} {f['blocks']} {f['comps']} {f['encs']} {f['ephs']}"
        lines.append(f"prop.c04bec2 {args} prefix 1000000 0")
        for off in range(S):
            lines.append(f"prop.c04bec2 {args} bytes {S} {off}")
    for cs in bigs[:2]:
        f = gb.gen_file(rng, ecc=False)
        args = f"{f['key']} {f['blocks']} {cs} {f['encs']} {f['ephs']}"
        for off in rng.sample(range(211), 3 if ctx.quick else 12):
            lines.append(f"prop.c04bec2 {args} bytes 211 {off}")
    r = ctx.check_props(lines, "prop.c04bec2")
    ctx.extra["damaged_variants_on_real_code_bec2"] = sum(int(x.split()[1]) for x in r if x.startswith("ok "))
    # model vs code on damaged binaries
    w = ctx.correspond([f"bf3.write {k} {cs}" for k, c, cs in files], "write")
    dm = []
    for (k, c, cs), res in zip(files, w):
        if not res.startswith("ok "):
            continue
        b = bytes.fromhex(res[3:])
        for _ in range(60 if ctx.quick else 200):
            dm.append(f"bf3.read 1 {k} {hx(mutate(rng, b))}")
        for cut in range(0, len(b), 1 if len(b) < 400 else 3):
            dm.append(f"bf3.read 1 {k} {hx(b[:cut])}")
        for suf in (b"\x00", b"\xff", bytes(16)):
            dm.append(f"bf3.read 1 {k} {hx(b + suf)}")
        k2 = bytearray(bytes.fromhex(k))
        k2[rng.randrange(16)] ^= 1 << rng.randrange(8)
        dm.append(f"bf3.read 1 {hx(k2)} {hx(b)}")
    ctx.correspond(dm, "read-damaged", lambda line, res: True)


def search(ctx):
    rng = ctx.rng
    lines = []
    for _ in range(60):
        comps = g.gen_comps(rng, 80, 3)
        p = g.rbytes(rng, rng.choice([5, 14, 30])) + bytes(rng.choice([1, 2, 6, 17]))
        extra = g.show_comp([], p, len(p), False)
        comps = extra if comps == "-" else comps + ";" + extra
        lines.append(f"prop.c04bf3 {hx(g.gen_key(rng))} - {comps} prefix 1000000 0")
        lines.append(f"prop.c04bf3 {hx(g.gen_key(rng))} - {comps} bytes 1 0")
    ctx.check_props(lines, "search.c04")
