"""
Independent serialiser / strict parser for the BF3 container layout (written from the format
description, using the independent reference AES of refaes.py).  Used as oracle by C03/C04/C05.
"""
import refaes

SIG = b"BF3\0\0"


class Tag:
    def __init__(self, t, v, ln=None):
        self.t, self.v, self.ln = t, bytes(v), (len(v) if ln is None else ln)

    def ser(self):
        return bytes([self.t & 0xFF, self.ln & 0xFF]) + self.v


class Entry:
    """all fields of a directory entry are explicit so that each can be edited on its own"""

    def __init__(self, desc, payload, declared):
        self.tags = [Tag(t, v) for t, v in desc]
        self.payload = bytes(payload)
        self.adr = None        # filled by layout()
        self.stored = len(payload)
        self.declared = declared
        self.pmac = None
        self.dlen = None
        self.emac = None
        self.elen = None
        self.iv_index = None   # 1-based; None = position in the list

    def tagbytes(self):
        return b"".join(t.ser() for t in self.tags)


class Body:
    def __init__(self, entries, pos):
        self.entries, self.pos = entries, pos
        self.dirsize = None
        self.sentinel = b"\x00"
        self.trailing = b""

    def relayout(self, key, fix_lengths=True, fix_adr=True, fix_macs=True):
        """(re)compute the derived fields that are still None / all derived fields"""
        for e in self.entries:
            if fix_lengths or e.dlen is None:
                e.dlen = len(e.tagbytes())
            if fix_lengths or e.elen is None:
                e.elen = 4 + 4 + 4 + 16 + 1 + len(e.tagbytes()) + 16
        dirlen = sum(1 + 45 + len(e.tagbytes()) for e in self.entries) + len(self.sentinel)
        if fix_lengths or self.dirsize is None:
            self.dirsize = dirlen
        adr = self.pos + 4 + dirlen
        for e in self.entries:
            if fix_adr or e.adr is None:
                e.adr = adr
            adr += len(e.payload)
        if fix_macs:
            self.remac(key)

    def remac(self, key):
        for i, e in enumerate(self.entries):
            e.pmac = refaes.cmac(key, e.payload) if e.payload else bytes(16)
            iv = ((e.iv_index if e.iv_index is not None else i + 1) % (1 << 128)).to_bytes(16, "big")
            e.emac = refaes.cmac(key, self.entry_body(e), iv)

    @staticmethod
    def entry_body(e):
        return (e.adr % 2**32).to_bytes(4, "big") + (e.stored % 2**32).to_bytes(4, "big") + \
            (e.declared % 2**32).to_bytes(4, "big") + e.pmac + bytes([e.dlen & 0xFF]) + e.tagbytes()

    def ser(self):
        d = b""
        for e in self.entries:
            d += bytes([e.elen & 0xFF]) + self.entry_body(e) + e.emac + getattr(e, "stray", b"")
        d += self.sentinel
        return (self.dirsize % 2**32).to_bytes(4, "big") + d + b"".join(e.payload for e in self.entries) + self.trailing


def serialize(key, pos, comps):
    """comps: list of (desc list[(tag, value)], stored payload bytes, declared)"""
    b = Body([Entry(d, p, a) for d, p, a in comps], pos)
    b.relayout(key)
    return b.ser()


class Bad(Exception):
    pass


def parse(key, pos, data, chk=True):
    """strict parser: returns [(desc, payload, declared)] or raises Bad(reason)"""
    def need(buf, off, n, what):
        if off + n > len(buf):
            raise Bad("short " + what)
        return buf[off:off + n], off + n
    o = 0
    b, o = need(data, o, 4, "dirsize")
    size = int.from_bytes(b, "big")
    d, o = need(data, o, size, "directory")
    do = 0
    entries = []
    idx = 1
    while True:
        b, do = need(d, do, 1, "entry length")
        n = b[0]
        if n == 0:
            break
        e, do = need(d, do, n, "entry")
        eo = 0
        f, eo = need(e, eo, 12, "fixed fields")
        adr, stored, declared = (int.from_bytes(f[i:i + 4], "big") for i in (0, 4, 8))
        if stored < declared:
            raise Bad("declared > stored")
        pmac, eo = need(e, eo, 16, "pmac")
        b, eo = need(e, eo, 1, "dlen")
        tb, eo = need(e, eo, b[0], "description")
        to = 0
        desc = []
        while to < len(tb):
            h, to = need(tb, to, 2, "tag header")
            v, to = need(tb, to, h[1], "tag value")
            if h[0] in [t for t, _ in desc]:
                raise Bad("duplicate tag")
            desc.append((h[0], v))
        emac, eo = need(e, eo, 16, "emac")
        if eo != len(e):
            raise Bad("entry has surplus bytes")
        if chk and refaes.cmac(key, e[:-16], idx.to_bytes(16, "big")) != emac:
            raise Bad("entry MAC")
        entries.append((adr, stored, declared, pmac, desc))
        idx += 1
    if do != len(d):
        raise Bad("bytes after sentinel")
    out = []
    for adr, stored, declared, pmac, desc in entries:
        if adr != pos + o:
            raise Bad("address")
        p, o = need(data, o, stored, "payload")
        if chk:
            if not p:
                raise Bad("empty payload cannot be authenticated")
            if refaes.cmac(key, p) != pmac:
                raise Bad("payload MAC")
        out.append((desc, p, declared))
    if o != len(data):
        raise Bad("trailing bytes")
    return out
