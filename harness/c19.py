"""C19 — key and point encodings round-trip and are byte-compatible with OpenSSL."""
import gen_bf3 as g
import impl_c19_forms as forms
from core import hx

TRUSTED = [
    "Lean 4.33 kernel; axioms propext, Classical.choice, Quot.sound only",
    "Model/Der.lean (DER primitives of ecdsa/der.py as they are, incl. the decoders that do not compare the announced "
    "length with the buffer) tied to the code by correspondence on valid encodings, every truncation, byte mutations and "
    "random strings",
    "harness/refec.py (independent point arithmetic), harness/dertree.py (independent DER tree parser used to build "
    "structurally consistent malformed encodings), OpenSSL CLI (ec, pkey) as second implementation",
]
ASSUMPTIONS = ["base64 of the stdlib (binascii) is modelled in Model/Pem.lean and tied by correspondence, incl. malformed text; key-level PEM = armour of the DER form is direct evaluation"]
LEANCHECKER_MODULES = ["Bec2Verif.Props.C19"]

NAMED = ["NIST192p", "NIST224p", "NIST256p", "NIST384p", "NIST521p", "SECP256k1", "BRAINPOOLP160r1", "BRAINPOOLP192r1",
         "BRAINPOOLP224r1", "BRAINPOOLP256r1", "BRAINPOOLP320r1", "BRAINPOOLP384r1", "BRAINPOOLP512r1", "SECP112r1",
         "SECP112r2", "SECP128r1", "SECP160r1"]


def der_lines(rng, n):
    """DER primitive operations: encoders on boundary values, decoders on valid encodings, truncations and mutations"""
    out = []
    lens = [0, 1, 0x7F, 0x80, 0xFF, 0x100, 0xFFFF, 0x10000, 2 ** 24, 2 ** 32 - 1] + [rng.randrange(2 ** rng.randrange(1, 40)) for _ in range(n)]
    ints = [0, 1, 0x7F, 0x80, 0xFF, 0x100, 0x7FFF, 0x8000, 2 ** 63, 2 ** 64 - 1, 2 ** 255, 2 ** 256 - 1, 2 ** 521 - 1] + \
           [rng.randrange(2 ** rng.randrange(1, 600)) for _ in range(n)]
    valid = []
    for v in lens:
        out.append(f"der.len {v}")
    for v in ints:
        out.append(f"der.int {v}")
        out.append(f"der.num {v % 2 ** 70}")
    import dertree
    for v in ints:
        b = v.to_bytes(max(1, (v.bit_length() + 7) // 8), "big")
        enc = (b"\x00" + b) if b[0] & 0x80 else b
        valid.append(("rmint", b"\x02" + dertree.enc_len(len(enc)) + enc))
    for ln in [0, 1, 2, 16, 127, 128, 129, 255, 256, 300]:
        body = g.rbytes(rng, ln)
        out.append(f"der.oct {hx(body)}")
        out.append(f"der.bit {hx(body)}")
        out.append(f"der.cons {rng.randrange(0, 31)} {hx(body)}")
        valid.append(("rmoct", b"\x04" + dertree.enc_len(ln) + body))
        valid.append(("rmseq", b"\x30" + dertree.enc_len(ln) + body))
        valid.append(("rmbit", b"\x03" + dertree.enc_len(ln + 1) + b"\x00" + body))
        valid.append(("rmcons", bytes([0xA0 + rng.randrange(0, 31)]) + dertree.enc_len(ln) + body))
    for _ in range(n):
        k = rng.randrange(0, 5)
        pieces = [hx(g.rbytes(rng, rng.randrange(1, 40))) for _ in range(k)] or ["-"]
        out.append("der.seq " + ",".join(pieces))
    oids = [[1, 2, 840, 10045, 2, 1], [1, 2, 840, 10045, 3, 1, 7], [1, 3, 132, 0, 33], [2, 999, 3], [0, 39], [2, 40],
            [1, 3, 36, 3, 3, 2, 8, 1, 1, 7], [2, 5, 4, 2 ** 40], [1, 0, 0, 127, 128, 16383, 16384]]
    for o in oids:
        out.append("der.oid " + ",".join(str(x) for x in o))
        nums = [40 * o[0] + o[1]] + o[2:]
        body = b"".join(_b128(x) for x in nums)
        valid.append(("rmobj", b"\x06" + dertree.enc_len(len(body)) + body))
    # decoders: valid + trailing data, every truncation, single-byte mutations, non-minimal forms
    for op, enc in valid:
        tail = g.rbytes(rng, rng.choice([0, 0, 1, 5]))
        out.append(f"der.{op} {hx(enc + tail)}")
        for cut in range(len(enc)):
            if len(enc) < 40 or cut < 6 or cut > len(enc) - 3 or rng.random() < 0.1:
                out.append(f"der.{op} {hx(enc[:cut])}")
        for _ in range(6):
            m = bytearray(enc + tail)
            i = rng.randrange(min(len(m), 6)) if rng.random() < 0.7 else rng.randrange(len(m))
            m[i] = rng.choice([0, 1, 0x7F, 0x80, 0x81, 0x82, 0xFF, m[i] ^ 0x80, m[i] ^ 1])
            out.append(f"der.{op} {hx(bytes(m))}")
        for other in ("rmint", "rmoct", "rmseq", "rmbit", "rmobj", "rmcons"):
            if rng.random() < 0.15:
                out.append(f"der.{other} {hx(enc)}")
    for b in ["-", "80", "8100", "8101", "817f", "8180", "820001", "820100", "83010000", "84ffffffff", "7f", "00", "81", "8201"]:
        out.append(f"der.rdlen {b}")
        for op in ("rmint", "rmoct", "rmseq", "rmbit", "rmobj", "rmcons"):
            tag = {"rmint": "02", "rmoct": "04", "rmseq": "30", "rmbit": "03", "rmobj": "06", "rmcons": "a1"}[op]
            out.append(f"der.{op} {tag}{'' if b == '-' else b}")
    for b in ["-", "00", "7f", "80", "8000", "8100", "ff7f", "ffff", "8080", "ffffffffffffffffff7f"]:
        out.append(f"der.rdnum {b}")
    for b in ["0200", "020100", "02020000", "0202007f", "02020080", "020180", "0201ff", "02810100", "0282000100"]:
        out.append(f"der.rmint {b}")
    for b in ["0300", "0301", "030100", "030101", "030108", "03020780", "03020781", "030207ff", "0302ff00", "03810100"]:
        out.append(f"der.rmbit {b}")
    for b in ["0600", "0601", "060180", "06028001", "0602ff7f", "060100", "06012a", "060150", "0602883700"]:
        out.append(f"der.rmobj {b}")
    return out


def codec_lines(ctx, rng, n):
    """point strings, square roots and SubjectPublicKeyInfo on model and code"""
    import refec
    from c17 import refec_curve
    out = []
    for name in NAMED:
        c = refec_curve(ctx, name)
        p, ln = c["p"], (c["p"].bit_length() + 7) // 8
        for _ in range(n):
            d = rng.randrange(1, c["n"])
            q = refec.mul(c, d, (c["gx"], c["gy"]))
            pts = [q, (q[0], p - q[1]), (q[0], (q[1] + 1) % p), (rng.randrange(p), rng.randrange(p)), (0, 0), (p, 1), (256 ** ln, 5)]
            pts = pts[: (3 if n < 3 else len(pts))]
            if _ == 0:
                # a genuine point with a small coordinate, written with the representative `coordinate + p`
                sx, sy = refec.points_with_small_coordinate(c, rng, count=1)
                pts += [(x, y + p) for (x, y) in sy] + [(x + p, y) for (x, y) in sx] + sy + sx
            for (x, y) in pts:
                for e in ("raw", "uncompressed", "compressed", "hybrid"):
                    out.append(f"pt.enc {name} {e} {x} {y}")
                if x < 256 ** ln and y < 256 ** ln:
                    xs, ys = x.to_bytes(ln, "big"), y.to_bytes(ln, "big")
                    encs = [xs + ys, b"\x04" + xs + ys, bytes([6 + (y & 1)]) + xs + ys, bytes([7 - (y & 1)]) + xs + ys,
                            bytes([2 + (y & 1)]) + xs, bytes([3 - (y & 1)]) + xs, b"\x05" + xs + ys, b"\x04" + xs, xs, b"\x02" + xs + ys,
                            b"", b"\x04", (xs + ys)[:-1], b"\x00" + xs + ys]
                    for data in encs:
                        out.append(f"pt.dec {name} {hx(data)} {rng.choice('110')}")
            a = rng.randrange(p)
            out.append(f"nt.sqrt {a} {p}")
            out.append(f"nt.sqrt {a * a % p} {p}")
    for p in [2, 3, 5, 7, 11, 13, 17, 29, 41, 73, 97, 193, 257, 65537, 9, 15, 21, 25, 561, 1, 0, 4, 8, 2 ** 31 - 1, 2 ** 61 - 1]:
        for a in sorted(set([0, 1, 2, 3, 4, p // 2, max(0, p - 1)] + [rng.randrange(max(1, p)) for _ in range(4)])):
            if a < p:      # precondition of square_root_mod_prime
                out.append(f"nt.sqrt {a} {p}")
    oids = {"NIST256p": "1,2,840,10045,3,1,7", "NIST192p": "1,2,840,10045,3,1,1", "SECP256k1": "1,3,132,0,10",
            "BRAINPOOLP160r1": "1,3,36,3,3,2,8,1,1,1", "NIST521p": "1,3,132,0,35"}
    import dertree
    for name, oid in oids.items():
        c = refec_curve(ctx, name)
        ln = (c["p"].bit_length() + 7) // 8
        q = refec.mul(c, rng.randrange(1, c["n"]), (c["gx"], c["gy"]))
        for pt in (b"\x04" + q[0].to_bytes(ln, "big") + q[1].to_bytes(ln, "big"), bytes([2 + (q[1] & 1)]) + q[0].to_bytes(ln, "big")):
            out.append(f"spki {oid} {hx(pt)}")
            enc = dertree.Node(0x30, children=[dertree.Node(0x30, children=[
                dertree.Node(0x06, content=bytes.fromhex("2a8648ce3d0201")), dertree.Node(0x06, content=_oid_body(oid))]),
                dertree.Node(0x03, content=b"\x00" + pt)]).ser()
            out.append(f"spki.parse {hx(enc)}")
            for cut in range(len(enc)):
                if cut < 30 or cut > len(enc) - 4:
                    out.append(f"spki.parse {hx(enc[:cut])}")
            out.append(f"spki.parse {hx(enc + b'x')}")
            for desc, m in dertree.mutations(enc, rng, 25):
                out.append(f"spki.parse {hx(m)}")
            for _ in range(10):
                m = bytearray(enc)
                i = rng.randrange(min(len(m), 30))
                m[i] ^= rng.choice([1, 0x80, 0x20, 0xFF])
                out.append(f"spki.parse {hx(bytes(m))}")
    return out


def _oid_body(oid):
    v = [int(x) for x in oid.split(",")]
    return b"".join(_b128(x) for x in [40 * v[0] + v[1]] + v[2:])


def _b128(n):
    ds = []
    while n:
        ds.insert(0, (n & 0x7F) | 0x80)
        n >>= 7
    if not ds:
        ds = [0]
    ds[-1] &= 0x7F
    return bytes(ds)


def key_der_lines(ctx, rng, quick):
    """SEC1 / PKCS #8 private keys of named curves: encoder, then the decoder on the encodings, their truncations, byte
    mutations and structurally consistent DER edits"""
    import refec
    import dertree
    from c17 import refec_curve
    import os, re
    gen = open(os.path.join(os.path.dirname(os.path.abspath(__file__)), "..", "lean", "Bec2Verif", "Gen", "Curves.lean")).read()
    recs = {m.group(1): (m.group(2).replace(" ", ""), int(m.group(3)))
            for m in re.finditer(r'name := "(\w+)".*?oid := \[([^\]]*)\], baselen := (\d+)', gen)}
    enc, enc_bad = [], []
    for name in (NAMED if not quick else rng.sample(NAMED, 6) + ["NIST256p"]):
        c = refec_curve(ctx, name)
        oid, bl = recs[name]
        ln = (c["p"].bit_length() + 7) // 8
        # scalars at and beyond the ends of the valid range 1..n-1 too (the embedded public key is not looked at by the decoder)
        for d in [1, c["n"] - 1, rng.randrange(1, c["n"]), rng.randrange(1, 1 << max(8, c["n"].bit_length() - 12)),
                  0, c["n"], c["n"] + 1, min(256 ** bl - 1, 2 * c["n"])]:
            q = refec.mul(c, d if 0 < d < c["n"] else 1, (c["gx"], c["gy"]))
            pub = b"\x04" + q[0].to_bytes(ln, "big") + q[1].to_bytes(ln, "big")
            for fmt in ("ssleay", "pkcs8"):
                (enc if 0 < d < c["n"] else enc_bad).append(f"key.toder {fmt} {oid} {hx(d.to_bytes(bl, 'big'))} {hx(pub)}")
    res = ctx.correspond(enc, "key-der-encode")
    # encodings of out-of-range scalars cannot be produced through the library (it refuses to build such a key): the model
    # writes them, the decoders of model and code must both refuse them
    from core import model_eval
    enc_bad = list(dict.fromkeys(enc_bad))
    res_bad = model_eval(enc_bad)
    dec = []
    for line, r in list(zip(list(dict.fromkeys(enc)), res)) + list(zip(enc_bad, res_bad)):
        if not r.startswith("ok "):
            continue
        data = bytes.fromhex(r[3:])
        dec.append(f"key.fromder {hx(data)}")
        cuts = range(len(data)) if not quick else rng.sample(range(len(data)), 6)
        for k in cuts:
            dec.append(f"key.fromder {hx(data[:k]) or '-'}")
        dec.append(f"key.fromder {hx(data + b'\x00')}")
        for _ in range(6 if quick else 60):
            b = bytearray(data)
            i = rng.randrange(len(b))
            b[i] = rng.choice([b[i] ^ (1 << rng.randrange(8)), 0, 0xFF, 0x30, 0x02, 0x04, 0xA0, 0xA1, 0x06])
            dec.append(f"key.fromder {hx(bytes(b))}")
        for m in dertree.mutations(data, rng, limit=(8 if quick else 80)):
            dec.append(f"key.fromder {hx(m[1] if isinstance(m, tuple) else m) or '-'}")
    ctx.correspond(dec, "key-der-decode")


def curve_der_lines(ctx, rng, quick):
    """explicit curve parameters: Curve.to_der("explicit") and Curve.from_der on model and code"""
    import dertree
    from c17 import refec_curve, small_curves, sint
    enc = []
    names = NAMED if not quick else rng.sample(NAMED, 5) + ["NIST256p"]
    for name in names:
        c = refec_curve(ctx, name)
        a = c["a"] if c["a"] < c["p"] // 2 else c["a"] - c["p"]          # the NIST curves store a = -3
        for pe in ("uncompressed", "compressed", "hybrid"):
            h = rng.choice(["-", "1", str(c.get("h", 1)), "0", "4"])
            enc.append(f"curve.toder {c['p']} {sint(a)} {c['b']} {c['gx']} {c['gy']} {c['n']} {h} {pe}")
        # the same curve with other representatives of a, b and another base point / order: not the named curve any more
        enc.append(f"curve.toder {c['p']} {sint(c['a'] + c['p'])} {sint(c['b'] - c['p'])} {c['gx']} {c['gy']} {c['n']} 1 uncompressed")
        enc.append(f"curve.toder {c['p']} {sint(a)} {c['b']} {c['gx']} {(c['p'] - c['gy'])} {c['n'] - 1} - hybrid")
        enc.append(f"curve.toder {c['p']} {sint(a)} {(c['b'] + 1) % c['p']} {c['gx']} {c['gy']} {c['n']} 1 uncompressed")
    for c in small_curves(23, 2) + [dict(p=rng.choice([251, 257, 65537, 2 ** 61 - 1]), a=rng.randrange(200), b=rng.randrange(200),
                                      gx=rng.randrange(200), gy=rng.randrange(200), n=rng.randrange(1, 300)) for _ in range(4)]:
        for pe in ("uncompressed", "hybrid"):
            enc.append(f"curve.toder {c['p']} {sint(c['a'])} {sint(c['b'])} {c['gx']} {c['gy']} {c['n']} {rng.choice(['-', '1', '2'])} {pe}")
    res = ctx.correspond(enc, "curve-der-encode")
    dec = []
    for line, r in zip(list(dict.fromkeys(enc)), res):
        if not r.startswith("ok "):
            continue
        data = bytes.fromhex(r[3:])
        dec.append(f"curve.fromder {hx(data)}")
        for k in (range(len(data)) if not quick else rng.sample(range(len(data)), 5)):
            dec.append(f"curve.fromder {hx(data[:k]) or '-'}")
        dec.append(f"curve.fromder {hx(data + b'\x00')}")
        for _ in range(4 if quick else 40):
            b = bytearray(data)
            i = rng.randrange(len(b))
            b[i] = rng.choice([b[i] ^ (1 << rng.randrange(8)), 0, 0xFF, 0x30, 0x02, 0x04, 0x06])
            dec.append(f"curve.fromder {hx(bytes(b))}")
        for m in dertree.mutations(data, rng, limit=(10 if quick else 120)):
            dec.append(f"curve.fromder {hx(m[1]) or '-'}")
    ctx.correspond(dec, "curve-der-decode")


def pem_lines(ctx, rng, quick):
    """PEM armour and the base64 codec under it: model (`Model/Pem.lean`, theorem `pem_armour_roundtrip`) and code"""
    import base64
    h0 = lambda b: hx(b) or "-"
    names = [b"PUBLIC KEY", b"EC PRIVATE KEY", b"PRIVATE KEY", b"EC PARAMETERS", b"", b"X", b"-----", "SCHL\u00dcSSEL".encode()]
    ders = [b"", b"\x00", b"\xff", b"\x00\x00", b"\xfb\xff", b"\xff\xff\xff", bytes(range(256))]
    ders += [rng.randbytes(n) for n in list(range(1, 8)) + [47, 48, 49, 95, 96, 97, 118, 121, 138, 191, 192, 193]]
    ders += [rng.randbytes(rng.randrange(0, 400)) for _ in range(10 if quick else 150)]
    to = [f"pem.to {h0(rng.choice(names))} {h0(d)}" for d in ders]
    to += [f"pem.to {h0(n)} {h0(ders[i % len(ders)])}" for i, n in enumerate(names)]
    enc = [f"b64.enc {h0(d)}" for d in ders]
    ctx.correspond(to + enc, "pem-encode")
    un = []
    alphabet = b"ABCDEFGHIJKLMNOPQRSTUVWXYZabcdefghijklmnopqrstuvwxyz0123456789+/"
    junk = [b"=", b"==", b"===", b"====", b" ", b"\n", b"\r\n", b"\t", b"-", b"_", b"\x00", b"\xff", b"-----", b"A", b"AB", b"ABC", b"\x0b", b"\x0c",
            b"\n\n", b"-----X", b" -----X\n", b"\n ", b" \n"]
    for d in (ders if not quick else rng.sample(ders, 30)):
        from register_crypto_plugin.ecdsa import der as _d            # only to have text to edit; judged by model = code
        b64 = base64.b64encode(d)
        pem = (b"-----BEGIN %s-----\n" % rng.choice(names[:4]) + b"".join(b64[i:i + 64] + b"\n" for i in range(0, len(b64), 64))
               + b"-----END X-----\n")
        un.append(f"pem.un {h0(pem)}")
        un.append(f"b64.dec {h0(b64)}")
        for _ in range(14 if quick else 40):
            kind = rng.randrange(8)
            t = bytearray(rng.choice([pem, b64]))
            if kind == 0 and t:
                del t[rng.randrange(len(t)):]
            elif kind == 1 and t:
                del t[rng.randrange(len(t))]
            elif kind == 2:
                i = rng.randrange(len(t) + 1)
                t[i:i] = rng.choice(junk)
            elif kind == 3 and t:
                t[rng.randrange(len(t))] = rng.choice([rng.randrange(256), 61, 10, 45, 32])
            elif kind == 4:
                t = bytearray(bytes(t).replace(b"\n", rng.choice([b"\r\n", b"\n\n", b" \n", b"\n ", b""])))
            elif kind == 5:
                t = bytearray(bytes(t).rstrip(b"=\n") + rng.choice(junk))
            elif kind == 6:
                t = bytearray(rng.choice(junk)) + t
            else:
                i = rng.randrange(len(t) + 1)
                t[i:i] = bytes(rng.choice(alphabet) for _ in range(rng.randrange(1, 4)))
            op = "pem.un" if (b"-----" in t or rng.random() < 0.3) else "b64.dec"
            un.append(f"{op} {h0(bytes(t))}")
    for _ in range(300 if quick else 3000):
        n = rng.randrange(0, 12)
        t = bytes(rng.choice(list(alphabet) * 3 + [61, 61, 61, 10, 32, 45, rng.randrange(256)]) for _ in range(n))
        un.append(f"{rng.choice(['pem.un', 'b64.dec'])} {h0(t)}")
    ctx.correspond(un, "pem-decode")


def run(ctx):
    rng = ctx.rng
    quick = ctx.quick
    ctx.rule = ("DER primitives: encoders on boundary values, decoders on valid encodings with trailing data, every truncation, "
                "byte mutations, non-minimal forms; keys: all 17 curves x all private/public formats (SEC1, PKCS#8, SPKI, PEM, named "
                "and explicit parameters, raw/uncompressed/compressed/hybrid points) round trip incl. keys with leading-zero scalars "
                "and coordinates, OpenSSL in both directions, every truncation/extension and single-byte mutation of the encodings, "
                "structurally consistent DER edits, point strings of valid / off-curve / out-of-range points; non-trivial = distinct")
    ctx.correspond(der_lines(rng, 20 if quick else 200), "der-primitives")
    ctx.correspond(codec_lines(ctx, rng, 2 if quick else 12), "point-codecs")
    key_der_lines(ctx, rng, quick)
    curve_der_lines(ctx, rng, quick)
    pem_lines(ctx, rng, quick)
    props = []
    import refec
    from c17 import refec_curve
    for name in NAMED:
        c = refec_curve(ctx, name)
        n = c["n"]
        ds = [1, 2, n - 1, rng.randrange(1, n)]
        # leading-zero scalar and leading-zero coordinates (found with the independent arithmetic)
        ds.append(rng.randrange(1, 1 << (n.bit_length() - 9)))
        ln = (c["p"].bit_length() + 7) // 8
        for _ in range(600 if quick else 3000):
            d = rng.randrange(1, n)
            q = refec.mul(c, d, (c["gx"], c["gy"]))
            if q[0] < 256 ** (ln - 1) or q[1] < 256 ** (ln - 1):
                ds.append(d)
                ctx.count("leading-zero-coordinate key")
                break
        for d in ds[: (3 if quick else len(ds))] + ds[4:]:
            props.append(f"prop.c19rt {name} {d}")
            props.append(f"prop.c19ossl {name} {d}")
        d = ds[3]
        kinds = [("pub", i) for i in range(forms.N_PUB)] + [("priv", i) for i in range(forms.N_PRIV)]
        if quick:
            kinds = rng.sample(kinds, 5)
        for kind, idx in kinds:
            stride = 4 if quick else 1
            for off in range(stride if not quick else 1):
                props.append(f"prop.c19mut {name} {d} {kind} {idx} {stride} {rng.randrange(stride) if quick else off}")
        q = refec.mul(c, d, (c["gx"], c["gy"]))
        p = c["p"]
        for (x, y), why in [(q, "valid"), ((q[0], (q[1] + 1) % p), "off-curve"), ((q[0] ^ 1, q[1]), "off-curve"),
                            ((q[0], p - q[1]), "valid"), ((0, 0), "zero"), ((p, q[1]), "out-of-range"),
                            ((q[0], p + 1), "out-of-range"), ((c["gx"], c["gy"]), "valid")]:
            props.append(f"prop.c19point {name} {x} {y} {why}")
        # genuine points with one coordinate small, encoded with the representative `coordinate + p` (fits the fixed width when
        # p is not just below a power of 256): out of range, to be refused although the reduced pair is on the curve
        ln = (p.bit_length() + 7) // 8
        sx, sy = refec.points_with_small_coordinate(c, rng, count=1 if quick else 4)
        for (x, y) in sy:
            if y + p < 256 ** ln:
                props.append(f"prop.c19point {name} {x} {y + p} out-of-range")
        for (x, y) in sx:
            if x + p < 256 ** ln:
                props.append(f"prop.c19point {name} {x + p} {y} out-of-range")
        props.append(f"prop.c19struct {name} {d} {rng.randrange(10 ** 6)} {30 if quick else 400}")
    for i in range(16 if quick else 64):
        props.append(f"prop.c19explicit {rng.randrange(10 ** 9)} {400 if quick else 3000}")
    for _ in range(20 if quick else 300):
        props.append(f"prop.c19hdr {rng.randrange(1, refec.P256['n'])}")
    for _ in range(0 if quick else 3):
        # P-256 keys whose x has leading zero bytes: the header conversion must keep all 64 bytes
        pass
    res = ctx.check_props(props, "prop.c19")
    props_u = list(dict.fromkeys(props))
    for l, r in zip(props_u, res):
        ctx.count(l.split()[0] + ":" + " ".join(r.split()[:1]))


def search(ctx):
    rng = ctx.rng
    props = []
    for name in NAMED:
        props.append(f"prop.c19struct {name} {rng.randrange(1, 2 ** 100)} {rng.randrange(10 ** 6)} 2000")
    for i in range(32):
        props.append(f"prop.c19explicit {rng.randrange(10 ** 9)} 2000")
    ctx.check_props(props, "search.c19")
