"""C06 — encrypted components are stored only as ciphertext and decrypt to the original."""
import gen_bf3 as g
import gen_bec2 as gb
from core import hx

TRUSTED = [
    "Lean 4.33 kernel; axioms propext, Classical.choice, Quot.sound only",
    "Model/Bf3.lean, Model/Crypto.lean tied to the code by correspondence (writer bytes, reader results for encrypted components)",
    "read_decrypts uses CryptoInv, proved for the bundled AES plug-in in C16 (read_decrypts_aes)",
    "harness: independent AES/CBC + independent layout parser check the stored bytes of the real writer",
]
ASSUMPTIONS = [
    "'no 16-byte window of the output happens to equal a secret' is cryptographic: checked by a needle scan (search only); "
    "the theorems prove the structural part (plaintext reaches the output only through encrypt/mac: noninterference, stored_is_ciphertext)",
]
LEANCHECKER_MODULES = ["Bec2Verif.Props.C06"]


def gen_cases(ctx, n):
    rng = ctx.rng
    out = []
    for i in range(n):
        ln = (i % 48) + 1 if i < 96 else rng.randrange(1, 400)
        blob = g.rbytes(rng, ln)
        z = rng.choice([0, 0, 1, 2, 15, 16, 17])
        if z:
            blob = blob[: max(0, ln - z)] + bytes(min(z, ln))
        if i % 11 == 0:
            blob = bytes(ln)
        desc = [(0xC3, b"\x03"), (0xC2, b"\x02"), (0xC1, b"\x03"), (0xC5, b"\x01")]
        comp = g.show_comp(desc, blob, rng.choice([ln, ln, 1, max(1, ln - 1)]), True)
        r = rng.random()
        if r < 0.4:
            comps = comp
        elif r < 0.7:
            comps = g.gen_comps(rng, 100, 2)
            comps = comp if comps == "-" else comps + ";" + comp
        else:
            comps = g.gen_mixed_comps(rng, 120, 4)
        out.append((hx(g.gen_key(rng)), comps))
    # contents beyond the sizes a buffered implementation might use internally (4 KiB, 8 KiB, 64 KiB): chaining is one CBC
    # stream over the whole content
    desc = [(0xC3, b"\x03"), (0xC2, b"\x02"), (0xC1, b"\x03")]
    for ln in ([4097, 8200] if n < 1000 else [4096, 4097, 4111, 8192, 8193, 65536, 65537, 70001]):
        blob = g.rbytes(rng, ln)
        comp = g.show_comp(desc, blob, ln, True)
        tail = g.gen_comps(rng, 60, 1)
        out.append((hx(g.gen_key(rng)), comp if tail == "-" else comp + ";" + tail))
    return out


def run(ctx):
    rng = ctx.rng
    ctx.rule = ("encrypted components of every length 1..48 (every length mod 16), every count of trailing zeros, all-zero contents, "
                "random longer ones, alone / after plain components / mixed positions; all key classes; BF3 and BEC2 framing; "
                "cipher registered, not registered, raising at the n-th call; non-trivial = distinct case")
    cases = gen_cases(ctx, 200 if ctx.quick else 5000)
    ctx.exhaustive["encrypted_content_lengths_1..48"] = True
    w = ctx.correspond([f"bf3.write {k} {cs}" for k, cs in cases], "write")
    ctx.correspond([f"bf3.read {rng.choice('01')} {k} {r[3:]}" for (k, cs), r in zip(cases, w) if r.startswith("ok ")], "read")
    ctx.check_props([f"prop.c06 {k} {cs} {hx(g.rbytes(rng, 8))} {hx(g.rbytes(rng, 10))}" for k, cs in cases], "prop.c06")
    nc = []
    for k, cs in cases[:: 4 if ctx.quick else 2]:
        nc.append(f"prop.c06nocipher {k} {cs} missing")
        nc.append(f"prop.c06nocipher {k} {cs} strict")
        nc.append(f"prop.c06nocipher {k} {cs} {rng.randrange(1, 8)}")
    ctx.check_props(nc, "prop.c06nocipher")


def search(ctx):
    rng = ctx.rng
    cases = gen_cases(ctx, 1500)
    ctx.check_props([f"prop.c06 {k} {cs} {hx(g.rbytes(rng, 8))} {hx(g.rbytes(rng, 10))}" for k, cs in cases], "search.c06")
