"""C20 adapters: complete exploration of the real reader-writer lock code under the controlled scheduler"""
from impl import op
import rwexplore as rw

_cache = {}


def explored(roles):
    if roles not in _cache:
        _cache[roles] = rw.explore(list(roles))
    return _cache[roles]


def digest(s):
    acc = 7
    for ch in s:
        acc = (acc * 65599 + ord(ch)) % 18446744073709551557
    return acc


@op("rw.explore")
def rw_explore(roles):
    rmap, wmap, err = rw.pc_maps()
    if err:
        return "err structure-changed"
    graph, paths, s0 = explored(roles)
    edges = []
    for s, out in graph.items():
        ms = rw.model_state(list(roles), s, rmap, wmap)
        if ms is None:
            return "err unmapped-position"
        for i, t in out.items():
            if t == "blocked":
                edges.append(f"{ms} -{i}-> blocked")
            else:
                mt = rw.model_state(list(roles), t, rmap, wmap)
                if mt is None:
                    return "err unmapped-position"
                edges.append(f"{ms} -{i}-> {mt}")
    edges.sort()
    verdict = prop_c20lock(roles).split()[0]
    return f"ok {len(graph)} {len(edges)} {digest(chr(10).join(edges))} verdict={verdict}"


def describe(roles, path, paths_state=None):
    return "schedule " + ",".join(f"{roles[i]}{i}" for i in path)


@op("prop.c20lock")
def prop_c20lock(roles):
    """on the complete state space of the real code: a writer never shares the lock, readers do share it,
    no reachable state is a deadlock, no lock operation raises"""
    graph, paths, s0 = explored(roles)
    rl = list(roles)
    shared = False
    for s, out in graph.items():
        pos, locks, rc, wc, errs = s
        for i, e in enumerate(errs):
            if e is not None:
                return f"FAIL thread {rl[i]}{i} raises {e} after {describe(rl, paths[s])}"
        inside = [i for i, p in enumerate(pos) if rw.in_cs(p)]
        if any(rl[i] == "w" for i in inside) and len(inside) > 1:
            who = "+".join(f"{rl[i]}{i}" for i in inside)
            return f"FAIL {who} hold the lock together after {describe(rl, paths[s])}"
        if sum(1 for i in inside if rl[i] == "r") >= 2:
            shared = True
        alive = [i for i, p in enumerate(pos) if p[0] != "done"]
        if alive and not any(out.get(i) not in (None, "blocked") for i in alive):
            return f"FAIL deadlock: threads {','.join(f'{rl[i]}{i}' for i in alive)} all blocked after {describe(rl, paths[s])}"
    if rl.count("r") >= 2 and not shared:
        return "FAIL two readers never hold the lock together in any schedule"
    final = [s for s in graph if all(p[0] == "done" for p in s[0])]
    if len(final) != 1 or any(final[0][1]) or final[0][2] or final[0][3]:
        return f"FAIL the lock does not return to its initial state: {final[:2]}"
    return f"ok {len(graph)} states"


# ---------------------------------------------------------------------------------- shared curve objects
import sys
from register_crypto_plugin.ecdsa import curves as _curves, ellipticcurve as _ec
from register_crypto_plugin.ecdsa.ellipticcurve import PointJacobi as _PJ, INFINITY as _INF
import refec as _refec
import pickle as _pickle
import copy as _copy

EC_FILE = _ec.__file__


def _affine(P):
    if P is _INF or P == _INF:
        return None
    return (int(P.x()), int(P.y()))


def _fresh(curve, scenario, seed):
    """a fresh shared object: 'gen' = generator with an empty multiplication table, 'pub' = a public point with Z != 1"""
    fp, g, n = curve.curve, curve.generator, int(curve.order)
    if scenario == "gen":
        return _PJ(fp, int(g.x()), int(g.y()), 1, n, generator=True), (int(g.x()), int(g.y()))
    if scenario in ("genz", "gentab"):
        # the generator in another representative (x z^2, y z^3, z): rescaling really changes the object; 'gentab': its
        # multiplication table is already there (a multiplication was done before the threads start)
        p = int(fp.p())
        z = 2 + seed % (p - 3)
        P = _PJ(fp, int(g.x()) * z * z % p, int(g.y()) * z ** 3 % p, z, n, generator=True)
        if scenario == "gentab":
            P * 5
        return P, (int(g.x()), int(g.y()))
    p = int(fp.p())
    c = dict(p=p, a=int(fp.a()), b=int(fp.b()))
    q = _refec.mul(c, 1 + seed % (n - 1), (int(g.x()), int(g.y())))
    z = 2 + seed % (p - 3)
    return _PJ(fp, q[0] * z * z % p, q[1] * z ** 3 % p, z, n), q


def _ops(scenario, k1, k2, other):
    """(operation of the preempted thread, operations of the second thread) on the shared object"""
    a_ops = {"mul": lambda P: _affine(P * k1), "affine": lambda P: _affine(P.to_affine()),
             "muladd": lambda P: _affine(P.mul_add(k1, other, k2)),
             # the accessors and the comparison themselves as the preempted operation (they read the coordinates while a
             # second thread may rescale the point in place)
             "xy": lambda P: (int(P.x()), int(P.y()), int(P.y()), int(P.x())),
             "eq": lambda P: (P == other, P == P, P + other == other + P)}
    b_ops = [lambda P: _affine(P.scale()), lambda P: _affine(P * k2), lambda P: _affine(P + other), lambda P: (int(P.x()), int(P.y())),
             lambda P: P == other, lambda P: _affine(P.mul_add(k2, other, k1)), lambda P: _affine(P.double()),
             # serialising / copying the shared object is a read as well
             lambda P: _affine(_pickle.loads(_pickle.dumps(P))), lambda P: _affine(_copy.copy(P)), lambda P: _affine(_copy.deepcopy(P))]
    return a_ops, b_ops


@op("prop.c20shared")
def prop_c20shared(cname, scenario, aop, k1, k2, stride, offset):
    """thread A is preempted before source line number <k> of its operation (for every k = offset mod stride), the second
    thread then runs complete operations on the same object; all results must equal those of a run without preemption"""
    curve = _curves.curve_by_name(cname)
    k1, k2, stride, offset = int(k1), int(k2), int(stride), int(offset)
    fp, n = curve.curve, int(curve.order)
    c = dict(p=int(fp.p()), a=int(fp.a()), b=int(fp.b()))
    g = (int(curve.generator.x()), int(curve.generator.y()))
    oth = _refec.mul(c, 7 + k2 % 1000, g)
    other = _PJ(fp, oth[0], oth[1], 1, n)
    a_ops, b_ops = _ops(scenario, k1, k2, other)
    opA = a_ops[aop]
    # expected results from the independent arithmetic / from unshared fresh objects
    P0, q = _fresh(curve, scenario, k1)
    want_a = opA(P0)
    want_b = []
    for ob in b_ops:
        Pf, _ = _fresh(curve, scenario, k1)
        want_b.append(ob(Pf))
    if aop == "mul" and want_a != _refec.mul(c, k1, q):
        return "FAIL sequential k*P differs from the independent arithmetic"
    # count the preemption points
    count = [0]

    def counter(frame, event, arg):
        if event == "call" and frame.f_code.co_filename == EC_FILE:
            def local(fr, ev, ar):
                if ev == "line":
                    count[0] += 1
                return local
            return local
        return None
    Pc, _ = _fresh(curve, scenario, k1)
    sys.settrace(counter)
    try:
        opA(Pc)
    finally:
        sys.settrace(None)
    total = count[0]
    done = 0
    for k in range(offset, total, stride):
        P, _ = _fresh(curve, scenario, k1)
        seen = [0]
        got_b = []
        # what the second thread does while the first is suspended: everything, everything backwards, or ONE operation only (a
        # later operation of the same thread may repair what an earlier one broke, e.g. rebuild a table)
        nb = len(b_ops)
        sel = (list(range(nb)), list(range(nb))[::-1], [(k // 3) % nb])[k % 3]

        def tracer(frame, event, arg):
            if event == "call" and frame.f_code.co_filename == EC_FILE:
                def local(fr, ev, ar):
                    if ev == "line":
                        if seen[0] == k:
                            sys.settrace(None)
                            try:
                                for j in sel:
                                    got_b.append(b_ops[j](P))
                            finally:
                                seen[0] += 1
                                sys.settrace(tracer)
                            return None
                        seen[0] += 1
                    return local
                return local
            return None
        sys.settrace(tracer)
        try:
            try:
                got_a = opA(P)
            finally:
                sys.settrace(None)
        except Exception as e:
            return f"FAIL preempted operation raises {type(e).__name__} (preemption before line event {k} of {total})"
        where = f"preemption before line event {k} of {total} of {aop} on the shared {scenario} object"
        if got_a != want_a:
            return f"FAIL result of the preempted thread differs ({where}; second thread ran operations {sel})"
        if got_b and got_b != [want_b[j] for j in sel]:
            bad = [j for j, x in zip(sel, got_b) if x != want_b[j]]
            return f"FAIL result {bad} of the second thread differs ({where}; second thread ran operations {sel})"
        done += 1
    return f"ok {done} of {total}"


@op("prop.c20edw")
def prop_c20edw(cname, k1, k2, stride, offset):
    """the same for the twisted-Edwards generators (Ed25519 / Ed448), which build their table in a method of their own: thread A's
    first k1*G is preempted before every (offset mod stride)-th source line, thread B then multiplies and doubles on the same
    object; results compared with those of unshared fresh generators"""
    from register_crypto_plugin.ecdsa import eddsa as _ed
    g0 = {"Ed25519": _ed.generator_ed25519, "Ed448": _ed.generator_ed448}[cname]
    k1, k2, stride, offset = int(k1), int(k2), int(stride), int(offset)

    def fresh():
        return _ec.PointEdwards(g0.curve(), int(g0.x()), int(g0.y()), 1, int(g0.x()) * int(g0.y()) % int(g0.curve().p()),
                                int(g0.order()), generator=True)

    def aff(P):
        return None if P == _INF else (int(P.x()), int(P.y()))
    opA = lambda P: aff(P * k1)
    b_ops = [lambda P: aff(P * k2), lambda P: aff(P.double()), lambda P: aff(P * (k2 + 1))]
    if stride < 0:
        # second scenario: a shared PUBLIC point (k2*G, extended coordinates with Z != 1) that is rescaled in place by
        # to_bytes() / scale() / the accessors, preempted at every source line
        stride = -stride
        gen0 = fresh()

        def fresh():                                     # noqa: F811 - a new unshared point with the same coordinates each time
            q = gen0 * k2
            x, y, z, t = q._PointEdwards__coords
            return _ec.PointEdwards(g0.curve(), int(x), int(y), int(z), int(t), int(g0.order()))
        opA = lambda P: (bytes(P.to_bytes()), aff(P))
        b_ops = [lambda P: bytes(P.to_bytes()), lambda P: aff(P.scale()), lambda P: (int(P.x()), int(P.y())), lambda P: aff(P * 3)]
    want_a = opA(fresh())
    want_b = [ob(fresh()) for ob in b_ops]
    count = [0]

    def counter(frame, event, arg):
        if event == "call" and frame.f_code.co_filename == EC_FILE:
            def local(fr, ev, ar):
                if ev == "line":
                    count[0] += 1
                return local
            return local
        return None
    Pc = fresh()
    sys.settrace(counter)
    try:
        opA(Pc)
    finally:
        sys.settrace(None)
    total = count[0]
    done = 0
    for k in range(offset, total, stride):
        P = fresh()
        seen = [0]
        got_b = []

        def tracer(frame, event, arg):
            if event == "call" and frame.f_code.co_filename == EC_FILE:
                def local(fr, ev, ar):
                    if ev == "line":
                        if seen[0] == k:
                            sys.settrace(None)
                            try:
                                for ob in b_ops:
                                    try:
                                        got_b.append(ob(P))
                                    except Exception as e:
                                        got_b.append(f"{type(e).__name__}")
                            finally:
                                seen[0] += 1
                                sys.settrace(tracer)
                            return None
                        seen[0] += 1
                    return local
                return local
            return None
        sys.settrace(tracer)
        try:
            try:
                got_a = opA(P)
            finally:
                sys.settrace(None)
        except Exception as e:
            return f"FAIL preempted operation raises {type(e).__name__} (preemption before line event {k} of {total})"
        where = f"preemption before line event {k} of {total} of k*G on the shared {cname} generator"
        if got_a != want_a:
            return f"FAIL result of the preempted thread differs ({where})"
        if got_b and got_b != want_b:
            bad = [i for i, (x, y) in enumerate(zip(got_b, want_b)) if x != y]
            return f"FAIL result {bad} of the second thread differs ({where})"
        done += 1
    return f"ok {done} of {total}"

