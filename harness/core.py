"""
Shared machinery of the checks: Lean build + axiom audit, the model driver,
parallel evaluation of protocol lines on the real code, diffing, known
findings, replay files, evidence.

Everything a check compares is a *protocol line* (`<op> <arg> ...`): the same
line is evaluated by the compiled Lean model (`bec2model`) and, in-process, by
the real code through `harness/impl.py`.  Ops whose name starts with `prop.`
exist only on the implementation side: they evaluate the property itself on the
real code against an independent oracle and return `ok ...` or `FAIL ...`.
"""
import hashlib
import json
import multiprocessing as mp
import os
import random
import re
import signal
import subprocess
import sys
import time
import zlib
import traceback

VERIF = os.path.dirname(os.path.dirname(os.path.abspath(__file__)))
LEAN = os.path.join(VERIF, "lean")
REPO = os.environ.get("VERIF_REPO", "/repo")
DRIVER = os.path.join(LEAN, ".lake", "build", "bin", "bec2model")
NCPU = max(1, min(16, int(os.environ.get("VERIF_NCPU", "0")) or os.cpu_count() or 1))
STD_AXIOMS = {"propext", "Classical.choice", "Quot.sound"}
FORBIDDEN = re.compile(
    r"\bsorry\b|\badmit\b|^axiom |native_decide|bv_decide|implemented_by|\bunsafe |maxHeartbeats 0"
)


class InternalError(Exception):
    pass


def hx(b) -> str:
    b = bytes(b)
    return b.hex() if b else "-"


def unhx(s: str) -> bytes:
    return b"" if s == "-" else bytes.fromhex(s)


# --------------------------------------------------------------------------
# Lean side
# --------------------------------------------------------------------------

def sh(cmd, cwd=None, timeout=3600, env=None):
    p = subprocess.run(cmd, cwd=cwd, stdout=subprocess.PIPE, stderr=subprocess.STDOUT,
                       text=True, timeout=timeout, env=env)
    return p.returncode, p.stdout


def strip_lean_comments(src: str) -> str:
    # nested block comments, then line comments
    out, depth, i = [], 0, 0
    while i < len(src):
        if src.startswith("/-", i):
            depth += 1
            i += 2
        elif src.startswith("-/", i) and depth:
            depth -= 1
            i += 2
        elif depth:
            if src[i] == "\n":
                out.append("\n")
            i += 1
        else:
            out.append(src[i])
            i += 1
    return "\n".join(l.split("--", 1)[0] for l in "".join(out).split("\n"))


def forbidden_scan():
    """textual scan of every Lean source of the project (comments removed)"""
    hits = []
    for root, _, files in os.walk(LEAN):
        if ".lake" in root:
            continue
        for f in files:
            if f.endswith(".lean"):
                p = os.path.join(root, f)
                for n, line in enumerate(strip_lean_comments(open(p).read()).split("\n"), 1):
                    if FORBIDDEN.search(line):
                        hits.append(f"{os.path.relpath(p, LEAN)}:{n}: {line.strip()}")
    return hits


def lean_build(targets):
    """lake build; returns (ok, log)"""
    rc, out = sh(["lake", "build"] + list(targets), cwd=LEAN, timeout=7200)
    return rc == 0, out


def lean_audit(prop):
    """Run Audit/<prop>.lean: every `#print axioms` line is one obligation.
    Returns (obligations, discharged, problems)."""
    path = os.path.join("Bec2Verif", "Audit", prop + ".lean")
    src = open(os.path.join(LEAN, path)).read()
    wanted = re.findall(r"^#print axioms\s+(\S+)", src, re.M)
    rc, out = sh(["lake", "env", "lean", path], cwd=LEAN, timeout=3600)
    problems = []
    if rc != 0:
        problems.append("audit file does not elaborate: " + out[-2000:])
    got = {}
    for m in re.finditer(r"'([^']+)' depends on axioms: \[([^\]]*)\]", out.replace("\n", " ")):
        got[m.group(1).split(".")[-1]] = {a.strip() for a in m.group(2).split(",") if a.strip()}
    for m in re.finditer(r"'([^']+)' does not depend on any axioms", out):
        got[m.group(1).split(".")[-1]] = set()
    discharged = 0
    for w in wanted:
        key = w.split(".")[-1]
        if key not in got:
            problems.append(f"theorem {w}: no axiom report (missing or failed)")
        elif "sorryAx" in got[key] or not got[key] <= STD_AXIOMS:
            problems.append(f"theorem {w}: non-standard axioms {sorted(got[key] - STD_AXIOMS)}")
        else:
            discharged += 1
    return wanted, discharged, problems


def _driver_stack():
    """a deep recursion of the model (very long texts) needs more than the default 8 MiB of stack"""
    import resource
    try:
        soft, hard = resource.getrlimit(resource.RLIMIT_STACK)
        want = 1 << 30
        if hard != resource.RLIM_INFINITY:
            want = min(want, hard)
        resource.setrlimit(resource.RLIMIT_STACK, (want, hard))
    except (ValueError, OSError):
        pass


def _run_driver(lines):
    """one driver process for `lines`; a line on which the driver dies (stack overflow, abort) or which it does not answer within
    VERIF_MODEL_LINE_TIMEOUT seconds gets the result `model-crash ...` / `model-timeout ...` and the rest is evaluated by a new
    process: on the unchanged tree no generated line does that, on a changed tree the line is one the code produced (e.g. a text
    it wrote) and the result counts as a disagreement"""
    import threading
    limit = int(os.environ.get("VERIF_MODEL_LINE_TIMEOUT", "90"))
    out = []
    rest = list(lines)
    bad = 0
    while rest:
        p = subprocess.Popen([DRIVER], stdin=subprocess.PIPE, stdout=subprocess.PIPE, stderr=subprocess.PIPE, text=True,
                             preexec_fn=_driver_stack)
        got, last, err = [], [time.time()], []

        def reader():
            for ln in p.stdout:
                got.append(ln[:-1] if ln.endswith("\n") else ln)
                last[0] = time.time()

        def errreader():
            err.append(p.stderr.read())

        def writer():
            try:
                p.stdin.write("\n".join(rest) + "\n")
                p.stdin.close()
            except (BrokenPipeError, OSError):
                pass
        ths = [threading.Thread(target=f, daemon=True) for f in (reader, errreader, writer)]
        for t in ths:
            t.start()
        timed_out = False
        while ths[0].is_alive():
            ths[0].join(1.0)
            if ths[0].is_alive() and time.time() - last[0] > limit and p.poll() is None:
                timed_out = True
                p.kill()
        p.wait()
        for t in ths[1:]:
            t.join(5)
        res = got[:len(rest)]
        if not timed_out and p.returncode == 0 and len(res) == len(rest):
            out += res
            break
        if len(res) >= len(rest):
            raise InternalError(f"model driver failed (rc={p.returncode}) after answering all {len(rest)} lines")
        out += res
        out.append((f"model-timeout the model driver did not answer this line within {limit} s" if timed_out else
                    f"model-crash the model driver died on this line (rc={p.returncode}: {(''.join(err) or '').strip()[:80]})"))
        rest = rest[len(res) + 1:]
        bad += 1
        if bad > 20:
            raise InternalError("model driver died / hung on more than 20 lines")
    return out


def model_eval(lines, nproc=None):
    """evaluate protocol lines on the compiled Lean model"""
    if not lines:
        return []
    if not os.path.exists(DRIVER):
        raise InternalError("model driver not built: " + DRIVER)
    nproc = nproc or (NCPU if len(lines) > 4000 else 1)
    chunks = [lines[i::nproc] for i in range(nproc)]
    import threading
    results = [None] * nproc
    errors = []

    def feed(i):
        try:
            results[i] = _run_driver(chunks[i])
        except BaseException as e:      # noqa: BLE001
            errors.append(e)

    ths = [threading.Thread(target=feed, args=(i,)) for i in range(nproc)]
    for t in ths:
        t.start()
    for t in ths:
        t.join()
    if errors:
        raise errors[0]
    out = [None] * len(lines)
    for i in range(nproc):
        out[i::nproc] = results[i]
    return out


# --------------------------------------------------------------------------
# implementation side (worker processes)
# --------------------------------------------------------------------------

class Hang(Exception):
    pass


def _alarm(signum, frame):
    raise Hang()


_HANGS = [0]          # lines that ran into the time limit in this worker process so far


def _impl_chunk(lines):
    import impl  # noqa  (imports the real code from REPO)
    out = []
    signal.signal(signal.SIGALRM, _alarm)
    quick_ones = []
    for idx, line in enumerate(lines):
        try:
            # time limit of one line: generous (a loaded machine must not turn a slow line into a "hang"), ten times that for
            # the operations that take seconds anyway; once two lines have hung in this worker process, later ones get a short limit
            _base = int(os.environ.get("VERIF_CASE_TIMEOUT", "120"))
            _lim = _base * 10 if line.startswith(HEAVY_OPS) else _base
            if _HANGS[0] >= 2:
                _lim = max(3, _lim // 40)
            signal.alarm(_lim)
            _t = time.time()
            try:
                try:
                    res = impl.evaluate(line)
                except Hang:
                    res = "hang"
                    _HANGS[0] += 1
                out.append(res)
            except Hang:                       # the alarm went off between the evaluation and the bookkeeping
                if len(out) <= idx:
                    out.append("hang")
            except BaseException as e:
                tb = traceback.extract_tb(e.__traceback__)
                if line.startswith("prop.") and tb and os.path.abspath(tb[-1].filename).startswith(os.path.abspath(REPO) + os.sep) \
                        and isinstance(e, Exception):
                    # a property evaluation that the code under test ends with an exception nobody expected there: on the unchanged
                    # tree no such line exists, so this is what a changed tree does to an input the property covers
                    out.append(f"FAIL the code under test raised {type(e).__name__}: {str(e)[:200]} at "
                               f"{os.path.relpath(tb[-1].filename, REPO)}:{tb[-1].lineno} where the evaluation expected a result")
                elif isinstance(e, Exception) and not os.environ.get("VERIF_STRICT_HARNESS"):
                    # the adapter or the evaluation itself broke down on what the code under test handed back (None instead of
                    # bytes, a header that cannot be parsed, an oracle drawn from more often than any valid run does).  On the unchanged
                    # tree this never happens (the sweeps would show it as an alarm); on a changed tree it is a finding, not a reason
                    # to stop: property lines fail, correspondence lines disagree with the model.
                    where = tb[-1] if tb else None
                    msg = (f"{type(e).__name__}: {str(e)[:160]} at {os.path.basename(where.filename)}:{where.lineno}" if where
                           else f"{type(e).__name__}: {str(e)[:160]}").replace("\n", " ")
                    out.append(("FAIL the evaluation broke down on what the code under test returned: " if line.startswith("prop.")
                                else "err EvaluationBrokeDown ") + msg)
                else:                   # not an implementation outcome
                    out.append("harness-error " + type(e).__name__ + " " + str(e).replace("\n", " ")[:300]
                               + " @ " + traceback.format_exc().strip().split("\n")[-3].strip()[:200])
            finally:
                signal.alarm(0)
        except Hang:      # the signal was delivered late (it waits for a long C call to return): the line took longer than the limit
            if len(out) <= idx:
                out.append("hang")
            else:
                out[idx] = "hang"
        if time.time() - _t < 0.3 and not line.startswith(HEAVY_OPS) and zlib.crc32(line.encode()) % 8 == 0:
            quick_ones.append(idx)
    # every operation line is self-contained (fresh objects, oracle inputs instead of randomness), so its result is a function
    # of the line: a sample is evaluated a second time, after everything else this process has done, and must say the same.
    # A difference is state that survives between calls (module / class level caches, shared tables); the second result is
    # reported, marked, so that it shows up as a disagreement with the model or as a failed property.
    # objects built with the constructors' defaults must still be as new after everything this process has done with other
    # objects (mutable default arguments, class-level containers): reported on the last line of the chunk
    try:
        prob = impl.pristine_problem() if out and lines[-1].split(".")[0].split(" ")[0] in (
            "prop", "bf3", "bec2", "text", "hist", "setcfg", "tlv", "cfgid", "bf2") else None
    except Exception as e:            # noqa: BLE001
        prob = f"checking new objects raises {type(e).__name__}: {e}"
    if prob and not out[-1].startswith(("harness-error", "hang")):
        msg = (f"after the {len(lines)} operations this process evaluated (ending with this one) {prob}: state leaks from one "
               f"object into objects built later; rerun the check with the same VERIF_SEED to replay")
        out[-1] = ("FAIL " if lines[-1].startswith("prop.") else "err NewObjectNotPristine ") + msg
    if not os.environ.get("VERIF_NO_REPEAT"):
        for idx in quick_ones[::-1][:40]:
            if out[idx].startswith(("harness-error", "hang")):
                continue
            signal.alarm(int(os.environ.get("VERIF_CASE_TIMEOUT", "120")))
            try:
                again = impl.evaluate(lines[idx])
            except BaseException:
                continue
            finally:
                signal.alarm(0)
            if again != out[idx] and not (lines[idx].startswith("prop.") and again.startswith("ok")):
                out[idx] = (again + f" [history-dependent: the first evaluation in this process gave `{out[idx][:300]}`, the second, "
                            f"after {len(lines) - idx - 1} other operations, this; rerun the check with the same VERIF_SEED to replay]")
    return out


_POOL = None


def pool():
    global _POOL
    if _POOL is None:
        ctx = mp.get_context("fork")
        _POOL = ctx.Pool(NCPU)
    return _POOL


# operations that take seconds each: one pool task per line
HEAVY_OPS = ("rw.explore", "prop.c20", "prop.c19explicit", "prop.c19struct", "prop.c18")


def impl_eval(lines, parallel=True):
    if not lines:
        return []
    heavy = any(l.startswith(HEAVY_OPS) for l in lines)
    if not parallel or (len(lines) < 64 and not heavy):
        return _impl_chunk(lines)
    n = min(len(lines), NCPU * 8) if heavy else min(len(lines) // 16 + 1, NCPU * 8)
    chunks = [lines[i::n] for i in range(n)]
    res = pool().map(_impl_chunk, chunks)
    out = [None] * len(lines)
    for i in range(n):
        out[i::n] = res[i]
    return out


# --------------------------------------------------------------------------
# run context
# --------------------------------------------------------------------------

class Ctx:
    def __init__(self, prop, tier, seed):
        self.prop, self.tier, self.seed = prop, tier, seed
        self.rng = random.Random(f"{prop}/{seed}")
        self.t0 = time.time()
        self.evaluations = 0
        self.distinct = set()
        self.rule = ""
        self.samples = []
        self.hist = {}
        self.exhaustive = {}
        self.disagreements = []      # model vs implementation
        self.failures = []           # the property fails on the real code (concrete input)
        self.broken = []             # proof obligations / build problems
        self.known_hits = []
        self.notes = []
        self.obligations = []
        self.discharged = 0
        self.assumptions = []
        self.trusted_base = []
        self.traces = 0
        self.extra = {}

    @property
    def quick(self):
        return self.tier == "quick"

    def count(self, key, n=1):
        self.hist[key] = self.hist.get(key, 0) + n

    def sample(self, s):
        if len(self.samples) < 6:
            self.samples.append(s if len(str(s)) < 600 else str(s)[:600] + "...")

    def correspond(self, lines, label, nontrivial=None, stop_after=20):
        """Run lines on model and implementation, record disagreements.
        `nontrivial(line, result)` says whether a case counts as non-trivial."""
        lines = list(dict.fromkeys(lines))
        _t = time.time()
        m = model_eval(lines)
        _tm = time.time() - _t
        r = impl_eval(lines)
        if os.environ.get("VERIF_TIMING"):
            print(f"  [timing] {label}: {len(lines)} lines, model {_tm:.1f}s, impl {time.time() - _t - _tm:.1f}s", flush=True)
        for line, a, b in zip(lines, m, r):
            self.evaluations += 1
            cls = b.split(" ", 2)[0] + ((" " + b.split(" ", 2)[1]) if b.startswith("err ") else "")
            self.count(f"{label}:{cls}")
            if b.startswith("harness-error") or a == "bad-op":
                raise InternalError(f"harness problem on `{line[:300]}`: model={a[:200]} impl={b[:300]}")
            if a == "err NotModelled(model)":
                # the input leaves the modelled part of the code (explicit curve parameters, EdDSA keys): no comparison
                self.count(f"{label}:outside-model")
                continue
            if a != b:
                if len(self.disagreements) < stop_after:
                    self.disagreements.append({"op": line, "model": a, "impl": b, "label": label})
            if nontrivial is None or nontrivial(line, b):
                self.distinct.add(hashlib.blake2b(line.encode(), digest_size=8).digest())
        self.traces += len(lines)
        for line, b in list(zip(lines, r))[:2]:
            self.sample({"op": line if len(line) < 400 else line[:400] + "...", "result": b[:200]})
        return r

    def check_props(self, lines, label, stop_after=20):
        """`prop.*` ops: property evaluated directly on the real code"""
        lines = list(dict.fromkeys(lines))
        _t = time.time()
        r = impl_eval(lines)
        if os.environ.get("VERIF_TIMING"):
            print(f"  [timing] {label}: {len(lines)} prop lines, impl {time.time() - _t:.1f}s", flush=True)
        for line, b in zip(lines, r):
            self.evaluations += 1
            self.count(f"{label}:{b.split(' ', 1)[0]}")
            if b.startswith("harness-error"):
                raise InternalError(f"harness problem on `{line[:300]}`: {b[:400]}")
            if not b.startswith("ok"):
                if len(self.failures) < stop_after:
                    self.failures.append({"op": line, "observed": b, "label": label})
            self.distinct.add(hashlib.blake2b(line.encode(), digest_size=8).digest())
        for line, b in list(zip(lines, r))[:1]:
            self.sample({"op": line if len(line) < 400 else line[:400] + "...", "result": b[:200]})
        return r


# --------------------------------------------------------------------------
# known findings
# --------------------------------------------------------------------------

def load_known():
    p = os.path.join(VERIF, "known_findings.json")
    if not os.path.exists(p):
        return []
    return json.load(open(p)).get("findings", [])


def match_known(prop, failure, known):
    """an entry matches on property + op name + a regular expression over the op
    line and over the observed result: a *specific* input class, never
    'any failure of P'"""
    for k in known:
        if k.get("status") != "known" or k["property"] != prop:
            continue
        if re.search(k["op_regex"], failure["op"]) and re.search(k["observed_regex"], failure["observed"]):
            return k
    return None


# --------------------------------------------------------------------------
# evidence
# --------------------------------------------------------------------------

def write_evidence(ctx, violations, checker_cmd):
    cov = {
        "obligations": len(ctx.obligations),
        "discharged": ctx.discharged,
        "checker_cmd": checker_cmd,
        "trusted_base": ctx.trusted_base,
        "theorems": ctx.obligations,
        "evaluations": ctx.evaluations,
        "distinct_nontrivial": len(ctx.distinct),
        "rule": ctx.rule,
        "samples": ctx.samples or [{"note": "no case evaluated"}],
        "traces_validated_against_impl": ctx.traces,
        "exhaustive_subdomains": ctx.exhaustive,
        "exhaustive": bool(ctx.exhaustive) and all(ctx.exhaustive.values()),
        "histogram": dict(sorted(ctx.hist.items())),
        "disagreements": ctx.disagreements[:5],
        "broken_obligations": ctx.broken[:10],
        "known_findings_hit": [k["id"] for k in ctx.known_hits],
        "notes": ctx.notes,
    }
    cov.update(ctx.extra)
    ev = {
        "property_id": ctx.prop,
        "tier": ctx.tier,
        "seed": ctx.seed,
        "level": "proof",
        "coverage": cov,
        "assumptions": ctx.assumptions,
        "wall_s": round(time.time() - ctx.t0, 2),
        "violations": violations,
    }
    os.makedirs(os.path.join(VERIF, "evidence"), exist_ok=True)
    p = os.path.join(VERIF, "evidence", ctx.prop + ".json")
    tmp = p + ".tmp"
    json.dump(ev, open(tmp, "w"), indent=1, sort_keys=False)
    os.replace(tmp, p)
    return p


def write_replay(ctx, n, rec):
    d = os.path.join(VERIF, "replays")
    os.makedirs(d, exist_ok=True)
    p = os.path.join(d, f"{ctx.prop}-{ctx.tier}-{ctx.seed}-{n}.json")
    rec = dict(rec)
    rec.update({"property": ctx.prop, "seed": ctx.seed, "tier": ctx.tier,
                "replay_cmd": f"./check {ctx.prop} --replay {os.path.relpath(p, VERIF)}"})
    json.dump(rec, open(p, "w"), indent=1)
    return os.path.relpath(p, VERIF)
