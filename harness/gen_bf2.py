"""grammar-based generator of legacy BF2 texts together with the components the import must yield"""
import gen_bf3 as g
from core import hx

PAGE = 0x10000
# tag type -> (bf3 type, hwcid, fmt, intf, max pages)
SECTIONS = {
    0x35: (1, 0x9B, 0, 5, 4), 0x39: (1, 0xBE, 0, None, 4), 0x3D: (1, 0xAD, 0, 5, 2), 0x40: (1, 0xC0, 0, 5, 8),
    0x70: (0, None, 2, None, 4), 0x83: (0, None, 2, None, 1), 0x84: (2, None, 2, None, 32),
}
IGNORED = [0x34, 0x48]
PROTOCOLS = {"BRP": 0, "BRP-SER": 1, "BRP-CCID": 2, "BRP-TCP": 3, "BRP-OSDP": 4, "ISO7816-4": 5}
UC_FILTER = bytes.fromhex("0102800B000C")


class Writer:
    def __init__(self):
        self.out, self.ndx = [], 0

    def text(self, line):
        self.out.append(line + "\n")

    def line(self, typ, tag):
        raw = self.ndx.to_bytes(2, "big") + bytes([typ, len(tag)]) + tag
        self.ndx = (self.ndx + 1) & 0xFFFF
        self.out.append(":" + raw.hex().upper() + "\n")
        return raw

    def data(self, base, image, sizes, start=0, gap_at=None, gap=0):
        """emit `image` from address `start`; one FE..FF group per 64 KiB page; optional gap before line `gap_at`"""
        raws, pos, k, cur, shift = [], 0, 0, None, 0
        while pos < len(image):
            if gap_at is not None and k == gap_at:
                shift += gap
            adr = start + pos + shift
            page, offs = divmod(adr, PAGE)
            if page != cur:
                if cur is not None:
                    self.line(0xFF, b"")
                self.line(0xFE, b"")
                cur = page
            size = min(sizes[k % len(sizes)], len(image) - pos, PAGE - offs)
            k += 1
            raws.append(self.line(base + page, bytes([size + 2]) + offs.to_bytes(2, "big") + image[pos:pos + size]))
            pos += size
        self.line(0xFF, b"")
        return raws

    def value(self):
        return "".join(self.out)


def gen_image(rng, big):
    n = rng.choice([1, 2, 17, 250, 251, 1000, rng.randrange(1, 3000)]) if rng.random() < 0.8 else rng.randrange(min(60000, big - 1), big)
    return bytes(((i * 131 + (i >> 8) * 29 + n) & 0xFF) for i in range(n))


def gen_sizes(rng, n=0):
    sizes = [rng.choice([1, 2, 16, 37, 64, 128, 200, 249, 250, rng.randrange(1, 251)]) for _ in range(rng.randrange(1, 5))]
    if n > 5000 and sum(sizes) / len(sizes) < 60:
        sizes.append(250)          # keep the number of lines of large images moderate (the list-based model is quadratic)
        sizes.append(249)
    return sizes


def gen_file(rng, big=70000, marker=True, debug=False, defect=False):
    """returns (text, expected) where expected = list of (desc dict, payload) in file order, or None when the
    import must be rejected (defect=True: one blob section does not start at address 0 or has a gap)"""
    w = Writer()
    w.text("# BALTECH firmware file (generated)")
    w.text("##Creator: fwbuilder 2.5")
    fwid = rng.choice([1100, 1053, 1, 9999])
    ver = "D-1.23." if debug else f"{rng.randrange(10)}.{rng.randrange(100):02}.{rng.randrange(100):02}"
    w.text(f"##Firmware: {fwid:04} ID-ENGINE {ver} generated")
    if marker:
        w.text("##Bf3Update: 1")
    fwver = None if debug else fwid.to_bytes(2, "big") + bytes(int(x) for x in ver.split("."))
    exp = []
    nsec = rng.choice([1, 2, 2, 3, 4, 6])
    kinds = [rng.choice(list(SECTIONS) + IGNORED[:1] * (1 if rng.random() < 0.3 else 0)) for _ in range(nsec)]
    if all(k in IGNORED for k in kinds):
        kinds.append(rng.choice(list(SECTIONS)))      # only ignored sections: the marker is never copied (legacy error)
    bad_section = rng.randrange(len(kinds)) if defect else None
    rejected = False
    for si, base in enumerate(kinds):
        if base in IGNORED:
            w.text("#>CHECK_FWVER VERSIONDESC=*")
            w.data(base, g.rbytes(rng, 8), [8])
            continue
        typ, hw, fmt, intf, maxpages = SECTIONS[base]
        img = gen_image(rng, min(big, maxpages * PAGE - 10))
        desc = {0xC1: bytes([fmt]), 0xC3: bytes([typ])}
        if hw is not None:
            desc[0xC4] = hw.to_bytes(2, "big")
        if intf is not None:
            desc[0xC6] = bytes([intf])
        vd = "*"
        # a version descriptor on a loader / main section too: for release firmware the version of the ##Firmware header is
        # the one that ends up in the tag (it is applied last), for debug firmware the descriptor's
        if (typ == 1 and rng.random() < 0.6) or (typ != 1 and rng.random() < 0.3):
            v = g.rbytes(rng, rng.choice([4, 4, 7, 2, 3, 5, 1]))
            if hw == 0xBE:
                v = bytes(rng.choice(b"0123456789.") for _ in range(rng.choice([7, 8, 4, 6])))   # BGM versions are text
            # the version is the `len` bytes behind the length byte; whatever follows in the descriptor is not part of it
            trail = g.rbytes(rng, rng.choice([0, 0, 1, 3]))
            vd = " ".join(f"{b:02X}" for b in bytes([rng.choice([0, 0, 7]), rng.choice([0, 0, 9]), len(v)]) + v + trail)
            vlen = len(v)
        w.text(f"#>CHECK_FWVER VERSIONDESC={vd}")
        if typ == 1:
            flt = bytes([1, 1]) + hw.to_bytes(2, "big")
            if hw != 0xBE and rng.random() < 0.25:
                # the filter names ANOTHER component than the tag-type map does: the hardware id of the component is the filter's
                flt = bytes([1, 1]) + rng.choice([x for x in (0x9B, 0xAD, 0xC0, 0x93, 0x0B) if x != hw]).to_bytes(2, "big")   # not B6 / BE: BGM versions must be text
            if hw == 0xBE and rng.random() < 0.5:
                # the filters of the BGM12X family that do not end in the hardware id (special-cased by the importer)
                flt = bytes.fromhex(rng.choice(["010100B6", "010280B600BE", "010280BE00B6"]))
        else:
            flt = UC_FILTER
        # a section without platform filter: the hardware id of the tag-type map stays.  Only before the first SELECT of the
        # file: instructions stay in force for the sections that follow (a later section without SELECT inherits the filter)
        noselect = rng.random() < 0.3 and not any(l.startswith("#>SELECT FILTER") for l in w.out)
        if not noselect:
            w.text("#>SELECT FILTER=" + " ".join(f"{b:02X}" for b in flt))
            desc[0xC9] = flt
        if typ == 1 and not noselect:
            desc[0xC4] = flt[-2:] if flt[:2] == bytes([1, 1]) and flt != bytes.fromhex("010100B6") else (0xBE).to_bytes(2, "big")
        if vd != "*":
            desc[0xC8] = bytes.fromhex(vd.replace(" ", ""))[3:3 + vlen]
        if typ == 0:
            proto = rng.choice(list(PROTOCOLS))
            w.text(f"#>SELECT_IF PROTOCOL={proto}")
            desc[0xC6] = bytes([PROTOCOLS[proto]])
        else:
            w.text("#>SELECT_IF PROTOCOL=*")
        if si == bad_section and fmt == 0 and len(img) > 2:
            rejected = True                     # a blob must start at 0 and be gap-free
            if rng.random() < 0.5:
                raws = w.data(base, img, gen_sizes(rng, len(img)), start=rng.choice([1, 0x10, 0x100, PAGE, PAGE + 7]))
            else:
                sz = gen_sizes(rng, len(img))
                raws = w.data(base, img, [min(x, max(1, len(img) // 3)) for x in sz], gap_at=rng.choice([1, 2]),
                              gap=rng.choice([1, 0x10, PAGE]))
        else:
            raws = w.data(base, img, gen_sizes(rng, len(img)))
        if typ in (0, 2) and fwver is not None:
            desc[0xC8] = fwver
        if rng.random() < 0.5:
            crc = rng.choice([rng.randrange(2 ** 32), rng.randrange(2 ** 32), rng.randrange(2 ** 24), rng.randrange(4096), 0, 1, 2 ** 32 - 1])
            # `int(text[2:], 16)`: any number of hex digits, either case, always four bytes in the tag
            w.text("##CRC: 0x" + rng.choice([f"{crc:08X}", f"{crc:X}", f"{crc:x}", f"{crc:010X}"]))
            desc[0xC7] = crc.to_bytes(4, "big")
        if rng.random() < 0.5 or si == len(kinds) - 1:
            w.text("#>REBOOT")
            desc[0xC5] = b"\x01"
        payload = img if fmt == 0 else b"".join(raws)
        exp.append((desc, payload))
    return w.value(), (None if rejected else exp)


def gen_variants(rng, n):
    """texts without a computed expectation (compared between model and code only): sections that follow each other WITHOUT an
    instruction line in between (the start of a mapped tag type alone ends the previous section; its instructions stay in
    force), and sections whose SELECT_IF names a protocol the importer does not know (they produce no component)"""
    out = []
    for i in range(n):
        w = Writer()
        w.text("##Creator: fwbuilder 2.5")
        w.text(f"##Firmware: 1100 ID-ENGINE {'D-1.23.' if i % 5 == 4 else '1.02.03'} generated")
        w.text("##Bf3Update: 1")
        kinds = [rng.choice(list(SECTIONS) + IGNORED) for _ in range(rng.choice([2, 3, 4]))]
        for si, base in enumerate(kinds):
            if base in IGNORED:
                if rng.random() < 0.5:
                    w.text("#>CHECK_FWVER VERSIONDESC=*")
                w.data(base, g.rbytes(rng, 8), [8])
                continue
            typ, hw, fmt, intf, maxpages = SECTIONS[base]
            bare = si > 0 and rng.random() < 0.6             # no instruction line in front of this section
            if not bare:
                w.text("#>CHECK_FWVER VERSIONDESC=" + rng.choice(["*", "00 00 04 01 02 03 04"]))
                if rng.random() < 0.7:
                    flt = UC_FILTER if typ != 1 else bytes([1, 1]) + (hw or 0x9B).to_bytes(2, "big")
                    w.text("#>SELECT FILTER=" + " ".join(f"{b:02X}" for b in flt))
                w.text("#>SELECT_IF PROTOCOL=" + rng.choice(["*", "BRP", "BRP-SER", "NOPE", "brp", "ISO7816-4", ""]))
            w.data(base, gen_image(rng, 300), [rng.choice([16, 64, 250])])
            r = rng.random()
            if r < 0.3:
                w.text("#>REBOOT")
            elif r < 0.4:
                w.text("##CRC: 0x0BADF00D")
        text = w.value()
        if i % 3 == 0:
            # the start-of-tag marker (FE) is optional for the importer - a group is whatever stands in front of an end-of-tag
            # marker (FF) - and an end marker with nothing in front of it closes nothing: drop some FE lines, double some FF lines
            ls = text.split("\n")
            out_ls = []
            for l in ls:
                if l.startswith(":") and l[5:7] == "FE" and rng.random() < 0.5:
                    continue
                out_ls.append(l)
                if l.startswith(":") and l[5:7] == "FF" and rng.random() < 0.3:
                    out_ls.append(l)
            text = "\n".join(out_ls)
        out.append(text)
    # one section over two pages, the second page group without its FE line (what a seeded parser change turned into two components)
    w = Writer()
    w.text("##Firmware: 1100 ID-ENGINE 1.07.02 generated")
    w.text("##Bf3Update: 1")
    w.text("#>SELECT_IF PROTOCOL=*")
    w.data(0x84, gen_image(rng, PAGE + 40)[PAGE - 48:], [16], start=PAGE - 48)
    out.append("\n".join(l for k, l in enumerate(w.value().split("\n")) if not (l.startswith(":") and l[5:7] == "FE" and k > 4)))
    return out


def show_lines(lines):
    return ",".join(f"{t}:{n}:{hx(tag)}:{hx(raw)}" for t, n, tag, raw in lines) or "-"


def data_lines(rng, base, image, sizes, start=0, gap_at=None, gap=0):
    """protocol encoding of the data lines of one section (for bf2.unpack / bf2.convert)"""
    w = Writer()
    raws = w.data(base, image, sizes, start, gap_at, gap)
    out = []
    for r in raws:
        out.append((r[2], int.from_bytes(r[0:2], "big"), r[4:4 + r[3]], r))
    return out
