"""
Independent reference arithmetic on short-Weierstrass curves (affine coordinates, textbook chord/tangent
law with Python's modular inverse).  Shares nothing with python-ecdsa: used as an oracle and for directed
generation (e.g. scalars whose ECDH secret has leading zero bytes).
"""
P256 = dict(
    p=0xffffffff00000001000000000000000000000000ffffffffffffffffffffffff,
    a=-3,
    b=0x5ac635d8aa3a93e7b3ebbd55769886bc651d06b0cc53b0f63bce3c3e27d2604b,
    gx=0x6b17d1f2e12c4247f8bce6e563a440f277037d812deb33a0f4a13945d898c296,
    gy=0x4fe342e2fe1a7f9b8ee7eb4a7c0f9e162bce33576b315ececbb6406837bf51f5,
    n=0xffffffff00000000ffffffffffffffffbce6faada7179e84f3b9cac2fc632551,
)


def add(c, P, Q):
    """P, Q: None (infinity) or (x, y) with 0 <= x, y < p"""
    p = c["p"]
    if P is None:
        return Q
    if Q is None:
        return P
    x1, y1 = P
    x2, y2 = Q
    if x1 == x2:
        if (y1 + y2) % p == 0:
            return None
        lam = (3 * x1 * x1 + c["a"]) * pow(2 * y1, -1, p) % p
    else:
        lam = (y2 - y1) * pow(x2 - x1, -1, p) % p
    x3 = (lam * lam - x1 - x2) % p
    return x3, (lam * (x1 - x3) - y1) % p


def neg(c, P):
    return None if P is None else (P[0], (-P[1]) % c["p"])


def mul(c, k, P):
    if k < 0:
        return mul(c, -k, neg(c, P))
    R = None
    while k:
        if k & 1:
            R = add(c, R, P)
        P = add(c, P, P)
        k >>= 1
    return R


def on_curve(c, P):
    if P is None:
        return True
    x, y = P
    return 0 <= x < c["p"] and 0 <= y < c["p"] and (y * y - (x * x * x + c["a"] * x + c["b"])) % c["p"] == 0


def G(c):
    return (c["gx"], c["gy"])


assert mul(P256, P256["n"], G(P256)) is None and on_curve(P256, mul(P256, 12345, G(P256)))


def sqrt_mod(a, p):
    """Tonelli-Shanks (independent of the library's square_root_mod_prime); None when a is not a square"""
    a %= p
    if a == 0:
        return 0
    if pow(a, (p - 1) // 2, p) != 1:
        return None
    if p % 4 == 3:
        return pow(a, (p + 1) // 4, p)
    q, s = p - 1, 0
    while q % 2 == 0:
        q //= 2
        s += 1
    z = 2
    while pow(z, (p - 1) // 2, p) != p - 1:
        z += 1
    m, c2, t, r = s, pow(z, q, p), pow(a, q, p), pow(a, (q + 1) // 2, p)
    while t != 1:
        i, t2 = 0, t
        while t2 != 1:
            t2 = t2 * t2 % p
            i += 1
        b = pow(c2, 1 << (m - i - 1), p)
        m, c2, t, r = i, b * b % p, t * b * b % p, r * b % p
    return r


def in_subgroup(c, P):
    """n * P == infinity (what Public_key checks when the cofactor is not 1)"""
    return mul(c, c["n"], P) is None
