"""
Independent reference arithmetic on short-Weierstrass curves (affine coordinates, textbook chord/tangent
law with Python's modular inverse).  Shares nothing with python-ecdsa: used as an oracle and for directed
generation (e.g. scalars whose ECDH secret has leading zero bytes).
"""
P256 = dict(
    p=0xffffffff00000001000000000000000000000000ffffffffffffffffffffffff,
    a=-3,
    b=0x5ac635d8aa3a93e7b3ebbd55769886bc651d06b0cc53b0f63bce3c3e27d2604b,
    gx=0x6b17d1f2e12c4247f8bce6e563a440f277037d812deb33a0f4a13945d898c296,
    gy=0x4fe342e2fe1a7f9b8ee7eb4a7c0f9e162bce33576b315ececbb6406837bf51f5,
    n=0xffffffff00000000ffffffffffffffffbce6faada7179e84f3b9cac2fc632551,
)


def add(c, P, Q):
    """P, Q: None (infinity) or (x, y) with 0 <= x, y < p"""
    p = c["p"]
    if P is None:
        return Q
    if Q is None:
        return P
    x1, y1 = P
    x2, y2 = Q
    if x1 == x2:
        if (y1 + y2) % p == 0:
            return None
        lam = (3 * x1 * x1 + c["a"]) * pow(2 * y1, -1, p) % p
    else:
        lam = (y2 - y1) * pow(x2 - x1, -1, p) % p
    x3 = (lam * lam - x1 - x2) % p
    return x3, (lam * (x1 - x3) - y1) % p


def neg(c, P):
    return None if P is None else (P[0], (-P[1]) % c["p"])


def mul(c, k, P):
    if k < 0:
        return mul(c, -k, neg(c, P))
    R = None
    while k:
        if k & 1:
            R = add(c, R, P)
        P = add(c, P, P)
        k >>= 1
    return R


def on_curve(c, P):
    if P is None:
        return True
    x, y = P
    return 0 <= x < c["p"] and 0 <= y < c["p"] and (y * y - (x * x * x + c["a"] * x + c["b"])) % c["p"] == 0


def G(c):
    return (c["gx"], c["gy"])


assert mul(P256, P256["n"], G(P256)) is None and on_curve(P256, mul(P256, 12345, G(P256)))


def sqrt_mod(a, p):
    """Tonelli-Shanks (independent of the library's square_root_mod_prime); None when a is not a square"""
    a %= p
    if a == 0:
        return 0
    if pow(a, (p - 1) // 2, p) != 1:
        return None
    if p % 4 == 3:
        return pow(a, (p + 1) // 4, p)
    q, s = p - 1, 0
    while q % 2 == 0:
        q //= 2
        s += 1
    z = 2
    while pow(z, (p - 1) // 2, p) != p - 1:
        z += 1
    m, c2, t, r = s, pow(z, q, p), pow(a, q, p), pow(a, (q + 1) // 2, p)
    while t != 1:
        i, t2 = 0, t
        while t2 != 1:
            t2 = t2 * t2 % p
            i += 1
        b = pow(c2, 1 << (m - i - 1), p)
        m, c2, t, r = i, b * b % p, t * b * b % p, r * b % p
    return r


def in_subgroup(c, P):
    """n * P == infinity (what Public_key checks when the cofactor is not 1)"""
    return mul(c, c["n"], P) is None


# ---- roots of a cubic over F_p (to find curve points with a prescribed small ordinate) ---------------------------------------

def _ptrim(a):
    while a and a[-1] == 0:
        a.pop()
    return a


def _pmod(a, f, p):
    """a mod f (coefficient lists, lowest degree first; f not zero)"""
    a = _ptrim([v % p for v in a])
    f = _ptrim([v % p for v in f])
    inv = pow(f[-1], -1, p)
    while len(a) >= len(f):
        q = a[-1] * inv % p
        off = len(a) - len(f)
        for i, v in enumerate(f):
            a[off + i] = (a[off + i] - q * v) % p
        _ptrim(a)
    return a


def _pmulmod(a, b, f, p):
    r = [0] * (len(a) + len(b) - 1) if a and b else []
    for i, x in enumerate(a):
        for j, y in enumerate(b):
            r[i + j] = (r[i + j] + x * y) % p
    return _pmod(r, f, p)


def _ppowmod(base, e, f, p):
    r, b = [1], _pmod(list(base), f, p)
    while e:
        if e & 1:
            r = _pmulmod(r, b, f, p)
        b = _pmulmod(b, b, f, p)
        e >>= 1
    return r


def _pgcd(a, b, p):
    a, b = _ptrim([v % p for v in a]), _ptrim([v % p for v in b])
    while b:
        a, b = b, _pmod(a, b, p)
    if a:
        inv = pow(a[-1], -1, p)
        a = [v * inv % p for v in a]
    return a


def poly_roots(f, p, rng):
    """all roots in F_p of the polynomial f (odd prime p): gcd with x^p - x, then random equal-degree splitting"""
    f = _ptrim([v % p for v in f])
    if len(f) <= 1:
        return []
    xp = _ppowmod([0, 1], p, f, p)
    g = _pgcd(f, _ptrim([(v - (1 if i == 1 else 0)) % p for i, v in enumerate(xp + [0, 0])]), p)
    out = []

    def split(h):
        if len(h) <= 1:
            return
        if len(h) == 2:
            out.append(-h[0] * pow(h[1], -1, p) % p)
            return
        while True:
            s = rng.randrange(p)
            t = _ppowmod([s, 1], (p - 1) // 2, h, p)
            t = _ptrim([(v - (1 if i == 0 else 0)) % p for i, v in enumerate(t + [0])])
            d = _pgcd(h, t, p) if t else h
            if 1 < len(d) < len(h):
                split(d)
                q = list(h)
                # h / d by long division
                quo = []
                r = _ptrim([v % p for v in q])
                inv = pow(d[-1], -1, p)
                while len(r) >= len(d):
                    c = r[-1] * inv % p
                    off = len(r) - len(d)
                    quo.append((off, c))
                    for i, v in enumerate(d):
                        r[off + i] = (r[off + i] - c * v) % p
                    _ptrim(r)
                qq = [0] * (max(o for o, _ in quo) + 1)
                for o, c in quo:
                    qq[o] = c
                split(qq)
                return
    split(g)
    return sorted(set(out))


def points_with_ordinate(c, y, rng):
    """all curve points (x, y) with the given ordinate"""
    p = c["p"]
    return [(x, y % p) for x in poly_roots([(c["b"] - y * y) % p, c["a"] % p, 0, 1], p, rng)]


def points_with_small_coordinate(c, rng, count=3, limit=400):
    """curve points with a small abscissa and curve points with a small ordinate (a representative `v + p` of the small
    coordinate then still fits into the fixed-width encoding whenever p is not just below a power of 256)"""
    p = c["p"]
    small_x, small_y = [], []
    x = 0
    while len(small_x) < count and x < limit:
        y = sqrt_mod(x ** 3 + c["a"] * x + c["b"], p)
        if y:
            small_x.append((x, y))
        x += 1
    y = 1
    while len(small_y) < count and y < limit:
        small_y += points_with_ordinate(c, y, rng)
        y += 1
    return small_x, small_y


import random as _random
assert all(on_curve(P256, P) for P in points_with_ordinate(P256, 1, _random.Random(1)))
assert (0x09e78d4ef60d05f750f6636209092bc43cbdd6b47e11a9de20a9feb2a50bb96c, 1) in points_with_ordinate(P256, 1, _random.Random(2))
