"""C16 — bundled AES = FIPS-197 / SP 800-38A; adapter = pure zero-padded CBC."""
import gen_bf3 as g
from core import hx

TRUSTED = [
    "Lean 4.33 kernel; axioms propext, Classical.choice, Quot.sound only",
    "Spec/Gf256.lean: GF(2^8) arithmetic, S-box = affine(inverse) as in FIPS-197 (the spec is trusted, NIST vectors evaluated next to it)",
    "Gen/AesTables.lean regenerated from pyaes/aes.py every run; 14 tables + rcon kernel-checked entry by entry",
    "Model/Aes.lean (rounds, key schedule), Model/Modes.lean (5 modes, Counter, feeders), Model/Crypto.lean (adapter) tied to the "
    "code by the correspondence run (blocks, call histories over several objects, every chunking of short inputs)",
    "word abstraction: Python's signed key words are carried as naturals mod 2^32 (all observations are (w >> s) & 0xFF)",
]
ASSUMPTIONS = [
    "Spec/Fips197.lean is this check's reading of FIPS-197 (validated against Appendix C.1-C.3 by kernel evaluation and against "
    "the independent byte-oriented implementation refaes.py through the correspondence); the model carries key words as "
    "naturals mod 2^32 (Python's signed words differ only in bits that are masked away)",
]
LEANCHECKER_MODULES = ["Bec2Verif.Props.C16"]

NIST = [
    ("000102030405060708090a0b0c0d0e0f", "00112233445566778899aabbccddeeff"),
    ("000102030405060708090a0b0c0d0e0f1011121314151617", "00112233445566778899aabbccddeeff"),
    ("000102030405060708090a0b0c0d0e0f101112131415161718191a1b1c1d1e1f", "00112233445566778899aabbccddeeff"),
    ("2b7e151628aed2a6abf7158809cf4f3c", "6bc1bee22e409f96e93d7e117393172a"),
    ("8e73b0f7da0e6452c810f32b809079e562f8ead2522c6b7b", "ae2d8a571e03ac9c9eb76fac45af8e51"),
    ("603deb1015ca71be2b73aef0857d77811f352c073b6108d72d9810a30914dff4", "30c81c46a35ce411e5fbc1191a0a52ef"),
]


def gen_hist(rng, maxcalls):
    """a history over 1..3 mode objects / feeders with random chunking"""
    steps = []
    nobj = rng.choice([1, 1, 2, 3])
    objs = []
    for s in range(nobj):
        kind = rng.choice(["ecb", "cbc", "cfb", "ofb", "ctr"])
        key = g.rbytes(rng, rng.choice([16, 16, 24, 32]))
        if rng.random() < 0.2:
            key = bytes(b | 0x80 for b in key)
        iv = "none" if rng.random() < 0.25 else hx(g.rbytes(rng, 16))
        if rng.random() < 0.03:
            iv = hx(g.rbytes(rng, rng.choice([0, 15, 17])))
        # carries across every byte boundary of the 16-byte counter (the increment loop runs byte by byte), wrap-around, > 2^128
        kb = rng.randrange(1, 16)
        carry = (rng.randrange(1, 256 ** (16 - kb)) * 256 ** kb - rng.randrange(1, 4)) % 2 ** 128
        ctr = rng.choice([1, 0, 2**64 - 1, 2**128 - 1, 2**128 - 2, 2**128, 2**128 + 5, rng.randrange(2**128), carry, carry,
                          2**120 - 1, 2**120 - 2])
        seg = rng.choice([1, 1, 2, 4, 8, 16, 0, 3])
        steps.append(f"new,{s},{kind},{hx(key)},{iv},{ctr},{seg}")
        feeder = rng.random() < 0.5
        if feeder:
            steps.append(f"fnew,{s},{s},{rng.choice(['enc', 'dec'])},{rng.choice(['default', 'default', 'none'])}")
        objs.append((s, kind, feeder, seg or 1))
    for _ in range(rng.randrange(1, maxcalls)):
        s, kind, feeder, seg = rng.choice(objs)
        if feeder:
            if rng.random() < 0.12:
                steps.append(f"feed,{s},final")
            else:
                n = rng.choice([0, 1, 5, 15, 16, 17, 31, 32, 33, 48, rng.randrange(0, 100)])
                steps.append(f"feed,{s},{hx(g.rbytes(rng, n))}")
        else:
            if kind in ("ecb", "cbc"):
                n = 16 if rng.random() < 0.93 else rng.choice([0, 15, 17, 32])
            elif kind == "cfb":
                n = seg * rng.randrange(0, 12) if rng.random() < 0.9 else rng.randrange(0, 40)
            else:
                n = rng.choice([0, 1, 5, 15, 16, 17, 31, 32, 33, rng.randrange(0, 100)])
            steps.append(f"{rng.choice(['enc', 'enc', 'dec'])},{s},{hx(g.rbytes(rng, n))}")
    return "mh " + "|".join(steps)


def splits(data, maxparts=3):
    """every split of data into <= maxparts chunks"""
    n = len(data)
    out = [[data]]
    for i in range(0, n + 1):
        out.append([data[:i], data[i:]])
    if maxparts >= 3 and n <= 20:
        for i in range(0, n + 1):
            for j in range(i, n + 1):
                out.append([data[:i], data[i:j], data[j:]])
    return out


def run(ctx):
    rng = ctx.rng
    ctx.rule = ("blocks: NIST vectors + random keys (16/24/32 bytes, incl. top bit of every word set) and blocks; adapter: data "
                "lengths 0..100 + random, IV none/given, bad key/IV sizes; mode/feeder histories over up to 3 objects with "
                "random chunking, counter edge values, segment sizes; every split of short inputs into <= 3 chunks for each "
                "feeder; non-trivial = distinct case")
    nb = 300 if ctx.quick else 5000
    blocks = list(NIST)
    for _ in range(nb):
        key = g.rbytes(rng, rng.choice([16, 24, 32]))
        r = rng.random()
        if r < 0.2:
            key = bytes(b | 0x80 for b in key)
        elif r < 0.3:
            key = bytes(len(key))
        blocks.append((hx(key), hx(g.rbytes(rng, 16))))
    ctx.correspond([f"aes.enc {k} {b}" for k, b in blocks], "aes.enc")
    ctx.correspond([f"aes.dec {k} {b}" for k, b in blocks], "aes.dec")
    ctx.correspond([f"aes.enc {hx(g.rbytes(rng, n))} {hx(g.rbytes(rng, m))}" for n, m in
                    [(0, 16), (15, 16), (17, 16), (16, 15), (16, 17), (16, 0), (33, 16)]], "aes.bad")
    ad = []
    big = [4095, 4096, 4097, 8193] if ctx.quick else [4095, 4096, 4097, 4112, 8192, 8193, 16385, 65535, 65536, 65537]
    for n in list(range(0, 101)) + [rng.randrange(100, 1500) for _ in range(20 if ctx.quick else 300)] + big:
        d = g.gen_payload(rng, 10) if n == 0 else g.rbytes(rng, n)
        if n == 0:
            d = b""
        if rng.random() < 0.3 and n:
            d = d[: n // 2] + bytes(n - n // 2)
        iv = "none" if rng.random() < 0.5 else hx(g.rbytes(rng, 16))
        ad.append((hx(g.gen_key(rng)), iv, hx(d)))
    ctx.exhaustive["adapter_data_lengths_0..100"] = True
    e = ctx.correspond([f"ad.enc {k} {iv} {d}" for k, iv, d in ad], "ad.enc")
    ctx.correspond([f"ad.mac {k} {iv} {d}" for k, iv, d in ad], "ad.mac")
    ctx.correspond([f"ad.dec {k} {iv} {r[3:]}" for (k, iv, d), r in zip(ad, e) if r.startswith("ok ")], "ad.dec")
    ctx.correspond([f"ad.dec {k} {iv} {d}" for k, iv, d in ad[:60]], "ad.dec-raw")
    ctx.correspond([f"ad.enc {hx(g.rbytes(rng, kl))} {iv} 00112233" for kl in (0, 15, 17, 24, 32, 33)
                    for iv in ("none", hx(g.rbytes(rng, 15)), hx(g.rbytes(rng, 17)), "-")], "ad.badsizes")
    nh = 600 if ctx.quick else 12000
    ctx.correspond([gen_hist(rng, 12) for _ in range(nh)], "history")
    # every chunking of short inputs through every feeder
    ch = []
    for kind in ["ecb", "cbc", "cfb", "ofb", "ctr"]:
        for d in ("enc", "dec"):
            for pad in ("default", "none"):
                for n in ([0, 1, 15, 16, 17, 32, 33] if ctx.quick else list(range(0, 41))):
                    data = g.rbytes(rng, n)
                    key, iv = hx(g.rbytes(rng, 16)), hx(g.rbytes(rng, 16))
                    seg = rng.choice([1, 2, 4, 8, 16])
                    sp = splits(data, 3 if n <= (8 if ctx.quick else 20) else 2)
                    for parts in (sp if not ctx.quick else sp[:: max(1, len(sp) // 12)]):
                        steps = [f"new,0,{kind},{key},{iv},1,{seg}", f"fnew,0,0,{d},{pad}"]
                        steps += [f"feed,0,{hx(p)}" for p in parts] + ["feed,0,final"]
                        ch.append("mh " + "|".join(steps))
    ctx.exhaustive["all_splits_into_<=3_chunks_of_short_inputs_per_feeder"] = not ctx.quick
    ctx.correspond(ch, "chunking")
    # the stream functions of blockfeeder.py: every mode, both directions, both paddings, several read sizes
    st = []
    for kind in ["ecb", "cbc", "cfb", "ofb", "ctr"]:
        for d in ("enc", "dec"):
            for pad in ("default", "none"):
                for n in ([0, 15, 16, 17, 32, 48, 100] if ctx.quick else list(range(0, 70)) + [128, 1000]):
                    for bs in ([1, 16, 17, 8192] if ctx.quick else [1, 7, 16, 17, 64, 8192]):
                        data = g.rbytes(rng, n)
                        if n and rng.random() < 0.3:
                            data = data[:-1] + bytes([rng.choice([0, 1, 2, 15, 16, 17])])       # looks like padding
                        st.append(f"ms {kind} {hx(g.rbytes(rng, 16))} {hx(g.rbytes(rng, 16))} {rng.randrange(2 ** 128)} "
                                  f"{rng.choice([1, 2, 4, 8, 16])} {d} {pad} {bs} {hx(data) or '-'}")
    ctx.correspond(st, "stream-functions")
    # property on the real code against the independent reference
    ctx.check_props([f"prop.aesblock {k} {b}" for k, b in blocks], "prop.aesblock")
    ctx.check_props(mode_props(rng, 300 if ctx.quick else 6000), "prop.aesmode")
    ctx.check_props([f"prop.adapter {k} {iv} {d}" for k, iv, d in ad if d != "-"], "prop.adapter")
    ctx.check_props([f"prop.adapterhist {k} {iv} {d} {hx(g.gen_key(rng))} {hx(g.rbytes(rng, rng.randrange(1, 40)))}"
                     for k, iv, d in ad[1:80]], "prop.adapterhist")


def mode_props(rng, n):
    out = []
    for _ in range(n):
        kind = rng.choice(["ecb", "cbc", "cfb", "ofb", "ctr", "ctr"])
        key = g.rbytes(rng, rng.choice([16, 24, 32]))
        kb = rng.randrange(1, 16)
        carry = (rng.randrange(1, 256 ** (16 - kb)) * 256 ** kb - rng.randrange(1, 4)) % 2 ** 128
        ctr = rng.choice([1, 0, 2 ** 128 - 1, 2 ** 128 - 3, 2 ** 120 - 1, carry, carry, rng.randrange(2 ** 128)])
        seg = rng.choice([1, 2, 4, 8, 16])
        data = g.rbytes(rng, rng.choice([0, 16, 33, 64, 100, 160]))
        cuts = ",".join(str(rng.randrange(0, 200)) for _ in range(rng.randrange(0, 4)))
        out.append(f"prop.aesmode {kind} {hx(key)} {hx(g.rbytes(rng, 16))} {ctr} {seg} {hx(data) or '-'} {cuts or '-'} {rng.choice(['enc', 'dec'])}")
    return out


def search(ctx):
    rng = ctx.rng
    ctx.check_props(mode_props(rng, 3000), "search.aesmode")
    ctx.check_props([f"prop.aesblock {hx(g.rbytes(rng, rng.choice([16, 24, 32])))} {hx(g.rbytes(rng, 16))}"
                     for _ in range(3000)], "search.aesblock")
