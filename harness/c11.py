"""C11 — configuration updates are history-independent."""
import gen_cfg as gc
import gen_bf3 as g
from core import hx

TRUSTED = [
    "Lean 4.33 kernel; axioms propext, Classical.choice, Quot.sound only",
    "Model/Tlv.lean (setConfig, deriveComments, deriveAuth, addBlock) tied to set_config / derive_comments_from_config / "
    "derive_auth_blocks_from_config by correspondence on operation sequences (state compared after every operation)",
]
ASSUMPTIONS = [
    "'placed last' is asserted right after each set_config (a later append of a firmware component legitimately follows it)",
    "histories that append a configuration component by hand are outside the quantifier",
]
LEANCHECKER_MODULES = ["Bec2Verif.Props.C11"]


def gen_hist(rng, maxops):
    cfgs = [gc.naming_items(rng) + gc.gen_dict(rng, 6, oversize=False) for _ in range(4)]
    # dict keys must stay unique
    cfgs = [list({k: v for k, v in c}.items()) for c in cfgs]
    # a None value/content under the naming ids makes int.from_bytes(None) raise TypeError: outside the quantifier
    cfgs = [[(k, c) for k, c in cf if not (k[0] in (0x0620, 0x0202) and (k[1] is None or c is None))] for cf in cfgs]
    ops = []
    ncomp = 0
    for _ in range(rng.randrange(1, maxops + 1)):
        r = rng.random()
        if r < 0.35:
            ex = rng.choice(["-", "-", hx(g.rbytes(rng, 3))])
            ops.append(f"setcfg!{gc.show_dict(rng.choice(cfgs))}!{ex}")
        elif r < 0.55:
            ops.append(f"derivec!{gc.show_dict(rng.choice(cfgs))}")
        elif r < 0.7:
            ops.append(f"derivea!{gc.show_dict(rng.choice(cfgs))}!{rng.choice('01')}")
        else:
            typ = rng.choice([None, None, b"\x00", b"\x01", b"\x02"])
            desc = [(0xC3, typ)] if typ is not None else []
            desc += [(t, v) for t, v in g.gen_desc(rng, maxtl=20) if t != 0xC3][:2]
            comp = g.show_comp(desc, g.rbytes(rng, rng.randrange(1, 9)), rng.randrange(1, 3), False)
            if r < 0.85:
                ops.append(f"append!{comp}")
            else:
                ops.append(f"insert!{rng.randrange(0, ncomp + 2)}!{comp}")
            ncomp += 1
    cm = g.gen_comments(rng)
    init = "-" if rng.random() < 0.5 else g.show_comp([] if rng.random() < 0.5 else [(0xC3, b"\x02")], b"\x01\x02", 2, False)
    # blocks of a file that was read back without the matching decryptors are opaque blocks WITH the tag of a known kind
    blocks = rng.choice(["-", "-", "c", "e0", "u0102030405060708:3", "e1,c", "x2:0a0b0c", "c,x2:00", "x1:ff,x3:0102", "x3:aa,u0102030405060708:9",
                         "x127:00,x2:11"])
    return f"{cm} {init} {blocks} {'/'.join(ops)}"


def run(ctx):
    rng = ctx.rng
    ctx.rule = ("operation sequences (<=12 ops quick, <=40 thorough) over 4 distinct configurations drawn from: set_config (with/without "
                "extra blocks), derive comments, derive auth blocks (both modes), append/insert firmware components with or without TYPE "
                "tag; initial file with/without components, comments and auth blocks; state compared after every operation; "
                "non-trivial = distinct history")
    n = 300 if ctx.quick else 20000
    hs = [gen_hist(rng, 12 if ctx.quick else 40) for _ in range(n)]
    # the D5 shape: component without TYPE tag before two set_config calls
    hs.append("- -|0102|2|0 - setcfg!1:2:03!-/setcfg!1:2:04!-")
    hs.append("- - - setcfg!1:2:03!-/append!195:02|05|1|0/setcfg!1:2:04!-/derivea!-!0/derivea!-!1/derivea!-!0")
    ctx.correspond(["hist " + h for h in hs], "hist")
    ctx.check_props(["prop.c11 " + h for h in hs], "prop.c11")
    # the same histories with "write the file, go on with what is read back" steps in between (real code only)
    hw = []
    for h in hs[: (150 if ctx.quick else 5000)]:
        cm, init, blocks, ops = h.split(" ")
        ol = ops.split("/")
        for _ in range(rng.choice([1, 2, 3])):
            ol.insert(rng.randrange(len(ol) + 1), "rw")
        if rng.random() < 0.5:
            ol += ["rw", "rw"]
        hw.append(f"{cm} {init} {blocks} {'/'.join(ol)}")
    ctx.check_props(["prop.c11 " + h for h in hw], "prop.c11-write-read")


def search(ctx):
    rng = ctx.rng
    ctx.check_props(["prop.c11 " + gen_hist(rng, 25) for _ in range(3000)], "search.c11")
