"""C14 — direct evaluation on the real code: every parsing entry point returns or raises a format error / ValueError,
terminates (the per-case watchdog of core.impl_eval turns a hang into a failing case) and leaves the library-global
state untouched."""
import io
import traceback
from impl import op, unhx, REPO, CStream
import impl_bf3 as b3
import impl_bec2 as b2
from bec2format import crypto
from bec2format.error import FormatError
from bec2format.bf3file import Bf3File, pfid2_filter_to_str
from bec2format.bec2file import Bec2File
from bec2format.configid import ConfigId

import sys
import types


def _deep(v, depth=0):
    """value of plain data and containers (tables, registries, caches), identity of everything else"""
    if isinstance(v, (int, str, bytes, float, bool, type(None))):
        return v
    if depth > 4:
        return ("id", id(v))
    if isinstance(v, dict):
        return ("dict", tuple((repr(k), _deep(x, depth + 1)) for k, x in v.items()))
    if isinstance(v, (list, tuple)):
        return (type(v).__name__, tuple(_deep(x, depth + 1) for x in v))
    if isinstance(v, (set, frozenset)):
        return ("set", tuple(sorted(repr(x) for x in v)))
    if isinstance(v, bytearray):
        return ("bytearray", bytes(v))
    return ("id", id(v))


def snapshot():
    """every module-level name of the library (bec2format.*), containers by value, and the container-valued attributes of
    its classes (registries such as AUTH_BLOCK_CLS_MAP)"""
    snap = {}
    for name, mod in list(sys.modules.items()):
        if mod is None or not (name == "bec2format" or name.startswith("bec2format.")):
            continue
        for k, v in list(vars(mod).items()):
            if k.startswith("__") or isinstance(v, types.ModuleType):
                continue
            snap[name + "." + k] = _deep(v)
            if isinstance(v, type) and getattr(v, "__module__", None) == name:
                for ck, cv in list(vars(v).items()):
                    if not ck.startswith("__") and isinstance(cv, (dict, list, set, bytearray)):
                        snap[name + "." + k + "." + ck] = _deep(cv)
    return snap


def classify(f):
    """run f; returns protocol result"""
    before = snapshot()
    try:
        f()
        out = "ok returned"
    except (FormatError, ValueError) as e:
        out = "ok " + type(e).__name__
    except RecursionError:
        out = "FAIL RecursionError"
    except Exception as e:
        tb = traceback.extract_tb(e.__traceback__)
        fr = [t for t in tb if t.filename.startswith(REPO)]
        where = f"{fr[-1].filename[len(REPO) + 1:]}:{fr[-1].lineno} in {fr[-1].name}" if fr else "?"
        out = f"FAIL unrelated exception {type(e).__name__} raised at {where}"
    after = snapshot()
    changed = [n for n in before if before[n] != after.get(n, None)] + [n for n in after if n not in before]
    if changed:
        return f"FAIL library-global state changed: {changed[0]} (outcome {out})"
    return out


@op("prop.c14bf3")
def c14_bf3(chk, k, t):
    text = b3.parse_str(t)
    return classify(lambda: Bf3File.read_file(CStream(text), chk == "1", unhx(k)))


@op("prop.c14bec2")
def c14_bec2(chk, es, t):
    text = b3.parse_str(t)
    decs = b2.parse_encs(es)
    return classify(lambda: Bec2File.read_file(CStream(text), decs, chk == "1"))


@op("prop.c14bf2")
def c14_bf2(enf, t):
    text = b3.parse_str(t)
    import impl_bf2
    return classify(lambda: impl_bf2._import(text, enf == "1"))


@op("prop.c14cfg")
def c14_cfg(t):
    text = b3.parse_str(t)
    return classify(lambda: ConfigId.create_from_str(text))


@op("prop.c14pfid2")
def c14_pfid2(f):
    flt = unhx(f)
    return classify(lambda: pfid2_filter_to_str(flt))
