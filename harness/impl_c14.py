"""C14 — direct evaluation on the real code: every parsing entry point returns or raises a format error / ValueError,
terminates (the per-case watchdog of core.impl_eval turns a hang into a failing case) and leaves the library-global
state untouched."""
import io
import traceback
from impl import op, unhx, REPO
import impl_bf3 as b3
import impl_bec2 as b2
from bec2format import crypto
from bec2format.error import FormatError
from bec2format.bf3file import Bf3File, pfid2_filter_to_str
from bec2format.bec2file import Bec2File
from bec2format.configid import ConfigId

GLOBALS = [n for n in vars(crypto) if not n.startswith("__")]


def snapshot():
    return {n: getattr(crypto, n) for n in GLOBALS}


def classify(f):
    """run f; returns protocol result"""
    before = snapshot()
    try:
        f()
        out = "ok returned"
    except (FormatError, ValueError) as e:
        out = "ok " + type(e).__name__
    except RecursionError:
        out = "FAIL RecursionError"
    except Exception as e:
        tb = traceback.extract_tb(e.__traceback__)
        fr = [t for t in tb if t.filename.startswith(REPO)]
        where = f"{fr[-1].filename[len(REPO) + 1:]}:{fr[-1].lineno} in {fr[-1].name}" if fr else "?"
        out = f"FAIL unrelated exception {type(e).__name__} raised at {where}"
    after = snapshot()
    changed = [n for n in before if before[n] is not after.get(n, None)] + [n for n in after if n not in before]
    if changed:
        return f"FAIL library-global state changed: bec2format.crypto.{changed[0]} (outcome {out})"
    return out


@op("prop.c14bf3")
def c14_bf3(chk, k, t):
    text = b3.parse_str(t)
    return classify(lambda: Bf3File.read_file(io.StringIO(text), chk == "1", unhx(k)))


@op("prop.c14bec2")
def c14_bec2(chk, es, t):
    text = b3.parse_str(t)
    decs = b2.parse_encs(es)
    return classify(lambda: Bec2File.read_file(io.StringIO(text), decs, chk == "1"))


@op("prop.c14bf2")
def c14_bf2(enf, t):
    text = b3.parse_str(t)
    return classify(lambda: Bf3File.bf2_import(io.StringIO(text), enf == "1"))


@op("prop.c14cfg")
def c14_cfg(t):
    text = b3.parse_str(t)
    return classify(lambda: ConfigId.create_from_str(text))


@op("prop.c14pfid2")
def c14_pfid2(f):
    flt = unhx(f)
    return classify(lambda: pfid2_filter_to_str(flt))
