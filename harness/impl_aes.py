from impl import op, hx, unhx, err
import register_crypto_plugin  # noqa: F401
from register_crypto_plugin.pyaes import aes as pyaes_aes
from bec2format.crypto import create_AES128


def iv_of(s):
    return None if s == "none" else unhx(s)


@op("aes.enc")
def aes_enc(k, b):
    try:
        return "ok " + hx(bytes(pyaes_aes.AES(unhx(k)).encrypt(unhx(b))))
    except Exception as e:
        return err(e)


@op("aes.dec")
def aes_dec(k, b):
    try:
        return "ok " + hx(bytes(pyaes_aes.AES(unhx(k)).decrypt(unhx(b))))
    except Exception as e:
        return err(e)


@op("ad.enc")
def ad_enc(k, iv, d):
    try:
        return "ok " + hx(create_AES128(unhx(k), iv_of(iv)).encrypt(unhx(d)))
    except Exception as e:
        return err(e)


@op("ad.dec")
def ad_dec(k, iv, d):
    try:
        return "ok " + hx(create_AES128(unhx(k), iv_of(iv)).decrypt(unhx(d)))
    except Exception as e:
        return err(e)


@op("ad.mac")
def ad_mac(k, iv, d):
    try:
        return "ok " + hx(create_AES128(unhx(k), iv_of(iv)).mac(unhx(d)))
    except Exception as e:
        return err(e)
