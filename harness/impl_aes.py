from impl import op, hx, unhx, err
import register_crypto_plugin  # noqa: F401
from register_crypto_plugin.pyaes import aes as pyaes_aes
from bec2format.crypto import create_AES128


def iv_of(s):
    return None if s == "none" else unhx(s)


@op("aes.enc")
def aes_enc(k, b):
    try:
        return "ok " + hx(bytes(pyaes_aes.AES(unhx(k)).encrypt(unhx(b))))
    except Exception as e:
        return err(e)


@op("aes.dec")
def aes_dec(k, b):
    try:
        return "ok " + hx(bytes(pyaes_aes.AES(unhx(k)).decrypt(unhx(b))))
    except Exception as e:
        return err(e)


@op("ad.enc")
def ad_enc(k, iv, d):
    try:
        return "ok " + hx(create_AES128(unhx(k), iv_of(iv)).encrypt(unhx(d)))
    except Exception as e:
        return err(e)


@op("ad.dec")
def ad_dec(k, iv, d):
    try:
        return "ok " + hx(create_AES128(unhx(k), iv_of(iv)).decrypt(unhx(d)))
    except Exception as e:
        return err(e)


@op("ad.mac")
def ad_mac(k, iv, d):
    try:
        return "ok " + hx(create_AES128(unhx(k), iv_of(iv)).mac(unhx(d)))
    except Exception as e:
        return err(e)


from register_crypto_plugin.pyaes import blockfeeder


@op("mh")
def modehist(h):
    """a history of calls on mode objects and feeders (fresh object store per line)"""
    modes, feeders, outs = {}, {}, []
    dead = set()
    for step in h.split("|"):
        t = step.split(",")
        key = None
        if t[0] in ("enc", "dec"):
            key = ("m", int(t[1]))
        elif t[0] == "feed":
            key = ("f", int(t[1]))
        if key in dead:
            outs.append("err:Dead")
            continue
        try:
            if t[0] == "new":
                _, slot, kind, key, iv, ctr, seg = t
                k = unhx(key)
                ivb = None if iv == "none" else unhx(iv)
                if kind == "ecb":
                    m = pyaes_aes.AESModeOfOperationECB(k)
                elif kind == "cbc":
                    m = pyaes_aes.AESModeOfOperationCBC(k, ivb)
                elif kind == "cfb":
                    m = pyaes_aes.AESModeOfOperationCFB(k, ivb, int(seg))
                elif kind == "ofb":
                    m = pyaes_aes.AESModeOfOperationOFB(k, ivb)
                else:
                    m = _ctr_mode(k, int(ctr))
                modes[int(slot)] = m
                outs.append("-")
            elif t[0] in ("enc", "dec"):
                if int(t[1]) not in modes:
                    outs.append("err:NoObject")
                    continue
                m = modes[int(t[1])]
                r = (m.encrypt if t[0] == "enc" else m.decrypt)(unhx(t[2]))
                outs.append(hx(bytes(r)))
            elif t[0] == "fnew":
                _, slot, mslot, d, pad = t
                if int(mslot) not in modes:
                    outs.append("err:NoObject")
                    continue
                cls = blockfeeder.Decrypter if d == "dec" else blockfeeder.Encrypter
                feeders[int(slot)] = cls(modes[int(mslot)], padding=pad)
                outs.append("-")
            elif t[0] == "feed":
                if int(t[1]) not in feeders:
                    outs.append("err:NoObject")
                    continue
                f = feeders[int(t[1])]
                r = f.feed() if t[2] == "final" else f.feed(unhx(t[2]))
                outs.append(hx(bytes(r)))
            else:
                raise KeyError("bad step " + step)
        except (KeyError,) as e:
            if "bad step" in str(e):
                raise
            outs.append("err:" + type(e).__name__)
        except Exception as e:
            outs.append("err:" + type(e).__name__)
            if key is not None:
                dead.add(key)
    return "ok " + "|".join(outs)


import refaes


@op("prop.aesblock")
def prop_aesblock(k, b):
    """bundled AES = independent FIPS-197 AES; decrypt inverts encrypt"""
    key, blk = unhx(k), unhx(b)
    a = pyaes_aes.AES(key)
    c = bytes(a.encrypt(blk))
    want = refaes.encrypt_block(key, blk)
    if c != want:
        return f"FAIL AES encrypt {c.hex()} != FIPS-197 {want.hex()}"
    if bytes(a.decrypt(c)) != blk:
        return "FAIL decrypt(encrypt(block)) != block"
    d = bytes(a.decrypt(blk))
    if d != refaes.decrypt_block(key, blk):
        return f"FAIL AES decrypt {d.hex()} != FIPS-197 inverse cipher"
    return "ok"


@op("prop.adapter")
def prop_adapter(k, iv, d):
    """adapter = zero-padded CBC (given or zero IV); mac = last block; decrypt returns the padded data"""
    key, ivb, data = unhx(k), (None if iv == "none" else unhx(iv)), unhx(d)
    padded = refaes.zero_pad(data)
    want = refaes.cbc_encrypt(key, ivb or bytes(16), padded)
    c = create_AES128(key, ivb).encrypt(data)
    if c != want:
        return f"FAIL encrypt != AES-128-CBC of the zero-padded data ({c.hex()[:40]} vs {want.hex()[:40]})"
    m = create_AES128(key, ivb).mac(data)
    if m != want[-16:]:
        return "FAIL mac is not the last ciphertext block"
    p = create_AES128(key, ivb).decrypt(c)
    if p != padded:
        return f"FAIL decrypt returns {p.hex()[-40:]} not the zero-padded data {padded.hex()[-40:]}"
    return "ok"


@op("prop.adapterhist")
def prop_adapterhist(k, iv, d, k2, d2):
    """results never depend on earlier calls on the same or another object"""
    key, ivb, data = unhx(k), (None if iv == "none" else unhx(iv)), unhx(d)
    fresh = create_AES128(key, ivb).encrypt(data)
    obj = create_AES128(key, ivb)
    other = create_AES128(unhx(k2), None)
    r1 = obj.encrypt(data)
    other.encrypt(unhx(d2)); obj.mac(unhx(d2)); other.decrypt(other.encrypt(unhx(d2)))
    r2 = obj.encrypt(data)
    r3 = obj.decrypt(r2)
    r4 = create_AES128(key, ivb).encrypt(data)
    if not (fresh == r1 == r2 == r4):
        return "FAIL encrypt result depends on earlier calls"
    if r3 != refaes.zero_pad(data):
        return "FAIL decrypt after other calls differs"
    return "ok"


@op("prop.aesmode")
def prop_aesmode(kind, k, iv, ctr, seg, d, cuts, direction):
    """one message through a pyaes mode object in chunks = the SP 800-38A mode over the independent AES on the whole message"""
    key, data, seg, ctr = unhx(k), unhx(d), int(seg), int(ctr)
    ivb = None if iv == "none" else unhx(iv)
    dec = direction == "dec"
    unit = {"ecb": 16, "cbc": 16, "cfb": seg, "ofb": 1, "ctr": 1}[kind]
    data = data[: len(data) - len(data) % unit]
    if kind == "ecb":
        m = pyaes_aes.AESModeOfOperationECB(key)
    elif kind == "cbc":
        m = pyaes_aes.AESModeOfOperationCBC(key, ivb)
    elif kind == "cfb":
        m = pyaes_aes.AESModeOfOperationCFB(key, ivb, seg)
    elif kind == "ofb":
        m = pyaes_aes.AESModeOfOperationOFB(key, ivb)
    else:
        m = _ctr_mode(key, ctr)
    # chunk boundaries: multiples of the unit; ECB/CBC take exactly one block per call
    if kind in ("ecb", "cbc"):
        bounds = list(range(0, len(data) + 1, 16))
    else:
        pts = sorted({0, len(data)} | {int(c) % (len(data) // unit + 1) * unit for c in cuts.split(",") if c and c != "-"})
        bounds = pts
    got = bytearray()
    for a, b in zip(bounds, bounds[1:]):
        got += bytes((m.decrypt if dec else m.encrypt)(data[a:b]))
    want = refaes.mode_stream(kind, key, ivb or bytes(16), ctr, seg, data, dec)
    if bytes(got) != want:
        n = next(i for i, (x, y) in enumerate(zip(got, want)) if x != y) if len(got) == len(want) else min(len(got), len(want))
        return f"FAIL {kind} {direction} differs from SP 800-38A at byte {n} (counter {ctr:#x}, {len(data)} bytes, chunks at {bounds})"
    return "ok"


def _ctr_mode(key, ctr):
    """a counter that starts at 1 is what the constructor uses when none is given: built without the argument then, so
    that the default is exercised (several such objects per process - each must start at 1)"""
    if ctr == 1:
        return pyaes_aes.AESModeOfOperationCTR(key)
    return pyaes_aes.AESModeOfOperationCTR(key, pyaes_aes.Counter(ctr))


@op("ms")
def modestream(kind, k, iv, ctr, seg, direction, pad, bs, d):
    """blockfeeder.encrypt_stream / decrypt_stream on in-memory streams"""
    import io as _io
    key, data = unhx(k), unhx(d)
    ivb = None if iv == "none" else unhx(iv)
    try:
        if kind == "ecb":
            m = pyaes_aes.AESModeOfOperationECB(key)
        elif kind == "cbc":
            m = pyaes_aes.AESModeOfOperationCBC(key, ivb)
        elif kind == "cfb":
            m = pyaes_aes.AESModeOfOperationCFB(key, ivb, int(seg))
        elif kind == "ofb":
            m = pyaes_aes.AESModeOfOperationOFB(key, ivb)
        else:
            m = _ctr_mode(key, int(ctr))
        out = _io.BytesIO()
        f = blockfeeder.decrypt_stream if direction == "dec" else blockfeeder.encrypt_stream
        import zlib
        how = zlib.crc32(data + key) % 3
        if how == 0:
            src = _io.BytesIO(data)
        else:
            # a stream that, like a pipe or a socket, may return fewer bytes than asked for before the end of the data
            class Short:
                def __init__(self, b, sizes):
                    self.b, self.sizes, self.i = b, sizes, 0

                def read(self, n=-1):
                    k = self.sizes[self.i % len(self.sizes)]
                    self.i += 1
                    k = k if n is None or n < 0 else min(n, k)
                    piece, self.b = self.b[:k], self.b[k:]
                    return piece
            src = Short(data, [1, 7, 16, 3] if how == 1 else [10, 30, 60, 5, 64])
        f(m, src, out, int(bs), pad)
        return "ok " + (hx(out.getvalue()) or "-")
    except Exception as e:
        return "err " + type(e).__name__
