"""
Controlled scheduler for the REAL reader-writer lock code (`ecdsa/_rwlock.py`): every logical thread is an OS thread
that is allowed to execute exactly one source line of `_rwlock.py` at a time (line tracer + hand-over semaphores);
`threading.Lock` inside the module is replaced by a non-blocking stand-in that reports "blocked" to the scheduler.
The complete reachable state space of a configuration (e.g. 2 readers + 2 writers, one acquire/release cycle each) is
explored by depth-first search with re-execution; states are (positions, lock flags, counters) read from the real
objects.  A switch is possible before EVERY line, hence also right after a lock release.
"""
import ast
import os
import sys
import threading

from impl import REPO  # noqa: F401  (sets sys.path)
import importlib

rwmod = importlib.import_module("register_crypto_plugin.ecdsa._rwlock")
SRC = rwmod.__file__


class FakeLock:
    """stand-in for threading.Lock inside _rwlock: never blocks the OS thread silently"""
    sched = None

    def __init__(self):
        self.locked = False
        self.order = None

    def acquire(self, blocking=True, timeout=-1):
        me = FakeLock.sched.current
        if not blocking and self.locked:
            return False
        while self.locked:
            FakeLock.sched.report(me, "blocked")
        self.locked = True
        return True

    def release(self):
        if not self.locked:
            raise RuntimeError("release unlocked lock")
        self.locked = False

    __enter__ = acquire

    def __exit__(self, *a):
        self.release()


    def flag(self):
        return int(self.locked)


class FakeRLock:
    """stand-in for threading.RLock: owned by a logical thread, re-entrant for it, released only by it"""

    def __init__(self):
        self.locked = False
        self.owner = None
        self.count = 0

    def acquire(self, blocking=True, timeout=-1):
        me = FakeLock.sched.current
        if self.owner == me and self.locked:
            self.count += 1
            return True
        if not blocking and self.locked:
            return False
        while self.locked:
            FakeLock.sched.report(me, "blocked")
        self.locked, self.owner, self.count = True, me, 1
        return True

    def release(self):
        me = FakeLock.sched.current
        if not self.locked or self.owner != me:
            raise RuntimeError("cannot release un-acquired lock")
        self.count -= 1
        if self.count == 0:
            self.locked, self.owner = False, None

    __enter__ = acquire

    def __exit__(self, *a):
        self.release()

    def flag(self):
        return 0 if not self.locked else 2 + 8 * (self.owner + 1) + 64 * self.count


class _Abort(BaseException):
    pass


class _FakeThreadingMeta(type):
    def __getattr__(cls, name):            # everything that is not a lock is the real thing
        return getattr(threading, name)


class FakeThreading(metaclass=_FakeThreadingMeta):
    Lock = FakeLock
    RLock = FakeRLock


def cs_marker():
    return None            # one traced line: the critical section


def reader_body(lock):
    lock.reader_acquire()
    cs_marker()
    lock.reader_release()


def writer_body(lock):
    lock.writer_acquire()
    cs_marker()
    lock.writer_release()


class Sched:
    def __init__(self, roles):
        self.roles = roles
        self.n = len(roles)

    # ---- one execution -------------------------------------------------------------------------------------------
    def start(self):
        # the module is executed afresh with `threading` replaced, so that locks created in the class body or at module
        # level (not only those made in __init__) are controlled locks too, and none survives from the previous execution
        FakeLock.sched = self
        real = sys.modules["threading"]
        sys.modules["threading"] = FakeThreading
        try:
            importlib.reload(rwmod)
            self.lock = rwmod.RWLock()
        finally:
            sys.modules["threading"] = real
            rwmod.threading = threading
        self.pos = [("start", 0)] * self.n
        self.status = ["ready"] * self.n      # ready | blocked | done | error
        self.error = [None] * self.n
        self.go = [threading.Semaphore(0) for _ in range(self.n)]
        self.back = threading.Semaphore(0)
        self.current = None
        self.aborting = False
        self.threads = []
        for i, r in enumerate(self.roles):
            t = threading.Thread(target=self._run, args=(i, r), daemon=True)
            self.threads.append(t)
            t.start()
            self.back.acquire()                # runs up to its first traced line

    def _tracer(self, i):
        me_file = SRC
        this_file = __file__

        def local(frame, event, arg):
            if event == "line":
                self.report(i, "ready", (frame.f_code.co_name, frame.f_lineno))
            return local

        def glob(frame, event, arg):
            fn = frame.f_code.co_filename
            if event == "call" and (fn == me_file or (fn == this_file and frame.f_code.co_name == "cs_marker")):
                return local
            return None
        return glob

    def _run(self, i, role):
        self.current = i
        sys.settrace(self._tracer(i))
        try:
            (reader_body if role == "r" else writer_body)(self.lock)
            sys.settrace(None)
            self.pos[i] = ("done", 0)
            self.status[i] = "done"
        except _Abort:
            sys.settrace(None)
            return
        except BaseException as e:           # noqa: BLE001 - a broken lock (release of an unlocked lock) is a finding
            sys.settrace(None)
            self.status[i] = "error"
            self.error[i] = f"{type(e).__name__}: {e}"
        self.back.release()

    def report(self, i, status, pos=None):
        """called in thread i: hand control back to the scheduler and wait for the next turn"""
        self.status[i] = status
        if pos is not None:
            self.pos[i] = pos
        self.back.release()
        self.go[i].acquire()
        if self.aborting:
            raise _Abort()
        self.current = i

    def turn(self, i):
        """let thread i execute its next line; returns 'moved' | 'blocked' | 'done' | 'error'"""
        if self.status[i] in ("done", "error"):
            return self.status[i]
        before = self.pos[i]
        self.current = i
        self.go[i].release()
        self.back.acquire()
        if self.status[i] == "blocked":
            return "blocked"
        if self.status[i] in ("done", "error"):
            return self.status[i]
        return "moved" if self.pos[i] != before or True else "moved"

    def finish(self):
        """abandon this execution: every parked thread unwinds at once"""
        self.aborting = True
        for i in range(self.n):
            if self.status[i] not in ("done", "error"):
                self.go[i].release()
        for t in self.threads:
            t.join(timeout=2)

    # ---- state ---------------------------------------------------------------------------------------------------
    def _locks(self):
        d = self.lock.__dict__
        rs, ws = d["_RWLock__read_switch"], d["_RWLock__write_switch"]
        return [d["_RWLock__readers_queue"], d["_RWLock__no_readers"], d["_RWLock__no_writers"],
                getattr(rs, "_LightSwitch__mutex"), getattr(ws, "_LightSwitch__mutex")]

    def state(self):
        d = self.lock.__dict__
        rs, ws = d["_RWLock__read_switch"], d["_RWLock__write_switch"]
        return (tuple(self.pos), tuple(lk.flag() for lk in self._locks()),
                getattr(rs, "_LightSwitch__counter"), getattr(ws, "_LightSwitch__counter"),
                tuple(e for e in self.error))

    def replay(self, path):
        self.start()
        for i in path:
            self.turn(i)


def explore(roles, max_states=200000):
    """complete exploration; returns dict state -> {thread: successor state | 'blocked'}, the path to each state and
    the initial state.  A live execution is followed as long as it has untried moves; re-execution only on backtracking."""
    sched = Sched(roles)
    graph, paths, untried = {}, {}, {}
    n = len(roles)

    def register(st, path):
        paths[st] = path
        graph[st] = {}
        untried[st] = [i for i in range(n) if st[0][i][0] != "done" and st[4][i] is None]
        if untried[st]:
            todo.append(st)
        if len(graph) > max_states:
            raise RuntimeError("harness: state space larger than expected")

    todo = []
    sched.replay([])
    s0 = sched.state()
    register(s0, [])
    live = s0
    while True:
        if live is None:
            while todo and not untried[todo[-1]]:
                todo.pop()
            if not todo:
                break
            live = todo[-1]
            sched.replay(paths[live])
        s = live
        if not untried[s]:
            sched.finish()
            live = None
            continue
        i = untried[s].pop()
        r = sched.turn(i)
        if r == "blocked":
            graph[s][i] = "blocked"
        else:
            t = sched.state()
            graph[s][i] = t
            if t not in graph:
                register(t, paths[s] + [i])
            live = t
    return graph, paths, s0


# ---- mapping of source positions to the program counters of the Lean model ------------------------------------------

def statement_lines():
    """ordered statement line numbers of the six methods of _rwlock.py (bodies of `if` included, docstrings not)"""
    tree = ast.parse(open(SRC).read())
    out = {}
    for cls in [n for n in tree.body if isinstance(n, ast.ClassDef)]:
        for fn in [n for n in cls.body if isinstance(n, ast.FunctionDef)]:
            lines = []

            def walk(stmts):
                for st in stmts:
                    if isinstance(st, ast.Expr) and isinstance(st.value, ast.Constant) and isinstance(st.value.value, str):
                        continue
                    lines.append(st.lineno)
                    if isinstance(st, ast.If):
                        walk(st.body)
                        walk(st.orelse)
            walk(fn.body)
            out[(cls.name, fn.name)] = lines
    return out


def pc_maps():
    """(func name, line) -> pc, for readers and for writers"""
    st = statement_lines()
    ra, rr = st[("RWLock", "reader_acquire")], st[("RWLock", "reader_release")]
    wa, wr = st[("RWLock", "writer_acquire")], st[("RWLock", "writer_release")]
    la, lr = st[("_LightSwitch", "acquire")], st[("_LightSwitch", "release")]
    shape = (len(ra), len(rr), len(wa), len(wr), len(la), len(lr))
    if shape != (5, 1, 2, 2, 5, 5):
        return None, None, f"statement structure of _rwlock.py changed: {shape}"
    cs_line = cs_marker.__code__.co_firstlineno + 1
    r = {("reader_acquire", ra[0]): 0, ("reader_acquire", ra[1]): 1, ("reader_acquire", ra[2]): 2,
         ("reader_acquire", ra[3]): 8, ("reader_acquire", ra[4]): 9, ("cs_marker", cs_line): 10,
         ("reader_release", rr[0]): 11, ("done", 0): 17}
    w = {("writer_acquire", wa[0]): 0, ("writer_acquire", wa[1]): 6, ("cs_marker", cs_line): 7,
         ("writer_release", wr[0]): 8, ("writer_release", wr[1]): 9, ("done", 0): 15}
    for k, ln in enumerate(la):
        r[("acquire", ln)] = 3 + k
        w[("acquire", ln)] = 1 + k
    for k, ln in enumerate(lr):
        r[("release", ln)] = 12 + k
        w[("release", ln)] = 10 + k
    return r, w, None


def model_state(roles, s, rmap, wmap):
    pos, locks, rc, wc, errs = s
    ts = []
    for role, p in zip(roles, pos):
        m = rmap if role == "r" else wmap
        if p not in m:
            return None
        ts.append(f"{role}{m[p]}")
    return f"{','.join(ts)} {''.join(str(b) for b in locks)} {rc} {wc}"


def in_cs(pos):
    return pos[0] == "cs_marker"
