import io
from impl import op, hx, unhx, err, CStream
import impl_bf3 as b3
from bec2format.bf3file import Bf3File, Bf2BinLine, pfid2_filter_to_str, BF3FMT


def parse_lines(s):
    if s == "-":
        return []
    out = []
    for item in s.split(","):
        t, n, tag, raw = item.split(":")
        out.append(Bf2BinLine(int(t), int(n), unhx(tag), unhx(raw)))
    return out


def show_int(x):
    return f"n{-x}" if x < 0 else str(x)


@op("bf2.unpack")
def bf2_unpack(ls):
    try:
        bl = Bf3File.bf2_unpack_payload(parse_lines(ls))
        return "ok " + (",".join(f"{show_int(a)}:{hx(d)}" for a, d in bl.items()) or "-")
    except Exception as e:
        return err(e)


@op("bf2.convert")
def bf2_convert(f, ls):
    try:
        return "ok " + hx(Bf3File.bf2_convert_payload(parse_lines(ls), int(f)))
    except Exception as e:
        return err(e)


def _import(text, enforce=True, force_path=None):
    """`bf2file: str | TextIO`: the same text as a stream or - for plain ASCII without carriage returns, where the two
    cannot differ - as a path, chosen by the text"""
    import os
    import zlib
    use_path = text.isascii() and "\r" not in text and (zlib.crc32(text.encode()) % 3 == 0 if force_path is None else force_path)
    if not use_path:
        # enforcing BF3 compatibility is the default of the parameter: left out every other time it is wanted
        return Bf3File.bf2_import(CStream(text)) if enforce and len(text) % 2 else Bf3File.bf2_import(CStream(text), enforce)
    p = b3.tmp_path()
    try:
        with open(p, "w", newline="") as fh:
            fh.write(text)
        return Bf3File.bf2_import(p) if enforce and len(text) % 4 < 2 else Bf3File.bf2_import(p, enforce_bf3_compatibility=enforce)
    finally:
        os.unlink(p)


@op("bf2.import")
def bf2_import(enf, t):
    try:
        f = _import(b3.parse_str(t), enf == "1")
        return "ok " + b3.show_comments(f.comments) + " " + b3.show_comps(f.components)
    except Exception as e:
        return err(e)


@op("pfid2")
def pfid2(f):
    try:
        return "ok " + b3.show_str(pfid2_filter_to_str(unhx(f)))
    except Exception as e:
        return err(e)


# ---------------------------------------------------------------- direct property evaluation (C13)
import json


@op("prop.c13")
def prop_c13(t, spec):
    """every firmware section yields a component with exactly the bytes the data lines describe and the tags the
    instructions state; components ordered by type; summary comments name the component kind"""
    text = b3.parse_str(t)
    exp = json.loads(unhx(spec).decode())
    try:
        f = _import(text)
    except Exception as e:
        return f"FAIL import raises {type(e).__name__}: {e}"
    try:
        f2 = _import(text, True, force_path=True)
        if b3.show_comments(f2.comments) + b3.show_comps(f2.components) != b3.show_comments(f.comments) + b3.show_comps(f.components):
            return "FAIL importing the file by path gives another result than importing the same text as a stream"
    except Exception as e:
        return f"FAIL import by path raises {type(e).__name__}: {e}"
    want = [({int(k): bytes.fromhex(v) for k, v in d.items()}, bytes.fromhex(p)) for d, p in exp]
    want.sort(key=lambda dp: dp[0][0xC3])
    if len(f.components) != len(want):
        return f"FAIL {len(f.components)} components for {len(want)} non-ignored sections"
    for i, (c, (d, p)) in enumerate(zip(f.components, want)):
        if c.blob != p:
            n = next((j for j, (a, b) in enumerate(zip(c.blob, p)) if a != b), min(len(c.blob), len(p)))
            return f"FAIL component {i}: payload differs from the bytes of the data lines (len {len(c.blob)} vs {len(p)}, first difference at {n})"
        if dict(c.description) != d:
            return f"FAIL component {i}: tags {c.description!r:.200} instead of {d!r:.200}"
        cm = f.comments.get(f"Component{i}", "")
        kind = {0: "Loader Firmware", 1: "Firmware", 2: "Main Firmware"}[d[0xC3][0]]
        if kind not in cm:
            return f"FAIL summary comment of component {i} does not name its kind: {cm!r}"
        if 0xC9 in d and "[PFID2-Filter: " not in cm:
            return f"FAIL summary comment of component {i} lacks the platform filter: {cm!r}"
    return "ok"


@op("prop.c13reject")
def prop_c13reject(t, why):
    text = b3.parse_str(t)
    try:
        f = _import(text)
    except Exception as e:
        return "ok " + type(e).__name__
    return f"FAIL import accepted a file that cannot be represented ({why}): {len(f.components)} components"


@op("prop.c13blob")
def prop_c13blob(fmt, ls, image, expect):
    """payload conversion of one section against the generating image"""
    lines, img = parse_lines(ls), unhx(image)
    try:
        got = Bf3File.bf2_convert_payload(lines, int(fmt))
    except Exception as e:
        return ("ok " + type(e).__name__) if expect == "reject" else f"FAIL raises {type(e).__name__}: {e}"
    if expect == "reject":
        return "FAIL section with a gap or a non-zero start converted instead of being rejected"
    if int(fmt) == BF3FMT.BLOB and got != img:
        return "FAIL blob payload differs from the image"
    if int(fmt) == BF3FMT.BF2COMPATIBLE and got != b"".join(l.rawdata for l in lines):
        return "FAIL BF2-compatible payload is not the concatenation of the raw lines"
    if int(fmt) == BF3FMT.MEMORYIMAGE:
        # every (address, data) extent, each data line used exactly once
        o, total = 0, b""
        while o < len(got):
            ln = int.from_bytes(got[o + 4:o + 8], "big")
            total += got[o + 8:o + 8 + ln]
            o += 8 + ln
        if total != img:
            return "FAIL memory image extents do not contain every data byte exactly once"
    return "ok"


def eval_filter_bytes(f, present):
    """boolean semantics of a PFID2 filter: AND of OR-groups; bit15 = group continues, bit14 = negated"""
    groups, cur = [], []
    for pos in range(2, len(f), 2):
        e = int.from_bytes(f[pos:pos + 2], "big")
        v = (e & 0x3FFF) in present
        cur.append((not v) if e & 0x4000 else v)
        if not e & 0x8000:
            groups.append(any(cur))
            cur = []
    return all(groups)


def eval_expr(s, present):
    from bec2format.hwcids import HWCID_MAP

    def atom(a):
        a = a.strip()
        neg = a.startswith("!")
        a = a.lstrip("!")
        h = int(a, 16) if a.startswith("0x") else HWCID_MAP[a]
        v = h in present
        return (not v) if neg else v
    if s == "":
        return True
    res = True
    for grp in s.split(" & "):
        grp = grp.strip()
        if grp.startswith("("):
            res = res and any(atom(a) for a in grp[1:-1].split(" | "))
        else:
            res = res and atom(grp)
    return res


@op("prop.c13filter")
def prop_c13filter(f, envs):
    flt = unhx(f)
    try:
        s = pfid2_filter_to_str(flt)
    except Exception as e:
        return "ok rejected " + type(e).__name__
    if len(flt) > 2 and int.from_bytes(flt[-2:], "big") & 0x8000:
        return "ok not-wellformed (open OR group at the end)"
    ids = [int.from_bytes(flt[p:p + 2], "big") & 0x3FFF for p in range(2, len(flt), 2)]
    try:
        # the shape of the rendering: AND of groups, a group is one (negated) name or a parenthesised OR of them
        from bec2format.hwcids import HWCID_MAP as _M
        for grp in (s.split(" & ") if s else []):
            grp = grp.strip()
            atoms = grp[1:-1].split(" | ") if grp.startswith("(") and grp.endswith(")") else [grp]
            for a in atoms:
                a = a.strip().lstrip("!")
                int(a, 16) if a.startswith("0x") else _M[a]
    except Exception:
        return f"FAIL the rendered filter {s!r} is not an expression of the documented shape (AND of names / parenthesised ORs)"
    for mask in range(int(envs)):
        present = {h for i, h in enumerate(ids) if (mask >> (i % 8)) & 1}
        if eval_filter_bytes(flt, present) != eval_expr(s, present):
            return f"FAIL rendered filter {s!r} is not equivalent to the filter bytes for present ids {sorted(present)}"
    return "ok"
