"""C08 — AES auth-block container."""
import gen_bf3 as g
from core import hx
from refaes import bitserial

TRUSTED = [
    "Lean 4.33 kernel; axioms propext, Classical.choice, Quot.sound only",
    "Model/Bec2.lean (wrap, parseFrame/unwrap, customer-key slice semantics, cscKey), Model/Crypto.lean (adapter) "
    "tied to bec2file.py / the appnote adapter by the correspondence run (all lengths 0..255, every CRC byte value)",
    "BlockInv aesCipher (AES decryption inverts AES encryption on 16-byte blocks) is proved in C16 (aes_blockInv): "
    "unwrap_wrap_aes has no cipher hypothesis left",
    "C15's theorem crc < 2^16 is used inside unwrap_wrap",
]
ASSUMPTIONS = [
    "'a frame made under another key is reported as an error' holds only up to a 2^-24 coincidence of marker and CRC: "
    "not a theorem; decided by search (single-bit key changes on every generated frame)",
]
LEANCHECKER_MODULES = ["Bec2Verif.Props.C08"]


def crc_directed(rng):
    """payloads whose CRC low / high byte takes every value 0..255"""
    want_lo, want_hi = set(range(256)), set(range(256))
    out = []
    while want_lo or want_hi:
        p = g.rbytes(rng, rng.choice([0, 1, 2, 5, 17, 26]))
        c = bitserial(p)
        if (c & 0xFF) in want_lo or (c >> 8) in want_hi:
            want_lo.discard(c & 0xFF)
            want_hi.discard(c >> 8)
            out.append(p)
    return out


def run(ctx):
    rng = ctx.rng
    ctx.rule = ("every payload length 0..255 (254/255 must overflow) x several contents and keys; contents such that each "
                "CRC byte takes every value 0..255; trailing-zero payloads; keys with trailing zeros; customer-key positions "
                "-3..len+3 incl. Python slice semantics outside the legal range; hand-made frames with wrong marker, "
                "wrong CRC, bad length bytes; non-trivial = distinct case")
    per = 4 if ctx.quick else 48
    cases = []
    for ln in range(0, 256):
        for j in range(per):
            p = g.rbytes(rng, ln)
            if j == 1 and ln:
                p = p[: ln // 2] + bytes(ln - ln // 2)
            if j == 2:
                p = bytes(ln)
            cases.append((hx(g.gen_key(rng)), hx(p)))
    ctx.exhaustive["payload_lengths_0..255"] = True
    cd = crc_directed(rng)
    zeros_lo = [p for p in cd if bitserial(p) & 0xFF == 0]
    ctx.extra["crc_directed_payloads"] = len(cd)
    for p in cd:
        cases.append((hx(g.gen_key(rng)), hx(p)))
    cases.append(("000102030405060708090a0b0c0d0e0f", "00aa78797a"))     # CRC F300 (the D2 witness)
    ctx.exhaustive["each_crc_byte_value_0..255"] = True
    w = ctx.correspond([f"wrap {k} {p}" for k, p in cases], "wrap")
    un = [f"unwrap {k} {r[3:]}" for (k, p), r in zip(cases, w) if r.startswith("ok ")]
    ctx.correspond(un, "unwrap")
    # unwrap on arbitrary / corrupted ciphertexts (model predicts class)
    bad = []
    for (k, p), r in list(zip(cases, w))[:: 7 if ctx.quick else 2]:
        if not r.startswith("ok "):
            continue
        ct = bytes.fromhex(r[3:])
        kind = rng.randrange(6)
        if kind == 0:
            i = rng.randrange(len(ct))
            ct = ct[:i] + bytes([ct[i] ^ (1 << rng.randrange(8))]) + ct[i + 1:]
        elif kind == 1:
            ct = ct[: rng.randrange(0, len(ct))]
        elif kind == 2:
            ct = ct + g.rbytes(rng, rng.choice([1, 15, 16, 32]))
        elif kind == 3:
            k = hx(bytes.fromhex(k)[:15] + bytes([bytes.fromhex(k)[15] ^ 1]))
        elif kind == 4:
            ct = g.rbytes(rng, rng.choice([16, 32, 48]))
        else:
            k = hx(g.rbytes(rng, rng.choice([0, 15, 17, 24, 32])))
        bad.append(f"unwrap {k} {hx(ct)}")
    ctx.correspond(bad, "unwrap-damaged")
    # frames built by hand: encrypt an arbitrary frame with the adapter, then unwrap it on both sides
    frames = []
    for _ in range(150 if ctx.quick else 3000):
        n = rng.choice([16, 16, 32, 48])
        kind = rng.randrange(7)
        p = g.rbytes(rng, rng.randrange(0, n - 5))
        z = n - 4 - len(p)
        crc = bitserial(p)
        f = b"B" + bytes([len(p) + 2]) + bytes(z) + p + crc.to_bytes(2, "big")
        if kind == 0:
            f = bytes([rng.choice([0x41, 0x43, 0x62, 0x00])]) + f[1:]
        elif kind == 1:
            f = f[:-2] + ((crc ^ (1 << rng.randrange(16))) & 0xFFFF).to_bytes(2, "big")
        elif kind == 2:
            f = f[:1] + bytes([rng.choice([0, 1, 2, 3, n - 1, n, n + 1, 255])]) + f[2:]
        elif kind == 3:
            f = f[:2] + g.rbytes(rng, z) + f[2 + z:]          # non-zero padding: skipped, not checked, by the code
        elif kind == 4:
            f = g.rbytes(rng, n)
        frames.append((hx(g.gen_key(rng)), f))
    enc = ctx.correspond([f"ad.enc {k} none {hx(f)}" for k, f in frames], "frame-enc")
    ctx.correspond([f"unwrap {k} {r[3:]}" for (k, f), r in zip(frames, enc) if r.startswith("ok ")], "unwrap-handmade")
    # customer key
    ck = []
    for _ in range(200 if ctx.quick else 4000):
        ln = rng.choice([10, 11, 26, 26, 26, 40, rng.randrange(0, 60)])
        p = g.rbytes(rng, ln)
        pos = rng.choice([0, 0, 1, max(0, ln - 10), max(0, ln - 10), rng.randrange(-3, ln + 4)])
        c = g.rbytes(rng, rng.choice([10, 10, 10, 10, 0, 9, 11]))
        r = rng.random()
        if r < 0.15 and len(c) == 10 and ln >= 20:
            # the payload carries further copies of the customer key outside the slot: only the slot is verified and blanked
            q = rng.randrange(0, ln - 9)
            p = p[:q] + c + p[q + 10:]
        elif r < 0.25 and ln >= 12:
            # a key that overlaps itself (one repeated byte) with the same byte next to the slot
            c = bytes([rng.choice([0xAA, 0x00, 0x11])]) * 10
            p = bytes(c[0] if rng.random() < 0.5 else b for b in p)
        ck.append((hx(g.gen_key(rng)), hx(c), pos, hx(p)))
    sp = lambda n: f"n{-n}" if n < 0 else str(n)
    e = ctx.correspond([f"ck.enc {k} {c} {sp(pos)} {p}" for k, c, pos, p in ck], "ck.enc")
    ctx.correspond([f"ck.dec {k} {c} {sp(pos)} {r[3:]}" for (k, c, pos, p), r in zip(ck, e) if r.startswith("ok ")], "ck.dec")
    ctx.correspond([f"ck.dec {k} {hx(g.rbytes(rng, 10))} {sp(pos)} {r[3:]}" for (k, c, pos, p), r in zip(ck, e)
                    if r.startswith("ok ")][:100], "ck.dec-otherkey")
    codes = [hx(g.rbytes(rng, rng.choice([8, 8, 8, 0, 1, 16, 64]))) for _ in range(60 if ctx.quick else 1000)]
    ctx.correspond([f"csc.key {c}" for c in codes], "csc.key")
    ctx.correspond([f"sha256 {hx(g.rbytes(rng, n))}" for n in list(range(0, 130)) + [rng.randrange(130, 2000) for _ in range(20)]], "sha256")
    # the property on the real code with independent oracles
    ctx.check_props([f"prop.c08 {k} {p}" for k, p in cases], "prop.c08")
    hand = []
    for k, f in frames:
        ok = f[0:1] == b"B" and len(f) - f[1] >= 2 and f[1] >= 2 and bitserial(f[len(f) - f[1]:-2]) == int.from_bytes(f[-2:], "big")
        if not ok:
            hand.append(f"prop.c08bad {k} {hx(f)}")
    ctx.check_props(hand, "prop.c08bad")
    legal = [(k, c, pos, p) for k, c, pos, p in ck if len(bytes.fromhex(c if c != '-' else '')) == 10
             and 0 <= pos and pos + 10 <= len(bytes.fromhex(p if p != '-' else ''))]
    ctx.check_props([f"prop.c08ck {k} {c} {pos} {p}" for k, c, pos, p in legal], "prop.c08ck")
    ctx.check_props([f"prop.csc {c}" for c in codes], "prop.csc")


def search(ctx):
    rng = ctx.rng
    ctx.check_props([f"prop.c08 {hx(g.gen_key(rng))} {hx(g.rbytes(rng, rng.randrange(0, 254)))}" for _ in range(3000)], "search.c08")
