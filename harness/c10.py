"""C10 — configurations encode to bounded TLV blocks that decode to the same operations."""
import gen_cfg as gc
import gen_bf3 as g
from core import hx

TRUSTED = [
    "Lean 4.33 kernel; axioms propext, Classical.choice, Quot.sound only",
    "Spec/TlvGrammar.lean: the block grammar as an independent decoder (trusted as the spec)",
    "Model/Tlv.lean tied to conf_dict_to_list / conf_dict_to_tlv / set_config by correspondence (blocks, blob, component)",
]
ASSUMPTIONS = ["Python tuple ordering on (key, value) with unique dict keys = the model's lexicographic order; a delete-key entry "
               "sharing its key with another deletion raises TypeError in Python (outside the quantifier; compared, not proved)"]
LEANCHECKER_MODULES = ["Bec2Verif.Props.C10"]


def run(ctx):
    rng = ctx.rng
    ctx.rule = ("dictionaries over keys 0..0xFFFF, value ids 0..0xFE, contents 0..254 bytes, any mix of set/delete-value/delete-key, "
                "0..60 entries, only-deletes / only-sets, merged sizes landing on 116/117/118, oversize entry first/middle/last, "
                "caller-supplied extra blocks; non-trivial = distinct dictionary with >= 1 entry")
    n = 400 if ctx.quick else 20000
    dicts = [gc.gen_dict(rng) for _ in range(n)] + [gc.gen_boundary_dict(rng) for _ in range(n // 2)]
    dicts.append([((1, 1), bytes(112))])                                       # oversize entry alone
    dicts.append([((1, 1), bytes(112)), ((2, 1), b"\x01")])                    # oversize entry in first position (D4)
    dicts.append([((0x0101, 1), bytes(50)), ((0x0101, 2), bytes(60)), ((0x0202, 1), b"\x00")])
    lines = [f"tlv {gc.show_dict(d)}" for d in dicts]
    ctx.correspond(lines, "tlv", lambda line, res: not line.endswith(" -"))
    sc = []
    for d in dicts[:: 2]:
        ex = rng.choice(["-", "-", hx(g.rbytes(rng, 3)), hx(g.rbytes(rng, 117)) + "," + hx(g.rbytes(rng, 1)), hx(g.rbytes(rng, 255))])
        sc.append((gc.show_dict(d), ex))
    comps = "195:02|0102|2|0"
    ctx.correspond([f"setcfg {comps} {d} {ex}" for d, ex in sc], "setcfg")
    ctx.correspond([f"setcfg - {gc.show_dict(gc.gen_dict(rng, 5))} {hx(g.rbytes(rng, 256))}" for _ in range(5)], "setcfg-overflow")
    # off-quantifier inputs compared between model and code
    odd = ["tlv 70000:1:00", "tlv 1:300:00", "tlv 1:255:00", "tlv 1:1:" + "00" * 255, "tlv 1:1:" + "00" * 256,
           "tlv 5:n:n,5:1:n", "tlv 5:n:n,5:1:00", "tlv 5:n:00", "tlv 5:n:n,6:n:n"]
    ctx.correspond(odd, "tlv-odd")
    ctx.check_props([f"prop.c10 {d} {ex}" for d, ex in sc] + [f"prop.c10 {gc.show_dict(d)} -" for d in dicts[1::2]], "prop.c10")


def search(ctx):
    rng = ctx.rng
    ctx.check_props([f"prop.c10 {gc.show_dict(gc.gen_boundary_dict(rng))} -" for _ in range(3000)], "search.c10")
