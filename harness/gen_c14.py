"""malformed-input streams for C14: mutations of valid BF3 / BEC2 / BF2 texts (valid ones are produced by the Lean
model or by the grammar generator, never by the code under test), crafted near-valid shapes and unstructured text"""
import copy
import gen_bf3 as g
import gen_bec2 as gb
import gen_bf2
import gen_cfg
import c05
import layout
import refec
from core import hx, model_eval

BEC2_SIG = b"BEC2\x00"
BF3_SIG = b"BF3\x00\x00"[:5]

ALPHABET = "0123456789abcdefABCDEF" * 3 + " \n\n::#>=\t\r,.-_xXgG*/;\x00\x0c ٣１ß☃"


def sstr(s: str) -> str:
    return hx(s.encode("utf-8", "surrogatepass")) if s else "-"


def to_text(binary: bytes, comments=(), width=32) -> str:
    out = "".join(f"{k}: {v}\n" for k, v in comments) + "\n"
    h = binary.hex().upper()
    out += "".join(h[i:i + 2 * width] + "\n" for i in range(0, len(h), 2 * width))
    return out


def mutate_text(rng, t: str) -> str:
    n = rng.choice([1, 1, 1, 2, 3, 8])
    for _ in range(n):
        kind = rng.choice(["chr", "chr", "del", "delrange", "dup", "trunc", "lineswap", "linedel", "linedup", "ins"])
        if not t:
            return rng.choice(ALPHABET)
        i = rng.randrange(len(t))
        if kind == "chr":
            t = t[:i] + rng.choice(ALPHABET) + t[i + 1:]
        elif kind == "ins":
            t = t[:i] + "".join(rng.choice(ALPHABET) for _ in range(rng.randrange(1, 5))) + t[i:]
        elif kind == "del":
            t = t[:i] + t[i + 1:]
        elif kind == "delrange":
            t = t[:i] + t[i + rng.randrange(1, 40):]
        elif kind == "dup":
            j = i + rng.randrange(1, 80)
            t = t[:j] + t[i:j] + t[j:]
        elif kind == "trunc":
            t = t[:i]
        else:
            ls = t.split("\n")
            a = rng.randrange(len(ls))
            b = rng.randrange(len(ls))
            if kind == "lineswap":
                ls[a], ls[b] = ls[b], ls[a]
            elif kind == "linedel":
                del ls[a]
            else:
                ls.insert(b, ls[a])
            t = "\n".join(ls)
    return t


def mutate_bytes(rng, b: bytes) -> bytes:
    b = bytearray(b)
    for _ in range(rng.choice([1, 1, 1, 2, 4])):
        kind = rng.choice(["flip", "set", "set", "del", "ins", "trunc", "dup", "zero", "ff"])
        if not b:
            return bytes([rng.randrange(256)])
        i = rng.randrange(len(b))
        if rng.random() < 0.5:
            i = min(i, rng.randrange(80))          # header / directory region
        if kind == "flip":
            b[i] ^= 1 << rng.randrange(8)
        elif kind == "set":
            b[i] = rng.choice([0, 1, 2, 3, 4, 15, 16, 17, 32, 33, 64, 65, 127, 128, 254, 255, rng.randrange(256)])
        elif kind == "del":
            del b[i:i + rng.choice([1, 1, 2, 16])]
        elif kind == "ins":
            b[i:i] = g.rbytes(rng, rng.choice([1, 2, 15, 16, 17]))
        elif kind == "trunc":
            del b[i:]
        elif kind == "dup":
            j = i + rng.randrange(1, 70)
            b[j:j] = b[i:j]
        elif kind == "zero":
            b[i:i + rng.randrange(1, 20)] = bytes(len(b[i:i + rng.randrange(1, 20)]))
        else:
            b[i] = 255
    return bytes(b)


def random_text(rng) -> str:
    kind = rng.randrange(6)
    n = rng.choice([0, 1, 2, 5, 20, 100, 400])
    if kind == 0:
        return "".join(rng.choice(ALPHABET) for _ in range(n))
    if kind == 1:
        return "".join(chr(rng.choice([rng.randrange(32, 127), rng.randrange(0, 0x2000), 10])) for _ in range(n))
    if kind == 2:
        return "\n" + g.rbytes(rng, n).hex()
    if kind == 3:
        return "\n" + (BEC2_SIG + g.rbytes(rng, n)).hex()
    if kind == 4:
        return "\n" + (b"BF3\x00" + g.rbytes(rng, n)).hex()
    return "\n".join(rng.choice(["", ":", "#>", "##", "#", ":00", "k:v", ":0000FE00", ":0001FF00", "#>REBOOT", "##CRC: 1"])
                     for _ in range(n % 30))


# ---------------------------------------------------------------------------------------------- BF3

def bf3_cases(rng, n):
    """(chk, key, text) triples"""
    lines = []
    meta = []
    for _ in range(n):
        key = g.gen_key(rng)
        cs = g.gen_mixed_comps(rng, 200, 4) if rng.random() < 0.5 else g.gen_comps(rng, 200, 4)
        meta.append(key)
        lines.append(f"bf3.writetext {hx(key)} {g.gen_comments(rng)} {cs}")
    res = model_eval(lines)
    out = []
    for key, r in zip(meta, res):
        if not r.startswith("ok "):
            continue
        text = bytes.fromhex(r[3:]).decode("utf-8") if r[3:] != "-" else ""
        out.append(("1", key, text))
        for _ in range(3):
            out.append((rng.choice("11110"), key, mutate_text(rng, text)))
        # mutate the binary, keep the envelope
        head, _, body = text.partition("\n\n")
        try:
            binary = bytes.fromhex("".join(body.split()))
        except ValueError:
            continue
        for _ in range(3):
            out.append((rng.choice("1100"), key, head + "\n\n" + mutate_bytes(rng, binary).hex()))
    # structured edits with recomputed MACs reach the deep checks
    for kind in c05.EDITS:
        for _ in range(max(1, n // 40)):
            key = g.gen_key(rng)
            b = c05.make_body(rng, key, 5)
            try:
                data = c05.apply_edit(rng, b, key, kind)
            except (OverflowError, ValueError):
                continue
            out.append(("1", key, to_text(b"BF3\x00\x00"[:5] + data)))
    # well-formed, authentic files whose description tags have unusual values (empty, short, long)
    for t in list(range(0xC0, 0xCC)) + [0, 1, 0x7F, 0xFF]:
        for ln in (0, 1, 2, 3):
            key = g.gen_key(rng) if rng.random() < 0.5 else bytes(16)
            ents = []
            for i in range(rng.choice([1, 2])):
                p = g.gen_payload(rng, 64) if rng.random() < 0.7 else g.rbytes(rng, 16 * rng.randrange(1, 4))
                desc = [(d, v) for d, v in g.gen_desc(rng, maxtl=40) if d != t]
                desc.insert(rng.randrange(len(desc) + 1), (t, rng.choice([bytes(ln), g.rbytes(rng, ln), bytes([2] * ln)])))
                ents.append(layout.Entry(desc, p, len(p)))
            b = layout.Body(ents, 5)
            b.relayout(key)
            out.append((rng.choice("110"), key, to_text(b"BF3\x00\x00"[:5] + b.ser())))
    for _ in range(n):
        out.append((rng.choice("10"), g.gen_key(rng), random_text(rng)))
    return out


# ---------------------------------------------------------------------------------------------- BEC2

def header_tlvs(b: bytes):
    """(list of (tag, value), offset of the body) of a well-formed BEC2 binary"""
    pos, out = len(BEC2_SIG), []
    while True:
        t, ln = b[pos], b[pos + 1]
        pos += 2
        if t == 0 and ln == 0:
            return out, pos
        out.append((t, b[pos:pos + ln]))
        pos += ln


def build_header(tlvs):
    return BEC2_SIG + b"".join(bytes([t, len(v) & 0xFF]) + v for t, v in tlvs) + b"\x00\x00"


def decryptor_sets(rng, f):
    """none, the matching ones, public-only, private with another key, wrong customer key / code"""
    encs = [] if f["encs"] == "-" else f["encs"].split(",")
    sets = ["-", f["encs"]]
    alt = []
    for e in encs:
        if e[0] == "D":
            sel, d = e[1:].split(":")
            pub = refec.mul(refec.P256, int(d), refec.G(refec.P256))
            alt.append(f"P{sel}:{pub[0].to_bytes(32, 'big').hex()}{pub[1].to_bytes(32, 'big').hex()}")
            alt.append(f"D{sel}:{gb.gen_scalar(rng)}")
            alt.append(f"D{(int(sel) + 1) % 4}:{d}")
        elif e[0] == "C":
            k, ck, pos = e[1:].split(":")
            alt.append(f"C{hx(g.gen_key(rng))}:{ck}:{pos}")
            alt.append(f"C{k}:{hx(g.rbytes(rng, 10))}:{rng.randrange(17)}")
        else:
            alt.append(f"S{hx(g.rbytes(rng, 8))}")
    if not alt:
        alt = [f"S{hx(g.rbytes(rng, 8))}", f"D0:{gb.gen_scalar(rng)}", f"C{hx(g.gen_key(rng))}:-:0"]
    sets.append(",".join(alt))
    sets.append(",".join(rng.sample(alt + encs, min(len(alt + encs), rng.randrange(1, 4)))))
    return sets


HEADER_EDITS = ["empty-value", "len-1", "len+1", "len-15", "len-16", "len-0", "one-byte", "dup-block", "unknown-tag",
                "drop-block", "swap", "offcurve", "point-zero", "point-p", "eph-trunc", "no-terminator", "terminator-len",
                "flip-ct", "second-init", "huge-len", "only-selector"]


def edit_header(rng, binary, kind):
    tl, off = header_tlvs(binary)
    body = binary[off:]
    if not tl:
        return None
    i = rng.randrange(len(tl))
    t, v = tl[i]
    if kind == "empty-value":
        tl[i] = (t, b"")
    elif kind == "len-1":
        tl[i] = (t, v[:-1])
    elif kind == "len+1":
        tl[i] = (t, v + g.rbytes(rng, 1))
    elif kind == "len-15":
        tl[i] = (t, v[:-15])
    elif kind == "len-16":
        tl[i] = (t, v[:-16])
    elif kind == "len-0":
        tl[i] = (rng.choice([1, 2, 3, t]), b"")
    elif kind == "one-byte":
        tl[i] = (t, v[:1])
    elif kind == "only-selector":
        tl[i] = (3, bytes([rng.randrange(4)]))
    elif kind == "dup-block":
        tl.insert(i, (t, v))
    elif kind == "unknown-tag":
        tl[i] = (rng.choice([4, 5, 0x7F, 0x80, 0xFF]), v)
    elif kind == "drop-block":
        del tl[i]
    elif kind == "swap" and len(tl) > 1:
        j = (i + 1) % len(tl)
        tl[i], tl[j] = tl[j], tl[i]
    elif kind in ("offcurve", "point-zero", "point-p", "eph-trunc"):
        ecc = [k for k, (tt, vv) in enumerate(tl) if tt == 3 and len(vv) >= 65]
        if not ecc:
            return None
        k = rng.choice(ecc)
        vv = bytearray(tl[k][1])
        if kind == "offcurve":
            vv[1 + rng.randrange(64)] ^= 1 << rng.randrange(8)
        elif kind == "point-zero":
            vv[1:65] = bytes(64)
        elif kind == "point-p":
            vv[1:33] = refec.P256["p"].to_bytes(32, "big")
        else:
            del vv[rng.randrange(1, 65):]
        tl[k] = (3, bytes(vv))
    elif kind == "no-terminator":
        return build_header(tl)[:-2] + body
    elif kind == "terminator-len":
        return build_header(tl)[:-2] + bytes([0, rng.randrange(1, 40)]) + body
    elif kind == "flip-ct":
        if not v:
            return None
        k = rng.randrange(len(v))
        tl[i] = (t, v[:k] + bytes([v[k] ^ (1 << rng.randrange(8))]) + v[k + 1:])
    elif kind == "second-init":
        tl.append((rng.choice([1, 3]), g.rbytes(rng, rng.choice([16, 32, 33, 97, 113]))))
    elif kind == "huge-len":
        h = build_header(tl)
        p = len(BEC2_SIG) + 1
        return h[:p] + bytes([rng.choice([200, 255])]) + h[p + 1:] + body
    else:
        return None
    try:
        return build_header(tl) + body
    except ValueError:
        return None


def rewrap_cases(rng, f, binary):
    """(decryptors, binary): an auth block whose container is genuine - right key, 'B' marker, length byte, padding, CRC -
    around a payload that is too short, too long or scrambled; only a reader holding the right key gets that far"""
    import hashlib
    import refaes
    tl, off = header_tlvs(binary)
    body = binary[off:]
    blocks = f["blocks"].split(",")
    encs = [] if f["encs"] == "-" else f["encs"].split(",")
    out = []
    for i, (b, (t, v)) in enumerate(zip(blocks, tl)):
        if b.startswith("u"):
            code = bytes.fromhex(b[1:].split(":")[0])
            key, dec = hashlib.sha256(code).digest()[:16], f"S{code.hex()}"
        elif b == "c":
            e = next((x for x in encs if x[0] == "C"), None)
            if e is None:
                continue
            key, dec = bytes.fromhex(e[1:].split(":")[0]), e
        else:
            continue
        if len(v) % 16 or not v:
            continue
        fr = refaes.cbc_decrypt(key, bytes(16), v)
        if fr[0:1] != b"B" or fr[1] < 2 or fr[1] > len(fr):
            continue
        ln = fr[1] - 2
        payload = fr[len(fr) - 2 - ln:-2]
        variants = [payload[:k] for k in sorted({0, 1, 9, 10, 11, 15, 16, 17, 25, 26, len(payload) - 1}) if 0 <= k < len(payload)]
        variants += [payload + b"\x00", payload + g.rbytes(rng, 5), payload[::-1]]
        for pv in rng.sample(variants, min(5, len(variants))):
            z = 16 - ((len(pv) + 4) % 16)
            fr2 = b"B" + bytes([len(pv) + 2]) + bytes(z) + pv + refaes.bitserial(pv).to_bytes(2, "big")
            tl2 = list(tl)
            tl2[i] = (t, refaes.cbc_encrypt(key, bytes(16), fr2))
            try:
                out.append((",".join(dict.fromkeys(encs + [dec])), build_header(tl2) + body))
            except ValueError:
                pass
    return out


def bec2_cases(rng, n):
    """(chk, decryptors, text)"""
    files, lines = [], []
    for _ in range(n):
        f = gb.gen_file(rng)
        files.append(f)
        lines.append(f"bec2.tobin {f['key']} {f['blocks']} {f['comps']} {f['encs']} {f['ephs']}")
    res = model_eval(lines)
    out = []
    for f, r in zip(files, res):
        if not r.startswith("ok "):
            continue
        binary = bytes.fromhex(r.split()[1])
        sets = decryptor_sets(rng, f)
        text = to_text(binary, [("Creator", "x")] if rng.random() < 0.3 else ())
        for s in sets:
            out.append(("1", s, text))
        for _ in range(2):
            out.append((rng.choice("110"), rng.choice(sets), mutate_text(rng, text)))
        for _ in range(3):
            out.append((rng.choice("110"), rng.choice(sets), to_text(mutate_bytes(rng, binary))))
        # authentic body with unusual description tag values behind the genuine header
        _, off = header_tlvs(binary)
        sk = bytes.fromhex(f["key"])
        for _ in range(2):
            t = rng.choice(list(range(0xC0, 0xCC)) + [0, 0xFF])
            ln = rng.choice([0, 0, 1, 2])
            p = g.rbytes(rng, 16 * rng.randrange(1, 4))
            desc = [(d, v) for d, v in g.gen_desc(rng, maxtl=30) if d != t] + [(t, bytes([2] * ln))]
            b = layout.Body([layout.Entry(desc, p, len(p))], off)
            b.relayout(sk)
            out.append(("1", sets[1], to_text(binary[:off] + b.ser())))
        for decs, b in rewrap_cases(rng, f, binary):
            out.append(("1", decs, to_text(b)))
        for kind in rng.sample(HEADER_EDITS, 6):
            b = edit_header(rng, binary, kind)
            if b is not None:
                for s in rng.sample(sets, 2):
                    out.append(("1", s, to_text(b)))
    for _ in range(n):
        out.append((rng.choice("10"), rng.choice(["-", f"D0:{gb.gen_scalar(rng)}", f"S{hx(g.rbytes(rng, 8))}",
                                                  f"C{hx(g.gen_key(rng))}:-:0"]), random_text(rng)))
    return out


# ---------------------------------------------------------------------------------------------- BF2

BF2_LINES = ["#>REBOOT", "#> REBOOT", "#>REBOOT ", "##CRC: 0x123456789", "##CRC: 12", "##CRC:", "##CRC: zz", "##SELECT: x",
             "##SELECT:x", "##SELECT_IF: y", "##CHECK_FWVER: 1", "##REBOOT: 1", "##Bf3Update: 1", "##Bf3Update: 0",
             "##Firmware: 1", "##Firmware: 1100 X 1.02.03", "##Firmware: abcd X 1.02.03", "##Firmware: 1100 X D-1.02.03",
             "##Firmware: 1100 X 1.2", "##Firmware: 1100 X 256.00.00", "#>SELECT", "#>SELECT FILTER", "#>SELECT FILTER=",
             "#>SELECT FILTER=0", "#>SELECT FILTER=01", "#>SELECT FILTER=0102", "#>SELECT FILTER=01 01 00",
             "#>SELECT FILTER=zz", "#>SELECT X=1", "#>SELECT FILTER=01 01 00 9B X=2", "#>SELECT_IF", "#>SELECT_IF PROTOCOL=",
             "#>SELECT_IF PROTOCOL=NOPE", "#>SELECT_IF PROTOCOL=*", "#>SELECT_IF PROTOCOL=BRP", "#>CHECK_FWVER",
             "#>CHECK_FWVER VERSIONDESC=", "#>CHECK_FWVER VERSIONDESC=*", "#>CHECK_FWVER VERSIONDESC=00",
             "#>CHECK_FWVER VERSIONDESC=00 00", "#>CHECK_FWVER VERSIONDESC=00 00 04 01 02 03 04",
             "#>CHECK_FWVER VERSIONDESC=00 00 09 01", "#>UNKNOWN", "#>", "#> ", "#", "##", "##:", "## :", "##a", ":", ":0",
             ":00", ":0000", ":000035", ":00003500", ":0000350102", ":0000FE00", ":0000FF00", ":00003503020000",
             ":0000350502000001", ":000035050200FF0102", ":00007005020000AABB", ":zz", "", " ", "\t", "x", "garbage line",
             ":0000FE00 trailing", " :0000FE00", "#>REBOOT=1", "#>REBOOT X", "##CRC: 0x1", "##CRC: -1", "##CRC: 1_0",
             "##CRC: 0x", "##CRC: ١٢"]


_src_words = None


def src_words():
    """identifier-like string literals of bec2format/bf3file.py (instruction names, internal markers such as the "load"
    tag the parser uses for firmware data, dictionary keys): each becomes a `##word: v`, `#>word` and `#>word K=V` line, so
    that a text line can collide with any name the importer gives a meaning to"""
    global _src_words
    if _src_words is None:
        import ast
        import os
        import re
        from core import REPO
        words = set()
        try:
            tree = ast.parse(open(os.path.join(REPO, "bec2format", "bf3file.py")).read())
            for node in ast.walk(tree):
                if isinstance(node, ast.Constant) and isinstance(node.value, str) and re.fullmatch(r"[A-Za-z_][A-Za-z0-9_]{0,19}", node.value):
                    words.add(node.value)
        except (OSError, SyntaxError):
            pass
        _src_words = sorted(words) or ["load"]
    return _src_words


def word_line(rng):
    w = rng.choice(src_words())
    return rng.choice([f"##{w}: {rng.choice(['abc', '1', '', '0x10', '01 01 00 9B'])}", f"##{w}:", f"#>{w}", f"#>{w} FILTER=01 01 00 9B",
                       f"#>{w} PROTOCOL=*", f"#>{w} VERSIONDESC=*", f"#>{w} X=1"])


def bf2_cases(rng, n):
    """(enforce_marker, text)"""
    out = []
    for w in src_words():
        for form in (f"##{w}: abc", f"##{w}:", f"#>{w}", f"#>{w} X=1"):
            out.append((rng.choice("10"), form + "\n"))
    for _ in range(n):
        text, _ = gen_bf2.gen_file(rng, big=rng.choice([300, 300, 3000]), marker=rng.random() < 0.8,
                                   debug=rng.random() < 0.05, defect=rng.random() < 0.3)
        enf = rng.choice("110")
        out.append((enf, text))
        for _ in range(3):
            out.append((enf, mutate_text(rng, text)))
        ls = text.split("\n")
        for _ in range(4):
            l2 = list(ls)
            for _ in range(rng.choice([1, 1, 2, 3])):
                l2.insert(rng.randrange(len(l2) + 1), rng.choice(BF2_LINES) if rng.random() < 0.7 else word_line(rng))
            out.append((enf, "\n".join(l2)))
        # the FIRST data line of a section decides the component kind: give it a continuation tag type (one that may only
        # follow a base type: 0x85.., 0x36.., 0x71..), or drop it so that a continuation line comes first
        firsts = [i + 1 for i, l in enumerate(ls[:-1]) if l.startswith(":") and l[5:7].upper() == "FE" and ls[i + 1].startswith(":")
                  and len(ls[i + 1]) > 9]
        for i in rng.sample(firsts, min(2, len(firsts))):
            raw = bytearray(bytes.fromhex(ls[i][1:]))
            l2 = list(ls)
            if rng.random() < 0.6:
                raw[2] = (raw[2] + rng.choice([1, 1, 2, 3])) & 0xFF
                l2[i] = ":" + bytes(raw).hex().upper()
            else:
                del l2[i]
            out.append((enf, "\n".join(l2)))
        # data line edits: tag type, length byte, index, address
        dl = [i for i, l in enumerate(ls) if l.startswith(":") and len(l) > 9]
        for _ in range(3):
            if not dl:
                break
            l2 = list(ls)
            i = rng.choice(dl)
            raw = bytearray(bytes.fromhex(l2[i][1:]))
            k = rng.choice([0, 1, 2, 3, 4, 5, 6, len(raw) - 1]) % len(raw)
            raw[k] = rng.choice([0, 1, 0x34, 0x35, 0x70, 0x84, 0xA3, 0xFE, 0xFF, raw[k] ^ 1, rng.randrange(256)])
            if rng.random() < 0.3:
                del raw[rng.randrange(len(raw)):]
            l2[i] = ":" + bytes(raw).hex().upper()
            out.append((enf, "\n".join(l2)))
    for _ in range(n):
        k = rng.randrange(0, 12)
        out.append((rng.choice("10"), "\n".join(rng.choice(BF2_LINES) for _ in range(k)) + rng.choice(["", "\n"])))
        out.append((rng.choice("10"), random_text(rng)))
    return out


# ---------------------------------------------------------------------------------------------- ids and filters

CFG_PIECES = ["", "0", "1", "00", "123", "1234", "12345", "99999", "-", "--", "---", " ", "  ", "-x", "name", "a-b", "_",
              "xxxx", "XXXX", "xx", "v", "V", "01", "٣", "１", "1 ", " 1", "\n", "\t", "-01", "1234-5678-9012-34", "ß", "+1", "1_0"]


def cfg_cases(rng, n):
    out = []
    for _ in range(n):
        k = rng.randrange(5)
        if k == 0:
            s = "".join(rng.choice(CFG_PIECES) for _ in range(rng.randrange(0, 9)))
        elif k == 1:
            s = "-".join(rng.choice(CFG_PIECES) for _ in range(rng.randrange(1, 7)))
        elif k == 2:
            s = f"{rng.randrange(100000):05}-{rng.randrange(10000):04}-{rng.randrange(10000):04}-{rng.randrange(100):02}"
            s = mutate_text(rng, s + rng.choice(["", " name", "-name", " a b c"]))
        elif k == 3:
            s = "".join(rng.choice("0123456789-- xXnv") for _ in range(rng.randrange(0, 24)))
        else:
            s = random_text(rng)[:40]
        out.append(s)
    return out


def pfid2_cases(rng, n):
    """filter = 01 <count> <count big-endian 16-bit entries>; bit 15 = OR-group continues, bit 14 = negated"""
    out = [b"", b"\x00", b"\x01", b"\x01\x00", b"\x01\x01", b"\x01\x01\x00", b"\x02\x01\x00\x9b", b"\xff",
           b"\x01\x01\x80\x0b", b"\x01\x02\x80\x0b\x80\x0c"]
    ids = [0x9B, 0xBE, 0xAD, 0xC0, 0x0B, 0x0C, 1, 0, 0x3FFF, 0x1234]
    for _ in range(n):
        k = rng.randrange(4)
        if k == 0:
            out.append(g.rbytes(rng, rng.randrange(0, 12)))
        elif k == 1:
            m = rng.randrange(0, 6)
            out.append(bytes([1, m]) + b"".join((rng.choice(ids) | rng.choice([0, 0x4000, 0x8000, 0xC000])).to_bytes(2, "big")
                                                for _ in range(m)))
        elif k == 2:
            m = rng.randrange(0, 6)
            out.append(mutate_bytes(rng, bytes([1, m]) + g.rbytes(rng, 2 * m)))
        else:
            out.append(bytes([rng.choice([0, 1, 1, 1, 2]), rng.randrange(6)]) + g.rbytes(rng, rng.randrange(0, 11)))
    return out
