"""C09 — the ECC auth block is decryptable by an independent ECIES implementation."""
import gen_bf3 as g
import gen_bec2 as gb
from core import hx
import refec

TRUSTED = [
    "Lean 4.33 kernel; axioms propext, Classical.choice, Quot.sound only",
    "Model/Bec2.lean (eccEncrypt/eccDecrypt, block packing), Model/P256.lean, Model/Ec.lean tied to the code by correspondence "
    "(ecc.pub / ecc.dh / ecc.enc / ecc.dec / ecc.load on edge and random scalars)",
    "ecc_decrypt uses CryptoInv (C16) and EccLaws (C17); the published keys and the 27-byte header are regenerated from the "
    "source every run and pinned by kernel-checked theorems; each published key is kernel-checked to be on P-256",
]
ASSUMPTIONS = ["OpenSSL is not modelled: the harness decrypts every generated block with `openssl pkeyutl -derive` + independent "
               "SHA-256/AES (search only)"]
LEANCHECKER_MODULES = ["Bec2Verif.Props.C09"]
N = gb.P256_N
P = 0xffffffff00000001000000000000000000000000ffffffffffffffffffffffff


def run(ctx):
    rng = ctx.rng
    ctx.rule = ("recipient scalars 1, 2, n-2, n-1 and random, ephemeral scalars edge and random, all key classes, selectors 0..3 "
                "(+ unknown selectors for the default recipient); rejection: off-curve points, coordinates >= p, the all-zero point, "
                "points of the twist; non-trivial = distinct case")
    n = 25 if ctx.quick else 1500
    ds = [1, 2, N - 2, N - 1] + [gb.gen_scalar(rng) for _ in range(n)]
    cases = [(rng.randrange(4), d, gb.gen_scalar(rng), hx(g.gen_key(rng))) for d in ds]
    # directed: ephemeral scalars whose ECDH x-coordinate / ephemeral public X / Y has leading zero bytes
    c = refec.P256
    for d in [1, N - 1, gb.gen_scalar(rng)] + ([] if ctx.quick else [gb.gen_scalar(rng) for _ in range(12)]):
        Q = refec.mul(c, d, refec.G(c))
        found = {"secret": 0, "ephx": 0, "ephy": 0}
        e = rng.randrange(1, N - 5000)
        S, E = refec.mul(c, e, Q), refec.mul(c, e, refec.G(c))      # walk e, e+1, ...: one addition per step
        tries = 0
        while (min(found.values()) < 1) and tries < 4000:
            tries += 1
            e += 1
            S, E = refec.add(c, S, Q), refec.add(c, E, refec.G(c))
            for name, v in (("secret", S[0]), ("ephx", E[0]), ("ephy", E[1])):
                if v < 2**248 and found[name] < 1:
                    found[name] += 1
                    cases.append((rng.randrange(4), d, e, hx(g.gen_key(rng))))
                    ctx.count("directed:leading-zero-" + name)
    dlist = list(dict.fromkeys(d for _, d, _, _ in cases))
    ctx.correspond([f"ecc.pub {d}" for d in dlist], "ecc.pub")
    # the public keys the later lines are built from come from the independent arithmetic, not from what the code returned
    pubs = {}
    for d in dlist:
        Q = refec.mul(c, d, refec.G(c))
        pubs[d] = "ok " + hx(Q[0].to_bytes(32, "big") + Q[1].to_bytes(32, "big"))
    lines, dec = [], []
    for (sel, d, eph, k) in cases:
        pub = pubs[d].split()[1]
        lines.append(f"ecc.dh {eph} {pub}")
        lines.append(f"ecc.enc {pub} {eph} {k}")
    r = ctx.correspond(lines, "ecc.dh/enc")
    for (sel, d, eph, k), res in zip(cases, r[1::2]):
        if res.startswith("ok "):
            dec.append(f"ecc.dec {d} {res[3:]}")
    ctx.correspond(dec, "ecc.dec")
    # invalid ephemeral points
    bad = []
    for _ in range(40 if ctx.quick else 1000):
        kind = rng.randrange(5)
        x, y = rng.randrange(P), rng.randrange(P)
        if kind == 1:
            x, y = 0, 0
        elif kind == 2:
            x = P + rng.randrange(0, 2**256 - P)
        elif kind == 3:
            y = P + rng.randrange(0, 2**256 - P)
        elif kind == 4:
            x, y = 2**256 - 1, 2**256 - 1
        bad.append(hx(x.to_bytes(32, "big") + y.to_bytes(32, "big")))
    # genuine points of the curve in another representative of a coordinate: (x, y + p), (x + p, y) - they fit into 32 bytes only
    # when the coordinate is below 2^256 - p, so such points are constructed (small x: square root; small y: roots of the cubic)
    small_x, small_y = refec.points_with_small_coordinate(refec.P256, rng, count=3 if ctx.quick else 12)
    for (x, y) in small_y:
        bad.append(hx(x.to_bytes(32, "big") + (y + P).to_bytes(32, "big")))
    for (x, y) in small_x:
        bad.append(hx((x + P).to_bytes(32, "big") + y.to_bytes(32, "big")))
    bad.append(hx((small_x[0][0] + P).to_bytes(32, "big") + (small_x[0][1]).to_bytes(32, "big")))
    crafted = bad[-(len(small_x) + len(small_y) + 1):]
    ctx.correspond([f"ecc.load {b}" for b in bad], "ecc.load-bad")
    ctx.correspond([f"ecc.dec {gb.gen_scalar(rng)} {hx(bytes([4]) + bytes.fromhex(b) + g.rbytes(rng, 16))}" for b in bad[:30] + crafted],
                   "ecc.dec-bad")
    ctx.correspond([f"ecc.dec 5 {hx(g.rbytes(rng, ln))}" for ln in (0, 1, 2, 64, 65, 80, 81)], "ecc.dec-short")
    # a well-formed block whose point-format byte is not 04, or with bytes behind the ciphertext
    good = [r[3:] for r in r[1::2] if r.startswith("ok ")][:12]
    fmt = []
    for (sel, d, eph, k), blk in zip(cases, good):
        raw = bytes.fromhex(blk)
        for fb in (0x00, 0x02, 0x03, 0x05, 0x06, 0xFF):
            fmt.append(f"ecc.dec {d} {hx(bytes([fb]) + raw[1:])}")
        fmt.append(f"ecc.dec {d} {hx(raw + b'\x00')}")
        fmt.append(f"ecc.dec {d} {hx(raw[:-1])}")
    ctx.correspond(fmt, "ecc.dec-format-byte")
    # default recipient through the header packer (model vs code)
    ctx.correspond([f"bec2.pack {hx(g.gen_key(rng))} e{sel} - {gb.gen_scalar(rng)}" for sel in (0, 1, 2, 3, 4, 7, 255, 256)], "default-recipient")
    # the property on the real code, OpenSSL as the independent implementation
    ctx.check_props([f"prop.c09 {sel} {d} {eph} {k} 1" for sel, d, eph, k in cases], "prop.c09")
    ctx.check_props([f"prop.c09default {sel} {gb.gen_scalar(rng)} {hx(g.gen_key(rng))}" for sel in (0, 1, 2, 3, 4, 9)], "prop.c09default")
    ctx.check_props([f"prop.c09hist {sel} {rng.randrange(1 << 40)} {8 if ctx.quick else 30}" for sel in range(4) for _ in range(2 if ctx.quick else 10)],
                    "prop.c09hist")
    ctx.check_props([f"prop.c09reject {gb.gen_scalar(rng)} {b}" for b in bad], "prop.c09reject")


def search(ctx):
    rng = ctx.rng
    ctx.check_props([f"prop.c09 {rng.randrange(4)} {gb.gen_scalar(rng)} {gb.gen_scalar(rng)} {hx(g.gen_key(rng))} 1" for _ in range(300)], "search.c09")
