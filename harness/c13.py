"""C13 — BF2 import preserves firmware bytes and rejects what BF3 cannot represent."""
import json
import gen_bf2 as gb2
import gen_bf3 as g
from core import hx

TRUSTED = [
    "Lean 4.33 kernel; axioms propext, Classical.choice, Quot.sound only",
    "Model/Bf2.lean (line parser, unpack/convert, instruction execution, section state machine, sort, annotations, filter "
    "rendering) tied to bf3file.py:494-727 by correspondence on grammar-generated BF2 texts; Gen/Maps.lean regenerated",
    "the generating image of each section is the oracle for the direct evaluation on the real code",
]
ASSUMPTIONS = [
    "str methods used by the BF2 front end (split, strip, slicing, int()) are modelled for the inputs of the grammar plus "
    "mutations; exotic int() syntax (underscores, Unicode digits, signs) is modelled but only correspondence-checked",
]
LEANCHECKER_MODULES = ["Bec2Verif.Props.C13"]


def spec_of(exp):
    return hx(json.dumps([({str(k): v.hex() for k, v in d.items()}, p.hex()) for d, p in exp]).encode())


def run(ctx):
    rng = ctx.rng
    ctx.rule = ("BF2 texts from a grammar: header comments, 1..6 sections over every mapped tag type, images of 1..70000 bytes "
                "(200000 thorough) with line sizes 1..250 and 64 KiB page crossings, ignored prepare sections, debug/release version "
                "strings, with/without the BF3 marker; single sections with a gap at every position class or a non-zero start; "
                "platform filters; non-trivial = distinct text")
    n = 40 if ctx.quick else 2500
    files = [gb2.gen_file(rng, (70000 if i % 10 == 0 else 4000) if ctx.quick else 200000, debug=(i % 7 == 3)) for i in range(n)]
    ctx.correspond([f"bf2.import 1 {hx(t.encode())}" for t, _ in files], "bf2.import")
    ctx.check_props([f"prop.c13 {hx(t.encode())} {spec_of(e)}" for t, e in files], "prop.c13")
    # section boundaries without instruction lines, unknown protocols: model against code
    ctx.correspond([f"bf2.import {rng.choice('01')} {hx(t.encode())}" for t in gb2.gen_variants(rng, 60 if ctx.quick else 3000)],
                   "bf2.import-variants")
    # without the marker: rejected unless enforcement is off
    nom = [gb2.gen_file(rng, 3000, marker=False) for _ in range(10 if ctx.quick else 300)]
    ctx.correspond([f"bf2.import 1 {hx(t.encode())}" for t, _ in nom] + [f"bf2.import 0 {hx(t.encode())}" for t, _ in nom], "bf2.import-legacy")
    ctx.check_props([f"prop.c13reject {hx(t.encode())} no-Bf3Update-marker" for t, _ in nom], "prop.c13reject-legacy")
    # whole files in which one blob section starts at a non-zero address or has a gap: rejected, not converted
    bad = [gb2.gen_file(rng, 3000, defect=True) for _ in range(30 if ctx.quick else 600)]
    ctx.correspond([f"bf2.import 1 {hx(t.encode())}" for t, _ in bad], "bf2.import-defect")
    ctx.check_props([f"prop.c13reject {hx(t.encode())} blob-with-gap-or-nonzero-start" for t, e in bad if e is None],
                    "prop.c13reject-defect")
    ctx.check_props([f"prop.c13 {hx(t.encode())} {spec_of(e)}" for t, e in bad if e is not None], "prop.c13")
    # single sections: conversion per format, gaps at every position class, non-zero start
    conv, props = [], []
    for _ in range(60 if ctx.quick else 4000):
        base = rng.choice([0x35, 0x39, 0x40, 0x84])
        img = gb2.gen_image(rng, 70000 if not ctx.quick or rng.random() < 0.1 else 3000)
        sizes = gb2.gen_sizes(rng, len(img))
        nlines = len(gb2.data_lines(rng, base, img, sizes))
        kind = rng.choice(["ok", "ok", "gap-first", "gap-mid", "gap-last", "start", "neg-gap"])
        gap_at, gap, start = None, 0, 0
        if kind == "gap-first" and nlines > 1:
            gap_at, gap = 1, rng.choice([1, 2, 250])
        elif kind == "gap-mid" and nlines > 2:
            gap_at, gap = rng.randrange(1, nlines - 1), rng.choice([1, 16, 1000])
        elif kind == "gap-last" and nlines > 1:
            gap_at, gap = nlines - 1, rng.choice([1, 5])
        elif kind == "start":
            start = rng.choice([1, 2, 256, 65535])
        elif kind == "neg-gap" and nlines > 1 and len(img) > 300:
            gap_at, gap = nlines - 1, -rng.choice([1, 3])
        else:
            kind = "ok"
        try:
            lines = gb2.data_lines(rng, base, img, sizes, start, gap_at, gap)
        except (ValueError, OverflowError):
            continue
        ls = gb2.show_lines(lines)
        ctx.count("section:" + kind)
        for fmt in (0, 1, 2):
            conv.append(f"bf2.convert {fmt} {ls}")
        conv.append(f"bf2.unpack {ls}")
        props.append(f"prop.c13blob 0 {ls} {hx(img)} {'ok' if kind == 'ok' else 'reject'}")
        props.append(f"prop.c13blob 2 {ls} {hx(img)} ok")
        props.append(f"prop.c13blob 1 {ls} {hx(img)} ok")
    conv += ["bf2.convert 0 -", "bf2.convert 1 -", "bf2.convert 2 -", "bf2.convert 7 -", "bf2.unpack -"]
    ctx.correspond(conv, "bf2.convert")
    ctx.check_props(props, "prop.c13blob")
    # unknown tag types
    unk = []
    for typ in ([0x33, 0x3F, 0x49, 0x6F, 0x74, 0xA4, 0x00, 0x10] if ctx.quick else list(range(256))):
        w = gb2.Writer()
        w.text("##Bf3Update: 1")
        w.data(typ, b"\x01\x02\x03", [3])
        unk.append((typ, hx(w.value().encode())))
    ctx.correspond([f"bf2.import 1 {t}" for _, t in unk], "bf2.import-tagtypes")
    known = set([52, 53, 54, 55, 56, 57, 58, 59, 60, 61, 62] + list(range(64, 73)) + list(range(112, 116)) + [131] + list(range(132, 164)))
    ctx.check_props([f"prop.c13reject {t} unknown-tag-type-{typ:02x}" for typ, t in unk if typ not in known and typ not in (0xFE, 0xFF)],
                    "prop.c13reject-tagtype")
    ctx.exhaustive["all_256_tag_types"] = not ctx.quick
    # continuation lines: inside a BF2-compatible section (raw lines are concatenated, any address) a line may carry any tag
    # type of its family - up to the LAST one of the range - and nothing beyond it
    fam, edge = [], []
    for base, top, beyond in ((0x70, 0x73, 0x74), (0x84, 0xA3, 0xA4), (0x84, 0x85, 0x33), (0x70, 0x71, 0x6F), (0x84, 0xA2, 0x82),
                              (0x84, 0x90, 0x3F), (0x70, 0x72, 0x49)):
        for typ2, ok in ((top, True), (beyond, False)):
            w = gb2.Writer()
            w.text("##Bf3Update: 1")
            w.text("#>SELECT_IF PROTOCOL=BRP-SER" if base == 0x70 else "#>SELECT_IF PROTOCOL=*")
            img1, img2 = g.rbytes(rng, 20), g.rbytes(rng, 9)
            w.line(0xFE, b"")
            r1 = w.line(base, bytes([len(img1) + 2]) + b"\x00\x00" + img1)
            w.line(0xFF, b"")
            w.line(0xFE, b"")
            r2 = w.line(typ2, bytes([len(img2) + 2]) + b"\x00\x10" + img2)
            w.line(0xFF, b"")
            w.text("#>REBOOT")
            t = w.value()
            if ok:
                desc = {0xC1: b"\x02", 0xC3: bytes([0 if base == 0x70 else 2]), 0xC5: b"\x01"}
                if base == 0x70:
                    desc[0xC6] = b"\x01"
                fam.append((t, [(desc, r1 + r2)]))
            else:
                edge.append((typ2, hx(t.encode())))
    ctx.correspond([f"bf2.import 1 {hx(t.encode())}" for t, _ in fam] + [f"bf2.import 1 {t}" for _, t in edge], "bf2.import-families")
    ctx.check_props([f"prop.c13 {hx(t.encode())} {spec_of(e)}" for t, e in fam], "prop.c13-families")
    ctx.check_props([f"prop.c13reject {t} continuation-line-of-unknown-tag-type-{typ:02x}" for typ, t in edge], "prop.c13reject-continuation")
    # a section that consists of continuation pages only (its data begins at 64 KiB or beyond) right behind an ignored prepare /
    # activate section, in front of an ordinary one: to be rejected like anywhere else, not swallowed by the ignored data (D16)
    orphan = []
    for ign in gb2.IGNORED:
        for base, page in ((0x35, 1), (0x35, 3), (0x39, 2), (0x3D, 1), (0x40, 5), (0x70, 2), (0x84, 7)):
            w = gb2.Writer()
            w.text("##Firmware: 1100 ID-ENGINE 1.02.03 generated")
            w.text("##Bf3Update: 1")
            w.text("#>CHECK_FWVER VERSIONDESC=*")
            w.data(ign, g.rbytes(rng, 8), [8])
            w.text("#>CHECK_FWVER VERSIONDESC=*")
            w.text("#>SELECT_IF PROTOCOL=*")
            w.data(base, g.rbytes(rng, rng.choice([1, 30, 300])), [rng.choice([1, 16, 250])], start=page * gb2.PAGE + rng.choice([0, 7]))
            w.text("##CRC: 0x11223344")
            w.text("#>REBOOT")
            w.text("#>CHECK_FWVER VERSIONDESC=*")
            w.text("#>SELECT_IF PROTOCOL=*")
            w.data(0x3D, g.rbytes(rng, 12), [12])
            w.text("#>REBOOT")
            orphan.append(hx(w.value().encode()))
    ctx.correspond([f"bf2.import 1 {t}" for t in orphan], "bf2.import-orphan-pages")
    ctx.check_props([f"prop.c13reject {t} section-of-continuation-pages-behind-an-ignored-section" for t in orphan], "prop.c13reject-orphan")
    # platform filters
    fl = []
    if ctx.quick:
        singles = [rng.randrange(65536) for _ in range(300)] + [0, 0x4000, 0x8000, 0xC000, 0x009B, 0x3FFF, 0xFFFF]
    else:
        singles = range(65536)
    for e in singles:
        fl.append(hx(bytes([1, 1]) + e.to_bytes(2, "big")))
    ctx.exhaustive["all_2^16_single_filter_entries"] = not ctx.quick
    for _ in range(300 if ctx.quick else 20000):
        k = rng.randrange(0, 7)
        ents = []
        for j in range(k):
            h = rng.choice([0x0B, 0x0C, 0x9B, 0xBE, 0xC0, 0x1234, rng.randrange(0x4000)])
            e = h | (0x4000 if rng.random() < 0.3 else 0) | (0x8000 if rng.random() < 0.4 and j < k - 1 else 0)
            ents.append(e)
        f = bytes([1, k]) + b"".join(e.to_bytes(2, "big") for e in ents)
        r = rng.random()
        if r < 0.05:
            f = bytes([rng.choice([0, 2])]) + f[1:]
        elif r < 0.1:
            f = f[:1] + bytes([(k + 1) & 0xFF]) + f[2:]
        elif r < 0.13:
            f = f[:rng.randrange(0, len(f) + 1)]
        fl.append(hx(f))
    ctx.correspond([f"pfid2 {f}" for f in fl], "pfid2")
    ctx.check_props([f"prop.c13filter {f} 64" for f in fl[-(300 if ctx.quick else 20000):]], "prop.c13filter")


def search(ctx):
    rng = ctx.rng
    files = [gb2.gen_file(rng, 20000) for _ in range(300)]
    ctx.check_props([f"prop.c13 {hx(t.encode())} {spec_of(e)}" for t, e in files], "search.c13")
