import io
from impl import op, hx, unhx, err, mkfile, CStream
import impl_bf3 as b3
import impl_bec2 as b2
from bec2format.bf3file import Bf3File, Bf3Component, conf_dict_to_tlv, MAX_TLVBLOCK_SIZE
from bec2format.bec2file import Bec2File
from bec2format.configid import ConfigId
from bec2format.error import ConfigIdFormatError


def parse_dict(s):
    if s == "-":
        return {}
    d = {}
    for item in s.split(","):
        k, v, c = item.split(":")
        d[(int(k), None if v == "n" else int(v))] = None if c == "n" else unhx(c)
    return d


def show_blocks_list(bs):
    return ",".join(("e" if not b else hx(b)) for b in bs) if bs else "-"


def parse_blocks_list(s):
    return [] if s == "-" else [unhx(x) for x in s.split(",")]


def as_iterable(blocks):
    """`additional_tvl_blocks` is declared Iterable[bytes]: hand it over as a list, a tuple, a one-shot iterator or a
    generator (chosen by the content, so that model and code see the same case on every run)"""
    import zlib
    k = zlib.crc32(b"|".join(blocks)) % 4 if blocks else 0
    if k == 0:
        return list(blocks)
    if k == 1:
        return tuple(blocks)
    if k == 2:
        return iter(list(blocks))
    return (b for b in list(blocks))


@op("tlv")
def tlv(d):
    try:
        return "ok " + show_blocks_list(conf_dict_to_tlv(parse_dict(d)))
    except Exception as e:
        return err(e)


@op("setcfg")
def setcfg(cs, d, ex):
    try:
        f = mkfile({}, b3.parse_comps(cs))
        f.set_config(parse_dict(d), as_iterable(parse_blocks_list(ex)))
        return "ok " + b3.show_comps(f.components)
    except Exception as e:
        return err(e)


def show_opt(n):
    return "n" if n is None else str(n)


def show_id(i):
    return ",".join([show_opt(i.customer), show_opt(i.project), show_opt(i.device), str(i.version),
                     "n" if i.name is None else b3.show_str(i.name)])


def parse_id(s):
    c, p, d, v, n = s.split(",")
    po = lambda x: None if x == "n" else int(x)
    return ConfigId(po(c), po(p), po(d), int(v), None if n == "n" else b3.parse_str(n))


@op("cfgid.prj")
def cfgid_prj(d):
    try:
        return "ok " + show_id(ConfigId.create_from_prj_settings(parse_dict(d)))
    except Exception as e:
        return err(e)


@op("cfgid.dev")
def cfgid_dev(d):
    try:
        return "ok " + show_id(ConfigId.create_from_dev_settings(parse_dict(d)))
    except Exception as e:
        return err(e)


@op("cfgid.str")
def cfgid_str(i):
    try:
        return "ok " + b3.show_str(str(parse_id(i)))
    except Exception as e:
        return err(e)


@op("cfgid.parse")
def cfgid_parse(t):
    try:
        return "ok " + show_id(ConfigId.create_from_str(b3.parse_str(t)))
    except Exception as e:
        return err(e)


def show_h(f):
    return b3.show_comments(f.bf3file.comments) + "!" + b3.show_comps(f.bf3file.components) + "!" + \
        b2.show_blocks(f.auth_blocks.values())


@op("hist")
def hist(cm, cs, bs, ops):
    f = Bec2File(Bf3File(b3.parse_comments(cm), b3.parse_comps(cs)), b2.parse_blocks(bs), bytes(range(16)))
    outs = []
    shared = {}          # one dict object per configuration of the history, handed to every operation that names it

    def cfg(spec):
        return shared.setdefault(spec, parse_dict(spec))
    for o in ops.split("/"):
        t = o.split("!")
        try:
            if t[0] == "setcfg":
                f.bf3file.set_config(cfg(t[1]), as_iterable(parse_blocks_list(t[2])))
            elif t[0] == "derivec":
                f.bf3file.derive_comments_from_config(cfg(t[1]))
            elif t[0] == "derivea":
                if t[2] == "1" or len(t[1]) % 2:
                    f.derive_auth_blocks_from_config(cfg(t[1]), t[2] == "1")
                else:
                    f.derive_auth_blocks_from_config(cfg(t[1]))          # no customer-key support is the default
            elif t[0] == "append":
                f.bf3file.components.append(b3.parse_comps(t[1])[0])
            elif t[0] == "insert":
                f.bf3file.components.insert(int(t[1]), b3.parse_comps(t[2])[0])
            else:
                raise KeyError("bad op")
            outs.append(show_h(f))
        except KeyError as e:
            if "bad op" in str(e):
                raise
            outs.append("err:KeyError")
        except Exception as e:
            outs.append("err:" + type(e).__name__)
    return "ok " + "/".join(outs)


# ---------------------------------------------------------------- direct property evaluation
def decode_blocks(blocks):
    """independent TLV decoder: list of ('delkey', k) / ('delval', k, v) / ('set', k, v, content)"""
    ops = []
    for b in blocks:
        o = 0
        if not b:
            raise ValueError("empty block")
        while o < len(b):
            typ = b[o]
            k = int.from_bytes(b[o + 1:o + 3], "big")
            if len(b) < o + 3:
                raise ValueError("truncated group header")
            o += 3
            if typ == 2:
                ops.append(("delkey", k))
            elif typ == 1:
                while o < len(b):
                    v = b[o]
                    if v == 0xFF:
                        o += 1
                        break
                    if o + 1 >= len(b):
                        raise ValueError("truncated value header")
                    ln = b[o + 1]
                    o += 2
                    if ln == 0xFF:
                        ops.append(("delval", k, v))
                    else:
                        if o + ln > len(b):
                            raise ValueError("truncated content")
                        ops.append(("set", k, v, b[o:o + ln]))
                        o += ln
            else:
                raise ValueError(f"unknown group type {typ}")
    return ops


def expected_ops(d):
    dels = sorted([(k, v) for (k, v), c in d.items() if v is None or c is None], key=lambda t: (t[0], -1 if t[1] is None else t[1]))
    sets = sorted([(k, v, c) for (k, v), c in d.items() if v is not None and c is not None])
    return [("delkey", k) if v is None else ("delval", k, v) for k, v in dels] + [("set", k, v, c) for k, v, c in sets]


def entry_size(k, v, c):
    return 3 if v is None else 3 + 2 + (0 if c is None else len(c)) + 1


@op("prop.c10")
def prop_c10(d, ex):
    conf, extra = parse_dict(d), parse_blocks_list(ex)
    f = Bf3File()
    try:
        f.set_config(conf, as_iterable(extra))
    except OverflowError:
        # a block length is one byte: an entry whose group header + item exceeds 255 bytes (content >= 251) or an
        # extra block beyond 255 bytes cannot be represented; refusing loudly is not a violation
        if any(v is not None and c is not None and 3 + 2 + len(c) > 255 for (k, v), c in conf.items()) or \
                any(len(b) > 255 for b in extra):
            return "ok writer-rejects OverflowError"
        return "FAIL set_config raises OverflowError although every block fits its length byte"
    except Exception as e:
        return f"FAIL set_config raises {type(e).__name__}: {e}"
    comp = f.components[-1]
    blob = comp.blob
    if comp.description != {0xC3: b"\x03", 0xC2: b"\x02", 0xC1: b"\x03", 0xC5: b"\x01"} or not comp.encrypt_by_session_key:
        return "FAIL component is not tagged as an encrypted TLV configuration that requests a reboot"
    if comp.actual_len != len(blob):
        return "FAIL declared length is not the blob length"
    # the tags belong to THIS component: changing them on an earlier result (a component's description is a public, mutable
    # dict) must not show up in the next configuration component, of this or of another file
    comp.description[0xC5] = b"\x00"
    comp.description[0xC8] = b"\x01\x02\x03"
    for other in (f, Bf3File()):
        try:
            other.set_config(parse_dict(d), as_iterable(parse_blocks_list(ex)))
        except Exception as e:
            return f"FAIL a second set_config raises {type(e).__name__}: {e}"
        c2 = other.components[-1]
        if c2.description != {0xC3: b"\x03", 0xC2: b"\x02", 0xC1: b"\x03", 0xC5: b"\x01"} or c2.blob != blob:
            return ("FAIL after the tags of an earlier configuration component were edited, a new configuration component carries "
                    f"{dict(c2.description)!r}: the results share state")
    # split the blob: length-prefixed blocks closed by a single 00
    blocks, o = [], 0
    while True:
        if o >= len(blob):
            return "FAIL blob is not closed by 00"
        n = blob[o]
        o += 1
        if n == 0:
            break
        blocks.append(blob[o:o + n])
        if len(blocks[-1]) != n:
            return "FAIL truncated block"
        o += n
    if o != len(blob):
        return "FAIL a zero-length block (end of list) occurs before the end of the blob: the rest is ignored by a reader"
    nconf = len(blocks) - len(extra)
    if nconf < 0 or blocks[nconf:] != extra:
        return "FAIL caller-supplied extra blocks do not follow unchanged"
    cblocks = blocks[:nconf]
    try:
        got = decode_blocks(cblocks)
    except ValueError as e:
        return f"FAIL blocks do not decode: {e}"
    want = expected_ops(conf)
    if got != want:
        return f"FAIL decoded operations differ: {got!r:.150} vs {want!r:.150}"
    if all(entry_size(k, v, c) <= MAX_TLVBLOCK_SIZE for (k, v), c in conf.items()):
        big = [len(b) for b in cblocks if len(b) > 117]
        if big:
            return f"FAIL block of {big[0]} bytes although every entry fits in one block"
    return "ok"


@op("prop.c12")
def prop_c12(i):
    """print -> parse gives an equal identifier; parse(canonical text) -> print returns the same text"""
    cid = parse_id(i)
    try:
        text = str(cid)
    except Exception as e:
        return f"FAIL printing raises {type(e).__name__}: {e}"
    try:
        back = ConfigId.create_from_str(text)
    except Exception as e:
        return f"FAIL parsing the printed text {text!r} raises {type(e).__name__}"
    fields = lambda c: (c.customer, c.project, c.device, c.version, c.name)
    if fields(back) != fields(cid) or back != cid or not (back == cid):
        return f"FAIL {text!r} parses to {back!r}, not {cid!r}"
    again = str(back)
    if again != text:
        return f"FAIL canonical text {text!r} prints as {again!r} after parsing"
    # "equal" means what it says: an identifier that differs in one field is a different identifier, and nothing that is not an
    # identifier equals one
    base = list(fields(cid))
    for k, name in enumerate(("customer", "project", "device", "version", "name")):
        v = base[k]
        other = list(base)
        other[k] = ((v + 1) if v not in (9998, None) else 7) if k < 4 else ((v or "") + "x")
        o = ConfigId(*other)
        if fields(o) != fields(cid) and (o == cid or not (o != cid)):
            return f"FAIL {o!r} and {cid!r} differ in {name} and compare equal"
    for alien in (text, None, 5, fields(cid)):
        if cid == alien or not (cid != alien):
            return f"FAIL an identifier compares equal to {alien!r}"
    if cid.is_device_settings is not (cid.device == 0):
        return f"FAIL is_device_settings is {cid.is_device_settings!r} for device {cid.device!r}"
    return "ok"


@op("prop.c12parse")
def prop_c12parse(t):
    """unparsable text raises the format error; parsable text prints to something that parses to the same identifier"""
    s = b3.parse_str(t)
    try:
        cid = ConfigId.create_from_str(s)
    except ConfigIdFormatError:
        return "ok rejected"
    except Exception as e:
        return f"FAIL {type(e).__name__} instead of ConfigIdFormatError"
    return "ok accepted"


@op("prop.c12cfg")
def prop_c12cfg(d):
    """identifier derived from a configuration denotes exactly the naming values (decision table)"""
    conf = parse_dict(d)
    g = lambda v: conf.get((0x620, v))
    iv = lambda b: int.from_bytes(b, "big")
    unk = lambda x: None if x == 9999 else x
    for dev in (False, True):
        ver, name = (g(0x04), g(0x03)) if dev else (g(0x07), g(0x06))
        try:
            nm = None if name is None else name.decode()
        except UnicodeDecodeError:
            continue
        have_scheme = g(0x01) is not None and (dev or g(0x05) is not None)
        if ver is None or (not have_scheme and not nm):
            want = "missing"
        elif have_scheme:
            want = (unk(iv(g(0x01))), 0 if dev else unk(iv(g(0x05))), unk(iv(g(0x02) if g(0x02) is not None else b"\0\0")), iv(ver), nm)
        else:
            want = (None, 0 if dev else None, None, iv(ver), nm)
        try:
            c = (ConfigId.create_from_dev_settings if dev else ConfigId.create_from_prj_settings)(conf)
            got = (c.customer, c.project, c.device, c.version, c.name)
        except ConfigIdFormatError as e:
            got = "missing"
            from bec2format.error import MissingDeviceSettingsNameError, MissingProjectSettingsNameError
            if not isinstance(e, MissingDeviceSettingsNameError if dev else MissingProjectSettingsNameError):
                return f"FAIL wrong error class {type(e).__name__}"
        except Exception as e:
            return f"FAIL {'device' if dev else 'project'} settings: {type(e).__name__}: {e}"
        if got != want:
            return f"FAIL {'device' if dev else 'project'} settings: identifier {got!r} instead of {want!r}"
    # the users of the identifiers: the comments a file carries after `derive_comments_from_config(conf)` are those of THIS
    # configuration, whatever identifiers it carried before (from a fuller configuration, the constructor or a file read)
    try:
        fresh = Bf3File({})
        fresh.derive_comments_from_config(dict(conf))
        want_c = {k: v for k, v in fresh.comments.items() if k in ("Configuration", "DeviceSettings", "RequiresBusAddress")}
    except Exception:
        return "ok"
    full = dict(conf)
    full.update({(0x620, 0x01): (12345).to_bytes(4, "big"), (0x620, 0x02): b"\x00\x05", (0x620, 0x03): b"Reader type 5",
                 (0x620, 0x04): b"\x07", (0x620, 0x05): b"\x00\x4d", (0x620, 0x06): b"Door controller", (0x620, 0x07): b"\x03"})
    for how in ("derived from a fuller configuration before", "given to the constructor"):
        try:
            if how.startswith("derived"):
                f = Bf3File({})
                f.derive_comments_from_config(full)
            else:
                f = Bf3File({"DeviceSettings": "12345-0000-0005-07 old", "Configuration": "12345-0077-0005-03 old", "Other": "kept"})
            f.derive_comments_from_config(dict(conf))
        except Exception as e:
            return f"FAIL deriving the comments again ({how}) raises {type(e).__name__}: {e}"
        got_c = {k: v for k, v in f.comments.items() if k in ("Configuration", "DeviceSettings", "RequiresBusAddress")}
        if got_c != want_c:
            return f"FAIL identifier comments {got_c!r} after identifiers were {how}; this configuration alone gives {want_c!r}"
    return "ok"


@op("prop.c11")
def prop_c11(cm, cs, bs, ops):
    """history independence, evaluated after every operation against an abstract state"""
    # objects built with the constructors' defaults (as the application notes do) beside the one the history works on: whatever
    # happens to that one, these stay as new.  The file of the history is itself built through the defaults where it can be.
    twin, twin2 = Bf3File(), Bec2File(Bf3File())
    cmts, cps, blks = b3.parse_comments(cm), b3.parse_comps(cs), b2.parse_blocks(bs)
    base = Bf3File() if not cmts and not cps else (Bf3File(components=cps) if not cmts else Bf3File(cmts, cps))
    f = Bec2File(base, blks, bytes(range(16))) if blks else Bec2File(base, session_key=bytes(range(16)))
    is_cfg = lambda c: c.description.get(0xC3) == b"\x03"
    others = [c for c in f.bf3file.components if not is_cfg(c)]          # abstract: non-config components in order
    last_cfg = None
    shared = {}          # the caller's configuration objects: one dict per configuration, reused by later operations
    comments = dict(f.bf3file.comments)
    derived = ("Configuration", "DeviceSettings", "RequiresBusAddress")
    for n, o in enumerate(ops.split("/")):
        t = o.split("!")
        try:
            if t[0] in ("setcfg", "derivec", "derivea"):
                live = shared.setdefault(t[1], parse_dict(t[1]))
            if t[0] == "setcfg":
                conf = parse_dict(t[1])
                f.bf3file.set_config(live, as_iterable(parse_blocks_list(t[2])))
                ref = Bf3File()
                ref.set_config(conf, as_iterable(parse_blocks_list(t[2])))
                last_cfg = ref.components[0]
            elif t[0] == "derivec":
                conf = parse_dict(t[1])
                f.bf3file.derive_comments_from_config(live)
                ref = Bf3File({})
                ref.derive_comments_from_config(conf)
                for k in derived:
                    comments.pop(k, None)
                comments.update(ref.comments)
            elif t[0] == "derivea":
                conf = parse_dict(t[1])
                had = bool(f.auth_blocks)
                if t[2] == "1" or len(t[1]) % 2:
                    f.derive_auth_blocks_from_config(live, cust_key_support=(t[2] == "1"))
                else:
                    f.derive_auth_blocks_from_config(live)
                if not had:
                    ref = Bec2File(Bf3File(), [], bytes(16))
                    want = ["c" if t[2] == "1" else "e0"]
                    code = conf.get((0x0202, 0x82))
                    try:
                        cid = ConfigId.create_from_prj_settings(conf)
                    except ConfigIdFormatError:
                        try:
                            cid = ConfigId.create_from_dev_settings(conf)
                        except ConfigIdFormatError:
                            cid = None
                    if code is not None and cid is not None:
                        want.append(f"u{hx(code)}:{cid.version}")
                    got = [b2.show_block(b) for b in f.auth_blocks.values()]
                    if got != want:
                        return f"FAIL step {n}: derived auth blocks {got} instead of {want}"
                tags = [b.tag for b in f.auth_blocks.values()]
                if len(tags) != len(set(tags)):
                    return f"FAIL step {n}: more than one auth block of a kind"
            elif t[0] == "rw":
                # write the file and go on with what is read back (BF3 text; the auth blocks stay with the object)
                key = bytes(range(16))
                out = CStream()
                f.bf3file.write_file(out, key)
                back = Bf3File.read_file(CStream(out.getvalue()), True, key)
                f = Bec2File(back, list(f.auth_blocks.values()), bytes(range(16))) if f.auth_blocks else Bec2File(back, session_key=bytes(range(16)))
                # comment text does not keep blanks at its ends through the text form (C01's subject): go on with what came back
                if {k.strip(): v.strip() for k, v in comments.items()} != {k.strip(): v.strip() for k, v in back.comments.items()}:
                    return f"FAIL step {n}: comments {dict(back.comments)!r:.150} after write / read instead of {comments!r:.150}"
                comments = dict(back.comments)
                cut = lambda c: (c.blob[:c.actual_len], c.actual_len, dict(c.description), bool(c.encrypt_by_session_key))
                got_o = [c for c in back.components if not is_cfg(c)]
                if [cut(c) for c in got_o] != [cut(c) for c in others]:
                    return f"FAIL step {n}: the other components do not come back from write / read as they were"
                others = got_o
                cfgs_b = [c for c in back.components if is_cfg(c)]
                if last_cfg is not None:
                    if len(cfgs_b) != 1:
                        return f"FAIL step {n}: after write / read the file holds {len(cfgs_b)} configuration components"
                    if cut(cfgs_b[0]) != cut(last_cfg):
                        return (f"FAIL step {n}: after write / read the configuration component is {cut(cfgs_b[0])!r:.160} instead of "
                                f"{cut(last_cfg)!r:.160}")
            elif t[0] == "append":
                c = b3.parse_comps(t[1])[0]
                f.bf3file.components.append(c)
                (others.append(c) if not is_cfg(c) else None)
                if is_cfg(c):
                    return "ok n/a (history appends a configuration component by hand)"
            elif t[0] == "insert":
                c = b3.parse_comps(t[2])[0]
                i = int(t[1])
                # position among the non-config components
                before = [x for x in f.bf3file.components[:i] if not is_cfg(x)]
                f.bf3file.components.insert(i, c)
                others.insert(len(before), c)
        except Exception as e:
            return f"ok history-op-raises {type(e).__name__}"
        comps = f.bf3file.components
        cfgs = [c for c in comps if is_cfg(c)]
        if last_cfg is not None and t[0] == "setcfg":
            if len(cfgs) != 1:
                return f"FAIL step {n}: {len(cfgs)} configuration components after set_config"
            if comps[-1] is not cfgs[0]:
                return f"FAIL step {n}: configuration component is not last"
            if cfgs[0].blob != last_cfg.blob or cfgs[0].description != last_cfg.description:
                return f"FAIL step {n}: configuration component does not encode the most recent configuration only"
        got_others = [c for c in comps if not is_cfg(c)]
        if len(got_others) != len(others) or any(a is not b and (a.blob != b.blob or a.description != b.description)
                                                  for a, b in zip(got_others, others)):
            return f"FAIL step {n}: other components changed or reordered"
        if dict(f.bf3file.comments) != comments:
            return f"FAIL step {n}: comments {dict(f.bf3file.comments)!r:.150} instead of {comments!r:.150}"
        if twin.comments or twin.components or twin2.auth_blocks or twin2.bf3file.comments or twin2.bf3file.components:
            return (f"FAIL step {n}: ANOTHER file object, built with the constructor defaults before the history began and never "
                    f"touched, now has comments {dict(twin.comments)!r:.120} / {len(twin.components)} components / "
                    f"{len(twin2.auth_blocks)} auth blocks")
    fresh = Bf3File()
    if fresh.comments or fresh.components:
        return f"FAIL a new Bf3File() starts with comments {dict(fresh.comments)!r:.120} / {len(fresh.components)} components after this history"
    return "ok"
