import Bec2Verif.Props.C13
open Bec2Verif.Props.C13
#print axioms blob_preserved
#print axioms blob_nonzero_start_rejected
#print axioms blob_gap_rejected
#print axioms compat_concat
#print axioms maps_pinned
#print axioms unknown_tagtype_rejected
#print axioms memimage_extents
#print axioms emit_component
#print axioms emit_ignored
#print axioms marker_required
#print axioms emit_empty_rejected
#print axioms ignored_section_swallows_nothing
#print axioms orphan_continuation_rejected
#print axioms filter_text_is_notation_of_filter_bytes
