import Bec2Verif.Props.C08
open Bec2Verif.Props.C08
#print axioms wrap_frame
#print axioms wrap_overflow
#print axioms unwrap_wrap
#print axioms unwrap_wrap_adapter
#print axioms bad_marker_rejected
#print axioms bad_crc_rejected
#print axioms csc_key
#print axioms consts_pinned
#print axioms unwrap_wrap_aes
