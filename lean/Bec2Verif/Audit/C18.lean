import Bec2Verif.Props.C18
open Bec2Verif.C18
#print axioms placeholder
