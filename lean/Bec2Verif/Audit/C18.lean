import Bec2Verif.Props.C18
open Bec2Verif.C18
#print axioms order_exact
#print axioms signatures_verify
#print axioms signatures_verify_partial
#print axioms verifies_is_textbook
#print axioms canonical_s_equivalent
#print axioms out_of_range_rejected
#print axioms out_of_range_is_bad_signature
#print axioms malformed_is_bad_signature
#print axioms string_signature_length
#print axioms string_signature_roundtrip
#print axioms string_signature_encodes
#print axioms der_signature_roundtrip
#print axioms canonical_s
#print axioms rfc6979_nonce_in_range
#print axioms ord23
#print axioms trep23
#print axioms ecdsa23_end_to_end
#print axioms ecdsa_p256_end_to_end
#print axioms order_certified_names
#print axioms ecdsa_on_certified_curves
