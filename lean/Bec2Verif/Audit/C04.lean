import Bec2Verif.Props.C04
open Bec2Verif.Props.C04
#print axioms truncation_rejected
#print axioms extension_rejected
#print axioms written_truncation_rejected
#print axioms written_extension_rejected
#print axioms readBinary_truncation_rejected
#print axioms emac_damage_rejected
#print axioms body_damage_rejected_or_collision
#print axioms payload_damage_rejected_or_collision
#print axioms mac_one_byte_replaced
#print axioms payload_byte_damage_rejected
#print axioms entry_byte_damage_rejected
