import Bec2Verif.Props.C10
open Bec2Verif.Props.C10
#print axioms order_spec
#print axioms tlv_decodes
#print axioms tlv_nonempty
#print axioms tlv_bounded
#print axioms blob_single_terminator
#print axioms set_config_component
#print axioms config_tags_pinned
