import Bec2Verif.Props.C20
open Bec2Verif.C20
#print axioms writer_holds_alone
#print axioms never_deadlocks
#print axioms invariant
#print axioms readers_share
#print axioms no_reader_with_writer
