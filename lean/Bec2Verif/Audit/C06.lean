import Bec2Verif.Props.C06
open Bec2Verif.Props.C06
#print axioms stored_is_ciphertext
#print axioms stored_is_cbc_zero_iv
#print axioms file_payloads_are_stored_bytes
#print axioms read_decrypts
#print axioms noninterference
#print axioms cipher_failure_propagates
#print axioms unregistered_crypto_writes_nothing
#print axioms consts_pinned
#print axioms read_decrypts_aes
