import Bec2Verif.Props.C16
open Bec2Verif.Props.C16
#print axioms S_eq
#print axioms Si_inverts_S
#print axioms T1_eq
#print axioms T2_eq
#print axioms T3_eq
#print axioms T4_eq
#print axioms T5_eq
#print axioms T6_eq
#print axioms T7_eq
#print axioms T8_eq
#print axioms U1_eq
#print axioms U2_eq
#print axioms U3_eq
#print axioms U4_eq
#print axioms rcon_eq
#print axioms rounds_eq
#print axioms table_sizes
#print axioms adapter_encrypt_spec
#print axioms adapter_encrypt_empty
#print axioms adapter_decrypt_unaligned
#print axioms adapter_mac_spec
#print axioms adapter_decrypt_encrypt
#print axioms adapter_ciphertext_len
#print axioms ofbLoop_append
#print axioms consts_pinned
