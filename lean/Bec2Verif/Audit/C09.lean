import Bec2Verif.Props.C09
open Bec2Verif.Props.C09
#print axioms ecc_block_format
#print axioms ecc_authblock_format
#print axioms ecc_decrypt
#print axioms default_recipient
#print axioms published_keys_pinned
#print axioms header_pinned
#print axioms published_keys_on_curve
#print axioms offcurve_rejected
#print axioms decrypt_validates_point
#print axioms p256_ecc_laws
#print axioms ecc_decrypt_shipped
