import Bec2Verif.Props.C17
open Bec2Verif.C17
#print axioms validatePoint_iff
#print axioms validatePoint_error
#print axioms sharedSecret_not_infinity
#print axioms add_correct
#print axioms double_correct
#print axioms neg_correct
#print axioms mul_correct
#print axioms mulAdd_correct
#print axioms add_representation_independent
#print axioms sharedSecret_correct
#print axioms ecdh_agree
#print axioms affine_add_correct
#print axioms affine_double_correct
#print axioms affine_neg_correct
#print axioms inverse_complete
#print axioms mul_total
#print axioms mulAdd_total
#print axioms curveOK_23
#print axioms two_ne_zero_of_odd
#print axioms p256_field_prime
#print axioms p256_order_prime
#print axioms p256_curveOK
#print axioms p256_generator_order
#print axioms p256_generator_mul
