import Bec2Verif.Props.C17
open Bec2Verif.C17
#print axioms validatePoint_iff
#print axioms validatePoint_error
#print axioms sharedSecret_not_infinity
