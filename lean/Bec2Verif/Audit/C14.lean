import Bec2Verif.Props.C14
open Bec2Verif Bec2Verif.C14
#print axioms forbidden_not_allowed
#print axioms readBf3_total
#print axioms readBf3_total_aes
#print axioms readBec2_total
#print axioms p256_eccTotal
#print axioms readBec2_total_p256
#print axioms readBec2_total_p256_noPriv
#print axioms importBf2_total
#print axioms parseConfigId_total
#print axioms formatFilter_total
#print axioms linesOf_covers
