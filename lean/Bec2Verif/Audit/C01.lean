import Bec2Verif.Props.C01
open Bec2Verif.Props.C01
#print axioms fromBinary_toBinary
#print axioms readBinary_writeBinary
#print axioms readBinary_writeBinary_aes
#print axioms consts_pinned
#print axioms text_roundtrip
#print axioms path_newlines
#print axioms readFile_writeFile
#print axioms readFile_writeFile_path
