import Bec2Verif.Props.C05
open Bec2Verif.Props.C05
#print axioms fromBinary_ok_iff
#print axioms readBinary_ok_iff
#print axioms accepted_is_canonical
#print axioms not_wellformed_rejected
#print axioms consts_pinned
