import Bec2Verif.Props.C15
open Bec2Verif.Props.C15
#print axioms step_eq
#print axioms crc_eq
#print axioms crc_eq_default
#print axioms default_start_pinned
