import Bec2Verif.Props.C07
open Bec2Verif.Props.C07
#print axioms every_block_wraps_session_key
#print axioms key_authenticates_body
#print axioms unpack_step_known
#print axioms unpack_step_unknown
#print axioms mixed_keys_rejected
#print axioms unknown_block_preserved
#print axioms unknown_block_tlv_preserved
#print axioms fresh_key_draws
#print axioms supplied_key_draws_nothing
#print axioms successive_keys_disjoint
#print axioms ephemeral_per_ecc_block
