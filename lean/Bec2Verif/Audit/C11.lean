import Bec2Verif.Props.C11
open Bec2Verif.Props.C11
#print axioms set_config_spec
#print axioms set_config_history_independent
#print axioms history_at_most_one
#print axioms history_last_config
#print axioms derive_comments_others
#print axioms derive_auth_fresh
#print axioms derive_auth_one_per_kind
#print axioms derive_comments_last_only
