import Bec2Verif.Props.C02
open Bec2Verif.Props.C02
#print axioms ecc_unpack_pack
#print axioms block_unpack_pack
#print axioms header_unpack_pack
#print axioms bec2_read_write
#print axioms bec2_read_write_plain
#print axioms adapter_instance
#print axioms bec2_read_write_aes
#print axioms bec2_read_write_shipped
#print axioms bec2_readFile_writeFile_shipped
