import Bec2Verif.Props.C19
open Bec2Verif.C19
#print axioms length_roundtrip
#print axioms integer_roundtrip
#print axioms octet_string_roundtrip
#print axioms sequence_roundtrip
#print axioms bitstring_roundtrip
#print axioms constructed_roundtrip
#print axioms truncated_length_rejected
#print axioms truncated_sequence_rejected
#print axioms point_string_roundtrip
#print axioms p256_header_is_der_prefix
#print axioms p256_header_parses
#print axioms p256_raw_of_der
#print axioms compressed_point_roundtrip
#print axioms p256_compressed_point_roundtrip
#print axioms jacobi_is_jacobi_symbol
#print axioms p256_private_key_der_roundtrip
#print axioms oid_roundtrip
#print axioms explicit_parameters_roundtrip
#print axioms explicit_finds_named_curves
#print axioms base64_roundtrip
#print axioms pem_armour_roundtrip
#print axioms p256_public_key_pem_roundtrip
#print axioms p256_private_key_pem_roundtrip
