import Bec2Verif.Props.C12
open Bec2Verif.Props.C12
#print axioms parse_print_numeric
#print axioms print_parse_canonical
#print axioms parse_print_nameonly_partial
#print axioms parse_print_nameonly_witness
#print axioms unparsable
#print axioms fromPrj_spec
#print axioms fromDev_spec
#print axioms consts_pinned
