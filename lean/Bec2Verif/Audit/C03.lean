import Bec2Verif.Props.C03
open Bec2Verif.Props.C03
#print axioms toBinary_eq_layout
#print axioms dirSize_field
#print axioms adr_absolute
#print axioms entryMac_iv
#print axioms payloads_contiguous_to_eof
#print axioms toBinary_wellformed
#print axioms packBlocks_layout
#print axioms bec2_header_layout
#print axioms text_layout
#print axioms consts_pinned
#print axioms aes_instance
