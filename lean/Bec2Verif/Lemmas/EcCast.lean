import Bec2Verif.Lemmas.EcField
import Bec2Verif.Model.EcOps
import Mathlib.Data.ZMod.Basic
import Mathlib.Algebra.Field.ZMod
/-!
Tie between the integer model of python-ecdsa's Jacobian arithmetic (`Model/Ec.lean`: explicit `% p`, zero tests on
integers) and the field-level formulas of `Lemmas/EcField.lean` over `ZMod p`.
-/
set_option linter.style.nameCheck false
namespace Bec2Verif.EcC
open Bec2Verif Ec EcF WeierstrassCurve

variable {p : ℕ} [hp : Fact p.Prime]

/-- the three coordinates in `ZMod p` -/
def cst (t : Triple) : T3 (ZMod p) := ((t.1 : ZMod p), (t.2.1 : ZMod p), (t.2.2 : ZMod p))

theorem cast_emod (p : ℕ) (v : ℤ) : ((v % (p : ℤ) : ℤ) : ZMod p) = (v : ZMod p) := ZMod.intCast_mod v p

theorem ppos : (0 : ℤ) < (p : ℤ) := by exact_mod_cast hp.out.pos

/-- a reduced value is zero as an integer iff it is zero in the field -/
theorem mod_eq_zero_iff (v : ℤ) : v % (p : ℤ) = 0 ↔ (v : ZMod p) = 0 := by
  rw [ZMod.intCast_zmod_eq_zero_iff_dvd]
  exact (Int.dvd_iff_emod_eq_zero).symm

theorem mod_beq_zero (v : ℤ) : (v % (p : ℤ) == 0) = true ↔ (v : ZMod p) = 0 := by
  rw [beq_iff_eq]; exact mod_eq_zero_iff v

theorem mod_beq_zero_false (v : ℤ) : (v % (p : ℤ) == 0) = false ↔ (v : ZMod p) ≠ 0 := by
  rw [Ne, ← mod_beq_zero (p := p)]; simp

/-- raw zero test agrees with the field: holds for every value the library produces (reduced, or a negated reduced) -/
def WFz (p : ℕ) (v : ℤ) : Prop := (v : ZMod p) = 0 → v = 0

theorem wfz_mod (v : ℤ) : WFz p (v % (p : ℤ)) := by
  intro h
  rw [cast_emod] at h
  exact (mod_eq_zero_iff v).mpr h

omit hp in
theorem wfz_neg {v : ℤ} (h : WFz p v) : WFz p (-v) := by
  intro h'
  have : (v : ZMod p) = 0 := by simpa using h'
  simp [h this]

omit hp in
theorem wfz_zero : WFz p 0 := fun _ => rfl
theorem wfz_one : WFz p 1 := by
  intro h
  exfalso
  have : ((1 : ℤ) : ZMod p) = 1 := by simp
  rw [this] at h
  exact one_ne_zero h

theorem wfz_beq {v : ℤ} (h : WFz p v) : (v == 0) = true ↔ (v : ZMod p) = 0 := by
  rw [beq_iff_eq]
  exact ⟨fun h' => by simp [h'], h⟩

/-! ### doubling -/

theorem sq_cast_eq_zero (v : ℤ) : ((v * v : ℤ) : ZMod p) = 0 ↔ (v : ZMod p) = 0 := by
  push_cast
  exact mul_self_eq_zero

/-- `_double_with_z_1`: infinity for `Y = 0`, else the field formula with `Z = 1` -/
theorem cst_doubleZ1 (X1 Y1 a : ℤ) :
    ((Y1 : ZMod p) = 0 → doubleZ1 X1 Y1 p a = (0, 0, 1)) ∧
    ((Y1 : ZMod p) ≠ 0 → cst (p := p) (doubleZ1 X1 Y1 p a) = dbl (X1 : ZMod p) Y1 1 a) := by
  constructor
  · intro h
    have : (Y1 * Y1 % (p : ℤ) == 0) = true := (mod_beq_zero _).mpr ((sq_cast_eq_zero Y1).mpr h)
    simp only [doubleZ1, this, if_true]
  · intro h
    have : (Y1 * Y1 % (p : ℤ) == 0) = false :=
      (mod_beq_zero_false _).mpr (fun h' => h ((sq_cast_eq_zero Y1).mp h'))
    simp only [doubleZ1, this, Bool.false_eq_true, if_false, cst, dbl]
    refine Prod.ext ?_ (Prod.ext ?_ ?_)
    all_goals
      simp only [cast_emod, Int.cast_mul, Int.cast_add, Int.cast_sub, Int.cast_pow, Int.cast_ofNat]
      ring

theorem doubleZ1_wf (X1 Y1 a : ℤ) : WFz p (doubleZ1 X1 Y1 p a).2.1 ∧ WFz p (doubleZ1 X1 Y1 p a).2.2 := by
  unfold doubleZ1
  simp only
  split
  · exact ⟨wfz_zero, wfz_one⟩
  · exact ⟨wfz_mod _, wfz_mod _⟩

theorem double__wf (X1 Y1 Z1 a : ℤ) : WFz p (double_ X1 Y1 Z1 p a).2.1 ∧ WFz p (double_ X1 Y1 Z1 p a).2.2 := by
  unfold double_
  simp only
  split
  · exact doubleZ1_wf _ _ _
  · split
    · exact ⟨wfz_zero, wfz_one⟩
    · split
      · exact ⟨wfz_zero, wfz_one⟩
      · exact ⟨wfz_mod _, wfz_mod _⟩

/-- `_double` -/
theorem cst_double_ (X1 Y1 Z1 a : ℤ) (hY : WFz p Y1) (hZ : WFz p Z1) :
    (((Y1 : ZMod p) = 0 ∨ (Z1 : ZMod p) = 0) → double_ X1 Y1 Z1 p a = (0, 0, 1)) ∧
    ((Y1 : ZMod p) ≠ 0 → (Z1 : ZMod p) ≠ 0 → cst (p := p) (double_ X1 Y1 Z1 p a) = dbl (X1 : ZMod p) Y1 Z1 a) := by
  constructor
  · intro h
    unfold double_
    by_cases hz1 : Z1 = 1
    · simp only [hz1, beq_self_eq_true, if_true]
      have hy : (Y1 : ZMod p) = 0 := by
        rcases h with h | h
        · exact h
        · exfalso; rw [hz1] at h; simp at h
      exact (cst_doubleZ1 X1 Y1 a).1 hy
    · have : (Z1 == 1) = false := by simpa using hz1
      have h' : (Y1 == 0 || Z1 == 0) = true := by
        rcases h with h | h
        · simp [hY h]
        · simp [hZ h]
      simp only [this, Bool.false_eq_true, if_false, h', if_true]
  · intro hy hz
    unfold double_
    by_cases hz1 : Z1 = 1
    · simp only [hz1, beq_self_eq_true, if_true]
      rw [(cst_doubleZ1 X1 Y1 a).2 hy]
      simp
    · have h1 : (Z1 == 1) = false := by simpa using hz1
      have h2 : (Y1 == 0 || Z1 == 0) = false := by
        have a1 : Y1 ≠ 0 := fun h => hy (by simp [h])
        have a2 : Z1 ≠ 0 := fun h => hz (by simp [h])
        simp [a1, a2]
      have h3 : (Y1 * Y1 % (p : ℤ) == 0) = false :=
        (mod_beq_zero_false _).mpr (fun h' => hy ((sq_cast_eq_zero Y1).mp h'))
      simp only [h1, h2, h3, Bool.false_eq_true, if_false, cst, dbl]
      refine Prod.ext ?_ (Prod.ext ?_ ?_)
      all_goals
        try simp only [cast_emod, Int.cast_mul, Int.cast_add, Int.cast_sub, Int.cast_pow, Int.cast_ofNat]
      all_goals
        try ring

/-! ### representation of group elements by integer triples -/

variable {a b : ℤ}

/-- the triple is well-formed (raw zero tests agree with the field) and represents `P` -/
def TRep (p : ℕ) [Fact p.Prime] (a b : ℤ) (P : (W (a : ZMod p) (b : ZMod p)).Point) (t : Triple) : Prop :=
  WFz p t.2.1 ∧ WFz p t.2.2 ∧ Rep P (cst (p := p) t)

/-- what the theorems need from the curve: odd characteristic and no point with `y = 0` (no 2-torsion), which
holds on every curve of odd prime order - the library encodes infinity as `y = 0` -/
structure CurveOK (p : ℕ) [Fact p.Prime] (a b : ℤ) : Prop where
  two : (2 : ZMod p) ≠ 0
  noY0 : ∀ x y : ZMod p, (W (a : ZMod p) (b : ZMod p)).Equation x y → y ≠ 0

theorem trep_inf : TRep p a b 0 (0, 0, 1) := ⟨wfz_zero, wfz_one, Or.inl (by simp [cst])⟩

theorem trep_y_ne (hc : CurveOK p a b) {x y : ZMod p} {h : (W (a : ZMod p) (b : ZMod p)).Nonsingular x y} {t : Triple}
    (ht : TRep p a b (.some x y h) t) : (t.2.1 : ZMod p) ≠ 0 ∧ (t.2.2 : ZMod p) ≠ 0 := by
  obtain ⟨_, _, hZ, _, hY⟩ := ht
  simp only [cst] at hZ hY
  refine ⟨?_, hZ⟩
  rw [hY]
  exact mul_ne_zero (hc.noY0 x y h.1) (pow_ne_zero _ hZ)

/-- `_double` computes `P + P` -/
theorem double__rep (hc : CurveOK p a b) (P : (W (a : ZMod p) (b : ZMod p)).Point) (X Y Z : ℤ)
    (h : TRep p a b P (X, Y, Z)) : TRep p a b (P + P) (double_ X Y Z p a) := by
  have hwf := double__wf (p := p) X Y Z a
  refine ⟨hwf.1, hwf.2, ?_⟩
  obtain ⟨hY, hZ, hr⟩ := h
  have hcd := cst_double_ (p := p) X Y Z a hY hZ
  cases P with
  | zero =>
    have : double_ X Y Z p a = (0, 0, 1) := hcd.1 hr
    rw [this]
    show Rep (0 + 0) _
    rw [add_zero]
    exact Or.inl (by simp [cst])
  | some x y hns =>
    obtain ⟨hy0, hz0⟩ := trep_y_ne hc ⟨hY, hZ, hr⟩
    simp only at hy0 hz0
    rw [hcd.2 hy0 hz0]
    exact rep_dbl hns (hc.noY0 x y hns.1) hc.two _ (dbl_aff hc.two _ x y _ _ _ (hc.noY0 x y hns.1) hr)

/-! ### addition, one lemma per formula variant -/

theorem point_ext {x1 y1 x2 y2 : ZMod p} (h1 : (W (a : ZMod p) (b : ZMod p)).Nonsingular x1 y1)
    (h2 : (W (a : ZMod p) (b : ZMod p)).Nonsingular x2 y2) (hx : x1 = x2) (hy : y1 = y2) :
    Affine.Point.some x1 y1 h1 = Affine.Point.some x2 y2 h2 := by
  subst hx hy; rfl

/-- common conclusion of the three branches of every variant -/
theorem add_branches (hc : CurveOK p a b) {x1 y1 x2 y2 : ZMod p}
    (h1 : (W (a : ZMod p) (b : ZMod p)).Nonsingular x1 y1) (h2 : (W (a : ZMod p) (b : ZMod p)).Nonsingular x2 y2)
    (t : T3 (ZMod p))
    (hsame : x1 = x2 → y1 = y2 → Rep (Affine.Point.some x1 y1 h1 + Affine.Point.some x1 y1 h1) t)
    (hinv : x1 = x2 → y1 ≠ y2 → t.2.2 = 0)
    (hgen : x1 ≠ x2 → Aff (chordX x1 y1 x2 y2) (chordY x1 y1 x2 y2) t) :
    Rep (Affine.Point.some x1 y1 h1 + Affine.Point.some x2 y2 h2) t := by
  by_cases hx : x1 = x2
  · by_cases hy : y1 = y2
    · rw [← point_ext h1 h2 hx hy]
      exact hsame hx hy
    · have hneg : y1 = -y2 := by
        have h2' : (W (a : ZMod p) (b : ZMod p)).Equation x1 y2 := by rw [hx]; exact h2.1
        rcases y_eq_or_neg h1.1 h2' with h | h
        · exact absurd h hy
        · exact h
      rw [add_inverse h1 h2 hx hneg]
      exact Or.inr (hinv hx hy)
  · exact rep_add_of_X_ne h1 h2 hx t (hgen hx)

theorem addZne_rep (hc : CurveOK p a b) {x1 y1 x2 y2 : ZMod p}
    (h1 : (W (a : ZMod p) (b : ZMod p)).Nonsingular x1 y1) (h2 : (W (a : ZMod p) (b : ZMod p)).Nonsingular x2 y2)
    (X1 Y1 Z1 X2 Y2 Z2 : ℤ)
    (hP : TRep p a b (.some x1 y1 h1) (X1, Y1, Z1)) (hQ : TRep p a b (.some x2 y2 h2) (X2, Y2, Z2)) :
    TRep p a b (Affine.Point.some x1 y1 h1 + Affine.Point.some x2 y2 h2) (Ec.addZne X1 Y1 Z1 X2 Y2 Z2 p a) := by
  obtain ⟨hz1, hX1, hY1⟩ := hP.2.2
  obtain ⟨hz2, hX2, hY2⟩ := hQ.2.2
  simp only [cst] at hz1 hX1 hY1 hz2 hX2 hY2
  -- the two zero tests in field terms
  have hH : (X2 * (Z1 * Z1 % (p : ℤ)) % (p : ℤ) - X1 * (Z2 * Z2 % (p : ℤ)) % (p : ℤ) == 0) = true ↔ x1 = x2 := by
    rw [beq_iff_eq, sub_eq_zero, ← ZMod.intCast_eq_intCast_iff']
    simp only [Int.cast_mul, cast_emod, hX1, hX2]
    constructor
    · intro h
      have : (x2 - x1) * ((Z1 : ZMod p) ^ 2 * (Z2 : ZMod p) ^ 2) = 0 := by linear_combination h
      rcases mul_eq_zero.mp this with h | h
      · exact (sub_eq_zero.mp h).symm
      · exact absurd h (mul_ne_zero (pow_ne_zero _ hz1) (pow_ne_zero _ hz2))
    · intro h; rw [h]; ring
  have hR : x1 = x2 → ((2 * (Y2 * Z1 * (Z1 * Z1 % (p : ℤ)) % (p : ℤ) - Y1 * Z2 * (Z2 * Z2 % (p : ℤ)) % (p : ℤ)) % (p : ℤ) == 0) = true
      ↔ y1 = y2) := by
    intro _
    rw [mod_beq_zero]
    simp only [Int.cast_mul, Int.cast_sub, cast_emod, Int.cast_ofNat, hY1, hY2]
    constructor
    · intro h
      have : 2 * ((y2 - y1) * ((Z1 : ZMod p) ^ 3 * (Z2 : ZMod p) ^ 3)) = 0 := by linear_combination h
      rcases mul_eq_zero.mp this with h | h
      · exact absurd h hc.two
      · rcases mul_eq_zero.mp h with h | h
        · exact (sub_eq_zero.mp h).symm
        · exact absurd h (mul_ne_zero (pow_ne_zero _ hz1) (pow_ne_zero _ hz2))
    · intro h; rw [h]; ring
  unfold Ec.addZne
  simp only
  by_cases hx : x1 = x2
  · by_cases hy : y1 = y2
    · -- same point: the formula falls back to `_double`
      have c1 := hH.mpr hx
      have c2 := (hR hx).mpr hy
      simp only [c1, c2, Bool.and_self, if_true]
      rw [← point_ext h1 h2 hx hy]
      exact double__rep hc _ X1 Y1 Z1 hP
    · have c1 := hH.mpr hx
      have c2 : (2 * (Y2 * Z1 * (Z1 * Z1 % (p : ℤ)) % (p : ℤ) - Y1 * Z2 * (Z2 * Z2 % (p : ℤ)) % (p : ℤ)) % (p : ℤ) == 0) = false := by
        rw [Bool.eq_false_iff]; exact fun h => hy ((hR hx).mp h)
      simp only [c1, c2, Bool.and_false, Bool.false_eq_true, if_false]
      refine ⟨wfz_mod _, wfz_mod _, ?_⟩
      refine add_branches hc h1 h2 _ (fun _ h => absurd h hy) (fun _ _ => ?_) (fun h => absurd hx h)
      -- Z3 = (...) * H with H = 0
      simp only [cst, cast_emod, Int.cast_mul, Int.cast_sub]
      have : ((X2 * (Z1 * Z1 % (p : ℤ)) % (p : ℤ) - X1 * (Z2 * Z2 % (p : ℤ)) % (p : ℤ) : ℤ) : ZMod p) = 0 := by
        have := beq_iff_eq.mp c1
        rw [this]; simp
      simp only [Int.cast_sub, cast_emod, Int.cast_mul] at this
      rw [this, mul_zero]
  · have c1 : (X2 * (Z1 * Z1 % (p : ℤ)) % (p : ℤ) - X1 * (Z2 * Z2 % (p : ℤ)) % (p : ℤ) == 0) = false := by
      rw [Bool.eq_false_iff]; exact fun h => hx (hH.mp h)
    simp only [c1, Bool.false_and, Bool.false_eq_true, if_false]
    refine ⟨wfz_mod _, wfz_mod _, ?_⟩
    refine rep_add_of_X_ne h1 h2 hx _ ?_
    have := addZne_aff hc.two x1 y1 x2 y2 _ _ _ _ _ _ hx hP.2.2 hQ.2.2
    convert this using 1
    simp only [cst, EcF.addZne]
    refine Prod.ext ?_ (Prod.ext ?_ ?_)
    all_goals
      try simp only [cast_emod, Int.cast_mul, Int.cast_add, Int.cast_sub, Int.cast_pow, Int.cast_ofNat]
    all_goals
      try ring

theorem double_Z1 (X Y a' : ℤ) : double_ X Y 1 p a' = doubleZ1 X Y p a' := by
  simp [double_]

theorem addZ2_1_rep (hc : CurveOK p a b) {x1 y1 x2 y2 : ZMod p}
    (h1 : (W (a : ZMod p) (b : ZMod p)).Nonsingular x1 y1) (h2 : (W (a : ZMod p) (b : ZMod p)).Nonsingular x2 y2)
    (X1 Y1 Z1 X2 Y2 : ℤ)
    (hP : TRep p a b (.some x1 y1 h1) (X1, Y1, Z1)) (hQ : TRep p a b (.some x2 y2 h2) (X2, Y2, 1)) :
    TRep p a b (Affine.Point.some x1 y1 h1 + Affine.Point.some x2 y2 h2) (Ec.addZ2_1 X1 Y1 Z1 X2 Y2 p a) := by
  obtain ⟨hz1, hX1, hY1⟩ := hP.2.2
  obtain ⟨_, hX2, hY2⟩ := hQ.2.2
  simp only [cst, Int.cast_one, one_pow, mul_one] at hz1 hX1 hY1 hX2 hY2
  have hH : ((X2 * (Z1 * Z1 % (p : ℤ)) % (p : ℤ) - X1) % (p : ℤ) == 0) = true ↔ x1 = x2 := by
    rw [mod_beq_zero]
    simp only [Int.cast_sub, Int.cast_mul, cast_emod, hX1, hX2]
    constructor
    · intro h
      have : (x2 - x1) * (Z1 : ZMod p) ^ 2 = 0 := by linear_combination h
      rcases mul_eq_zero.mp this with h | h
      · exact (sub_eq_zero.mp h).symm
      · exact absurd h (pow_ne_zero _ hz1)
    · intro h; rw [h]; ring
  have hR : (2 * (Y2 * Z1 * (Z1 * Z1 % (p : ℤ)) % (p : ℤ) - Y1) % (p : ℤ) == 0) = true ↔ y1 = y2 := by
    rw [mod_beq_zero]
    simp only [Int.cast_mul, Int.cast_sub, cast_emod, Int.cast_ofNat, hY1, hY2]
    constructor
    · intro h
      have : 2 * ((y2 - y1) * (Z1 : ZMod p) ^ 3) = 0 := by linear_combination h
      rcases mul_eq_zero.mp this with h | h
      · exact absurd h hc.two
      · rcases mul_eq_zero.mp h with h | h
        · exact (sub_eq_zero.mp h).symm
        · exact absurd h (pow_ne_zero _ hz1)
    · intro h; rw [h]; ring
  unfold Ec.addZ2_1
  simp only
  by_cases hx : x1 = x2
  · by_cases hy : y1 = y2
    · have c1 := hH.mpr hx
      have c2 := hR.mpr hy
      simp only [c1, c2, Bool.and_self, if_true]
      rw [point_ext h1 h2 hx hy, ← double_Z1]
      exact double__rep hc _ X2 Y2 1 hQ
    · have c1 := hH.mpr hx
      have c2 : (2 * (Y2 * Z1 * (Z1 * Z1 % (p : ℤ)) % (p : ℤ) - Y1) % (p : ℤ) == 0) = false := by
        rw [Bool.eq_false_iff]; exact fun h => hy (hR.mp h)
      simp only [c1, c2, Bool.false_and, Bool.false_eq_true, if_false]
      refine ⟨wfz_mod _, wfz_mod _, ?_⟩
      refine add_branches hc h1 h2 _ (fun _ h => absurd h hy) (fun _ _ => ?_) (fun h => absurd hx h)
      have hH0 : ((X2 * (Z1 * Z1 % (p : ℤ)) % (p : ℤ) - X1 : ℤ) : ZMod p) = 0 := (mod_beq_zero _).mp c1
      simp only [Int.cast_sub, Int.cast_mul, cast_emod] at hH0
      simp only [cst, cast_emod, Int.cast_mul, Int.cast_sub, Int.cast_add, Int.cast_pow]
      rw [hH0]; ring
  · have c1 : ((X2 * (Z1 * Z1 % (p : ℤ)) % (p : ℤ) - X1) % (p : ℤ) == 0) = false := by
      rw [Bool.eq_false_iff]; exact fun h => hx (hH.mp h)
    simp only [c1, Bool.and_false, Bool.false_eq_true, if_false]
    refine ⟨wfz_mod _, wfz_mod _, ?_⟩
    refine rep_add_of_X_ne h1 h2 hx _ ?_
    have hq : Aff x2 y2 ((X2 : ZMod p), (Y2 : ZMod p), (1 : ZMod p)) := by
      have := hQ.2.2
      simpa [cst, Rep] using this
    have := addZ2_1_aff hc.two x1 y1 x2 y2 _ _ _ _ _ hx hP.2.2 hq
    convert this using 1
    simp only [cst, EcF.addZ2_1]
    refine Prod.ext ?_ (Prod.ext ?_ ?_)
    all_goals
      try simp only [cast_emod, Int.cast_mul, Int.cast_add, Int.cast_sub, Int.cast_pow, Int.cast_ofNat]
    all_goals
      try ring

theorem addZeq_rep (hc : CurveOK p a b) {x1 y1 x2 y2 : ZMod p}
    (h1 : (W (a : ZMod p) (b : ZMod p)).Nonsingular x1 y1) (h2 : (W (a : ZMod p) (b : ZMod p)).Nonsingular x2 y2)
    (X1 Y1 Z1 X2 Y2 : ℤ)
    (hP : TRep p a b (.some x1 y1 h1) (X1, Y1, Z1)) (hQ : TRep p a b (.some x2 y2 h2) (X2, Y2, Z1)) :
    TRep p a b (Affine.Point.some x1 y1 h1 + Affine.Point.some x2 y2 h2) (Ec.addZeq X1 Y1 Z1 X2 Y2 p a) := by
  obtain ⟨hz1, hX1, hY1⟩ := hP.2.2
  obtain ⟨_, hX2, hY2⟩ := hQ.2.2
  simp only [cst] at hz1 hX1 hY1 hX2 hY2
  have hA : ((X2 - X1) ^ 2 % (p : ℤ) == 0) = true ↔ x1 = x2 := by
    rw [mod_beq_zero]
    simp only [Int.cast_sub, Int.cast_pow, hX1, hX2]
    constructor
    · intro h
      have : ((x2 - x1) * (Z1 : ZMod p) ^ 2) ^ 2 = 0 := by linear_combination h
      rcases mul_eq_zero.mp ((pow_eq_zero_iff (two_ne_zero)).mp this) with h | h
      · exact (sub_eq_zero.mp h).symm
      · exact absurd h (pow_ne_zero _ hz1)
    · intro h; rw [h]; ring
  have hD : ((Y2 - Y1) ^ 2 % (p : ℤ) == 0) = true ↔ y1 = y2 := by
    rw [mod_beq_zero]
    simp only [Int.cast_sub, Int.cast_pow, hY1, hY2]
    constructor
    · intro h
      have : ((y2 - y1) * (Z1 : ZMod p) ^ 3) ^ 2 = 0 := by linear_combination h
      rcases mul_eq_zero.mp ((pow_eq_zero_iff (two_ne_zero)).mp this) with h | h
      · exact (sub_eq_zero.mp h).symm
      · exact absurd h (pow_ne_zero _ hz1)
    · intro h; rw [h]; ring
  unfold Ec.addZeq
  simp only
  by_cases hx : x1 = x2
  · by_cases hy : y1 = y2
    · have c1 := hA.mpr hx
      have c2 := hD.mpr hy
      simp only [c1, c2, Bool.and_self, if_true]
      rw [← point_ext h1 h2 hx hy]
      exact double__rep hc _ X1 Y1 Z1 hP
    · have c1 := hA.mpr hx
      have c2 : ((Y2 - Y1) ^ 2 % (p : ℤ) == 0) = false := by
        rw [Bool.eq_false_iff]; exact fun h => hy (hD.mp h)
      simp only [c1, c2, Bool.and_false, Bool.false_eq_true, if_false]
      refine ⟨wfz_mod _, wfz_mod _, ?_⟩
      refine add_branches hc h1 h2 _ (fun _ h => absurd h hy) (fun _ _ => ?_) (fun h => absurd hx h)
      simp only [cst, cast_emod, Int.cast_mul, Int.cast_sub, hX1, hX2, hx]
      ring
  · have c1 : ((X2 - X1) ^ 2 % (p : ℤ) == 0) = false := by
      rw [Bool.eq_false_iff]; exact fun h => hx (hA.mp h)
    simp only [c1, Bool.false_and, Bool.false_eq_true, if_false]
    refine ⟨wfz_mod _, wfz_mod _, ?_⟩
    refine rep_add_of_X_ne h1 h2 hx _ ?_
    have := addZeq_aff x1 y1 x2 y2 _ _ _ _ _ hx hP.2.2 hQ.2.2
    convert this using 1
    simp only [cst, EcF.addZeq]
    refine Prod.ext ?_ (Prod.ext ?_ ?_)
    all_goals
      try simp only [cast_emod, Int.cast_mul, Int.cast_add, Int.cast_sub, Int.cast_pow, Int.cast_ofNat]
    all_goals
      try ring

theorem addZ1_rep (hc : CurveOK p a b) {x1 y1 x2 y2 : ZMod p}
    (h1 : (W (a : ZMod p) (b : ZMod p)).Nonsingular x1 y1) (h2 : (W (a : ZMod p) (b : ZMod p)).Nonsingular x2 y2)
    (X1 Y1 X2 Y2 : ℤ)
    (hP : TRep p a b (.some x1 y1 h1) (X1, Y1, 1)) (hQ : TRep p a b (.some x2 y2 h2) (X2, Y2, 1)) :
    TRep p a b (Affine.Point.some x1 y1 h1 + Affine.Point.some x2 y2 h2) (Ec.addZ1 X1 Y1 X2 Y2 p a) := by
  obtain ⟨_, hX1, hY1⟩ := hP.2.2
  obtain ⟨_, hX2, hY2⟩ := hQ.2.2
  simp only [cst, Int.cast_one, one_pow, mul_one] at hX1 hY1 hX2 hY2
  have hH : ((X2 - X1) % (p : ℤ) == 0) = true ↔ x1 = x2 := by
    rw [mod_beq_zero]
    simp only [Int.cast_sub, hX1, hX2]
    exact ⟨fun h => (sub_eq_zero.mp h).symm, fun h => by rw [h]; ring⟩
  have hR : (2 * (Y2 - Y1) % (p : ℤ) == 0) = true ↔ y1 = y2 := by
    rw [mod_beq_zero]
    simp only [Int.cast_mul, Int.cast_sub, Int.cast_ofNat, hY1, hY2]
    constructor
    · intro h
      rcases mul_eq_zero.mp h with h | h
      · exact absurd h hc.two
      · exact (sub_eq_zero.mp h).symm
    · intro h; rw [h]; ring
  unfold Ec.addZ1
  simp only
  by_cases hx : x1 = x2
  · by_cases hy : y1 = y2
    · have c1 := hH.mpr hx
      have c2 := hR.mpr hy
      simp only [c1, c2, Bool.and_self, if_true]
      rw [← point_ext h1 h2 hx hy, ← double_Z1]
      exact double__rep hc _ X1 Y1 1 hP
    · have c1 := hH.mpr hx
      have c2 : (2 * (Y2 - Y1) % (p : ℤ) == 0) = false := by
        rw [Bool.eq_false_iff]; exact fun h => hy (hR.mp h)
      simp only [c1, c2, Bool.and_false, Bool.false_eq_true, if_false]
      refine ⟨wfz_mod _, wfz_mod _, ?_⟩
      refine add_branches hc h1 h2 _ (fun _ h => absurd h hy) (fun _ _ => ?_) (fun h => absurd hx h)
      simp only [cst, cast_emod, Int.cast_mul, Int.cast_sub, Int.cast_ofNat, hX1, hX2, hx]
      ring
  · have c1 : ((X2 - X1) % (p : ℤ) == 0) = false := by
      rw [Bool.eq_false_iff]; exact fun h => hx (hH.mp h)
    simp only [c1, Bool.false_and, Bool.false_eq_true, if_false]
    refine ⟨wfz_mod _, wfz_mod _, ?_⟩
    refine rep_add_of_X_ne h1 h2 hx _ ?_
    have := addZ1_aff hc.two x1 y1 x2 y2 hx
    convert this using 1
    simp only [cst, EcF.addZ1]
    refine Prod.ext ?_ (Prod.ext ?_ ?_)
    all_goals
      try simp only [cast_emod, Int.cast_mul, Int.cast_add, Int.cast_sub, Int.cast_pow, Int.cast_ofNat, hX1, hX2, hY1, hY2]
    all_goals
      try ring

/-! ### `_add`: dispatch on the scalings -/

/-- for a well-formed triple the library's infinity test (`not Y or not Z`) decides whether it represents zero -/
theorem trep_isInf (hc : CurveOK p a b) {P : (W (a : ZMod p) (b : ZMod p)).Point} {X Y Z : ℤ} (h : TRep p a b P (X, Y, Z)) :
    (Y == 0 || Z == 0) = true ↔ P = 0 := by
  obtain ⟨hY, hZ, hr⟩ := h
  simp only at hY hZ
  cases P with
  | zero =>
    refine ⟨fun _ => rfl, fun _ => ?_⟩
    rcases hr with h | h
    · simp [cst] at h; simp [hY h]
    · simp [cst] at h; simp [hZ h]
  | some x y hns =>
    obtain ⟨hy0, hz0⟩ := trep_y_ne hc ⟨hY, hZ, hr⟩
    simp only at hy0 hz0
    constructor
    · intro h
      exfalso
      simp only [Bool.or_eq_true, beq_iff_eq] at h
      rcases h with h | h
      · exact hy0 (by simp [h])
      · exact hz0 (by simp [h])
    · intro h; exact absurd h (Affine.Point.some_ne_zero _)

theorem add__rep (hc : CurveOK p a b) (P Q : (W (a : ZMod p) (b : ZMod p)).Point) (X1 Y1 Z1 X2 Y2 Z2 : ℤ)
    (hP : TRep p a b P (X1, Y1, Z1)) (hQ : TRep p a b Q (X2, Y2, Z2)) :
    TRep p a b (P + Q) (add_ X1 Y1 Z1 X2 Y2 Z2 p a) := by
  unfold add_
  by_cases i1 : (Y1 == 0 || Z1 == 0) = true
  · simp only [i1, if_true]
    rw [(trep_isInf hc hP).mp i1, zero_add]
    exact hQ
  · simp only [i1, Bool.false_eq_true, if_false]
    by_cases i2 : (Y2 == 0 || Z2 == 0) = true
    · simp only [i2, if_true]
      rw [(trep_isInf hc hQ).mp i2, add_zero]
      exact hP
    · simp only [i2, Bool.false_eq_true, if_false]
      have hP0 : P ≠ 0 := fun h => i1 ((trep_isInf hc hP).mpr h)
      have hQ0 : Q ≠ 0 := fun h => i2 ((trep_isInf hc hQ).mpr h)
      cases P with
      | zero => exact absurd rfl hP0
      | some x1 y1 h1 =>
        cases Q with
        | zero => exact absurd rfl hQ0
        | some x2 y2 h2 =>
          by_cases e12 : Z1 = Z2
          · subst e12
            simp only [beq_self_eq_true, if_true]
            by_cases e1 : Z1 = 1
            · subst e1
              simp only [beq_self_eq_true, if_true]
              exact addZ1_rep hc h1 h2 _ _ _ _ hP hQ
            · have : (Z1 == 1) = false := by simpa using e1
              simp only [this, Bool.false_eq_true, if_false]
              exact addZeq_rep hc h1 h2 _ _ _ _ _ hP hQ
          · have : (Z1 == Z2) = false := by simpa using e12
            simp only [this, Bool.false_eq_true, if_false]
            by_cases e1 : Z1 = 1
            · subst e1
              simp only [beq_self_eq_true, if_true]
              rw [add_comm]
              exact addZ2_1_rep hc h2 h1 _ _ _ _ _ hQ hP
            · have : (Z1 == 1) = false := by simpa using e1
              simp only [this, Bool.false_eq_true, if_false]
              by_cases e2 : Z2 = 1
              · subst e2
                simp only [beq_self_eq_true, if_true]
                exact addZ2_1_rep hc h1 h2 _ _ _ _ _ hP hQ
              · have : (Z2 == 1) = false := by simpa using e2
                simp only [this, Bool.false_eq_true, if_false]
                exact addZne_rep hc h1 h2 _ _ _ _ _ _ hP hQ

/-! ### the point objects -/

/-- a `PointJacobi` object / the module-level `INFINITY` represents a group element -/
def PRep (p : ℕ) [Fact p.Prime] (a b : ℤ) (P : (W (a : ZMod p) (b : ZMod p)).Point) : Pt → Prop
  | .inf => P = 0
  | .jac X Y Z => TRep p a b P (X, Y, Z)

theorem wrap_rep (hc : CurveOK p a b) {P : (W (a : ZMod p) (b : ZMod p)).Point} {t : Triple} (h : TRep p a b P t) :
    PRep p a b P (wrap t) := by
  obtain ⟨X, Y, Z⟩ := t
  unfold wrap
  by_cases i : (Y == 0 || Z == 0) = true
  · simp only [i, if_true]
    exact (trep_isInf hc h).mp i
  · simp only [i, Bool.false_eq_true, if_false]
    exact h

theorem isInf_rep (hc : CurveOK p a b) {P : (W (a : ZMod p) (b : ZMod p)).Point} {pt : Pt} (h : PRep p a b P pt) :
    isInf pt = true ↔ P = 0 := by
  cases pt with
  | inf => exact ⟨fun _ => h, fun _ => rfl⟩
  | jac X Y Z => exact trep_isInf hc h

/-- `__add__` is the group addition, whatever the representations of the operands are -/
theorem add_rep (hc : CurveOK p a b) (c : Curve) (hcp : c.p = p) (hca : c.a = a)
    {P Q : (W (a : ZMod p) (b : ZMod p)).Point} {pt qt : Pt}
    (hP : PRep p a b P pt) (hQ : PRep p a b Q qt) : PRep p a b (P + Q) (Ec.add c pt qt) := by
  unfold Ec.add
  by_cases i1 : isInf pt = true
  · simp only [i1, if_true]
    rw [(isInf_rep hc hP).mp i1, zero_add]; exact hQ
  · simp only [i1, Bool.false_eq_true, if_false]
    by_cases i2 : isInf qt = true
    · simp only [i2, if_true]
      rw [(isInf_rep hc hQ).mp i2, add_zero]; exact hP
    · simp only [i2, Bool.false_eq_true, if_false]
      cases pt with
      | inf => exact absurd rfl i1
      | jac X1 Y1 Z1 =>
        cases qt with
        | inf => exact absurd rfl i2
        | jac X2 Y2 Z2 =>
          simp only [hcp, hca]
          exact wrap_rep hc (add__rep hc P Q _ _ _ _ _ _ hP hQ)

/-- `double()` -/
theorem double_rep (hc : CurveOK p a b) (c : Curve) (hcp : c.p = p) (hca : c.a = a)
    {P : (W (a : ZMod p) (b : ZMod p)).Point} {pt : Pt} (hP : PRep p a b P pt) :
    PRep p a b (P + P) (Ec.double c pt) := by
  cases pt with
  | inf =>
    have : P = 0 := hP
    subst this
    simp only [Ec.double, add_zero]
    rfl
  | jac X Y Z =>
    unfold Ec.double
    by_cases i : (Y == 0) = true
    · simp only [i, if_true]
      have : (Y == 0 || Z == 0) = true := by simp [i]
      rw [(trep_isInf hc hP).mp this, add_zero]
      rfl
    · simp only [i, Bool.false_eq_true, if_false, hcp, hca]
      exact wrap_rep hc (double__rep hc P _ _ _ hP)

/-- `__neg__`: the stored `-Y` is not reduced, the value is the group inverse -/
theorem neg_rep {P : (W (a : ZMod p) (b : ZMod p)).Point} {pt : Pt} (hP : PRep p a b P pt) :
    PRep p a b (-P) (Ec.neg pt) := by
  cases pt with
  | inf =>
    have : P = 0 := hP
    subst this
    simp only [Ec.neg, neg_zero]
    rfl
  | jac X Y Z =>
    obtain ⟨hY, hZ, hr⟩ := hP
    refine ⟨wfz_neg hY, hZ, ?_⟩
    cases P with
    | zero =>
      show Rep 0 _
      rcases hr with h | h
      · left; simp only [cst] at h ⊢; simp [h]
      · right; exact h
    | some x y hns =>
      rw [Affine.Point.neg_some]
      obtain ⟨hz, hX, hY'⟩ := hr
      refine ⟨hz, hX, ?_⟩
      simp only [cst, W_negY] at hY' ⊢
      push_cast
      rw [hY']
      ring

end Bec2Verif.EcC
