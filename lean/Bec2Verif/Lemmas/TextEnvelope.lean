import Bec2Verif.Model.Text
/-!
The text envelope of BF3/BEC2 files: `parse_bf3_file ∘ write_bf3_format = id` on well-formed comments and every binary,
through a stream and through a path (CRLF translation on writing, universal newlines on reading).
-/
namespace Bec2Verif.Text
open Bec2Verif

set_option maxRecDepth 100000

/-! ### lines -/

theorem readLine_append (l rest : Str) (h : '\n' ∉ l) : readLine (l ++ ['\n'] ++ rest) = (l ++ ['\n'], rest) := by
  induction l with
  | nil => simp [readLine]
  | cons c cs ih =>
    have hc : c ≠ '\n' := fun h' => h (by simp [h'])
    have hcs : '\n' ∉ cs := fun h' => h (by simp [h'])
    simp only [List.cons_append, readLine, hc, if_false]
    rw [ih hcs]

theorem splitColon_append (k r : Str) (h : ':' ∉ k) : splitColon (k ++ [':'] ++ r) = some (k, r) := by
  induction k with
  | nil => simp [splitColon]
  | cons c cs ih =>
    have hc : c ≠ ':' := fun h' => h (by simp [h'])
    have hcs : ':' ∉ cs := fun h' => h (by simp [h'])
    simp only [List.cons_append, splitColon, hc, if_false]
    rw [ih hcs]
    rfl

theorem isSpace_sp : isSpace ' ' = true := by decide
theorem isSpace_nl : isSpace '\n' = true := by decide

/-- a value without leading or trailing whitespace -/
def Stripped (v : Str) : Prop := (∀ c, v.head? = some c → isSpace c = false) ∧ (∀ c, v.getLast? = some c → isSpace c = false)

theorem dropWhile_stripped (v : Str) (h : ∀ c, v.head? = some c → isSpace c = false) : v.dropWhile isSpace = v := by
  cases v with
  | nil => rfl
  | cons c cs => simp [List.dropWhile, h c rfl]

theorem strip_framed (v : Str) (h : Stripped v) : strip ([' '] ++ v ++ ['\n']) = v := by
  unfold strip
  cases v with
  | nil => simp [List.dropWhile, isSpace_sp, isSpace_nl]
  | cons c cs =>
    have h1 : ([' '] ++ (c :: cs) ++ ['\n']).dropWhile isSpace = (c :: cs) ++ ['\n'] := by
      simp [List.dropWhile, isSpace_sp, h.1 c rfl]
    rw [h1, List.reverse_append]
    have h2 : (['\n'].reverse ++ (c :: cs).reverse).dropWhile isSpace = (c :: cs).reverse := by
      simp only [List.reverse_cons, List.reverse_nil, List.nil_append, List.singleton_append, List.dropWhile, isSpace_nl]
      apply dropWhile_stripped
      intro d hd
      apply h.2 d
      rw [List.getLast?_eq_head?_reverse]
      simpa using hd
    rw [h2, List.reverse_reverse]

/-! ### the comment block -/

/-- well-formed comments: keys without `:` and newline, values without newline and without outer whitespace, keys distinct -/
structure CommentsWF (cs : List (Str × Str)) : Prop where
  keyOK : ∀ kv ∈ cs, ':' ∉ kv.1 ∧ '\n' ∉ kv.1
  valOK : ∀ kv ∈ cs, '\n' ∉ kv.2 ∧ Stripped kv.2
  nodup : (cs.map Prod.fst).Nodup

def commentText (cs : List (Str × Str)) : Str := cs.flatMap fun (k, v) => k ++ [':', ' '] ++ v ++ ['\n']

theorem dictSet_new (acc : List (Str × Str)) (k v : Str) (h : k ∉ acc.map Prod.fst) : dictSet acc k v = acc ++ [(k, v)] := by
  induction acc with
  | nil => rfl
  | cons x xs ih =>
    obtain ⟨k', v'⟩ := x
    have hne : (k' == k) = false := by
      simp only [beq_eq_false_iff_ne]
      intro h'; exact h (by simp [h'])
    simp only [dictSet, hne, Bool.false_eq_true, if_false, List.cons_append]
    rw [ih (fun h' => h (by simp [h']))]

theorem parseComments_write (cs : List (Str × Str)) (acc : List (Str × Str)) (rest : Str) (fuel : Nat)
    (hwf : CommentsWF cs) (hdis : ∀ kv ∈ cs, kv.1 ∉ acc.map Prod.fst) (hf : cs.length < fuel) :
    parseComments fuel (commentText cs ++ ['\n'] ++ rest) acc = .ok (acc ++ cs, rest) := by
  induction cs generalizing acc fuel with
  | nil =>
    cases fuel with
    | zero => omega
    | succ f => simp [commentText, parseComments, readLine]
  | cons kv cs ih =>
    obtain ⟨k, v⟩ := kv
    cases fuel with
    | zero => omega
    | succ f =>
      have hk := hwf.keyOK (k, v) (by simp)
      have hv := hwf.valOK (k, v) (by simp)
      have hline : commentText ((k, v) :: cs) ++ ['\n'] ++ rest =
          (k ++ [':', ' '] ++ v) ++ ['\n'] ++ (commentText cs ++ ['\n'] ++ rest) := by
        simp [commentText]
      have hnl : '\n' ∉ k ++ [':', ' '] ++ v := by
        simp only [List.mem_append, List.mem_cons, List.not_mem_nil, or_false, not_or]
        exact ⟨⟨hk.2, by decide, by decide⟩, hv.1⟩
      unfold parseComments
      rw [hline, readLine_append _ _ hnl]
      simp only
      have hne : ¬ (k ++ [':', ' '] ++ v ++ ['\n'] = ['\n']) := by
        intro h
        have := congrArg List.length h
        simp at this
        omega
      rw [if_neg hne]
      have hsp : k ++ [':', ' '] ++ v ++ ['\n'] = k ++ [':'] ++ ([' '] ++ v ++ ['\n']) := by simp
      rw [hsp, splitColon_append k _ hk.1]
      simp only
      rw [strip_framed v hv.2, dictSet_new acc k v (hdis (k, v) (by simp))]
      have hwf' : CommentsWF cs := ⟨fun x hx => hwf.keyOK x (by simp [hx]), fun x hx => hwf.valOK x (by simp [hx]),
        (List.nodup_cons.mp hwf.nodup).2⟩
      rw [ih (acc ++ [(k, v)]) f hwf' ?_ (by simp at hf; omega)]
      · simp
      · intro x hx
        simp only [List.map_append, List.map_cons, List.map_nil, List.mem_append, List.mem_singleton, not_or]
        refine ⟨hdis x (by simp [hx]), ?_⟩
        intro h
        have := (List.nodup_cons.mp hwf.nodup).1
        apply this
        rw [← h]
        exact List.mem_map.mpr ⟨x, hx, rfl⟩

/-! ### the hex block -/

theorem hexVal_digit : ∀ n, n < 16 → hexVal (hexDigitUpper n) = some n ∧ isHexNoise (hexDigitUpper n) = false := by
  decide

theorem noise_nl : isHexNoise '\n' = true := by decide

theorem filter_hexUpper (bs : Bytes) : (hexUpper bs).filter (fun c => !isHexNoise c) = hexUpper bs := by
  induction bs with
  | nil => rfl
  | cons b bs ih =>
    have h1 := (hexVal_digit (b.toNat / 16) (by have := b.toNat_lt; omega)).2
    have h2 := (hexVal_digit (b.toNat % 16) (by omega)).2
    simp only [hexUpper, List.flatMap_cons, List.cons_append, List.nil_append, List.filter_cons, h1, h2, Bool.not_false,
      if_true] at ih ⊢
    rw [ih]

theorem hexUpper_append (a b : Bytes) : hexUpper (a ++ b) = hexUpper a ++ hexUpper b := by
  simp [hexUpper, List.flatMap_append]

theorem filter_hexLinesAux (w n : Nat) (bs : Bytes) (hw : 0 < w) (hn : bs.length ≤ n * w) :
    (hexLinesAux w n bs).filter (fun c => !isHexNoise c) = hexUpper bs := by
  induction n generalizing bs with
  | zero =>
    have : bs = [] := List.length_eq_zero_iff.mp (by omega)
    subst this; rfl
  | succ n ih =>
    simp only [hexLinesAux, List.filter_append, filter_hexUpper, List.filter_cons, noise_nl, Bool.not_true,
      Bool.false_eq_true, if_false, List.filter_nil, List.append_nil]
    rw [ih (bs.drop w) (by simp only [List.length_drop]; rw [Nat.succ_mul] at hn; omega), ← hexUpper_append,
      List.take_append_drop]

theorem hexUpper_length (bs : Bytes) : (hexUpper bs).length = 2 * bs.length := by
  induction bs with
  | nil => rfl
  | cons b bs ih => simp only [hexUpper, List.flatMap_cons, List.length_append, List.length_cons, List.length_nil] at ih ⊢; omega

theorem unhexlify_hexUpper (bs : Bytes) : unhexlify (hexUpper bs) = .ok bs := by
  induction bs with
  | nil => rfl
  | cons b bs ih =>
    have h1 := (hexVal_digit (b.toNat / 16) (by have := b.toNat_lt; omega)).1
    have h2 := (hexVal_digit (b.toNat % 16) (by omega)).1
    have : hexUpper (b :: bs) = hexDigitUpper (b.toNat / 16) :: hexDigitUpper (b.toNat % 16) :: hexUpper bs := by
      simp [hexUpper]
    rw [this]
    simp only [unhexlify, h1, h2, ih, bind, Except.bind, pure, Except.pure]
    congr 2
    have : b.toNat / 16 * 16 + b.toNat % 16 = b.toNat := by omega
    rw [this]
    simp

theorem hex2bin_hexLines (raw : Bytes) : hex2bin (hexLines raw) = .ok raw := by
  unfold hex2bin hexLines
  have hw : Gen.END_OF_LINE / 2 = 40 := by decide
  simp only [hw]
  rw [filter_hexLinesAux 40 _ raw (by omega) (by omega)]
  have heven : (hexUpper raw).length % 2 = 0 := by rw [hexUpper_length]; omega
  have : ¬ ((hexUpper raw).length % 2 = 1) := by omega
  simp only [this, if_false]
  exact unhexlify_hexUpper raw

/-! ### the file -/

theorem commentText_length_ge (cs : List (Str × Str)) : cs.length ≤ (commentText cs).length := by
  induction cs with
  | nil => simp [commentText]
  | cons kv cs ih =>
    obtain ⟨k, v⟩ := kv
    simp only [commentText, List.flatMap_cons, List.length_append, List.length_cons, List.length_nil] at ih ⊢
    omega

/-- **`parse_bf3_file ∘ write_bf3_format = id`** through a stream -/
theorem parseText_writeText (cs : List (Str × Str)) (raw : Bytes) (hwf : CommentsWF cs) :
    parseText (writeText cs raw) = .ok (cs, raw) := by
  unfold parseText writeText
  have hshape : (cs.flatMap fun (k, v) => k ++ [':', ' '] ++ v ++ ['\n']) = commentText cs := rfl
  rw [hshape, parseComments_write cs [] (hexLines raw) _ hwf (by intro kv _; simp) (by
    have := commentText_length_ge cs
    simp only [List.length_append, List.length_cons, List.length_nil]
    omega)]
  simp only [bind, Except.bind, List.nil_append, hex2bin_hexLines, pure, Except.pure]

/-! ### through a path: `newline="\r\n"` on writing, universal newlines on reading -/

theorem universal_toCRLF (s : Str) (h : '\r' ∉ s) : universalNewlines (toCRLF s) = s := by
  induction s with
  | nil => rfl
  | cons c cs ih =>
    have hc : c ≠ '\r' := fun h' => h (by simp [h'])
    have hcs : '\r' ∉ cs := fun h' => h (by simp [h'])
    by_cases hn : c = '\n'
    · subst hn
      simp only [toCRLF, List.flatMap_cons, if_true, List.cons_append, List.nil_append, universalNewlines]
      congr 1
      exact ih hcs
    · have : toCRLF (c :: cs) = c :: toCRLF cs := by simp [toCRLF, hn]
      rw [this, universalNewlines.eq_4 c _ (fun r h _ => hc h) (fun h => hc h), ih hcs]

end Bec2Verif.Text
