import Bec2Verif.Lemmas.AesInv
/-!
The key schedule loop of `pyaes` (`AES.__init__`: the `tk` array, `rcon` pointer, the `KC`-dependent branches) produces
the words of FIPS-197's KeyExpansion (Fig. 11), for 128-, 192- and 256-bit keys.
-/
namespace Bec2Verif.AesW
open Bec2Verif Bec2Verif.Aes Bec2Verif.Gen Bec2Verif.Spec.Gf Bec2Verif.Spec.Fips Bec2Verif.AesGf

set_option maxRecDepth 100000

theorem colOf_shift (a : Nat) (ha : a < 256) :
    colOf (a <<< 24) = (a, 0, 0, 0) ∧ colOf (a <<< 16) = (0, a, 0, 0) ∧ colOf (a <<< 8) = (0, 0, a, 0) ∧
    colOf a = (0, 0, 0, a) := by
  refine ⟨?_, ?_, ?_, ?_⟩
  · have e : a <<< 24 = a * 16777216 := by simp [Nat.shiftLeft_eq]
    rw [e]
    obtain ⟨h0, h1, h2, h3⟩ := b_div (a * 16777216)
    simp only [colOf, h0, h1, h2, h3]
    refine Prod.ext ?_ (Prod.ext ?_ (Prod.ext ?_ ?_)) <;> simp only <;> omega
  · have e : a <<< 16 = a * 65536 := by simp [Nat.shiftLeft_eq]
    rw [e]
    obtain ⟨h0, h1, h2, h3⟩ := b_div (a * 65536)
    simp only [colOf, h0, h1, h2, h3]
    refine Prod.ext ?_ (Prod.ext ?_ (Prod.ext ?_ ?_)) <;> simp only <;> omega
  · have e : a <<< 8 = a * 256 := by simp [Nat.shiftLeft_eq]
    rw [e]
    obtain ⟨h0, h1, h2, h3⟩ := b_div (a * 256)
    simp only [colOf, h0, h1, h2, h3]
    refine Prod.ext ?_ (Prod.ext ?_ (Prod.ext ?_ ?_)) <;> simp only <;> omega
  · obtain ⟨h0, h1, h2, h3⟩ := b_div a
    simp only [colOf, h0, h1, h2, h3]
    refine Prod.ext ?_ (Prod.ext ?_ (Prod.ext ?_ ?_)) <;> simp only <;> omega

theorem S_lt (x : Nat) (h : x < 256) : tab S x < 256 := by
  rw [(enc_tabs x h).2.2.2.2]; exact sbox_lt x h

/-- `SubWord(RotWord(w)) ⊕ Rcon` as the code computes it on a packed word -/
theorem subRot_col (tt r : Nat) (hr : r < 256) :
    colOf (subRot tt ^^^ (r <<< 24)) = xorCol (Spec.Fips.subWord (rotWord (colOf tt))) (r, 0, 0, 0) := by
  unfold subRot
  rw [colOf_xor, colOf_xor, colOf_xor, colOf_xor, (colOf_shift _ (S_lt _ (b1_lt tt))).1,
    (colOf_shift _ (S_lt _ (b2_lt tt))).2.1, (colOf_shift _ (S_lt _ (b3_lt tt))).2.2.1,
    (colOf_shift _ (S_lt _ (b0_lt tt))).2.2.2, (colOf_shift r hr).1,
    (enc_tabs _ (b1_lt tt)).2.2.2.2, (enc_tabs _ (b2_lt tt)).2.2.2.2, (enc_tabs _ (b3_lt tt)).2.2.2.2,
    (enc_tabs _ (b0_lt tt)).2.2.2.2]
  simp [xorCol, Spec.Fips.subWord, rotWord, mapCol, colOf]

/-- the extra `SubWord` of 256-bit keys -/
theorem subWord_col (tt : Nat) : colOf (Aes.subWord tt) = Spec.Fips.subWord (colOf tt) := by
  unfold Aes.subWord
  rw [colOf_xor, colOf_xor, colOf_xor, (colOf_shift _ (S_lt _ (b3_lt tt))).2.2.2,
    (colOf_shift _ (S_lt _ (b2_lt tt))).2.2.1, (colOf_shift _ (S_lt _ (b1_lt tt))).2.1,
    (colOf_shift _ (S_lt _ (b0_lt tt))).1,
    (enc_tabs _ (b1_lt tt)).2.2.2.2, (enc_tabs _ (b2_lt tt)).2.2.2.2, (enc_tabs _ (b3_lt tt)).2.2.2.2,
    (enc_tabs _ (b0_lt tt)).2.2.2.2]
  simp [xorCol, Spec.Fips.subWord, mapCol, colOf]

theorem rcon_lt : allBelow (fun i => Nat.blt (tab rcon i) 256 && Nat.beq (tab rcon i) (gpow 2 i)) 30 = true := by
  decide +kernel

/-! ### FIPS-197 KeyExpansion as a recurrence, and its uniqueness -/

abbrev z : Col := (0, 0, 0, 0)

/-- `w[i]` from `w[i-1]` and `w[i-Nk]` (Fig. 11) -/
def nextWordF (nk i : Nat) (last old : Col) : Col :=
  xorCol old
    (if i % nk = 0 then xorCol (Spec.Fips.subWord (rotWord last)) (rconWord (i / nk))
     else if nk > 6 ∧ i % nk = 4 then Spec.Fips.subWord last else last)

theorem rev_take_getD (W : List Col) (i j : Nat) (hi : i ≤ W.length) (hj : j < i) :
    (W.take i).reverse.getD j z = W.getD (i - 1 - j) z := by
  rw [List.getD_eq_getElem?_getD, List.getElem?_reverse (by simp; omega), List.length_take,
    Nat.min_eq_left hi, List.getElem?_take_of_lt (by omega), ← List.getD_eq_getElem?_getD]

theorem nextWord_eq (nk i : Nat) (W : List Col) (hnk : 1 ≤ nk) (hi : nk ≤ i) (hl : i ≤ W.length) :
    nextWord nk i (W.take i).reverse = nextWordF nk i (W.getD (i - 1) z) (W.getD (i - nk) z) := by
  unfold nextWord nextWordF
  have h1 : (W.take i).reverse.headD z = W.getD (i - 1) z := by
    have := rev_take_getD W i 0 hl (by omega)
    rw [Nat.sub_zero] at this
    rw [← this]
    cases (W.take i).reverse <;> rfl
  have h2 : (W.take i).reverse.getD (nk - 1) z = W.getD (i - nk) z := by
    rw [rev_take_getD W i (nk - 1) hl (by omega)]
    congr 1; omega
  simp only [h1, h2]

/-- the list satisfies the FIPS recurrence at every index from `nk` on -/
def Rec (nk : Nat) (W : List Col) : Prop :=
  ∀ i, nk ≤ i → i < W.length → W.getD i z = nextWordF nk i (W.getD (i - 1) z) (W.getD (i - nk) z)

theorem take_succ_getD (W : List Col) (i : Nat) (h : i < W.length) : W.take (i + 1) = W.take i ++ [W.getD i z] := by
  rw [List.take_add_one, List.getD_eq_getElem?_getD, List.getElem?_eq_getElem h]
  simp

theorem rec_unique (nk : Nat) (hnk : 1 ≤ nk) (W W' : List Col) (hl : W.length = W'.length)
    (h0 : W.take nk = W'.take nk) (h : Rec nk W) (h' : Rec nk W') : W = W' := by
  have key : ∀ i, i ≤ W.length → W.take i = W'.take i := by
    intro i
    induction i with
    | zero => intro _; simp
    | succ i ih =>
      intro hi
      have ih' := ih (by omega)
      by_cases hlt : i < nk
      · have e1 : W.take (i + 1) = (W.take nk).take (i + 1) := by rw [List.take_take]; congr 1; omega
        have e2 : W'.take (i + 1) = (W'.take nk).take (i + 1) := by rw [List.take_take]; congr 1; omega
        rw [e1, e2, h0]
      · rw [take_succ_getD W i (by omega), take_succ_getD W' i (by omega), ih']
        congr 2
        have g : ∀ j, j < i → W.getD j z = W'.getD j z := by
          intro j hj
          have a : W.getD j z = (W.take i).getD j z := by
            rw [List.getD_eq_getElem?_getD, List.getD_eq_getElem?_getD, List.getElem?_take_of_lt hj]
          have b : W'.getD j z = (W'.take i).getD j z := by
            rw [List.getD_eq_getElem?_getD, List.getD_eq_getElem?_getD, List.getElem?_take_of_lt hj]
          rw [a, b, ih']
        rw [h i (by omega) (by omega), h' i (by omega) (by omega), g (i - 1) (by omega), g (i - nk) (by omega)]
  have := key W.length (Nat.le_refl _)
  rw [List.take_length] at this
  rw [this, hl, List.take_length]

theorem getD_append_left' (a b : List Col) (j : Nat) (h : j < a.length) : (a ++ b).getD j z = a.getD j z := by
  rw [List.getD_eq_getElem?_getD, List.getElem?_append_left h, ← List.getD_eq_getElem?_getD]

/-- the spec's loop: the words so far (newest first) satisfy the recurrence, old words are kept -/
theorem expandFrom_spec (nk total : Nat) (hnk : 1 ≤ nk) (fuel i : Nat) (prev : List Col) (hi : prev.length = i)
    (hnki : nk ≤ i) (hrec : Rec nk prev.reverse) (hf : total ≤ i + fuel) :
    Rec nk (expandFrom nk total fuel i prev).reverse ∧
    (expandFrom nk total fuel i prev).reverse.take i = prev.reverse ∧
    (expandFrom nk total fuel i prev).length = max i total := by
  induction fuel generalizing i prev with
  | zero =>
    simp only [expandFrom]
    refine ⟨hrec, ?_, by omega⟩
    rw [← hi, ← List.length_reverse, List.take_length]
  | succ f ih =>
    unfold expandFrom
    split
    · rename_i hlt
      have hrec' : Rec nk (nextWord nk i prev :: prev).reverse := by
        intro j hj1 hj2
        simp only [List.reverse_cons, List.length_append, List.length_reverse, List.length_cons, List.length_nil] at hj2 ⊢
        by_cases hji : j < i
        · rw [getD_append_left' _ _ j (by simp; omega), getD_append_left' _ _ (j - 1) (by simp; omega),
            getD_append_left' _ _ (j - nk) (by simp; omega)]
          exact hrec j hj1 (by simp; omega)
        · have hje : j = i := by omega
          subst hje
          have hx : (prev.reverse ++ [nextWord nk j prev]).getD j z = nextWord nk j prev := by
            rw [List.getD_eq_getElem?_getD, List.getElem?_append_right (by simp; omega)]
            simp [hi]
          rw [hx, getD_append_left' _ _ (j - 1) (by simp; omega), getD_append_left' _ _ (j - nk) (by simp; omega)]
          have := nextWord_eq nk j prev.reverse hnk hnki (by simp; omega)
          rw [← this]
          congr 1
          rw [← hi, ← List.length_reverse, List.take_length, List.reverse_reverse]
      obtain ⟨r1, r2, r3⟩ := ih (i + 1) (nextWord nk i prev :: prev) (by simp [hi]) (by omega) hrec' (by omega)
      refine ⟨r1, ?_, by omega⟩
      have : (expandFrom nk total f (i + 1) (nextWord nk i prev :: prev)).reverse.take i =
          ((expandFrom nk total f (i + 1) (nextWord nk i prev :: prev)).reverse.take (i + 1)).take i := by
        rw [List.take_take]; congr 1; omega
      rw [this, r2]
      simp only [List.reverse_cons]
      rw [List.take_append_of_le_length (by simp; omega)]
      rw [← hi, ← List.length_reverse, List.take_length]
    · refine ⟨hrec, ?_, by omega⟩
      rw [← hi, ← List.length_reverse, List.take_length]

theorem keyExpansion_spec (kw : List Col) (nr : Nat) (hk : 1 ≤ kw.length) (hle : kw.length ≤ 4 * (nr + 1)) :
    Rec kw.length (keyExpansion kw nr) ∧ (keyExpansion kw nr).take kw.length = kw ∧
    (keyExpansion kw nr).length = 4 * (nr + 1) := by
  unfold keyExpansion
  simp only
  have := expandFrom_spec kw.length (4 * (nr + 1)) hk (4 * (nr + 1)) kw.length kw.reverse (by simp) (Nat.le_refl _)
    (by intro i h1 h2; simp at h2; omega) (by omega)
  obtain ⟨r1, r2, r3⟩ := this
  refine ⟨r1, by simpa using r2, ?_⟩
  rw [List.length_reverse, r3]; omega

end Bec2Verif.AesW
