import Bec2Verif.Model.EcOps
/-!
Every x-coordinate the point arithmetic produces is reduced (`0 ≤ X < p`), provided the operands' are: all formulas
end in `% p`, and an operand is passed through unchanged only when the other one is the point at infinity.
Needed where integers (not residues) are compared: `x % n == r` in ECDSA.
-/
set_option linter.unusedVariables false
namespace Bec2Verif.Ec

def XC (p : Int) (t : Triple) : Prop := 0 ≤ t.1 ∧ t.1 < p

theorem xc_mod (p : Int) (hp : 0 < p) (v y z : Int) : XC p (v % p, y, z) :=
  ⟨Int.emod_nonneg _ (by omega), Int.emod_lt_of_pos _ hp⟩

theorem xc_inf (p : Int) (hp : 0 < p) : XC p (0, 0, 1) := ⟨by simp, by simpa using hp⟩

theorem doubleZ1_xc (p : Int) (hp : 0 < p) (X Y a : Int) : XC p (doubleZ1 X Y p a) := by
  unfold doubleZ1
  simp only
  split
  · exact xc_inf p hp
  · exact xc_mod p hp _ _ _

theorem double__xc (p : Int) (hp : 0 < p) (X Y Z a : Int) : XC p (double_ X Y Z p a) := by
  unfold double_
  simp only
  split
  · exact doubleZ1_xc p hp _ _ _
  · split
    · exact xc_inf p hp
    · split
      · exact xc_inf p hp
      · exact xc_mod p hp _ _ _

theorem addZ1_xc (p : Int) (hp : 0 < p) (X1 Y1 X2 Y2 a : Int) : XC p (addZ1 X1 Y1 X2 Y2 p a) := by
  unfold addZ1
  simp only
  split
  · exact doubleZ1_xc p hp _ _ _
  · exact xc_mod p hp _ _ _

theorem addZeq_xc (p : Int) (hp : 0 < p) (X1 Y1 Z1 X2 Y2 a : Int) : XC p (addZeq X1 Y1 Z1 X2 Y2 p a) := by
  unfold addZeq
  simp only
  split
  · exact double__xc p hp _ _ _ _
  · exact xc_mod p hp _ _ _

theorem addZ2_1_xc (p : Int) (hp : 0 < p) (X1 Y1 Z1 X2 Y2 a : Int) : XC p (addZ2_1 X1 Y1 Z1 X2 Y2 p a) := by
  unfold addZ2_1
  simp only
  split
  · exact doubleZ1_xc p hp _ _ _
  · exact xc_mod p hp _ _ _

theorem addZne_xc (p : Int) (hp : 0 < p) (X1 Y1 Z1 X2 Y2 Z2 a : Int) : XC p (addZne X1 Y1 Z1 X2 Y2 Z2 p a) := by
  unfold addZne
  simp only
  split
  · exact double__xc p hp _ _ _ _
  · exact xc_mod p hp _ _ _

theorem add__xc (p : Int) (hp : 0 < p) (X1 Y1 Z1 X2 Y2 Z2 a : Int) (h1 : XC p (X1, Y1, Z1)) (h2 : XC p (X2, Y2, Z2)) :
    XC p (add_ X1 Y1 Z1 X2 Y2 Z2 p a) := by
  unfold add_
  split
  · exact h2
  · split
    · exact h1
    · split
      · split
        · exact addZ1_xc p hp _ _ _ _ _
        · exact addZeq_xc p hp _ _ _ _ _ _
      · split
        · exact addZ2_1_xc p hp _ _ _ _ _ _
        · split
          · exact addZ2_1_xc p hp _ _ _ _ _ _
          · exact addZne_xc p hp _ _ _ _ _ _ _

/-- negation keeps x -/
theorem negT_xc (p : Int) (t : Triple) (h : XC p t) : XC p (negT t) := h

theorem mulLoop_xc (c : Curve) (hp : 0 < c.p) (X2 Y2 : Int) (hx : 0 ≤ X2 ∧ X2 < c.p) (ds : List Int) (acc : Triple)
    (hacc : XC c.p acc) : XC c.p (mulLoop c X2 Y2 ds acc) := by
  induction ds generalizing acc with
  | nil => simpa [mulLoop] using hacc
  | cons d ds ih =>
    obtain ⟨X3, Y3, Z3⟩ := acc
    simp only [mulLoop]
    apply ih
    have hd := double__xc c.p hp X3 Y3 Z3 c.a
    split
    · exact add__xc c.p hp _ _ _ _ _ _ _ hd hx
    · split
      · exact add__xc c.p hp _ _ _ _ _ _ _ hd hx
      · exact hd

theorem scale_xc (c : Curve) (hp : 0 < c.p) (X Y Z : Int) (h : XC c.p (X, Y, Z)) (t : Triple)
    (hs : scale c X Y Z = some t) : XC c.p t := by
  unfold scale at hs
  split at hs
  · injection hs with hs; subst hs; exact h
  · split at hs
    · cases hs
    · injection hs with hs; subst hs; exact xc_mod c.p hp _ _ _

def XCPt (p : Int) : Pt → Prop
  | .inf => True
  | .jac X Y Z => XC p (X, Y, Z)

theorem wrap_xc (p : Int) (t : Triple) (h : XC p t) : XCPt p (wrap t) := by
  unfold wrap
  split
  · trivial
  · exact h

theorem add_xc (c : Curve) (hp : 0 < c.p) (P Q : Pt) (hP : XCPt c.p P) (hQ : XCPt c.p Q) : XCPt c.p (Ec.add c P Q) := by
  unfold Ec.add
  split
  · exact hQ
  · split
    · exact hP
    · split
      · exact wrap_xc _ _ (add__xc c.p hp _ _ _ _ _ _ _ hP hQ)
      · trivial

theorem mulNaf_xc (c : Curve) (hp : 0 < c.p) (order : Int) (P : Pt) (hP : XCPt c.p P) (k : Int) (R : Pt)
    (h : mulNaf c order P k = some R) : XCPt c.p R := by
  unfold mulNaf at h
  split at h
  · injection h with h; subst h; trivial
  · rename_i X Y Z
    split at h
    · injection h with h; subst h; trivial
    · split at h
      · injection h with h; subst h; exact hP
      · dsimp only at h
        generalize (if (order != 0) = true then k % (order * 2) else k) = k' at h
        split at h
        · cases h
        · rename_i X2 Y2 Z2 hsc
          injection h with h; subst h
          have := scale_xc c hp X Y Z hP _ hsc
          exact wrap_xc _ _ (mulLoop_xc c hp X2 Y2 this _ _ (xc_inf c.p hp))

/-- every entry of the precomputed table has a reduced x -/
def TabXC (p : Int) (tab : List (Int × Int)) : Prop := ∀ e ∈ tab, 0 ≤ e.1 ∧ e.1 < p

theorem mulPrecompLoop_xc (c : Curve) (hp : 0 < c.p) (tab : List (Int × Int)) (ht : TabXC c.p tab) (k : Int) (acc : Triple)
    (hacc : XC c.p acc) : XC c.p (mulPrecompLoop c tab k acc) := by
  induction tab generalizing k acc with
  | nil => obtain ⟨_, _, _⟩ := acc; simpa [mulPrecompLoop] using hacc
  | cons e es ih =>
    obtain ⟨X2, Y2⟩ := e
    obtain ⟨X3, Y3, Z3⟩ := acc
    have he := ht (X2, Y2) (by simp)
    have hes : TabXC c.p es := fun x hx => ht x (by simp [hx])
    unfold mulPrecompLoop
    split
    · split
      · exact ih hes _ _ (add__xc c.p hp _ _ _ _ _ _ _ hacc he)
      · exact ih hes _ _ (add__xc c.p hp _ _ _ _ _ _ _ hacc he)
    · exact ih hes _ _ hacc

theorem affineXY_xc (c : Curve) (hp : 0 < c.p) (X Y Z : Int) (h : XC c.p (X, Y, Z)) (x y : Int)
    (hxy : affineXY c X Y Z = some (x, y)) : 0 ≤ x ∧ x < c.p := by
  unfold affineXY at hxy
  split at hxy
  · injection hxy with hxy; injection hxy with h1 h2; subst h1; exact h
  · split at hxy
    · cases hxy
    · injection hxy with hxy; injection hxy with h1 h2; subst h1
      exact ⟨Int.emod_nonneg _ (by omega), Int.emod_lt_of_pos _ hp⟩

theorem precomputeLoop_xc (c : Curve) (hp : 0 < c.p) (fuel : Nat) (i o : Int) (t : Triple) (acc : List (Int × Int))
    (hacc : TabXC c.p acc) (tab : List (Int × Int)) (h : precomputeLoop c fuel i o t acc = some tab) : TabXC c.p tab := by
  induction fuel generalizing i t acc with
  | zero =>
    simp only [precomputeLoop, Option.some.injEq] at h
    subst h
    intro e he; exact hacc e (List.mem_reverse.mp he)
  | succ f ih =>
    obtain ⟨X, Y, Z⟩ := t
    unfold precomputeLoop at h
    split at h
    · split at h
      · cases h
      · rename_i X' Y' Z' hd
        split at h
        · cases h
        · rename_i x y z hsc
          -- the doubled point has a reduced x (wrap of a doubling) and so has its scaled form
          have hdx : XCPt c.p (Ec.double c (.jac X Y Z)) := by
            unfold Ec.double
            simp only
            split
            · trivial
            · exact wrap_xc _ _ (double__xc c.p hp _ _ _ _)
          rw [hd] at hdx
          have := scale_xc c hp X' Y' Z' hdx _ hsc
          apply ih _ _ _ ?_ h
          intro e he
          simp only [List.mem_cons] at he
          rcases he with rfl | he
          · exact this
          · exact hacc e he
    · simp only [Option.some.injEq] at h
      subst h
      intro e he; exact hacc e (List.mem_reverse.mp he)

theorem mulGen_xc (c : Curve) (hp : 0 < c.p) (order : Int) (P : Pt) (hP : XCPt c.p P) (k : Int) (R : Pt)
    (h : mulGen c order P k = some R) : XCPt c.p R := by
  unfold mulGen at h
  split at h
  · injection h with h; subst h; trivial
  · rename_i X Y Z
    split at h
    · injection h with h; subst h; trivial
    · split at h
      · injection h with h; subst h; exact hP
      · dsimp only at h
        generalize (if (order != 0) = true then k % (order * 2) else k) = k' at h
        split at h
        · cases h
        · rename_i tab htab
          injection h with h; subst h
          apply wrap_xc
          apply mulPrecompLoop_xc c hp tab ?_ _ _ (xc_inf c.p hp)
          unfold precompute at htab
          split at htab
          · cases htab
          · rename_i x y hxy
            apply precomputeLoop_xc c hp _ _ _ _ _ ?_ _ htab
            intro e he
            simp only [List.mem_singleton] at he
            subst he
            exact affineXY_xc c hp X Y Z hP x y hxy

theorem pjMul_xc (c : Curve) (hp : 0 < c.p) (P : PJ) (hP : XCPt c.p P.pt) (k : Int) (R : Pt)
    (h : pjMul c P k = some R) : XCPt c.p R := by
  unfold pjMul at h
  split at h
  · exact mulGen_xc c hp _ _ hP k R h
  · exact mulNaf_xc c hp _ _ hP k R h

theorem mulAddLoop_xc (c : Curve) (hp : 0 < c.p) (P1 P2 mAmB pAmB mApB pApB : Triple)
    (h1 : XC c.p P1) (h2 : XC c.p P2) (h3 : XC c.p mAmB) (h4 : XC c.p pAmB) (h5 : XC c.p mApB) (h6 : XC c.p pApB)
    (ds : List (Int × Int)) (acc : Triple) (hacc : XC c.p acc) :
    XC c.p (mulAddLoop c P1 P2 mAmB pAmB mApB pApB ds acc) := by
  induction ds generalizing acc with
  | nil => simpa [mulAddLoop] using hacc
  | cons d ds ih =>
    obtain ⟨A, B⟩ := d
    obtain ⟨X3, Y3, Z3⟩ := acc
    simp only [mulAddLoop]
    apply ih
    have hd := double__xc c.p hp X3 Y3 Z3 c.a
    have ad : ∀ t : Triple, XC c.p t →
        XC c.p (add_ (double_ X3 Y3 Z3 c.p c.a).1 (double_ X3 Y3 Z3 c.p c.a).2.1 (double_ X3 Y3 Z3 c.p c.a).2.2 t.1 t.2.1 t.2.2 c.p c.a) :=
      fun t ht => add__xc c.p hp _ _ _ _ _ _ _ hd ht
    split
    · split
      · exact hd
      · split
        · exact ad _ (negT_xc _ _ h2)
        · exact ad _ h2
    · split
      · split
        · exact ad _ (negT_xc _ _ h1)
        · split
          · exact ad _ h3
          · exact ad _ h5
      · split
        · exact ad _ h1
        · split
          · exact ad _ h4
          · exact ad _ h6

theorem optAdd_xc (c : Curve) (hp : 0 < c.p) (x y : Option Pt) (hx : ∀ r, x = some r → XCPt c.p r) (hy : ∀ r, y = some r → XCPt c.p r)
    (R : Pt) (h : optAdd c x y = some R) : XCPt c.p R := by
  unfold optAdd at h
  split at h
  · rename_i a b
    injection h with h; subst h
    exact add_xc c hp _ _ (hx a rfl) (hy b rfl)
  · cases h

theorem mulAdd_xc (c : Curve) (hp : 0 < c.p) (P : PJ) (Q : Option PJ) (hP : XCPt c.p P.pt)
    (hQ : ∀ Q', Q = some Q' → XCPt c.p Q'.pt) (k1 k2 : Int) (R : Pt) (h : mulAdd c P k1 Q k2 = some R) : XCPt c.p R := by
  cases Q with
  | none => exact pjMul_xc c hp P hP k1 R (by simpa [mulAdd] using h)
  | some Q =>
    have hQ' := hQ Q rfl
    unfold mulAdd at h
    simp only at h
    split at h
    · exact pjMul_xc c hp P hP k1 R h
    · split at h
      · exact pjMul_xc c hp Q hQ' k2 R h
      · split at h
        · exact optAdd_xc c hp _ _ (fun r hr => pjMul_xc c hp P hP k1 r hr) (fun r hr => pjMul_xc c hp Q hQ' k2 r hr) R h
        · split at h
          · rename_i P1 P2 hs1 hs2
            have x1 := scale_xc c hp P.X P.Y P.Z hP _ hs1
            have x2 := scale_xc c hp Q.X Q.Y Q.Z hQ' _ hs2
            obtain ⟨X1, Y1, Z1⟩ := P1
            obtain ⟨X2, Y2, Z2⟩ := P2
            split at h
            · exact optAdd_xc c hp _ _ (fun r hr => pjMul_xc c hp _ (by exact x1) _ r hr)
                (fun r hr => pjMul_xc c hp _ (by exact x2) _ r hr) R h
            · injection h with h; subst h
              apply wrap_xc
              have n1 : XC c.p (negT (X1, Y1, Z1)) := x1
              have n2 : XC c.p (negT (X2, Y2, Z2)) := x2
              exact mulAddLoop_xc c hp _ _ _ _ _ _ x1 x2
                (add__xc c.p hp _ _ _ _ _ _ _ n1 n2) (add__xc c.p hp _ _ _ _ _ _ _ x1 n2)
                (add__xc c.p hp _ _ _ _ _ _ _ n1 x2) (add__xc c.p hp _ _ _ _ _ _ _ x1 x2) _ _ (xc_inf c.p hp)
          · cases h

end Bec2Verif.Ec
