import Bec2Verif.Model.Ecdsa
import Bec2Verif.Lemmas.Der
import Bec2Verif.Lemmas.Bytes
/-!
Signature encodings (`util.py`) and the RFC 6979 candidate loop: round trips, length rejection, canonical `s`,
range of the generated nonce, the range checks of `verifies`.  Core Lean only.
-/
namespace Bec2Verif.Ecdsa
open Bec2Verif Der PointCodec

theorem numberToString_ok (num order : Nat) (s : Bytes) (h : numberToString num order = .ok s) :
    num < 256 ^ orderlen order ∧ s = toBE (orderlen order) num := by
  unfold numberToString at h
  split at h
  · rename_i hlt
    injection h with h
    exact ⟨hlt, h.symm⟩
  · split at h <;> cases h

/-- `sigdecode_string ∘ sigencode_string = id` whenever the encoder accepts the pair -/
theorem sigdecodeString_encode (r s order : Nat) (sig : Bytes) (h : sigencodeString r s order = .ok sig) :
    sigdecodeString sig order = .ok (r, s) := by
  unfold sigencodeString at h
  cases hr : numberToString r order with
  | error e => simp [hr, bind, Except.bind] at h
  | ok rs =>
    cases hs : numberToString s order with
    | error e => simp [hr, hs, bind, Except.bind] at h
    | ok ss =>
      simp only [hr, hs, bind, Except.bind, pure, Except.pure, Except.ok.injEq] at h
      subst h
      obtain ⟨hr1, hr2⟩ := numberToString_ok _ _ _ hr
      obtain ⟨hs1, hs2⟩ := numberToString_ok _ _ _ hs
      subst hr2 hs2
      unfold sigdecodeString
      have hl : (toBE (orderlen order) r ++ toBE (orderlen order) s).length = 2 * orderlen order := by
        simp [toBE_length]; omega
      simp only [hl, ne_eq, not_true_eq_false, if_false]
      have ht : (toBE (orderlen order) r ++ toBE (orderlen order) s).take (orderlen order) = toBE (orderlen order) r := by
        rw [List.take_append_of_le_length (by simp [toBE_length])]
        rw [List.take_of_length_le (by simp [toBE_length])]
      have hd : (toBE (orderlen order) r ++ toBE (orderlen order) s).drop (orderlen order) = toBE (orderlen order) s := by
        rw [List.drop_append_of_le_length (by simp [toBE_length])]
        rw [List.drop_of_length_le (by simp [toBE_length])]
        simp
      rw [ht, hd, fromBE_toBE _ _ hr1, fromBE_toBE _ _ hs1]

/-- the string encoder accepts exactly the pairs below `256 ^ orderlen` (in particular every `r, s < order`) -/
theorem sigencodeString_ok (r s order : Nat) (hr : r < 256 ^ orderlen order) (hs : s < 256 ^ orderlen order) :
    sigencodeString r s order = .ok (toBE (orderlen order) r ++ toBE (orderlen order) s) := by
  simp [sigencodeString, numberToString, hr, hs, bind, Except.bind, pure, Except.pure]

/-- a string signature of any other length is `MalformedSignature` -/
theorem sigdecodeString_length (sig : Bytes) (order : Nat) (h : sig.length ≠ 2 * orderlen order) :
    sigdecodeString sig order = .error .malformedSignature := by
  simp [sigdecodeString, h]

/-- `sigdecode_der ∘ sigencode_der = id` -/
theorem sigdecodeDer_encode (r s : Nat) (hr : (beBytes r).length + 1 < 128) (hs : (beBytes s).length + 1 < 128)
    (hl : Encodable (encodeInteger r ++ encodeInteger s).length) :
    sigdecodeDer (sigencodeDer r s) = .ok (r, s) := by
  unfold sigdecodeDer sigencodeDer
  have h1 := removeSequence_encode [encodeInteger r, encodeInteger s] [] (by simpa using hl)
  simp only [List.append_nil] at h1
  rw [h1]
  simp only [bind, Except.bind, List.isEmpty_nil, Bool.not_true, Bool.false_eq_true, if_false]
  have hf : [encodeInteger r, encodeInteger s].flatten = encodeInteger r ++ (encodeInteger s ++ []) := by simp
  rw [hf, removeInteger_encode r _ hr]
  simp only
  rw [removeInteger_encode s [] hs]
  simp

/-- the canonical `s` is at most half the order, and canonising twice changes nothing -/
theorem canonS_le (s order : Nat) (h : s ≤ order) : 2 * canonS s order ≤ order := by
  unfold canonS; split <;> omega

theorem canonS_idem (s order : Nat) (h : s ≤ order) : canonS (canonS s order) order = canonS s order := by
  unfold canonS
  split
  · split <;> omega
  · rfl

theorem canonS_range (s order : Nat) (h1 : 1 ≤ s) (h2 : s < order) : 1 ≤ canonS s order ∧ canonS s order < order := by
  unfold canonS; split <;> omega

/-! ### RFC 6979: the returned nonce is in range -/

theorem genLoop_range (H : Hash) (order qlen rolen : Nat) (fuel retry : Nat) (k v : Bytes) (s : Nat)
    (h : genLoop H order qlen rolen fuel retry k v = some s) : 1 ≤ s ∧ s < order := by
  induction fuel generalizing retry k v with
  | zero => simp [genLoop] at h
  | succ f ih =>
    unfold genLoop at h
    simp only at h
    split at h
    · rename_i hc
      split at h
      · injection h with h
        subst h
        simpa using hc
      · exact ih _ _ _ h
    · exact ih _ _ _ h

/-- `generate_k` only ever returns `1 ≤ k < order` -/
theorem generateK_range (H : Hash) (order secexp : Nat) (data : Bytes) (retry : Nat) (extra : Bytes) (k : Nat)
    (h : generateK H order secexp data retry extra = .ok k) : 1 ≤ k ∧ k < order := by
  unfold generateK at h
  cases hx : numberToString secexp order with
  | error e => simp [hx, bind, Except.bind] at h
  | ok x =>
    simp only [hx, bind, Except.bind] at h
    split at h
    · cases h
    · simp only [pure, Except.pure] at h
      split at h
      · rename_i s hs
        injection h with h
        subst h
        exact genLoop_range _ _ _ _ _ _ _ _ _ hs
      · cases h

/-! ### range checks of `verifies` -/

theorem verifies_range (d : Ec.Domain) (Q : Ec.PJ) (hash r s : Int)
    (h : r < 1 ∨ r > d.n - 1 ∨ s < 1 ∨ s > d.n - 1) : verifies d Q hash r s = .ok false := by
  unfold verifies
  simp only
  by_cases hr : (r < 1 || r > d.n - 1) = true
  · simp [hr]
  · have hs : (s < 1 || s > d.n - 1) = true := by
      simp only [Bool.or_eq_true, decide_eq_true_eq, not_or] at hr ⊢
      omega
    simp [hr, hs]

/-- ... and through `verify_digest`: an out-of-range pair is a `BadSignatureError` -/
theorem verifyDigest_range (d : Ec.Domain) (Q : Ec.PJ) (baselen : Nat) (sig digest : Bytes) (derEnc allow : Bool)
    (number : Nat) (hd : truncateDigest digest baselen d.n.toNat allow = .ok number) (r s : Nat)
    (hsig : (if derEnc then sigdecodeDer sig else sigdecodeString sig d.n.toNat) = .ok (r, s))
    (h : (r : Int) < 1 ∨ (r : Int) > d.n - 1 ∨ (s : Int) < 1 ∨ (s : Int) > d.n - 1) :
    verifyDigest d Q baselen sig digest derEnc allow = .error .badSignature := by
  unfold verifyDigest
  simp only [hd, hsig, bind, Except.bind, pure, Except.pure]
  rw [verifies_range d Q _ _ _ h]
  simp [throw, throwThe, MonadExceptOf.throw]

/-- a signature that does not decode is a `BadSignatureError`, never another exception -/
theorem verifyDigest_malformed (d : Ec.Domain) (Q : Ec.PJ) (baselen : Nat) (sig digest : Bytes) (derEnc allow : Bool)
    (number : Nat) (hd : truncateDigest digest baselen d.n.toNat allow = .ok number) (e : Err)
    (hsig : (if derEnc then sigdecodeDer sig else sigdecodeString sig d.n.toNat) = .error e) :
    verifyDigest d Q baselen sig digest derEnc allow = .error .badSignature := by
  unfold verifyDigest
  simp only [hd, hsig, bind, Except.bind]
  simp [throw, throwThe, MonadExceptOf.throw]

end Bec2Verif.Ecdsa
