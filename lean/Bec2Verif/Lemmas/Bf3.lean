import Bec2Verif.Lemmas.Bytes
/-! Round-trip lemmas for the BF3 directory writer/reader. -/
namespace Bec2Verif.Bf3
open Bec2Verif

/-- the registered MAC returns `CMAC_SIZE` bytes -/
def MacLen (C : Crypto) : Prop :=
  ∀ k iv d m, C.mac k iv d = .ok m → m.length = Gen.CMAC_SIZE

def TagsNodup (desc : List (Nat × Bytes)) : Prop := (desc.map Prod.fst).Nodup

theorem readInt1 (n : Nat) (r : Bytes) (h : n < 256) :
    readInt 1 (toBE 1 n ++ r) = .ok (n, r) := readInt_toBE 1 n r (by simpa using h)

theorem parseDesc_tlv (desc : List (Nat × Bytes)) (tl : Bytes) (acc : List (Nat × Bytes)) (fuel : Nat)
    (h : tlvEntries desc = .ok tl) (hfuel : desc.length ≤ fuel)
    (hnd : ((acc ++ desc).map Prod.fst).Nodup) :
    parseDesc fuel tl acc = .ok (acc ++ desc) := by
  induction desc generalizing tl acc fuel with
  | nil =>
    simp [tlvEntries] at h; subst h
    cases fuel <;> simp [parseDesc]
  | cons p r ih =>
    obtain ⟨t, v⟩ := p
    simp only [tlvEntries, Except.bind_eq_ok] at h
    obtain ⟨tb, htb, lb, hlb, rest, hrest, hpure⟩ := h
    simp only [pure, Except.pure, Except.ok.injEq] at hpure
    obtain ⟨rfl, ht⟩ := toBytesBE_ok htb
    obtain ⟨rfl, hv⟩ := toBytesBE_ok hlb
    cases fuel with
    | zero => simp at hfuel
    | succ f =>
      subst hpure
      have hne : (toBE 1 t ++ toBE 1 v.length ++ v ++ rest).isEmpty = false := by
        simp [toBE]
      have hnot : acc.any (fun p => p.1 == t) = false := by
        rw [List.map_append, List.nodup_append] at hnd
        have := hnd.2.2
        simp only [List.any_eq_false, beq_iff_eq]
        intro p hp heq
        exact this p.1 (List.mem_map_of_mem hp) t (by simp) heq
      have hnd' : (((acc ++ [(t, v)]) ++ r).map Prod.fst).Nodup := by
        simpa [List.append_assoc] using hnd
      have := ih rest (acc ++ [(t, v)]) f hrest (by simp at hfuel; omega) hnd'
      simp only [parseDesc, hne, Bool.false_eq_true, if_false]
      rw [List.append_assoc, List.append_assoc, readInt1 _ _ (by simpa using ht)]
      simp only [bind, Except.bind]
      rw [readInt1 _ _ (by simpa using hv)]
      simp only [take_append, hnot, Bool.false_eq_true, if_false, this]
      simp


theorem tlv_len_ge (desc : List (Nat × Bytes)) (tl : Bytes) (h : tlvEntries desc = .ok tl) :
    desc.length ≤ tl.length := by
  induction desc generalizing tl with
  | nil => simp
  | cons p r ih =>
    obtain ⟨t, v⟩ := p
    simp only [tlvEntries, Except.bind_eq_ok] at h
    obtain ⟨tb, htb, lb, hlb, rest, hrest, hp⟩ := h
    simp only [pure, Except.pure, Except.ok.injEq] at hp
    subst hp
    have := ih rest hrest
    have h1 := toBytesBE_len htb
    simp only [List.length_append, List.length_cons, h1]
    omega

/-- what the reader is expected to extract from the entry of component `c` stored at `adr` -/
def entryOf (C : Crypto) (key : Bytes) (c : Comp) (adr : Nat) : Except Err Entry := do
  let raw ← getRawData C key c
  let pm ← cmac C raw key none
  pure { adr := adr, total := raw.length, declared := c.actualLen, pmac := pm, desc := c.desc }

theorem parseEntry_dirEntry (C : Crypto) (hm : MacLen C) (chk : Bool) (key : Bytes) (c : Comp)
    (ndx adr : Nat) (e : Bytes) (n : Nat)
    (h : dirEntry C key c ndx adr = .ok (e, n))
    (hnd : TagsNodup c.desc) (hal : c.actualLen ≤ n) :
    ∃ ent, entryOf C key c adr = .ok ent ∧ ent.total = n ∧
      parseEntry C chk key (1 + ndx) e = .ok (ent, []) := by
  simp only [dirEntry, Except.bind_eq_ok] at h
  obtain ⟨raw, hraw, pm, hpm, a, ha, l, hl, al, hal', tl, htl, dl, hdl, em, hem, hpure⟩ := h
  simp only [pure, Except.pure, Except.ok.injEq, Prod.mk.injEq] at hpure
  obtain ⟨he, hn⟩ := hpure
  obtain ⟨rfl, hadr⟩ := toBytesBE_ok ha
  obtain ⟨rfl, hlen⟩ := toBytesBE_ok hl
  obtain ⟨rfl, hact⟩ := toBytesBE_ok hal'
  obtain ⟨rfl, hdlen⟩ := toBytesBE_ok hdl
  have hpmlen : pm.length = Gen.CMAC_SIZE := hm _ _ _ _ hpm
  have hemlen : em.length = Gen.CMAC_SIZE := hm _ _ _ _ hem
  refine ⟨{ adr := adr, total := raw.length, declared := c.actualLen, pmac := pm, desc := c.desc }, ?_, hn, ?_⟩
  · simp [entryOf, hraw, hpm, bind, Except.bind, pure, Except.pure]
  · subst he
    have hdesc := parseDesc_tlv c.desc tl [] tl.length htl (tlv_len_ge _ _ htl)
      (by simpa [TagsNodup] using hnd)
    have hnlt : ¬ (raw.length < c.actualLen) := by omega
    have htake : (toBE 4 adr ++ toBE 4 raw.length ++ toBE 4 c.actualLen ++ pm ++ toBE 1 tl.length ++ tl ++ em).take
        ((toBE 4 adr ++ toBE 4 raw.length ++ toBE 4 c.actualLen ++ pm ++ toBE 1 tl.length ++ tl ++ em).length - Gen.CMAC_SIZE)
        = toBE 4 adr ++ toBE 4 raw.length ++ toBE 4 c.actualLen ++ pm ++ toBE 1 tl.length ++ tl := by
      rw [List.length_append, hemlen, Nat.add_sub_cancel, List.take_left']
      rfl
    unfold parseEntry
    simp only [List.append_assoc]
    rw [readInt_toBE 4 adr _ hadr]
    simp only [bind, Except.bind]
    rw [readInt_toBE 4 raw.length _ hlen]
    simp only []
    rw [readInt_toBE 4 c.actualLen _ hact]
    simp only [hnlt, if_false]
    rw [take_append' pm _ hpmlen]
    simp only []
    rw [readInt_toBE 1 tl.length _ hdlen]
    simp only [take_append, List.nil_append] at hdesc ⊢
    rw [hdesc]
    simp only []
    rw [take_all em hemlen]
    simp only [List.append_assoc] at htake
    simp only [htake]
    cases chk with
    | false => simp [pure, Except.pure]
    | true =>
      simp only [cmac, List.append_assoc] at hem ⊢
      simp [hem, pure, Except.pure]

def entriesOf (C : Crypto) (key : Bytes) : List Comp → Nat → Except Err (List Entry)
  | [], _ => .ok []
  | c :: cs, adr => do
    let e ← entryOf C key c adr
    let rest ← entriesOf C key cs (adr + e.total)
    pure (e :: rest)

/-- the conditions on a component under which the reader accepts what the writer wrote:
distinct tag ids and a declared length not beyond the stored length -/
def CompOK (C : Crypto) (key : Bytes) (c : Comp) : Prop :=
  TagsNodup c.desc ∧ ∀ raw, getRawData C key c = .ok raw → c.actualLen ≤ raw.length

theorem dirEntry_len_pos {C : Crypto} {key : Bytes} {c : Comp} {ndx adr : Nat} {e : Bytes} {n : Nat}
    (h : dirEntry C key c ndx adr = .ok (e, n)) : 0 < e.length := by
  simp only [dirEntry, Except.bind_eq_ok] at h
  obtain ⟨raw, hraw, pm, hpm, a, ha, l, hl, al, hal', tl, htl, dl, hdl, em, hem, hpure⟩ := h
  simp only [pure, Except.pure, Except.ok.injEq, Prod.mk.injEq] at hpure
  obtain ⟨he, _⟩ := hpure
  subst he
  have := toBytesBE_len ha
  simp only [List.length_append, this]; omega

theorem dirEntry_rawlen {C : Crypto} {key : Bytes} {c : Comp} {ndx adr : Nat} {e : Bytes} {n : Nat}
    (h : dirEntry C key c ndx adr = .ok (e, n)) : ∃ raw, getRawData C key c = .ok raw ∧ raw.length = n := by
  simp only [dirEntry, Except.bind_eq_ok] at h
  obtain ⟨raw, hraw, pm, hpm, a, ha, l, hl, al, hal', tl, htl, dl, hdl, em, hem, hpure⟩ := h
  simp only [pure, Except.pure, Except.ok.injEq, Prod.mk.injEq] at hpure
  exact ⟨raw, hraw, hpure.2⟩

theorem parseEntries_dirEntries (C : Crypto) (hm : MacLen C) (chk : Bool) (key : Bytes)
    (comps : List Comp) (ndx adr : Nat) (es : Bytes) (fuel : Nat)
    (h : dirEntries C key comps ndx adr = .ok es)
    (hok : ∀ c ∈ comps, CompOK C key c) (hfuel : comps.length + 1 ≤ fuel) :
    ∃ ents len dir, entriesOf C key comps adr = .ok ents ∧ es ++ [0] = toBE 1 len ++ dir ∧ len < 256 ∧
      parseEntries C chk key fuel (1 + ndx) len dir = .ok ents := by
  induction comps generalizing ndx adr es fuel with
  | nil =>
    simp [dirEntries] at h; subst h
    refine ⟨[], 0, [], rfl, rfl, by omega, ?_⟩
    cases fuel with
    | zero => simp at hfuel
    | succ f => simp [parseEntries, ensureEof, bind, Except.bind, pure, Except.pure]
  | cons c cs ih =>
    simp only [dirEntries, Except.bind_eq_ok] at h
    obtain ⟨⟨e, rawLen⟩, hde, el, hel, rest, hrest, hpure⟩ := h
    simp only [pure, Except.pure, Except.ok.injEq] at hpure
    subst hpure
    obtain ⟨rfl, hel256⟩ := toBytesBE_ok hel
    cases fuel with
    | zero => simp at hfuel
    | succ f =>
      have hcok := hok c (by simp)
      obtain ⟨raw, hraw, hrawlen⟩ := dirEntry_rawlen hde
      have hal : c.actualLen ≤ rawLen := by rw [← hrawlen]; exact hcok.2 raw hraw
      obtain ⟨ent, hent, htot, hparse⟩ := parseEntry_dirEntry C hm chk key c ndx adr e rawLen hde hcok.1 hal
      obtain ⟨ents', len', dir', hents', hsplit, hlen', hrec⟩ :=
        ih (ndx + 1) (adr + rawLen) rest f hrest (fun c' hc' => hok c' (by simp [hc']))
          (by simp at hfuel; omega)
      refine ⟨ent :: ents', e.length, e ++ (rest ++ [0]), ?_, by simp, by simpa using hel256, ?_⟩
      · simp [entriesOf, hent, htot, hents', bind, Except.bind, pure, Except.pure]
      · have hpos := dirEntry_len_pos hde
        have hne : ¬ (e.length = 0) := by omega
        have h1 : 1 + ndx + 1 = 1 + (ndx + 1) := by omega
        simp only [parseEntries, hne, if_false, take_append, bind, Except.bind, hparse, hsplit,
          readInt1 len' dir' hlen', ensureEof, List.isEmpty_nil, if_true, h1, hrec, pure, Except.pure]

/-- what reading returns for a component whose stored bytes are `raw` -/
def readBack (C : Crypto) (key : Bytes) (c : Comp) (raw : Bytes) : Except Err Comp :=
  if c.desc.lookup Gen.BF3TAG_ENC == some sessionKeyEnc then do
    let plain ← C.decrypt key none raw
    pure (mkComp c.desc plain (some c.actualLen) true)
  else pure (mkComp c.desc raw (some c.actualLen) false)

def readBackAll (C : Crypto) (key : Bytes) : List Comp → Except Err (List Comp)
  | [] => .ok []
  | c :: cs => do
    let raw ← getRawData C key c
    let c' ← readBack C key c raw
    let rest ← readBackAll C key cs
    pure (c' :: rest)

theorem readComps_entriesOf (C : Crypto) (chk : Bool) (key : Bytes) (comps : List Comp) (adr : Nat)
    (ents : List Entry) (raws tail : Bytes)
    (hents : entriesOf C key comps adr = .ok ents) (hraws : rawDatas C key comps = .ok raws) :
    readComps C chk key ents adr (raws ++ tail) = (readBackAll C key comps).map (fun cs => (cs, tail)) := by
  induction comps generalizing adr ents raws with
  | nil =>
    simp [entriesOf] at hents; simp [rawDatas] at hraws
    subst hents; subst hraws
    simp [readComps, readBackAll, Except.map]
  | cons c cs ih =>
    simp only [entriesOf, entryOf, Except.bind_eq_ok] at hents
    obtain ⟨e, ⟨raw, hraw, pm, hpm, he⟩, rest, hrest, hp⟩ := hents
    simp only [pure, Except.pure, Except.ok.injEq] at he hp
    subst he; subst hp
    simp only [rawDatas, Except.bind_eq_ok] at hraws
    obtain ⟨r, hr, rr, hrr, hp⟩ := hraws
    simp only [pure, Except.pure, Except.ok.injEq] at hp
    subst hp
    rw [hraw] at hr; injection hr with hr; subst hr
    have ih' := ih (adr + raw.length) rest rr hrest hrr
    simp only [readComps, bne_self_eq_false, Bool.false_eq_true, if_false, List.append_assoc,
      take_append, bind, Except.bind, pure, Except.pure, readBackAll, hraw, readBack]
    rw [ih']
    cases chk <;> simp only [hpm, bne_self_eq_false, Bool.false_eq_true, if_false, if_true] <;>
      split <;> (try cases C.decrypt key none raw) <;>
      cases readBackAll C key cs <;> simp [Except.map]

/-! ### sizes: the directory size does not depend on key or start address -/

def tlLen : List (Nat × Bytes) → Nat
  | [] => 0
  | (_, v) :: r => 2 + v.length + tlLen r

theorem tlvEntries_len (desc : List (Nat × Bytes)) (tl : Bytes) (h : tlvEntries desc = .ok tl) :
    tl.length = tlLen desc := by
  induction desc generalizing tl with
  | nil => simp [tlvEntries] at h; subst h; rfl
  | cons p r ih =>
    obtain ⟨t, v⟩ := p
    simp only [tlvEntries, Except.bind_eq_ok] at h
    obtain ⟨tb, htb, lb, hlb, rest, hrest, hp⟩ := h
    simp only [pure, Except.pure, Except.ok.injEq] at hp
    subst hp
    simp only [List.length_append, toBytesBE_len htb, toBytesBE_len hlb, ih rest hrest, tlLen]
    try omega

def entrySize (c : Comp) : Nat := 4 + 4 + 4 + Gen.CMAC_SIZE + 1 + tlLen c.desc + Gen.CMAC_SIZE

theorem dirEntry_len {C : Crypto} (hm : MacLen C) {key : Bytes} {c : Comp} {ndx adr : Nat} {e : Bytes} {n : Nat}
    (h : dirEntry C key c ndx adr = .ok (e, n)) : e.length = entrySize c := by
  simp only [dirEntry, Except.bind_eq_ok] at h
  obtain ⟨raw, hraw, pm, hpm, a, ha, l, hl, al, hal', tl, htl, dl, hdl, em, hem, hpure⟩ := h
  simp only [pure, Except.pure, Except.ok.injEq, Prod.mk.injEq] at hpure
  obtain ⟨he, _⟩ := hpure
  subst he
  simp only [List.length_append, toBytesBE_len ha, toBytesBE_len hl, toBytesBE_len hal', toBytesBE_len hdl,
    hm _ _ _ _ hpm, hm _ _ _ _ hem, tlvEntries_len _ _ htl, entrySize]

def dirSize : List Comp → Nat
  | [] => 0
  | c :: cs => 1 + entrySize c + dirSize cs

theorem dirEntries_len {C : Crypto} (hm : MacLen C) {key : Bytes} (comps : List Comp) {ndx adr : Nat} {es : Bytes}
    (h : dirEntries C key comps ndx adr = .ok es) : es.length = dirSize comps := by
  induction comps generalizing ndx adr es with
  | nil => simp [dirEntries] at h; subst h; rfl
  | cons c cs ih =>
    simp only [dirEntries, Except.bind_eq_ok] at h
    obtain ⟨⟨e, rawLen⟩, hde, el, hel, rest, hrest, hpure⟩ := h
    simp only [pure, Except.pure, Except.ok.injEq] at hpure
    subst hpure
    simp only [List.length_append, toBytesBE_len hel, dirEntry_len hm hde, ih hrest, dirSize]

theorem dirSize_ge (comps : List Comp) : comps.length ≤ dirSize comps := by
  induction comps with
  | nil => simp
  | cons c cs ih => simp only [List.length_cons, dirSize]; omega

theorem dirToBinary_len {C : Crypto} (hm : MacLen C) {key : Bytes} {comps : List Comp} {adr : Nat} {d : Bytes}
    (h : dirToBinary C key comps adr = .ok d) : d.length = 4 + (dirSize comps + 1) := by
  simp only [dirToBinary, Except.bind_eq_ok] at h
  obtain ⟨es, hes, len, hlen, hp⟩ := h
  simp only [pure, Except.pure, Except.ok.injEq] at hp
  subst hp
  simp only [List.length_append, toBytesBE_len hlen, dirEntries_len hm comps hes, List.length_cons, List.length_nil]

/-- reading back what `to_binary` wrote, for every registered crypto whose MAC has the MAC size -/
theorem fromBinary_toBinary_general (C : Crypto) (hm : MacLen C) (chk : Bool) (key : Bytes)
    (comps : List Comp) (off : Nat) (b : Bytes)
    (hok : ∀ c ∈ comps, CompOK C key c)
    (h : toBinary C comps off key = .ok b) :
    fromBinary C chk key off b = readBackAll C key comps := by
  simp only [toBinary, Except.bind_eq_ok] at h
  obtain ⟨d0, hd0, rawDir, hdir, raws, hraws, hp⟩ := h
  simp only [pure, Except.pure, Except.ok.injEq] at hp
  subst hp
  have hlen0 := dirToBinary_len hm hd0
  have hlen1 := dirToBinary_len hm hdir
  simp only [dirToBinary, Except.bind_eq_ok] at hdir
  obtain ⟨es, hes, len, hlen, hp⟩ := hdir
  simp only [pure, Except.pure, Except.ok.injEq] at hp
  subst hp
  obtain ⟨rfl, hsz⟩ := toBytesBE_ok hlen
  have heslen := dirEntries_len hm comps hes
  obtain ⟨ents, len1, dir, hents, hsplit, hlen1', hparse⟩ :=
    parseEntries_dirEntries C hm chk key comps 0 (off + d0.length) es ((es ++ [0]).length + 1) hes hok
      (by have := dirSize_ge comps; simp only [List.length_append, heslen]; omega)
  have hrc := readComps_entriesOf C chk key comps (off + d0.length) ents raws [] hents hraws
  simp only [List.append_nil] at hrc
  have hpos : off + (4 + (es ++ [0]).length) = off + d0.length := by
    rw [hlen0]; simp only [List.length_append, heslen, List.length_cons, List.length_nil]
  unfold fromBinary dirFromBinary
  simp only [List.append_assoc]
  rw [readInt_toBE 4 _ _ hsz]
  simp only [bind, Except.bind]
  rw [← List.append_assoc es [0] raws, take_append (es ++ [0]) raws]
  simp only []
  rw [hsplit, readInt1 len1 dir hlen1']
  simp only [← hsplit] at hparse ⊢
  simp only [Nat.add_zero] at hparse
  rw [hparse]
  simp only [pure, Except.pure]
  rw [hpos, hrc]
  cases readBackAll C key comps <;> simp [Except.map, ensureEof]
end Bec2Verif.Bf3
