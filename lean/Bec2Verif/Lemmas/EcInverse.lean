import Bec2Verif.Model.Ec
import Mathlib.Data.Nat.Prime.Basic
import Mathlib.Data.Int.GCD
import Mathlib.Tactic.Linarith
import Mathlib.Tactic.Ring
/-!
Completeness of the modelled `inverse_mod`: for a prime modulus every value that is not a multiple of it gets an
inverse — the extended Euclid loop terminates within its fuel (`2·log₂ m + 4` steps: the product of the two
remainders at least halves in every step) and ends in gcd 1.
-/
namespace Bec2Verif.Ec

theorem egcd_dvd (fuel : ℕ) (r0 r1 s0 s1 : ℤ) (h1 : 0 ≤ r1) (h10 : r1 ≤ r0) (hprod : r0 * r1 < 2 ^ fuel) :
    (egcd fuel r0 r1 s0 s1).1 ∣ r0 ∧ (egcd fuel r0 r1 s0 s1).1 ∣ r1 ∧ 0 ≤ (egcd fuel r0 r1 s0 s1).1 := by
  induction fuel generalizing r0 r1 s0 s1 with
  | zero =>
    have hr1 : r1 = 0 := by
      simp only [pow_zero] at hprod
      by_contra hne
      have : 1 ≤ r1 := by omega
      have : 1 ≤ r0 := by omega
      nlinarith
    subst hr1
    simp only [egcd]
    exact ⟨dvd_refl _, dvd_zero _, by omega⟩
  | succ f ih =>
    unfold egcd
    by_cases hz : r1 = 0
    · subst hz
      simp only [beq_self_eq_true, if_true]
      exact ⟨dvd_refl _, dvd_zero _, by omega⟩
    · have hb : (r1 == 0) = false := by simpa using hz
      simp only [hb, Bool.false_eq_true, if_false]
      have hpos : 0 < r1 := by omega
      have hrem : r0 - r0 / r1 * r1 = r0 % r1 := by rw [Int.emod_def]; ring
      rw [hrem]
      have hr0 : 0 ≤ r0 % r1 := Int.emod_nonneg _ hz
      have hr1 : r0 % r1 < r1 := Int.emod_lt_of_pos _ hpos
      have hq : 1 ≤ r0 / r1 := by
        have := Int.ediv_le_ediv hpos h10
        rw [Int.ediv_self hz] at this
        exact this
      have hdecomp : r0 = r1 * (r0 / r1) + r0 % r1 := (Int.mul_ediv_add_emod r0 r1).symm
      have hbig : r1 + r0 % r1 ≤ r0 := by nlinarith
      have hp : r1 * (r0 % r1) < 2 ^ f := by
        have h2 : 2 * (r0 % r1) < r0 := by omega
        have : 2 * (r0 % r1) * r1 < r0 * r1 := by nlinarith
        rw [pow_succ] at hprod
        nlinarith
      obtain ⟨d1, d2, d3⟩ := ih r1 (r0 % r1) s1 (s0 - r0 / r1 * s1) hr0 (le_of_lt hr1) hp
      refine ⟨?_, d1, d3⟩
      have := Int.dvd_add (Dvd.dvd.mul_right d1 (r0 / r1)) d2
      rw [← hdecomp] at this
      exact this

theorem lt_two_pow_log2 (m : ℕ) : m < 2 ^ (m.log2 + 1) := Nat.lt_log2_self

theorem inverseMod_complete (m : ℕ) (hm : m.Prime) (v : ℤ) (hv : ¬ (m : ℤ) ∣ v) : ∃ zi, inverseMod v m = some zi := by
  unfold inverseMod
  have hv0 : (v == 0) = false := by
    rw [beq_eq_false_iff_ne]; intro h; exact hv (h ▸ dvd_zero _)
  simp only [hv0, Bool.false_eq_true, if_false]
  have hmpos : (0 : ℤ) < m := by exact_mod_cast hm.pos
  have ha0 : 0 ≤ v % (m : ℤ) := Int.emod_nonneg _ (by omega)
  have ha1 : v % (m : ℤ) < m := Int.emod_lt_of_pos _ hmpos
  have hane : v % (m : ℤ) ≠ 0 := fun h => hv (Int.dvd_of_emod_eq_zero h)
  -- first step: quotient 0, the operands swap
  have hstep : egcd (2 * (m : ℤ).toNat.log2 + 4) (v % (m : ℤ)) m 1 0 =
      egcd (2 * (m : ℤ).toNat.log2 + 3) m (v % (m : ℤ)) 0 1 := by
    rw [show 2 * (m : ℤ).toNat.log2 + 4 = (2 * (m : ℤ).toNat.log2 + 3) + 1 from rfl]
    conv => lhs; unfold egcd
    have : ((m : ℤ) == 0) = false := by rw [beq_eq_false_iff_ne]; omega
    simp only [this, Bool.false_eq_true, if_false, Int.ediv_eq_zero_of_lt ha0 ha1]
    simp
  rw [hstep]
  have hprod : (m : ℤ) * (v % (m : ℤ)) < 2 ^ (2 * (m : ℤ).toNat.log2 + 3) := by
    simp only [Int.toNat_natCast]
    have h1 : (m : ℤ) < 2 ^ (m.log2 + 1) := by exact_mod_cast lt_two_pow_log2 m
    have h2 : (m : ℤ) * (v % (m : ℤ)) < (m : ℤ) * m := by nlinarith
    have h3 : (m : ℤ) * m < 2 ^ (m.log2 + 1) * 2 ^ (m.log2 + 1) := by nlinarith
    have h4 : (2 : ℤ) ^ (m.log2 + 1) * 2 ^ (m.log2 + 1) ≤ 2 ^ (2 * m.log2 + 3) := by
      rw [← pow_add]
      exact pow_le_pow_right₀ (by norm_num) (by omega)
    omega
  obtain ⟨d1, d2, d3⟩ := egcd_dvd _ (m : ℤ) (v % (m : ℤ)) 0 1 ha0 (le_of_lt ha1) hprod
  generalize (egcd (2 * (m : ℤ).toNat.log2 + 3) m (v % (m : ℤ)) 0 1) = res at d1 d2 d3
  obtain ⟨g, s⟩ := res
  simp only at d1 d2 d3 ⊢
  have hg1 : g = 1 := by
    have hnat : g.natAbs ∣ m := Int.natAbs_dvd_natAbs.mpr d1
    rcases (Nat.dvd_prime hm).mp hnat with h | h
    · omega
    · exfalso
      have : (m : ℤ) ∣ v % (m : ℤ) := by
        have hgm : g = m := by omega
        have d2' := d2
        rw [hgm] at d2'
        exact d2'
      have := Int.eq_zero_of_dvd_of_nonneg_of_lt ha0 ha1 this
      exact hane this
  subst hg1
  exact ⟨s % (m : ℤ), by simp⟩

end Bec2Verif.Ec
