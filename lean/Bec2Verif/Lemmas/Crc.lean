import Bec2Verif.Model.Crc
import Bec2Verif.Spec.CrcBitSerial
import Bec2Verif.Lemmas.Kernel

namespace Bec2Verif.Crc
open Bec2Verif.Spec.Crc

/-- the table-free byte function hidden in the three shifts -/
def g (b0 : Nat) : Nat :=
  let b := b0 ^^^ ((b0 <<< 4) &&& 0xFF)
  (b <<< 8) ^^^ (b <<< 3) ^^^ (b >>> 4)

theorem stepPy_eq (cur c : Nat) (hc : c < 256) :
    stepPy cur c = ((cur ^^^ c) >>> 8) ^^^ g ((cur ^^^ c) &&& 0xFF) := by
  have h1 : c >>> 8 = 0 := by
    rw [Nat.shiftRight_eq_div_pow]; omega
  have h2 : c &&& 0xFF = c := by
    have := @Nat.and_two_pow_sub_one_eq_mod c 8
    simp at this; rw [this]; omega
  have e1 : (cur ^^^ c) >>> 8 = cur >>> 8 := by
    rw [Nat.shiftRight_xor_distrib, h1, Nat.xor_zero]
  have e2 : (cur ^^^ c) &&& 0xFF = c ^^^ (cur &&& 0xFF) := by
    rw [Nat.and_xor_distrib_right, h2, Nat.xor_comm]
  rw [e1, e2]
  simp only [stepPy, g, Nat.xor_assoc]

theorem bit1_xor (a b : Nat) : bit1 (a ^^^ b) = bit1 a ^^^ bit1 b := by
  unfold bit1
  have hx := @Nat.xor_mod_two_eq_one a b
  rw [Nat.shiftRight_xor_distrib]
  by_cases ha : a % 2 = 1 <;> by_cases hb : b % 2 = 1
  · have : ¬ ((a ^^^ b) % 2 = 1) := by rw [hx]; simp [ha, hb]
    simp only [ha, hb, this, if_true, if_false]
    -- (x ^ p) ^ (y ^ p) = x ^ y
    have e : ∀ x y p : Nat, x ^^^ y = (x ^^^ p) ^^^ (y ^^^ p) := by
      intro x y p
      calc x ^^^ y = x ^^^ y ^^^ (p ^^^ p) := by rw [Nat.xor_self, Nat.xor_zero]
        _ = (x ^^^ p) ^^^ (y ^^^ p) := by ac_rfl
    exact e _ _ _
  · have : (a ^^^ b) % 2 = 1 := by rw [hx]; simp [ha, hb]
    simp only [ha, hb, this, if_true, if_false]
    ac_rfl
  · have : (a ^^^ b) % 2 = 1 := by rw [hx]; simp [ha, hb]
    simp only [ha, hb, this, if_true, if_false]
    ac_rfl
  · have : ¬ ((a ^^^ b) % 2 = 1) := by rw [hx]; simp [ha, hb]
    simp only [ha, hb, this, if_false]

theorem bit8_xor (a b : Nat) : bit8 (a ^^^ b) = bit8 a ^^^ bit8 b := by
  simp only [bit8, bit1_xor]

set_option maxRecDepth 100000 in
theorem bit8_high_tab :
    allBelow (fun h => Nat.beq (bit8 (h <<< 8)) h) 256 = true := by decide +kernel

set_option maxRecDepth 100000 in
theorem bit8_low_tab :
    allBelow (fun l => Nat.beq (bit8 l) (g l)) 256 = true := by decide +kernel

set_option maxRecDepth 100000 in
theorem g_bound_tab :
    allBelow (fun l => Nat.ble (g l + 1) 65536) 256 = true := by decide +kernel

theorem bit8_high (h : Nat) (hh : h < 256) : bit8 (h <<< 8) = h :=
  Nat.eq_of_beq_eq_true (allBelow_spec _ _ bit8_high_tab h hh)

theorem bit8_low (l : Nat) (hl : l < 256) : bit8 l = g l :=
  Nat.eq_of_beq_eq_true (allBelow_spec _ _ bit8_low_tab l hl)

theorem g_bound (l : Nat) (hl : l < 256) : g l < 65536 := by
  have := Nat.le_of_ble_eq_true (allBelow_spec _ _ g_bound_tab l hl)
  omega

/-- split a 16-bit value into high byte shifted and low byte -/
theorem split16 (x : Nat) : x = ((x >>> 8) <<< 8) ^^^ (x &&& 0xFF) := by
  apply Nat.eq_of_testBit_eq
  intro i
  rw [Nat.testBit_xor, Nat.testBit_shiftLeft, Nat.testBit_shiftRight]
  have : (0xFF : Nat) = 2 ^ 8 - 1 := by decide
  rw [this, Nat.testBit_and, Nat.testBit_two_pow_sub_one]
  by_cases hi : i < 8
  · have : ¬ (i ≥ 8) := by omega
    simp [hi, this]
  · have h8 : i ≥ 8 := by omega
    have : 8 + (i - 8) = i := by omega
    simp [hi, h8, this]

end Bec2Verif.Crc
