import Bec2Verif.Lemmas.CubicRoot
import Bec2Verif.Lemmas.Lucas
import Bec2Verif.Lemmas.EcAffineFacts
import Bec2Verif.Gen.Curves
/-!
Certified curves: what has to be checked (by the kernel, on the constants regenerated from the source) for a named curve
so that the C17 / C18 theorems apply to it without hypotheses.
-/
set_option linter.style.nameCheck false
set_option linter.unusedVariables false
namespace Bec2Verif.Cert
open Bec2Verif Bec2Verif.Ec Bec2Verif.EcC Bec2Verif.EcF WeierstrassCurve

def curveOf (r : Gen.CurveRec) : Curve := { p := r.p, a := r.a, b := r.b }

/-- the field is a prime field of odd characteristic, the curve has no point with `y = 0`, the generator is a point of
the curve's group (Mathlib's) with reduced affine coordinates, and `n · G = 0` -/
def GroupCert (r : Gen.CurveRec) : Prop :=
  ∃ (p : ℕ) (_ : Fact p.Prime) (Gp : (W ((r.a : ℤ) : ZMod p) ((r.b : ℤ) : ZMod p)).Point),
    r.p = (p : ℤ) ∧ CurveOK p r.a r.b ∧ TRep p r.a r.b Gp (r.gx, r.gy, 1) ∧
    (0 ≤ r.gx ∧ r.gx < (p : ℤ)) ∧ (0 ≤ r.gy ∧ r.gy < (p : ℤ)) ∧ 0 < r.n ∧ r.n % 2 = 1 ∧ r.n • Gp = 0 ∧ Gp ≠ 0

/-- the group order is an odd prime -/
def OrderCert (r : Gen.CurveRec) : Prop := ∃ N : ℕ, r.n = (N : ℤ) ∧ N.Prime ∧ N ≠ 2

theorem groupCert_of (r : Gen.CurveRec) (p : ℕ) (hp : p.Prime) (hrp : r.p = (p : ℤ)) (hodd : p ≠ 2)
    (fuel : ℕ) (hfuel : p < 2 ^ fuel) (B : Cubic.T)
    (hcert : Cubic.mulT p r.a r.b
      ((Cubic.powX p r.a r.b fuel p).1, ((Cubic.powX p r.a r.b fuel p).2.1 - 1) % (p : ℤ), (Cubic.powX p r.a r.b fuel p).2.2) B
        = (1, 0, 0))
    (hon : containsPoint (curveOf r) r.gx r.gy = true)
    (hgx : 0 ≤ r.gx ∧ r.gx < (p : ℤ)) (hgy : 0 ≤ r.gy ∧ r.gy < (p : ℤ)) (hn : 0 < r.n) (hnodd : r.n % 2 = 1)
    (hord : mulNaf (curveOf r) 0 (.jac r.gx r.gy 1) r.n = some .inf) : GroupCert r := by
  haveI : Fact p.Prime := ⟨hp⟩
  have hcok : CurveOK p r.a r.b := by
    refine ⟨?_, ?_⟩
    · intro h
      have h2 : ((2 : ℕ) : ZMod p) = 0 := by exact_mod_cast h
      rw [ZMod.natCast_eq_zero_iff] at h2
      have hle := Nat.le_of_dvd (by norm_num) h2
      have := hp.two_le
      omega
    · intro x y h hy
      rw [W_equation] at h
      subst hy
      apply Cubic.no_root (p := p) r.a r.b fuel hfuel B hcert x
      rw [← h]; ring
  have heq := equation_of_containsPoint (curveOf r) hrp rfl rfl r.gx r.gy hon
  refine ⟨p, ‹_›, .some _ _ (nonsingular_of_equation hcok heq), hrp, hcok, trep_affine hcok r.gx r.gy hgy heq, hgx, hgy, hn,
    hnodd, ?_, by intro h; cases h⟩
  have := mulNaf_rep hcok (curveOf r) hrp rfl 0 (pt := .jac r.gx r.gy 1) (trep_affine hcok r.gx r.gy hgy heq)
    (fun h => absurd rfl h) r.n hord
  exact this

end Bec2Verif.Cert
