import Bec2Verif.Spec.Gf256
import Bec2Verif.Gen.AesTables
import Bec2Verif.Lemmas.Kernel
/-!
C16, table clause: every entry of the 14 lookup tables and of `rcon` in the *current*
`pyaes/aes.py` (regenerated into `Gen/AesTables.lean` on every run) equals its GF(2^8)
definition.  256-case kernel evaluations.
-/
namespace Bec2Verif.AesTables
open Bec2Verif Bec2Verif.Spec.Gf Bec2Verif.Gen

def at' (t : Array Nat) (i : Nat) : Nat := t.getD i 0

set_option maxRecDepth 100000

theorem S_size : S.size = 256 ∧ Si.size = 256 ∧ T1.size = 256 ∧ T2.size = 256 ∧ T3.size = 256 ∧ T4.size = 256
    ∧ T5.size = 256 ∧ T6.size = 256 ∧ T7.size = 256 ∧ T8.size = 256 ∧ U1.size = 256 ∧ U2.size = 256
    ∧ U3.size = 256 ∧ U4.size = 256 ∧ rcon.size = 30 := by decide +kernel

theorem S_def : allBelow (fun x => Nat.beq (at' S x) (sbox x)) 256 = true := by decide +kernel
theorem Si_def : allBelow (fun x => Nat.beq (at' Si (at' S x)) x && Nat.beq (at' S (at' Si x)) x) 256 = true := by
  decide +kernel

theorem T1_def : allBelow (fun x => let s := at' S x
    Nat.beq (at' T1 x) (word (gmul s 2) s s (gmul s 3))) 256 = true := by decide +kernel
theorem T2_def : allBelow (fun x => let s := at' S x
    Nat.beq (at' T2 x) (word (gmul s 3) (gmul s 2) s s)) 256 = true := by decide +kernel
theorem T3_def : allBelow (fun x => let s := at' S x
    Nat.beq (at' T3 x) (word s (gmul s 3) (gmul s 2) s)) 256 = true := by decide +kernel
theorem T4_def : allBelow (fun x => let s := at' S x
    Nat.beq (at' T4 x) (word s s (gmul s 3) (gmul s 2))) 256 = true := by decide +kernel

theorem T5_def : allBelow (fun x => let s := at' Si x
    Nat.beq (at' T5 x) (word (gmul s 14) (gmul s 9) (gmul s 13) (gmul s 11))) 256 = true := by decide +kernel
theorem T6_def : allBelow (fun x => let s := at' Si x
    Nat.beq (at' T6 x) (word (gmul s 11) (gmul s 14) (gmul s 9) (gmul s 13))) 256 = true := by decide +kernel
theorem T7_def : allBelow (fun x => let s := at' Si x
    Nat.beq (at' T7 x) (word (gmul s 13) (gmul s 11) (gmul s 14) (gmul s 9))) 256 = true := by decide +kernel
theorem T8_def : allBelow (fun x => let s := at' Si x
    Nat.beq (at' T8 x) (word (gmul s 9) (gmul s 13) (gmul s 11) (gmul s 14))) 256 = true := by decide +kernel

theorem U1_def : allBelow (fun x =>
    Nat.beq (at' U1 x) (word (gmul x 14) (gmul x 9) (gmul x 13) (gmul x 11))) 256 = true := by decide +kernel
theorem U2_def : allBelow (fun x =>
    Nat.beq (at' U2 x) (word (gmul x 11) (gmul x 14) (gmul x 9) (gmul x 13))) 256 = true := by decide +kernel
theorem U3_def : allBelow (fun x =>
    Nat.beq (at' U3 x) (word (gmul x 13) (gmul x 11) (gmul x 14) (gmul x 9))) 256 = true := by decide +kernel
theorem U4_def : allBelow (fun x =>
    Nat.beq (at' U4 x) (word (gmul x 9) (gmul x 13) (gmul x 11) (gmul x 14))) 256 = true := by decide +kernel

/-- `rcon[i] = x^i` in GF(2^8) for all 30 entries -/
theorem rcon_def : allBelow (fun i => Nat.beq (at' rcon i) (gpow 2 i)) 30 = true := by decide +kernel

theorem rounds_def : number_of_rounds = [(16, 10), (24, 12), (32, 14)] := by decide

/-- the inverse S-box inverts the S-box, and the GF(2^8) inverse really is an inverse -/
theorem ginv_inverse : allBelow (fun x => Nat.beq x 0 || Nat.beq (gmul x (ginv x)) 1) 256 = true := by decide +kernel

end Bec2Verif.AesTables
