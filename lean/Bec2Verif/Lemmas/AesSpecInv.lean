import Bec2Verif.Lemmas.AesGf
/-!
FIPS-197: `InvCipher ∘ Cipher = id` on byte states, for every sequence of round keys and every number of rounds.
-/
namespace Bec2Verif.AesGf
open Bec2Verif Bec2Verif.Spec.Gf Bec2Verif.Spec.Fips

theorem mapCol_byte (f : Nat → Nat) (hf : ∀ x, x < 256 → f x < 256) (c : Col) (h : ByteCol c) : ByteCol (mapCol f c) := by
  obtain ⟨a, b, c, d⟩ := c
  obtain ⟨ha, hb, hc, hd⟩ := h
  exact ⟨hf _ ha, hf _ hb, hf _ hc, hf _ hd⟩

theorem mapState_byte (f : Col → Col) (hf : ∀ c, ByteCol c → ByteCol (f c)) (s : State) (h : ByteSt s) :
    ByteSt (mapState f s) := by
  obtain ⟨c0, c1, c2, c3⟩ := s
  obtain ⟨h0, h1, h2, h3⟩ := h
  exact ⟨hf _ h0, hf _ h1, hf _ h2, hf _ h3⟩

theorem subBytes_byte (s : State) (h : ByteSt s) : ByteSt (subBytes s) :=
  mapState_byte _ (fun c hc => mapCol_byte sbox sbox_lt c hc) s h

theorem invSubBytes_byte (s : State) (h : ByteSt s) : ByteSt (invSubBytes s) :=
  mapState_byte _ (fun c hc => mapCol_byte invSbox invSbox_lt c hc) s h

theorem mixColumns_byte (s : State) (h : ByteSt s) : ByteSt (mixColumns s) := mapState_byte _ mixCol_byte s h
theorem invMixColumns_byte (s : State) (h : ByteSt s) : ByteSt (invMixColumns s) := mapState_byte _ invMixCol_byte s h

theorem shiftRows_byte (s : State) (h : ByteSt s) : ByteSt (shiftRows s) := by
  obtain ⟨⟨a0, a1, a2, a3⟩, ⟨b0, b1, b2, b3⟩, ⟨c0, c1, c2, c3⟩, ⟨d0, d1, d2, d3⟩⟩ := s
  obtain ⟨⟨ha0, ha1, ha2, ha3⟩, ⟨hb0, hb1, hb2, hb3⟩, ⟨hc0, hc1, hc2, hc3⟩, ⟨hd0, hd1, hd2, hd3⟩⟩ := h
  exact ⟨⟨ha0, hb1, hc2, hd3⟩, ⟨hb0, hc1, hd2, ha3⟩, ⟨hc0, hd1, ha2, hb3⟩, ⟨hd0, ha1, hb2, hc3⟩⟩

theorem invShiftRows_byte (s : State) (h : ByteSt s) : ByteSt (invShiftRows s) := by
  obtain ⟨⟨a0, a1, a2, a3⟩, ⟨b0, b1, b2, b3⟩, ⟨c0, c1, c2, c3⟩, ⟨d0, d1, d2, d3⟩⟩ := s
  obtain ⟨⟨ha0, ha1, ha2, ha3⟩, ⟨hb0, hb1, hb2, hb3⟩, ⟨hc0, hc1, hc2, hc3⟩, ⟨hd0, hd1, hd2, hd3⟩⟩ := h
  exact ⟨⟨ha0, hd1, hc2, hb3⟩, ⟨hb0, ha1, hd2, hc3⟩, ⟨hc0, hb1, ha2, hd3⟩, ⟨hd0, hc1, hb2, ha3⟩⟩

theorem addRoundKey_byte (s k : State) (hs : ByteSt s) (hk : ByteSt k) : ByteSt (addRoundKey s k) := by
  obtain ⟨c0, c1, c2, c3⟩ := s
  obtain ⟨k0, k1, k2, k3⟩ := k
  obtain ⟨h0, h1, h2, h3⟩ := hs
  obtain ⟨g0, g1, g2, g3⟩ := hk
  exact ⟨xorCol_byte _ _ h0 g0, xorCol_byte _ _ h1 g1, xorCol_byte _ _ h2 g2, xorCol_byte _ _ h3 g3⟩

theorem addRoundKey_cancel (s k : State) : addRoundKey (addRoundKey s k) k = s := by
  obtain ⟨c0, c1, c2, c3⟩ := s
  obtain ⟨k0, k1, k2, k3⟩ := k
  simp [addRoundKey, xorCol_cancel]

theorem invShiftRows_shiftRows (s : State) : invShiftRows (shiftRows s) = s := by
  obtain ⟨⟨a0, a1, a2, a3⟩, ⟨b0, b1, b2, b3⟩, ⟨c0, c1, c2, c3⟩, ⟨d0, d1, d2, d3⟩⟩ := s
  rfl

theorem invSubBytes_subBytes (s : State) (h : ByteSt s) : invSubBytes (subBytes s) = s := by
  obtain ⟨⟨a0, a1, a2, a3⟩, ⟨b0, b1, b2, b3⟩, ⟨c0, c1, c2, c3⟩, ⟨d0, d1, d2, d3⟩⟩ := s
  obtain ⟨⟨ha0, ha1, ha2, ha3⟩, ⟨hb0, hb1, hb2, hb3⟩, ⟨hc0, hc1, hc2, hc3⟩, ⟨hd0, hd1, hd2, hd3⟩⟩ := h
  simp only at ha0 ha1 ha2 ha3 hb0 hb1 hb2 hb3 hc0 hc1 hc2 hc3 hd0 hd1 hd2 hd3
  simp only [invSubBytes, subBytes, mapState, mapCol, invSbox_sbox _ ha0, invSbox_sbox _ ha1, invSbox_sbox _ ha2,
    invSbox_sbox _ ha3, invSbox_sbox _ hb0, invSbox_sbox _ hb1, invSbox_sbox _ hb2, invSbox_sbox _ hb3,
    invSbox_sbox _ hc0, invSbox_sbox _ hc1, invSbox_sbox _ hc2, invSbox_sbox _ hc3, invSbox_sbox _ hd0,
    invSbox_sbox _ hd1, invSbox_sbox _ hd2, invSbox_sbox _ hd3]

/-- SubBytes acts byte by byte, ShiftRows only moves bytes: they commute -/
theorem subBytes_shiftRows (s : State) : subBytes (shiftRows s) = shiftRows (subBytes s) := by
  obtain ⟨⟨a0, a1, a2, a3⟩, ⟨b0, b1, b2, b3⟩, ⟨c0, c1, c2, c3⟩, ⟨d0, d1, d2, d3⟩⟩ := s
  rfl

theorem invSubBytes_invShiftRows (s : State) : invSubBytes (invShiftRows s) = invShiftRows (invSubBytes s) := by
  obtain ⟨⟨a0, a1, a2, a3⟩, ⟨b0, b1, b2, b3⟩, ⟨c0, c1, c2, c3⟩, ⟨d0, d1, d2, d3⟩⟩ := s
  rfl

/-- `InvSubBytes ∘ InvShiftRows` undoes `ShiftRows ∘ SubBytes` -/
theorem undo_sub_shift (s : State) (h : ByteSt s) : invSubBytes (invShiftRows (shiftRows (subBytes s))) = s := by
  rw [invShiftRows_shiftRows, invSubBytes_subBytes s h]

theorem invMixColumns_mixColumns (s : State) (h : ByteSt s) : invMixColumns (mixColumns s) = s := by
  obtain ⟨c0, c1, c2, c3⟩ := s
  obtain ⟨h0, h1, h2, h3⟩ := h
  simp only [invMixColumns, mixColumns, mapState, invMixCol_mixCol _ h0, invMixCol_mixCol _ h1, invMixCol_mixCol _ h2,
    invMixCol_mixCol _ h3]

theorem invMixColumns_addRoundKey (s k : State) (hs : ByteSt s) (hk : ByteSt k) :
    invMixColumns (addRoundKey s k) = addRoundKey (invMixColumns s) (invMixColumns k) := by
  obtain ⟨c0, c1, c2, c3⟩ := s
  obtain ⟨k0, k1, k2, k3⟩ := k
  obtain ⟨h0, h1, h2, h3⟩ := hs
  obtain ⟨g0, g1, g2, g3⟩ := hk
  simp only [invMixColumns, addRoundKey, mapState, invMixCol_xor _ _ h0 g0, invMixCol_xor _ _ h1 g1,
    invMixCol_xor _ _ h2 g2, invMixCol_xor _ _ h3 g3]

theorem loop_snoc (f : Nat → State → State) (n r : Nat) (s : State) : loop f (n + 1) r s = f (r + n) (loop f n r s) := by
  induction n generalizing r s with
  | zero => simp [loop]
  | succ n ih =>
    rw [loop, ih (r + 1) (f r s)]
    have : r + 1 + n = r + (n + 1) := by omega
    rw [this]
    rfl

theorem loop_byte (f : Nat → State → State) (hf : ∀ r s, ByteSt s → ByteSt (f r s)) (n r : Nat) (s : State)
    (h : ByteSt s) : ByteSt (loop f n r s) := by
  induction n generalizing r s with
  | zero => exact h
  | succ n ih => exact ih _ _ (hf r s h)

/-- the inverse rounds unwind the forward rounds one by one -/
theorem unwind (w : Nat → State) (hw : ∀ r, ByteSt (w r)) (nr : Nat) (n a : Nat) (s : State) (hs : ByteSt s)
    (ha : 1 ≤ a + n) (hn : a + n ≤ nr + 1) :
    loop (fun r t => invMixColumns (addRoundKey (invSubBytes (invShiftRows t)) (w (nr - r)))) n (nr - (a + n - 1))
      (shiftRows (subBytes (loop (fun r s => addRoundKey (mixColumns (shiftRows (subBytes s))) (w r)) n a s))) =
    shiftRows (subBytes s) := by
  revert ha hn
  induction n with
  | zero => intro _ _; rfl
  | succ n ih =>
    intro ha hn
    rw [loop_snoc (fun r s => addRoundKey (mixColumns (shiftRows (subBytes s))) (w r))]
    rw [loop]
    generalize hs' : loop (fun r s => addRoundKey (mixColumns (shiftRows (subBytes s))) (w r)) n a s = s'
    have hb : ByteSt s' := by
      rw [← hs']
      exact loop_byte _ (fun r s h => addRoundKey_byte _ _ (mixColumns_byte _ (shiftRows_byte _ (subBytes_byte _ h))) (hw r))
        n a s hs
    have hkey : nr - (nr - (a + (n + 1) - 1)) = a + n := by omega
    have hmc : ByteSt (mixColumns (shiftRows (subBytes s'))) := mixColumns_byte _ (shiftRows_byte _ (subBytes_byte _ hb))
    simp only [hkey]
    rw [undo_sub_shift _ (addRoundKey_byte _ _ hmc (hw _)), addRoundKey_cancel,
      invMixColumns_mixColumns _ (shiftRows_byte _ (subBytes_byte _ hb))]
    by_cases hz : n = 0
    · subst hz
      simp only [loop] at hs' ⊢
      rw [hs']
    · have hidx : nr - (a + (n + 1) - 1) + 1 = nr - (a + n - 1) := by omega
      rw [hidx]
      subst hs'
      exact ih (by omega) (by omega)

/-- **FIPS-197: the inverse cipher inverts the cipher**, for every round-key sequence and number of rounds ≥ 1 -/
theorem invCipher_cipher (w : Nat → State) (hw : ∀ r, ByteSt (w r)) (nr : Nat) (hnr : 1 ≤ nr) (s : State) (hs : ByteSt s) :
    invCipher w nr (cipher w nr s) = s := by
  unfold invCipher cipher
  simp only
  rw [addRoundKey_cancel]
  have h0 : ByteSt (addRoundKey s (w 0)) := addRoundKey_byte _ _ hs (hw 0)
  have := unwind w hw nr (nr - 1) 1 (addRoundKey s (w 0)) h0 (by omega) (by omega)
  have hidx : nr - (1 + (nr - 1) - 1) = 1 := by omega
  rw [hidx] at this
  rw [this, undo_sub_shift _ h0, addRoundKey_cancel]

end Bec2Verif.AesGf
