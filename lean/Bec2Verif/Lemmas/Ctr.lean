import Bec2Verif.Model.Modes
/-!
CTR mode (`AESModeOfOperationCTR`): one call XORs the data with the key stream `E(T) ‖ E(T+1) ‖ …` (SP 800-38A §6.5)
continuing where the previous call stopped, and splitting the input across calls changes neither output nor state.
-/
namespace Bec2Verif.Modes
open Bec2Verif

variable (B : BlockCipher) (k : B.K)

/-- `m` key-stream blocks from counter block `c` -/
def ks : Nat → Bytes → Bytes
  | 0, _ => []
  | m+1, c => B.enc k c ++ ks m (counterInc c)

def incN : Nat → Bytes → Bytes
  | 0, c => c
  | m+1, c => incN m (counterInc c)

theorem incN_add (m1 m2 : Nat) (c : Bytes) : incN (m1 + m2) c = incN m2 (incN m1 c) := by
  induction m1 generalizing c with
  | zero => simp [incN]
  | succ m ih => rw [Nat.succ_add]; simp only [incN]; exact ih _

theorem ks_add (m1 m2 : Nat) (c : Bytes) : ks B k (m1 + m2) c = ks B k m1 c ++ ks B k m2 (incN m1 c) := by
  induction m1 generalizing c with
  | zero => simp [ks, incN]
  | succ m ih => rw [Nat.succ_add]; simp only [ks, incN, List.append_assoc]; rw [ih]

theorem ks_length (hlen : ∀ b, (B.enc k b).length = 16) (m : Nat) (c : Bytes) : (ks B k m c).length = 16 * m := by
  induction m generalizing c with
  | zero => rfl
  | succ m ih => simp only [ks, List.length_append, hlen, ih]; omega

/-- blocks needed to serve `need` bytes when `have_` are left over -/
def blocksFor (need have_ : Nat) : Nat := (need - have_ + 15) / 16

theorem ctrFill_spec (hlen : ∀ b, (B.enc k b).length = 16) (need fuel : Nat) (rem c : Bytes)
    (hf : need ≤ rem.length + 16 * fuel) :
    ctrFill B k need fuel rem c = (rem ++ ks B k (blocksFor need rem.length) c, incN (blocksFor need rem.length) c) := by
  induction fuel generalizing rem c with
  | zero =>
    have : blocksFor need rem.length = 0 := by unfold blocksFor; omega
    simp [ctrFill, this, ks, incN]
  | succ f ih =>
    unfold ctrFill
    by_cases hlt : rem.length < need
    · simp only [hlt, if_true]
      rw [ih (rem ++ B.enc k c) (counterInc c) (by simp only [List.length_append, hlen]; omega)]
      have hb : blocksFor need rem.length = blocksFor need (rem ++ B.enc k c).length + 1 := by
        simp only [blocksFor, List.length_append, hlen]; omega
      rw [hb]
      simp only [ks, incN, List.append_assoc]
    · simp only [hlt, if_false]
      have : blocksFor need rem.length = 0 := by unfold blocksFor; omega
      simp [this, ks, incN]

/-- one call of a CTR object -/
theorem step_ctr (hlen : ∀ key b, (B.enc key b).length = 16) (s : St B) (hk : s.kind = .ctr) (dec : Bool) (data : Bytes) :
    step B s dec data =
      .ok ({ s with rem := (s.rem ++ ks B s.key (blocksFor data.length s.rem.length) s.counter).drop data.length,
                    counter := incN (blocksFor data.length s.rem.length) s.counter },
           xorBytes data (s.rem ++ ks B s.key (blocksFor data.length s.rem.length) s.counter)) := by
  unfold step
  simp only [hk]
  rw [ctrFill_spec B s.key (hlen s.key) data.length (data.length / 16 + 2) s.rem s.counter (by omega)]
  simp only
  have hl : (xorBytes data (s.rem ++ ks B s.key (blocksFor data.length s.rem.length) s.counter)).length = data.length := by
    simp only [xorBytes, List.length_zipWith, List.length_append, ks_length B s.key (hlen s.key)]
    unfold blocksFor; omega
  rw [hl]

theorem xorBytes_append (a b s t : Bytes) (h : a.length = s.length) :
    xorBytes (a ++ b) (s ++ t) = xorBytes a s ++ xorBytes b t := by
  unfold xorBytes
  exact List.zipWith_append h

theorem xorBytes_take (a s : Bytes) : xorBytes a s = xorBytes a (s.take a.length) := by
  unfold xorBytes
  induction a generalizing s with
  | nil => simp
  | cons x xs ih =>
    cases s with
    | nil => simp
    | cons y ys => simp only [List.zipWith_cons_cons, List.length_cons, List.take_succ_cons]; rw [ih]

theorem xor_split (a b S1 K2 : Bytes) (h : a.length ≤ S1.length) :
    xorBytes (a ++ b) (S1 ++ K2) = xorBytes a S1 ++ xorBytes b (S1.drop a.length ++ K2) := by
  have hS : S1 ++ K2 = S1.take a.length ++ (S1.drop a.length ++ K2) := by
    rw [← List.append_assoc, List.take_append_drop]
  rw [hS, xorBytes_append a b _ _ (by rw [List.length_take]; omega), ← xorBytes_take]

theorem drop_split (a b S1 K2 : Bytes) (h : a.length ≤ S1.length) :
    (S1 ++ K2).drop (a ++ b).length = (S1.drop a.length ++ K2).drop b.length := by
  rw [List.length_append, ← List.drop_drop, List.drop_append_of_le_length h]

/-- **split independence**: feeding `a ++ b` in one call or `a` then `b` in two gives the same output and the same state -/
theorem ctr_split (hlen : ∀ key b, (B.enc key b).length = 16) (s : St B) (hk : s.kind = .ctr) (dec : Bool) (a b : Bytes) :
    step B s dec (a ++ b) =
      (step B s dec a >>= fun (s1, o1) => step B s1 dec b >>= fun (s2, o2) => .ok (s2, o1 ++ o2)) := by
  rw [step_ctr B hlen s hk dec (a ++ b), step_ctr B hlen s hk dec a]
  simp only [bind, Except.bind]
  rw [step_ctr B hlen _ (by simpa using hk) dec b]
  simp only
  have hS1len : (s.rem ++ ks B s.key (blocksFor a.length s.rem.length) s.counter).length =
      s.rem.length + 16 * blocksFor a.length s.rem.length := by
    rw [List.length_append, ks_length B s.key (hlen s.key)]
  have hge : a.length ≤ (s.rem ++ ks B s.key (blocksFor a.length s.rem.length) s.counter).length := by
    rw [hS1len]; unfold blocksFor; omega
  have hm : blocksFor (a ++ b).length s.rem.length = blocksFor a.length s.rem.length +
      blocksFor b.length ((s.rem ++ ks B s.key (blocksFor a.length s.rem.length) s.counter).drop a.length).length := by
    rw [List.length_drop, hS1len]
    simp only [blocksFor, List.length_append]
    omega
  rw [hm, ks_add, incN_add, ← List.append_assoc]
  rw [xor_split a b _ _ hge, drop_split a b _ _ hge]

end Bec2Verif.Modes
