import Bec2Verif.Lemmas.AesRounds
import Bec2Verif.Model.Crypto
/-!
`decryptBlock ∘ encryptBlock = id` for every key schedule produced by `mkKeys` (`AES.__init__`): the equivalent inverse
cipher with the transformed keys is FIPS-197's InvCipher (linearity of InvMixColumns), which inverts Cipher.
-/
namespace Bec2Verif.AesW
open Bec2Verif Bec2Verif.Aes Bec2Verif.Gen Bec2Verif.Spec.Gf Bec2Verif.Spec.Fips Bec2Verif.AesGf

theorem loop_congr (f g : Nat → State → State) (n r0 : Nat) (s : State) (hs : ByteSt s)
    (hf : ∀ r, r0 ≤ r → r < r0 + n → ∀ s, ByteSt s → ByteSt (f r s))
    (h : ∀ r, r0 ≤ r → r < r0 + n → ∀ s, ByteSt s → f r s = g r s) : loop f n r0 s = loop g n r0 s := by
  induction n generalizing r0 s with
  | zero => rfl
  | succ n ih =>
    rw [loop, loop, ← h r0 (Nat.le_refl _) (by omega) s hs]
    exact ih (r0 + 1) (f r0 s) (hf r0 (Nat.le_refl _) (by omega) s hs) (fun r h1 h2 => hf r (by omega) (by omega))
      (fun r h1 h2 => h r (by omega) (by omega))

/-- §5.3.5: with `dw 0 = w Nr`, `dw r = InvMixColumns (w (Nr − r))` in between and `dw Nr = w 0`, the equivalent inverse
cipher is the inverse cipher -/
theorem eqInv_eq_inv (w dw : Nat → State) (hw : ∀ r, ByteSt (w r)) (nr : Nat)
    (h0 : dw 0 = w nr) (hmid : ∀ r, 1 ≤ r → r < nr → dw r = invMixColumns (w (nr - r))) (hlast : dw nr = w 0)
    (s : State) (hs : ByteSt s) : eqInvCipher dw nr s = invCipher w nr s := by
  unfold eqInvCipher invCipher
  simp only
  rw [h0, hlast]
  congr 3
  apply loop_congr
  · exact addRoundKey_byte _ _ hs (hw _)
  · intro r h1 h2 s hs
    rw [hmid r h1 (by omega)]
    exact addRoundKey_byte _ _ (invMixColumns_byte _ (invSubBytes_byte _ (invShiftRows_byte _ hs)))
      (invMixColumns_byte _ (hw _))
  · intro r h1 h2 s hs
    rw [hmid r h1 (by omega), invMixColumns_addRoundKey _ _ (invSubBytes_byte _ (invShiftRows_byte _ hs)) (hw _)]

/-! ### the key schedules of `mkKeys` -/

theorem prefixXor_length (p : Nat) (l : List Nat) : (prefixXor p l).length = l.length := by
  induction l generalizing p with
  | nil => rfl
  | cons x xs ih => simp [prefixXor, ih]

theorem expandStep_length (kc : Nat) (tk : List Nat) (rp : Nat) (h : tk.length = kc) (hk : kc = 4 ∨ kc = 6 ∨ kc = 8) :
    (expandStep kc tk rp).length = kc := by
  unfold expandStep
  simp only
  split
  · simp only [List.length_cons, prefixXor_length, List.length_tail]; omega
  · rename_i h8
    have h8' : kc = 8 := by simpa using h8
    simp only [List.length_append, List.length_cons, prefixXor_length, List.length_take, List.length_drop]; omega

theorem expandLoop_length (kc rkc : Nat) (hk : kc = 4 ∨ kc = 6 ∨ kc = 8) (fuel : Nat) (tk : List Nat) (rp : Nat)
    (acc : List Nat) (htk : tk.length = kc) (hf : rkc ≤ acc.length + fuel) :
    rkc ≤ (expandLoop kc rkc fuel tk rp acc).length := by
  induction fuel generalizing tk rp acc with
  | zero => simpa [expandLoop] using hf
  | succ f ih =>
    unfold expandLoop
    split
    · have hl := expandStep_length kc tk rp htk hk
      apply ih _ _ _ hl
      simp only [List.length_append, hl]; omega
    · omega

theorem wordsOf_length : ∀ l : List Nat, (wordsOf l).length = l.length / 4
  | [] => by simp [wordsOf]
  | [_] => by simp [wordsOf]
  | [_, _] => by simp [wordsOf]
  | [_, _, _] => by simp [wordsOf]
  | _ :: _ :: _ :: _ :: rest => by
    simp only [wordsOf, List.length_cons, wordsOf_length rest]; omega

theorem roundsFor_cases (n rounds : Nat) (h : roundsFor n = some rounds) :
    (n = 16 ∧ rounds = 10) ∨ (n = 24 ∧ rounds = 12) ∨ (n = 32 ∧ rounds = 14) := by
  unfold roundsFor at h
  have hd : number_of_rounds = [(16, 10), (24, 12), (32, 14)] := by decide
  rw [hd] at h
  simp only [List.find?, Option.map] at h
  by_cases h16 : n = 16
  · subst h16; simp at h; omega
  · by_cases h24 : n = 24
    · subst h24; simp at h; omega
    · by_cases h32 : n = 32
      · subst h32; simp at h; omega
      · have e1 : ((16 : Nat) == n) = false := by simp; omega
        have e2 : ((24 : Nat) == n) = false := by simp; omega
        have e3 : ((32 : Nat) == n) = false := by simp; omega
        simp [e1, e2, e3] at h

theorem expandKey_length (key : List Nat) (rounds : Nat)
    (h : (key.length = 16 ∧ rounds = 10) ∨ (key.length = 24 ∧ rounds = 12) ∨ (key.length = 32 ∧ rounds = 14)) :
    (expandKey key rounds).length = (rounds + 1) * 4 := by
  unfold expandKey
  simp only
  have hw := wordsOf_length key
  have hk : key.length / 4 = 4 ∨ key.length / 4 = 6 ∨ key.length / 4 = 8 := by omega
  have := expandLoop_length (key.length / 4) ((rounds + 1) * 4) hk ((rounds + 1) * 4) (wordsOf key) 0 (wordsOf key) hw
    (by omega)
  rw [List.length_take]
  omega

/-- entry `r·4 + i` of a concatenation of 4-element chunks -/
theorem flatMap_getD {α : Type} (L : List α) (f : α → List Nat) (hlen : ∀ x ∈ L, (f x).length = 4) (r i : Nat)
    (hr : r < L.length) (hi : i < 4) : (L.flatMap f).getD (r * 4 + i) 0 = (f L[r]).getD i 0 := by
  induction L generalizing r with
  | nil => simp at hr
  | cons x xs ih =>
    have hx := hlen x (by simp)
    simp only [List.flatMap_cons]
    cases r with
    | zero =>
      simp only [Nat.zero_mul, Nat.zero_add, List.getElem_cons_zero]
      rw [List.getD_eq_getElem?_getD, List.getElem?_append_left (by omega), ← List.getD_eq_getElem?_getD]
    | succ r =>
      simp only [List.getElem_cons_succ]
      rw [List.getD_eq_getElem?_getD, List.getElem?_append_right (by omega)]
      have : (r + 1) * 4 + i - (f x).length = r * 4 + i := by omega
      rw [this, ← List.getD_eq_getElem?_getD]
      exact ih (fun y hy => hlen y (by simp [hy])) r (by simpa using hr)

theorem getD_toArray (l : List Nat) (i d : Nat) : l.toArray.getD i d = l.getD i d := by
  simp [Array.getD, List.getD]
  split <;> simp_all

theorem chunk_getD (w : List Nat) (off i : Nat) (hi : i < 4) : ((w.drop off).take 4).getD i 0 = w.getD (off + i) 0 := by
  rw [List.getD_eq_getElem?_getD, List.getElem?_take_of_lt hi, List.getElem?_drop, ← List.getD_eq_getElem?_getD]

/-- the decryption round keys that `mkKeys` stores are those of the equivalent inverse cipher -/
theorem decKeys_st (w : List Nat) (rounds : Nat) (hw : w.length = (rounds + 1) * 4) (r : Nat) (hr : r ≤ rounds) :
    rkSt (decKeys w rounds).toArray r =
      if 1 ≤ r ∧ r < rounds then invMixColumns (rkSt w.toArray (rounds - r)) else rkSt w.toArray (rounds - r) := by
  have hchunk : ∀ x ∈ List.range (rounds + 1),
      (if 1 ≤ x ∧ x < rounds then ((w.drop ((rounds - x) * 4)).take 4).map invMixWord
        else (w.drop ((rounds - x) * 4)).take 4).length = 4 := by
    intro x hx
    have hx' : x < rounds + 1 := List.mem_range.mp hx
    have : ((w.drop ((rounds - x) * 4)).take 4).length = 4 := by
      rw [List.length_take, List.length_drop, hw]
      have : (rounds - x) * 4 + 4 ≤ (rounds + 1) * 4 := by
        have : rounds - x + 1 ≤ rounds + 1 := by omega
        omega
      omega
    split
    · rw [List.length_map]; exact this
    · exact this
  have key : ∀ i, i < 4 → rk (decKeys w rounds).toArray r i =
      if 1 ≤ r ∧ r < rounds then invMixWord (rk w.toArray (rounds - r) i) else rk w.toArray (rounds - r) i := by
    intro i hi
    unfold rk decKeys
    rw [getD_toArray, flatMap_getD _ _ hchunk r i (by simp; omega) hi]
    simp only [List.getElem_range, getD_toArray]
    split
    · rw [List.getD_eq_getElem?_getD, List.getElem?_map, ← chunk_getD w _ i hi]
      have hl : i < ((w.drop ((rounds - r) * 4)).take 4).length := by
        have h4 : ((w.drop ((rounds - r) * 4)).take 4).length = 4 := by
          rw [List.length_take, List.length_drop, hw]
          have : (rounds - r) * 4 + 4 ≤ (rounds + 1) * 4 := by
            have : rounds - r + 1 ≤ rounds + 1 := by omega
            omega
          omega
        omega
      rw [List.getD_eq_getElem?_getD, List.getElem?_eq_getElem hl]
      simp
    · exact chunk_getD w _ i hi
  unfold rkSt
  rw [key 0 (by omega), key 1 (by omega), key 2 (by omega), key 3 (by omega)]
  split
  · simp only [invMixColumns, mapState, invMixWord_col]
  · rfl

theorem mkKeys_spec (key : Bytes) (k : Keys) (h : mkKeys key = .ok k) :
    k.ke = (expandKey (key.map UInt8.toNat) k.rounds).toArray ∧
    k.kd = (decKeys (expandKey (key.map UInt8.toNat) k.rounds) k.rounds).toArray ∧
    (expandKey (key.map UInt8.toNat) k.rounds).length = (k.rounds + 1) * 4 ∧ 1 ≤ k.rounds ∧
    roundsFor key.length = some k.rounds := by
  unfold mkKeys at h
  split at h
  · cases h
  · rename_i rounds hr
    injection h with h
    subst h
    have hc := roundsFor_cases _ _ hr
    refine ⟨rfl, rfl, expandKey_length _ _ (by simpa using hc), ?_, hr⟩
    show 1 ≤ rounds
    omega

theorem cipher_byte (w : Nat → State) (hw : ∀ r, ByteSt (w r)) (nr : Nat) (s : State) (hs : ByteSt s) :
    ByteSt (cipher w nr s) := by
  unfold cipher
  simp only
  apply addRoundKey_byte _ _ _ (hw _)
  apply shiftRows_byte
  apply subBytes_byte
  apply loop_byte
  · intro r s hs
    exact addRoundKey_byte _ _ (mixColumns_byte _ (shiftRows_byte _ (subBytes_byte _ hs))) (hw r)
  · exact addRoundKey_byte _ _ hs (hw 0)

theorem bytesOfState_spec (s : State) (hs : ByteSt s) :
    (bytesOfState s).length = 16 ∧ (∀ x ∈ bytesOfState s, x < 256) ∧ stateOfBytes (bytesOfState s) = s := by
  obtain ⟨⟨a0, a1, a2, a3⟩, ⟨b0, b1, b2, b3⟩, ⟨c0, c1, c2, c3⟩, ⟨d0, d1, d2, d3⟩⟩ := s
  obtain ⟨⟨ha0, ha1, ha2, ha3⟩, ⟨hb0, hb1, hb2, hb3⟩, ⟨hc0, hc1, hc2, hc3⟩, ⟨hd0, hd1, hd2, hd3⟩⟩ := hs
  simp only at ha0 ha1 ha2 ha3 hb0 hb1 hb2 hb3 hc0 hc1 hc2 hc3 hd0 hd1 hd2 hd3
  refine ⟨rfl, ?_, rfl⟩
  intro x hx
  simp only [bytesOfState, bytesOfCol, List.cons_append, List.nil_append, List.mem_cons, List.not_mem_nil, or_false] at hx
  rcases hx with rfl | rfl | rfl | rfl | rfl | rfl | rfl | rfl | rfl | rfl | rfl | rfl | rfl | rfl | rfl | rfl <;> assumption

theorem stateOfBytes_byte (l : List Nat) (hl : l.length = 16) (hb : ∀ x ∈ l, x < 256) :
    ByteSt (stateOfBytes l) ∧ bytesOfState (stateOfBytes l) = l := by
  obtain ⟨p0, p1, p2, p3, p4, p5, p6, p7, p8, p9, p10, p11, p12, p13, p14, p15, rfl⟩ := list16 l hl
  have hst : stateOfBytes [p0, p1, p2, p3, p4, p5, p6, p7, p8, p9, p10, p11, p12, p13, p14, p15] =
      ((p0, p1, p2, p3), (p4, p5, p6, p7), (p8, p9, p10, p11), (p12, p13, p14, p15)) := rfl
  rw [hst]
  exact ⟨⟨⟨hb p0 (by simp), hb p1 (by simp), hb p2 (by simp), hb p3 (by simp)⟩,
    ⟨hb p4 (by simp), hb p5 (by simp), hb p6 (by simp), hb p7 (by simp)⟩,
    ⟨hb p8 (by simp), hb p9 (by simp), hb p10 (by simp), hb p11 (by simp)⟩,
    ⟨hb p12 (by simp), hb p13 (by simp), hb p14 (by simp), hb p15 (by simp)⟩⟩, rfl⟩

/-- **decryption inverts encryption**, for every key `AES.__init__` accepts and every 16-byte block -/
theorem decryptBlock_encryptBlock (key : Bytes) (k : Keys) (h : mkKeys key = .ok k) (pt : List Nat)
    (hl : pt.length = 16) (hb : ∀ x ∈ pt, x < 256) : decryptBlock k (encryptBlock k pt) = pt := by
  obtain ⟨hke, hkd, hlen, hr1, _⟩ := mkKeys_spec key k h
  obtain ⟨hsb, hback⟩ := stateOfBytes_byte pt hl hb
  have hwb : ∀ r, ByteSt (rkSt k.ke r) := rkSt_byte k.ke
  rw [encryptBlock_eq k pt hl hb]
  have hC := cipher_byte (rkSt k.ke) hwb k.rounds _ hsb
  obtain ⟨h16, hlt, hst⟩ := bytesOfState_spec _ hC
  rw [decryptBlock_eq k _ h16 hlt, hst]
  have hdk : ∀ r, r ≤ k.rounds → rkSt k.kd r =
      if 1 ≤ r ∧ r < k.rounds then invMixColumns (rkSt k.ke (k.rounds - r)) else rkSt k.ke (k.rounds - r) := by
    intro r hr
    rw [hkd, hke]
    exact decKeys_st _ _ hlen r hr
  rw [eqInv_eq_inv (rkSt k.ke) (rkSt k.kd) hwb k.rounds
    (by rw [hdk 0 (by omega)]; simp)
    (fun r h1 h2 => by rw [hdk r (by omega)]; simp [h1, h2])
    (by rw [hdk k.rounds (Nat.le_refl _)]; simp) _ hC]
  rw [invCipher_cipher _ hwb _ hr1 _ hsb, hback]

theorem encryptBlock_length (k : Keys) (pt : List Nat) : (encryptBlock k pt).length = 16 := by
  unfold encryptBlock
  simp [List.range, List.range.loop, List.flatMap]

theorem map_toNat_ofNat (l : List Nat) (h : ∀ x ∈ l, x < 256) : (l.map UInt8.ofNat).map UInt8.toNat = l := by
  induction l with
  | nil => rfl
  | cons x xs ih =>
    have hx := h x (by simp)
    simp only [List.map_cons, ih (fun y hy => h y (by simp [hy]))]
    congr 1
    simp [UInt8.toNat_ofNat']
    omega

theorem map_ofNat_toNat (b : Bytes) : (b.map UInt8.toNat).map UInt8.ofNat = b := by
  induction b with
  | nil => rfl
  | cons x xs ih => simp [ih]

/-- the bundled AES satisfies what the container theorems (C02, C06, C08) ask of a block cipher -/
theorem aes_inv (key : Bytes) (k : Keys) (h : mkKeys key = .ok k) (b : Bytes) (hb : b.length = 16) :
    aesCipher.dec k (aesCipher.enc k b) = b := by
  show (decryptBlock k (((encryptBlock k (b.map UInt8.toNat)).map UInt8.ofNat).map UInt8.toNat)).map UInt8.ofNat = b
  have hbn : ∀ x ∈ b.map UInt8.toNat, x < 256 := by
    intro x hx
    obtain ⟨y, _, rfl⟩ := List.mem_map.mp hx
    exact y.toNat_lt
  have hl : (b.map UInt8.toNat).length = 16 := by simpa using hb
  obtain ⟨hsb, _⟩ := stateOfBytes_byte _ hl hbn
  have henc := encryptBlock_eq k _ hl hbn
  have hC := cipher_byte (rkSt k.ke) (rkSt_byte k.ke) k.rounds _ hsb
  have hlt : ∀ x ∈ encryptBlock k (b.map UInt8.toNat), x < 256 := by
    rw [henc]; exact (bytesOfState_spec _ hC).2.1
  rw [map_toNat_ofNat _ hlt, decryptBlock_encryptBlock key k h _ hl hbn, map_ofNat_toNat]

end Bec2Verif.AesW
