import Bec2Verif.Lemmas.EcCanonY
import Bec2Verif.Lemmas.EcTotal
/-!
Affine integers ↔ group elements: a pair in range that passes `contains_point` is a point of Mathlib's group and
conversely; the table of a generator has `0 < y < p` everywhere; `generator * k` returns reduced coordinates.
-/
set_option linter.style.nameCheck false
set_option linter.unusedVariables false
namespace Bec2Verif.EcC
open Bec2Verif Ec EcF WeierstrassCurve

variable {p : ℕ} [hp : Fact p.Prime] {a b : ℤ}

theorem nonsingular_of_equation (hc : CurveOK p a b) {x y : ZMod p} (h : (W (a : ZMod p) (b : ZMod p)).Equation x y) :
    (W (a : ZMod p) (b : ZMod p)).Nonsingular x y := by
  rw [Affine.nonsingular_iff']
  refine ⟨h, Or.inr ?_⟩
  have hy := hc.noY0 x y h
  simp only [W]
  intro he
  have : (2 : ZMod p) * y = 0 := by linear_combination he
  rcases mul_eq_zero.mp this with h2 | h2
  · exact hc.two h2
  · exact hy h2

theorem equation_of_containsPoint (c : Curve) (hcp : c.p = p) (hca : c.a = a) (hcb : c.b = b) (x y : ℤ)
    (h : containsPoint c x y = true) : (W (a : ZMod p) (b : ZMod p)).Equation (x : ZMod p) (y : ZMod p) := by
  unfold containsPoint at h
  rw [hcp, hca, hcb] at h
  have h0 : (y * y - ((x * x + a) * x + b)) % (p : ℤ) = 0 := by simpa using h
  have := (mod_eq_zero_iff (p := p) _).mp h0
  rw [W_equation]
  push_cast at this
  linear_combination this

theorem containsPoint_of_equation (c : Curve) (hcp : c.p = p) (hca : c.a = a) (hcb : c.b = b) (x y : ℤ)
    (h : (W (a : ZMod p) (b : ZMod p)).Equation (x : ZMod p) (y : ZMod p)) : containsPoint c x y = true := by
  unfold containsPoint
  rw [hcp, hca, hcb]
  rw [W_equation] at h
  have : (((y * y - ((x * x + a) * x + b) : ℤ)) : ZMod p) = 0 := by
    push_cast
    linear_combination h
  have := (mod_eq_zero_iff (p := p) _).mpr this
  simp [this]

theorem wfz_of_range {v : ℤ} (h0 : 0 ≤ v) (h1 : v < (p : ℤ)) : WFz p v := by
  intro hz
  rw [ZMod.intCast_zmod_eq_zero_iff_dvd] at hz
  exact Int.eq_zero_of_dvd_of_nonneg_of_lt h0 h1 hz

/-- an affine integer pair in range on the curve represents the corresponding group element -/
theorem trep_affine (hc : CurveOK p a b) (x y : ℤ) (hy : 0 ≤ y ∧ y < (p : ℤ))
    (he : (W (a : ZMod p) (b : ZMod p)).Equation (x : ZMod p) (y : ZMod p)) :
    TRep p a b (.some (x : ZMod p) (y : ZMod p) (nonsingular_of_equation hc he)) (x, y, 1) := by
  refine ⟨wfz_of_range hy.1 hy.2, wfz_one, ?_⟩
  show Aff _ _ _
  refine ⟨by simp [cst], ?_, ?_⟩ <;> simp [cst]

/-! ### y of table entries and of the product -/

theorem scale_yr (c : Curve) (hp' : 0 < c.p) (X Y Z : ℤ) (h : YR c.p (X, Y, Z)) (t : Triple)
    (hs : scale c X Y Z = some t) : YR c.p t := by
  unfold scale at hs
  split at hs
  · injection hs with hs; subst hs; exact h
  · split at hs
    · cases hs
    · injection hs with hs; subst hs; exact yr_mod c.p hp' _ _ _

theorem affineXY_yr (c : Curve) (hp' : 0 < c.p) (X Y Z : ℤ) (h : YR c.p (X, Y, Z)) (x y : ℤ)
    (hxy : affineXY c X Y Z = some (x, y)) : 0 ≤ y ∧ y < c.p := by
  unfold affineXY at hxy
  split at hxy
  · injection hxy with hxy; injection hxy with h1 h2; subst h2; exact h
  · split at hxy
    · cases hxy
    · injection hxy with hxy; injection hxy with h1 h2; subst h2
      exact ⟨Int.emod_nonneg _ (by omega), Int.emod_lt_of_pos _ hp'⟩

def TabY0 (p : ℤ) (tab : List (ℤ × ℤ)) : Prop := ∀ e ∈ tab, 0 ≤ e.2 ∧ e.2 < p

theorem precomputeLoop_y0 (c : Curve) (hp' : 0 < c.p) (fuel : ℕ) (i o : ℤ) (t : Triple) (acc : List (ℤ × ℤ))
    (hacc : TabY0 c.p acc) (tab : List (ℤ × ℤ)) (h : precomputeLoop c fuel i o t acc = some tab) : TabY0 c.p tab := by
  induction fuel generalizing i t acc with
  | zero =>
    simp only [precomputeLoop, Option.some.injEq] at h
    subst h
    intro e he; exact hacc e (List.mem_reverse.mp he)
  | succ f ih =>
    obtain ⟨X, Y, Z⟩ := t
    unfold precomputeLoop at h
    split at h
    · split at h
      · cases h
      · rename_i X' Y' Z' hd
        split at h
        · cases h
        · rename_i x y z hsc
          have hdy : YR c.p (X', Y', Z') := by
            have : Ec.double c (.jac X Y Z) = .jac X' Y' Z' := hd
            unfold Ec.double at this
            simp only at this
            split at this
            · cases this
            · unfold wrap at this
              split at this
              · cases this
              · injection this with h1 h2 h3
                have := double__yr c.p hp' X Y Z c.a
                unfold YR at this ⊢
                rw [← h2]; exact this
          have := scale_yr c hp' X' Y' Z' hdy _ hsc
          apply ih _ _ _ ?_ h
          intro e he
          simp only [List.mem_cons] at he
          rcases he with rfl | he
          · exact this
          · exact hacc e he
    · simp only [Option.some.injEq] at h
      subst h
      intro e he; exact hacc e (List.mem_reverse.mp he)

theorem tabOK_y_ne (hc : CurveOK p a b) (P : (W (a : ZMod p) (b : ZMod p)).Point) (hnz : ∀ j : ℕ, (2 ^ j : ℕ) • P ≠ 0)
    (j0 : ℕ) (tab : List (ℤ × ℤ)) (h : TabOK p a b P j0 tab) : ∀ e ∈ tab, e.2 ≠ 0 := by
  induction tab generalizing j0 with
  | nil => intro e he; simp at he
  | cons x xs ih =>
    obtain ⟨h1, h2⟩ := h
    intro e he
    simp only [List.mem_cons] at he
    rcases he with rfl | he
    · have hne : ((2 ^ j0 : ℤ)) • P ≠ 0 := by
        have := hnz j0
        intro h0; apply this
        have e2 : ((2 ^ j0 : ℕ) : ℤ) • P = 0 := by push_cast; exact h0
        rwa [natCast_zsmul] at e2
      cases hq : ((2 ^ j0 : ℤ)) • P with
      | zero => exact absurd hq hne
      | some x' y' hns =>
        rw [hq] at h1
        have := (trep_y_ne hc h1).1
        intro h0
        apply this
        simp [h0]
    · exact ih (j0 + 1) h2 e he

def YRPt (p : ℤ) : Pt → Prop
  | .inf => True
  | .jac X Y Z => YR p (X, Y, Z)

/-- `generator * k` has a reduced y (`k` any integer) -/
theorem mulGen_yr (hc : CurveOK p a b) (c : Curve) (hcp : c.p = p) (hca : c.a = a) (order : ℤ) (ho : 0 < order)
    {P : (W (a : ZMod p) (b : ZMod p)).Point} {X Y Z : ℤ} (hP : TRep p a b P (X, Y, Z)) (hY : YR c.p (X, Y, Z))
    (hnz : ∀ j : ℕ, (2 ^ j : ℕ) • P ≠ 0) (k : ℤ) {R : Pt} (h : mulGen c order (.jac X Y Z) k = some R) :
    YRPt c.p R := by
  have hpp : (0 : ℤ) < c.p := by rw [hcp]; exact_mod_cast hp.out.pos
  unfold mulGen at h
  simp only at h
  split at h
  · injection h with h; subst h; trivial
  · rename_i i0
    split at h
    · injection h with h; subst h; exact hY
    · have hone : (order != 0) = true := by simp; omega
      simp only [hone, if_true] at h
      have hk0 : 0 ≤ k % (order * 2) := Int.emod_nonneg _ (by omega)
      have hk1 : k % (order * 2) < order * 2 := Int.emod_lt_of_pos _ (by omega)
      generalize k % (order * 2) = k' at h hk0 hk1
      split at h
      · cases h
      · rename_i tab htab
        injection h with h; subst h
        have hY0 : Y ≠ 0 := by
          intro hy; apply i0; simp [hy]
        unfold precompute at htab
        split at htab
        · cases htab
        · rename_i x y hxy
          have hent := affineXY_entry c hcp hP hY0 hxy
          have hspec := precomputeLoop_spec hc c hcp hca P ((order * 4).toNat.log2 + 3) 0 (order * 4) (X, Y, Z) [(x, y)]
            (by rw [pow_zero, one_zsmul]; exact hP) (by simpa [TabOK] using hent) rfl
            (by
              have h1 : ((order * 4).toNat : ℤ) = order * 4 := Int.toNat_of_nonneg (by omega)
              have h2 : (order * 4).toNat < 2 ^ ((order * 4).toNat.log2 + 1) := Nat.lt_log2_self
              calc order * 4 = ((order * 4).toNat : ℤ) := h1.symm
                _ ≤ ((2 ^ ((order * 4).toNat.log2 + 1) : ℕ) : ℤ) := by exact_mod_cast h2.le
                _ ≤ 2 ^ (0 + ((order * 4).toNat.log2 + 3)) := by
                  push_cast
                  exact pow_le_pow_right₀ (by norm_num) (by omega))
            (by simpa using htab)
          obtain ⟨htabok, hpos, hbig⟩ := hspec
          have hy0 := precomputeLoop_y0 c hpp _ _ _ _ [(x, y)] (by
            intro e he
            simp only [List.mem_singleton] at he
            subst he
            exact affineXY_yr c hpp X Y Z hY x y hxy) tab (by simpa using htab)
          have hyne := tabOK_y_ne hc P hnz 0 tab htabok
          have htyr : TabYR c.p tab := fun e he => ⟨by have := hy0 e he; have := hyne e he; omega, (hy0 e he).2⟩
          have hL : 3 ≤ tab.length := by
            by_contra hlt
            have : tab.length - 1 ≤ 1 := by omega
            have : (2:ℤ) ^ (tab.length - 1) ≤ 2 ^ 1 := pow_le_pow_right₀ (by norm_num) this
            omega
          have hke : k' ≤ 2 ^ (tab.length - 2) := by
            have h2 : (2:ℤ) ^ (tab.length - 1) = 2 * 2 ^ (tab.length - 2) := by
              have : tab.length - 1 = (tab.length - 2) + 1 := by omega
              rw [this]; ring
            rw [h2] at hbig
            omega
          have := mulPrecompLoop_yr c hpp tab htyr k' (0, 0, 1) (tab.length - 2) hk0 hke (by omega)
            (Or.inl (yr_inf c.p hpp))
          unfold wrap
          split
          · trivial
          · exact this

end Bec2Verif.EcC
