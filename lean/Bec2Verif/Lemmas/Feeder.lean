import Bec2Verif.Lemmas.Ctr
import Bec2Verif.Lemmas.Cfb
import Bec2Verif.Lemmas.Cbc
/-!
The block feeders of `pyaes/blockfeeder.py` (`Encrypter` / `Decrypter`):

* PKCS#7: `strip_PKCS7_padding (append_PKCS7_padding d) = d`;
* what one `feed(data)` does, in closed form: a prefix of `buffer ++ data` whose length depends only on the mode and on
  the number of bytes (`consumed`) goes through the mode object (`process`: block by block for ECB / CBC, in one call for
  CFB / OFB / CTR), the rest stays in the buffer;
* **split independence**: `feed(a ++ b)` = `feed(a)` then `feed(b)` — same output bytes, same buffer, same mode object,
  same error behaviour — for every mode; hence any chunking of the input gives the result of a single call.
-/
namespace Bec2Verif.Modes
open Bec2Verif

variable (B : BlockCipher)

/-! ### PKCS#7 -/

theorem pkcs7_length (d : Bytes) : (pkcs7 d).length = d.length + (16 - d.length % 16) := by
  simp [pkcs7]

theorem stripPkcs7_pkcs7 (d : Bytes) : stripPkcs7 (pkcs7 d) = .ok d := by
  have hm : d.length % 16 < 16 := Nat.mod_lt _ (by decide)
  have hpad : 1 ≤ 16 - d.length % 16 ∧ 16 - d.length % 16 ≤ 16 := by omega
  have hlen : (pkcs7 d).length % 16 = 0 := by
    rw [pkcs7_length]; omega
  have hlast : (pkcs7 d).getLast? = some (UInt8.ofNat (16 - d.length % 16)) := by
    unfold pkcs7
    simp only
    rw [List.getLast?_append]
    have : (List.replicate (16 - d.length % 16) (UInt8.ofNat (16 - d.length % 16))).getLast? =
        some (UInt8.ofNat (16 - d.length % 16)) := by
      rw [List.getLast?_replicate]; simp; omega
    rw [this]; rfl
  have hval : (UInt8.ofNat (16 - d.length % 16)).toNat = 16 - d.length % 16 := by
    rw [UInt8.toNat_ofNat']; omega
  unfold stripPkcs7
  rw [hlast]
  simp only [hlen, bne_self_eq_false, Bool.false_eq_true, if_false, hval]
  rw [if_neg (by omega), if_neg (by omega)]
  congr 1
  rw [pkcs7_length]
  have : d.length + (16 - d.length % 16) - (16 - d.length % 16) = d.length := by omega
  rw [this]
  unfold pkcs7
  simp

/-! ### the mode object under `step` -/

theorem step_kind (m m' : St B) (dec : Bool) (d o : Bytes) (h : step B m dec d = .ok (m', o)) : m'.kind = m.kind := by
  unfold step at h
  split at h
  · split at h
    · cases h
    · injection h with h; injection h with h1 _; subst h1; rfl
  · split at h
    · cases h
    · split at h <;> (injection h with h; injection h with h1 _; subst h1; rfl)
  · split at h
    · cases h
    · split at h
      · cases h
      · injection h with h; injection h with h1 _; subst h1; rfl
  · injection h with h; injection h with h1 _; subst h1; rfl
  · injection h with h; injection h with h1 _; subst h1; rfl

/-! ### what a `feed(data)` call does -/

/-- `n` consecutive 16-byte blocks of `data` through the mode object, one `encrypt` / `decrypt` call each -/
def stepBlocks (dec : Bool) : Nat → St B → Bytes → Except Err (St B × Bytes)
  | 0, m, _ => .ok (m, [])
  | n+1, m, data =>
    match step B m dec (data.take 16) with
    | .error e => .error e
    | .ok (m1, o1) =>
      match stepBlocks dec n m1 (data.drop 16) with
      | .error e => .error e
      | .ok (m2, o2) => .ok (m2, o1 ++ o2)

/-- `data` through the mode object the way the feeder does it: block by block for ECB / CBC, in one call otherwise -/
def process (dec : Bool) (m : St B) (data : Bytes) : Except Err (St B × Bytes) :=
  match m.kind with
  | .ecb | .cbc => stepBlocks B dec (data.length / 16) m data
  | _ => if data.isEmpty then .ok (m, []) else step B m dec data

/-- number of bytes one `feed` call takes out of a buffer of `len` bytes (16 always stay behind for the padding) -/
def consumed (k : Kind) (len : Nat) : Nat :=
  match k with
  | .ecb | .cbc => 16 * (len / 16 - 1)
  | _ => if len > 16 then canConsume k (len - 16) else 0

theorem stepBlocks_kind (dec : Bool) (n : Nat) (m m' : St B) (d o : Bytes) (h : stepBlocks B dec n m d = .ok (m', o)) :
    m'.kind = m.kind := by
  induction n generalizing m d o with
  | zero => simp only [stepBlocks] at h; injection h with h; injection h with h1 _; subst h1; rfl
  | succ n ih =>
    simp only [stepBlocks] at h
    split at h
    · cases h
    · rename_i m1 o1 h1
      split at h
      · cases h
      · rename_i m2 o2 h2
        injection h with h; injection h with h3 _; subst h3
        rw [ih _ _ _ h2, step_kind B _ _ _ _ _ h1]

/-- only the first `16 n` bytes matter -/
theorem stepBlocks_prefix (dec : Bool) (n : Nat) (m : St B) (x y : Bytes) (h : 16 * n ≤ x.length) :
    stepBlocks B dec n m (x ++ y) = stepBlocks B dec n m x := by
  induction n generalizing m x with
  | zero => simp [stepBlocks]
  | succ n ih =>
    simp only [stepBlocks]
    have h16 : 16 ≤ x.length := by omega
    rw [List.take_append_of_le_length h16, List.drop_append_of_le_length h16]
    cases step B m dec (x.take 16) with
    | error e => rfl
    | ok r =>
      obtain ⟨m1, o1⟩ := r
      simp only
      rw [ih m1 (x.drop 16) (by simp only [List.length_drop]; omega)]

theorem stepBlocks_add (dec : Bool) (n1 n2 : Nat) (m : St B) (d : Bytes) :
    stepBlocks B dec (n1 + n2) m d =
      match stepBlocks B dec n1 m d with
      | .error e => .error e
      | .ok (m1, o1) =>
        match stepBlocks B dec n2 m1 (d.drop (16 * n1)) with
        | .error e => .error e
        | .ok (m2, o2) => .ok (m2, o1 ++ o2) := by
  induction n1 generalizing m d with
  | zero =>
    simp only [Nat.zero_add, stepBlocks, Nat.mul_zero, List.drop_zero, List.nil_append]
    cases stepBlocks B dec n2 m d with
    | error e => rfl
    | ok r => rfl
  | succ n1 ih =>
    have : n1 + 1 + n2 = (n1 + n2) + 1 := by omega
    rw [this]
    simp only [stepBlocks]
    cases step B m dec (d.take 16) with
    | error e => rfl
    | ok r =>
      obtain ⟨ma, oa⟩ := r
      simp only
      rw [ih ma (d.drop 16)]
      cases stepBlocks B dec n1 ma (d.drop 16) with
      | error e => rfl
      | ok r1 =>
        obtain ⟨mb, ob⟩ := r1
        simp only
        have hd : (d.drop 16).drop (16 * n1) = d.drop (16 * (n1 + 1)) := by
          rw [List.drop_drop]; congr 1; omega
        rw [hd]
        cases stepBlocks B dec n2 mb (d.drop (16 * (n1 + 1))) with
        | error e => rfl
        | ok r2 =>
          obtain ⟨mc, oc⟩ := r2
          simp [List.append_assoc]

/-- ECB / CBC: the loop takes whole blocks while at least 32 bytes are buffered -/
theorem feedLoop_block (dec : Bool) (fuel : Nat) (m : St B) (buf out : Bytes) (hk : m.kind = .ecb ∨ m.kind = .cbc)
    (hf : buf.length / 16 - 1 ≤ fuel) :
    feedLoop B dec fuel m buf out =
      match stepBlocks B dec (buf.length / 16 - 1) m buf with
      | .error e => .error e
      | .ok (m', o) => .ok (m', buf.drop (16 * (buf.length / 16 - 1)), out ++ o) := by
  induction fuel generalizing m buf out with
  | zero =>
    have h0 : buf.length / 16 - 1 = 0 := by omega
    simp [feedLoop, h0, stepBlocks]
  | succ fuel ih =>
    unfold feedLoop
    have hcan : canConsume m.kind (buf.length - 16) = if buf.length - 16 ≥ 16 then 16 else 0 := by
      rcases hk with hk | hk <;> simp [canConsume, hk]
    by_cases h32 : 32 ≤ buf.length
    · have hgt : buf.length > 16 := by omega
      have hge : buf.length - 16 ≥ 16 := by omega
      obtain ⟨n, hn⟩ : ∃ n, buf.length / 16 - 1 = n + 1 := ⟨buf.length / 16 - 2, by omega⟩
      simp only [hgt, if_true, hcan, hge]
      simp only [show (16 : Nat) ≠ 0 by decide, if_false, bind, Except.bind]
      rw [hn]
      simp only [stepBlocks]
      cases hs : step B m dec (buf.take 16) with
      | error e => rfl
      | ok r =>
        obtain ⟨m1, o1⟩ := r
        simp only
        have hk1 : m1.kind = .ecb ∨ m1.kind = .cbc := by rw [step_kind B _ _ _ _ _ hs]; exact hk
        have hl : (buf.drop 16).length / 16 - 1 = n := by rw [List.length_drop]; omega
        rw [ih m1 (buf.drop 16) (out ++ o1) hk1 (by rw [hl]; omega), hl]
        cases stepBlocks B dec n m1 (buf.drop 16) with
        | error e => rfl
        | ok r2 =>
          obtain ⟨m2, o2⟩ := r2
          simp only [List.drop_drop, List.append_assoc]
          have : 16 + 16 * n = 16 * (n + 1) := by omega
          rw [this]
    · have h0 : buf.length / 16 - 1 = 0 := by omega
      rw [h0]
      simp only [stepBlocks, Nat.mul_zero, List.drop_zero, List.append_nil]
      by_cases hgt : buf.length > 16
      · have hlt : ¬ (buf.length - 16 ≥ 16) := by omega
        simp [hgt, hcan, hlt]
      · simp [hgt]

/-- CFB / OFB / CTR: one call with everything but the last 16 bytes (CFB: a whole number of segments of that) -/
theorem feedLoop_stream (dec : Bool) (fuel : Nat) (m : St B) (buf out : Bytes) (hk : m.kind ≠ .ecb ∧ m.kind ≠ .cbc)
    (hseg : ∀ seg, m.kind = .cfb seg → 0 < seg) (hf : 1 ≤ fuel) :
    feedLoop B dec fuel m buf out =
      if consumed m.kind buf.length = 0 then .ok (m, buf, out) else
      match step B m dec (buf.take (consumed m.kind buf.length)) with
      | .error e => .error e
      | .ok (m', o) => .ok (m', buf.drop (consumed m.kind buf.length), out ++ o) := by
  obtain ⟨fuel, rfl⟩ : ∃ f, fuel = f + 1 := ⟨fuel - 1, by omega⟩
  have hcons : consumed m.kind buf.length = if buf.length > 16 then canConsume m.kind (buf.length - 16) else 0 := by
    unfold consumed
    cases hkk : m.kind with
    | ecb => exact absurd hkk hk.1
    | cbc => exact absurd hkk hk.2
    | cfb s => rfl
    | ofb => rfl
    | ctr => rfl
  unfold feedLoop
  by_cases hgt : buf.length > 16
  · simp only [hgt, if_true] at hcons ⊢
    rw [hcons]
    by_cases hc0 : canConsume m.kind (buf.length - 16) = 0
    · simp [hc0]
    · simp only [hc0, if_false, bind, Except.bind]
      cases hs : step B m dec (buf.take (canConsume m.kind (buf.length - 16))) with
      | error e => rfl
      | ok r =>
        obtain ⟨m1, o1⟩ := r
        simp only
        -- the second round finds nothing to take
        have hk1 : m1.kind = m.kind := step_kind B _ _ _ _ _ hs
        cases fuel with
        | zero => simp [feedLoop]
        | succ fuel =>
          unfold feedLoop
          by_cases hgt2 : (buf.drop (canConsume m.kind (buf.length - 16))).length > 16
          · have hzero : canConsume m1.kind ((buf.drop (canConsume m.kind (buf.length - 16))).length - 16) = 0 := by
              rw [hk1]
              simp only [List.length_drop] at hgt2 ⊢
              cases hkk : m.kind with
              | ecb => exact absurd hkk hk.1
              | cbc => exact absurd hkk hk.2
              | cfb s =>
                have hs0 := hseg s hkk
                simp only [canConsume, hkk] at hgt2 ⊢
                have hle : s * ((buf.length - 16) / s) ≤ buf.length - 16 := Nat.mul_div_le _ _
                have : buf.length - s * ((buf.length - 16) / s) - 16 = (buf.length - 16) % s := by
                  have := Nat.div_add_mod (buf.length - 16) s
                  omega
                rw [this, Nat.div_eq_of_lt (Nat.mod_lt _ hs0), Nat.mul_zero]
              | ofb => simp only [canConsume, hkk] at hgt2; omega
              | ctr => simp only [canConsume, hkk] at hgt2; omega
            simp only [hgt2, if_true, hzero]
          · simp only [hgt2, if_false]
  · simp only [hgt, if_false] at hcons ⊢
    rw [hcons]
    simp

/-! ### OFB at the level of calls -/

theorem ofbLoop_out (k : B.K) (d reg rem out : Bytes) :
    ofbLoop B k d reg rem out =
      ((ofbLoop B k d reg rem []).1, (ofbLoop B k d reg rem []).2.1, out ++ (ofbLoop B k d reg rem []).2.2) := by
  induction d generalizing reg rem out with
  | nil => simp [ofbLoop]
  | cons p ps ih =>
    simp only [ofbLoop]
    split
    · simp
    · rw [ih _ _ (out ++ _), ih _ _ ([] ++ _)]
      simp [List.append_assoc]

theorem ofbLoop_app (hlen : ∀ key b, (B.enc key b).length = 16) (k : B.K) (a b reg rem out : Bytes) :
    ofbLoop B k (a ++ b) reg rem out =
      ofbLoop B k b (ofbLoop B k a reg rem out).1 (ofbLoop B k a reg rem out).2.1 (ofbLoop B k a reg rem out).2.2 := by
  induction a generalizing reg rem out with
  | nil => simp [ofbLoop]
  | cons p ps ih =>
    by_cases hrem : rem.isEmpty
    · cases henc : B.enc k reg with
      | nil => have := hlen k reg; rw [henc] at this; simp at this
      | cons x xs =>
        simp only [List.cons_append, ofbLoop, hrem, if_true, henc]
        exact ih _ _ _
    · cases rem with
      | nil => simp at hrem
      | cons x xs =>
        simp only [List.cons_append, ofbLoop, List.isEmpty_cons, Bool.false_eq_true, if_false]
        exact ih _ _ _

theorem ofb_split (hlen : ∀ key b, (B.enc key b).length = 16) (s : St B) (hk : s.kind = .ofb) (dec : Bool) (a b : Bytes) :
    step B s dec (a ++ b) =
      (step B s dec a >>= fun (s1, o1) => step B s1 dec b >>= fun (s2, o2) => .ok (s2, o1 ++ o2)) := by
  unfold step
  simp only [hk, bind, Except.bind]
  rw [ofbLoop_app B hlen, ofbLoop_out B s.key b _ _ (ofbLoop B s.key a s.reg s.rem []).2.2]

/-! ### `process` is additive over aligned pieces -/

/-- the unit in which a mode object accepts data -/
def granule : Kind → Nat
  | .ecb | .cbc => 16
  | .cfb seg => seg
  | _ => 1

theorem process_kind (dec : Bool) (m m' : St B) (d o : Bytes) (h : process B dec m d = .ok (m', o)) : m'.kind = m.kind := by
  unfold process at h
  split at h
  · exact stepBlocks_kind B _ _ _ _ _ _ h
  · exact stepBlocks_kind B _ _ _ _ _ _ h
  · split at h
    · injection h with h; injection h with h1 _; subst h1; rfl
    · exact step_kind B _ _ _ _ _ h

theorem process_nil (dec : Bool) (m : St B) : process B dec m [] = .ok (m, []) := by
  unfold process
  split <;> simp [stepBlocks]

theorem process_append (hlen : ∀ key b, (B.enc key b).length = 16) (dec : Bool) (m : St B) (a b : Bytes)
    (hseg : ∀ seg, m.kind = .cfb seg → 0 < seg)
    (ha : granule m.kind ∣ a.length) (hb : granule m.kind ∣ b.length) :
    process B dec m (a ++ b) =
      match process B dec m a with
      | .error e => .error e
      | .ok (m1, o1) =>
        match process B dec m1 b with
        | .error e => .error e
        | .ok (m2, o2) => .ok (m2, o1 ++ o2) := by
  -- the block modes
  have block : (m.kind = .ecb ∨ m.kind = .cbc) → 16 ∣ a.length → 16 ∣ b.length →
      process B dec m (a ++ b) =
      match process B dec m a with
      | .error e => .error e
      | .ok (m1, o1) =>
        match process B dec m1 b with
        | .error e => .error e
        | .ok (m2, o2) => .ok (m2, o1 ++ o2) := by
    intro hk ⟨i, hi⟩ ⟨j, hj⟩
    have hp : ∀ (mm : St B) (d : Bytes), (mm.kind = .ecb ∨ mm.kind = .cbc) →
        process B dec mm d = stepBlocks B dec (d.length / 16) mm d := by
      intro mm d hmm
      unfold process
      rcases hmm with h | h <;> simp [h]
    rw [hp m _ hk, hp m a hk]
    have hab : (a ++ b).length / 16 = i + j := by rw [List.length_append, hi, hj]; omega
    have hai : a.length / 16 = i := by rw [hi]; omega
    have hbj : b.length / 16 = j := by rw [hj]; omega
    rw [hab, hai, stepBlocks_add, stepBlocks_prefix B dec i m a b (by omega)]
    cases hs : stepBlocks B dec i m a with
    | error e => rfl
    | ok r =>
      obtain ⟨m1, o1⟩ := r
      simp only
      have hk1 : m1.kind = .ecb ∨ m1.kind = .cbc := by rw [stepBlocks_kind B _ _ _ _ _ _ hs]; exact hk
      rw [hp m1 b hk1, hbj]
      have : (a ++ b).drop (16 * i) = b := by rw [← hi]; simp
      rw [this]
  -- the stream modes
  have stream : (m.kind ≠ .ecb ∧ m.kind ≠ .cbc) →
      (a.isEmpty = false → b.isEmpty = false → step B m dec (a ++ b) =
        (step B m dec a >>= fun (s1, o1) => step B s1 dec b >>= fun (s2, o2) => .ok (s2, o1 ++ o2))) →
      process B dec m (a ++ b) =
      match process B dec m a with
      | .error e => .error e
      | .ok (m1, o1) =>
        match process B dec m1 b with
        | .error e => .error e
        | .ok (m2, o2) => .ok (m2, o1 ++ o2) := by
    intro hk hsplit
    have hp : ∀ (mm : St B) (d : Bytes), mm.kind = m.kind →
        process B dec mm d = if d.isEmpty then .ok (mm, []) else step B mm dec d := by
      intro mm d hmm
      unfold process
      rw [hmm]
      cases hkk : m.kind with
      | ecb => exact absurd hkk hk.1
      | cbc => exact absurd hkk hk.2
      | cfb s => rfl
      | ofb => rfl
      | ctr => rfl
    cases a with
    | nil =>
      rw [process_nil]
      simp only [List.nil_append]
      cases process B dec m b with
      | error e => rfl
      | ok r => obtain ⟨m2, o2⟩ := r; simp
    | cons x xs =>
      cases b with
      | nil =>
        simp only [List.append_nil]
        cases hs : process B dec m (x :: xs) with
        | error e => rfl
        | ok r => obtain ⟨m1, o1⟩ := r; simp [process_nil]
      | cons y ys =>
        rw [hp m _ rfl, hp m (x :: xs) rfl]
        simp only [List.cons_append, List.isEmpty_cons, Bool.false_eq_true, if_false]
        have := hsplit rfl rfl
        simp only [List.cons_append, bind, Except.bind] at this
        rw [this]
        cases hs : step B m dec (x :: xs) with
        | error e => rfl
        | ok r =>
          obtain ⟨m1, o1⟩ := r
          simp only
          rw [hp m1 (y :: ys) (step_kind B _ _ _ _ _ hs)]
          simp only [List.isEmpty_cons, Bool.false_eq_true, if_false]
          cases step B m1 dec (y :: ys) with
          | error e => rfl
          | ok r2 => rfl
  cases hkk : m.kind with
  | ecb => rw [hkk] at ha hb; exact block (Or.inl hkk) ha hb
  | cbc => rw [hkk] at ha hb; exact block (Or.inr hkk) ha hb
  | ctr =>
    exact stream (by rw [hkk]; exact ⟨by simp, by simp⟩) (fun _ _ => ctr_split B hlen m hkk dec a b)
  | ofb =>
    exact stream (by rw [hkk]; exact ⟨by simp, by simp⟩) (fun _ _ => ofb_split B hlen m hkk dec a b)
  | cfb seg =>
    rw [hkk] at ha hb
    obtain ⟨i, hi⟩ := ha
    obtain ⟨j, hj⟩ := hb
    change a.length = seg * i at hi
    change b.length = seg * j at hj
    have hs0 := hseg seg hkk
    refine stream (by rw [hkk]; exact ⟨by simp, by simp⟩) (fun hae hbe => ?_)
    by_cases hreg : m.listReg = false
    · exact cfb_split B seg hs0 m hkk hreg dec a b i j (by rw [hi, Nat.mul_comm]) (by rw [hj, Nat.mul_comm])
    · -- `iv = None`: every call with data ends in the TypeError of `list + bytes`
      have hreg' : m.listReg = true := by simpa using hreg
      have hmod : ∀ l : Bytes, ∀ q, l.length = seg * q → (l.length % seg != 0) = false := by
        intro l q h; rw [h]; simp
      have hab : (a ++ b).length = seg * (i + j) := by rw [List.length_append, hi, hj, Nat.mul_add]
      have habe : (a ++ b).isEmpty = false := by
        cases a with
        | nil => simp at hae
        | cons x xs => rfl
      unfold step
      simp only [hkk, hmod _ _ hab, hmod _ _ hi, hreg', habe, hae, Bool.not_false, Bool.and_self, if_true,
        Bool.false_eq_true, if_false, bind, Except.bind]

/-! ### one `feed(data)` call in closed form -/

theorem consumed_le (k : Kind) (len : Nat) : consumed k len ≤ len := by
  unfold consumed
  cases k with
  | ecb => simp only; omega
  | cbc => simp only; omega
  | ofb => simp only [canConsume]; split <;> omega
  | ctr => simp only [canConsume]; split <;> omega
  | cfb s =>
    simp only [canConsume]
    split
    · have := Nat.mul_div_le (len - 16) s; omega
    · omega

theorem granule_dvd_consumed (k : Kind) (len : Nat) : granule k ∣ consumed k len := by
  unfold consumed granule
  cases k with
  | ecb => exact ⟨_, rfl⟩
  | cbc => exact ⟨_, rfl⟩
  | ofb => exact Nat.one_dvd _
  | ctr => exact Nat.one_dvd _
  | cfb s =>
    simp only [canConsume]
    split
    · exact ⟨_, rfl⟩
    · exact Nat.dvd_zero _

/-- taking what a longer buffer allows in two rounds or in one is the same -/
theorem consumed_add (k : Kind) (L T : Nat) (h : L ≤ T) :
    consumed k (T - consumed k L) + consumed k L = consumed k T := by
  cases k with
  | ecb => simp only [consumed]; omega
  | cbc => simp only [consumed]; omega
  | ofb => simp only [consumed, canConsume]; split <;> split <;> split <;> omega
  | ctr => simp only [consumed, canConsume]; split <;> split <;> split <;> omega
  | cfb s =>
    simp only [consumed, canConsume]
    by_cases hL : L > 16
    · have hT : T > 16 := by omega
      simp only [hL, hT, if_true]
      have hle : s * ((L - 16) / s) ≤ L - 16 := Nat.mul_div_le _ _
      by_cases hgt : T - s * ((L - 16) / s) > 16
      · simp only [hgt, if_true]
        have h1 : T - s * ((L - 16) / s) - 16 = (T - 16) - s * ((L - 16) / s) := by omega
        rw [h1, Nat.sub_mul_div, Nat.mul_sub]
        have hq : (L - 16) / s ≤ (T - 16) / s := Nat.div_le_div_right (by omega)
        have := Nat.mul_le_mul_left s hq
        omega
      · simp only [hgt, if_false, Nat.zero_add]
        have h1 : T - 16 = s * ((L - 16) / s) := by omega
        rw [h1]
        by_cases hs : s = 0
        · subst hs; simp
        · rw [Nat.mul_div_cancel_left _ (Nat.pos_of_ne_zero hs)]
    · simp only [hL, if_false, Nat.sub_zero, Nat.add_zero]

theorem take_split (x b : Bytes) (c1 c2 : Nat) (h : c1 ≤ x.length) :
    (x ++ b).take (c2 + c1) = x.take c1 ++ (x.drop c1 ++ b).take c2 := by
  have e : x ++ b = x.take c1 ++ (x.drop c1 ++ b) := by rw [← List.append_assoc, List.take_append_drop]
  have hl : (x.take c1).length = c1 := by rw [List.length_take, Nat.min_eq_left h]
  calc (x ++ b).take (c2 + c1) = (x.take c1 ++ (x.drop c1 ++ b)).take (c2 + c1) := by rw [← e]
    _ = x.take c1 ++ (x.drop c1 ++ b).take c2 := by
      rw [List.take_append, hl, List.take_of_length_le (by rw [hl]; omega), Nat.add_sub_cancel]

theorem drop_split' (x b : Bytes) (c1 c2 : Nat) (h : c1 ≤ x.length) :
    (x ++ b).drop (c2 + c1) = (x.drop c1 ++ b).drop c2 := by
  rw [Nat.add_comm, ← List.drop_drop, List.drop_append_of_le_length h]

theorem stepBlocks_take (dec : Bool) (n c : Nat) (m : St B) (x : Bytes) (h1 : 16 * n ≤ c) (h2 : c ≤ x.length) :
    stepBlocks B dec n m (x.take c) = stepBlocks B dec n m x := by
  have := stepBlocks_prefix B dec n m (x.take c) (x.drop c) (by rw [List.length_take, Nat.min_eq_left h2]; exact h1)
  rw [List.take_append_drop] at this
  exact this.symm

theorem feed_spec (f : Feeder B) (buf d : Bytes) (hb : f.buffer = some buf)
    (hseg : ∀ seg, f.mode.kind = .cfb seg → 0 < seg) :
    feed B f (some d) =
      match process B f.dec f.mode ((buf ++ d).take (consumed f.mode.kind (buf ++ d).length)) with
      | .error e => .error e
      | .ok (m', o) =>
        .ok ({ f with mode := m', buffer := some ((buf ++ d).drop (consumed f.mode.kind (buf ++ d).length)) }, o) := by
  unfold feed
  rw [hb]
  simp only [bind, Except.bind, pure, Except.pure]
  have hle := consumed_le f.mode.kind (buf ++ d).length
  by_cases hk : f.mode.kind = .ecb ∨ f.mode.kind = .cbc
  · rw [feedLoop_block B f.dec _ f.mode (buf ++ d) [] hk (by simp only [List.length_append]; omega)]
    have hc : consumed f.mode.kind (buf ++ d).length = 16 * ((buf ++ d).length / 16 - 1) := by
      unfold consumed; rcases hk with h | h <;> simp [h]
    have hp : process B f.dec f.mode ((buf ++ d).take (consumed f.mode.kind (buf ++ d).length)) =
        stepBlocks B f.dec ((buf ++ d).length / 16 - 1) f.mode (buf ++ d) := by
      have hl : ((buf ++ d).take (consumed f.mode.kind (buf ++ d).length)).length / 16 = (buf ++ d).length / 16 - 1 := by
        rw [List.length_take, Nat.min_eq_left hle, hc]; omega
      have : process B f.dec f.mode ((buf ++ d).take (consumed f.mode.kind (buf ++ d).length)) =
          stepBlocks B f.dec (((buf ++ d).take (consumed f.mode.kind (buf ++ d).length)).length / 16) f.mode
            ((buf ++ d).take (consumed f.mode.kind (buf ++ d).length)) := by
        unfold process; rcases hk with h | h <;> simp [h]
      rw [this, hl]
      exact stepBlocks_take B f.dec _ _ f.mode (buf ++ d) (by rw [hc]; exact Nat.le_refl _) hle
    rw [hp, ← hc]
    cases stepBlocks B f.dec ((buf ++ d).length / 16 - 1) f.mode (buf ++ d) with
    | error e => rfl
    | ok r => obtain ⟨m', o⟩ := r; simp
  · have hk' : f.mode.kind ≠ .ecb ∧ f.mode.kind ≠ .cbc := by
      constructor <;> (intro h; exact hk (by simp [h]))
    rw [feedLoop_stream B f.dec _ f.mode (buf ++ d) [] hk' hseg (by omega)]
    have hp : ∀ x : Bytes, process B f.dec f.mode x = if x.isEmpty then .ok (f.mode, []) else step B f.mode f.dec x := by
      intro x
      unfold process
      cases hkk : f.mode.kind with
      | ecb => exact absurd hkk hk'.1
      | cbc => exact absurd hkk hk'.2
      | cfb s => rfl
      | ofb => rfl
      | ctr => rfl
    rw [hp]
    by_cases hc0 : consumed f.mode.kind (buf ++ d).length = 0
    · rw [if_pos hc0, hc0]
      simp only [List.take_zero, List.isEmpty_nil, if_true, List.drop_zero]
    · have hne : ((buf ++ d).take (consumed f.mode.kind (buf ++ d).length)).isEmpty = false := by
        cases hx : (buf ++ d).take (consumed f.mode.kind (buf ++ d).length) with
        | nil =>
          have := congrArg List.length hx
          rw [List.length_take, Nat.min_eq_left hle] at this
          exact absurd this hc0
        | cons y ys => rfl
      rw [if_neg hc0, hne]
      simp only [Bool.false_eq_true, if_false]
      cases step B f.mode f.dec ((buf ++ d).take (consumed f.mode.kind (buf ++ d).length)) with
      | error e => rfl
      | ok r => obtain ⟨m', o⟩ := r; rfl

/-- what a successful `feed` leaves behind -/
theorem feed_ok (f f1 : Feeder B) (buf d o : Bytes) (hb : f.buffer = some buf)
    (hseg : ∀ seg, f.mode.kind = .cfb seg → 0 < seg) (h : feed B f (some d) = .ok (f1, o)) :
    f1.mode.kind = f.mode.kind ∧ f1.dec = f.dec ∧ f1.padding = f.padding ∧
      f1.buffer = some ((buf ++ d).drop (consumed f.mode.kind (buf ++ d).length)) := by
  rw [feed_spec B f buf d hb hseg] at h
  split at h
  · cases h
  · rename_i m' o' hp
    injection h with h
    injection h with h1 _
    subst h1
    exact ⟨process_kind B _ _ _ _ _ hp, rfl, rfl, rfl⟩

/-- **split independence of the feeders**: `feed(a ++ b)` and `feed(a)`, `feed(b)` give the same output, leave the same
buffer and mode object behind and fail in the same cases -/
theorem feed_append (hlen : ∀ key b, (B.enc key b).length = 16) (f : Feeder B) (buf a b : Bytes) (hb : f.buffer = some buf)
    (hseg : ∀ seg, f.mode.kind = .cfb seg → 0 < seg) :
    feed B f (some (a ++ b)) =
      match feed B f (some a) with
      | .error e => .error e
      | .ok (f1, o1) =>
        match feed B f1 (some b) with
        | .error e => .error e
        | .ok (f2, o2) => .ok (f2, o1 ++ o2) := by
  have hL : (buf ++ a).length ≤ (buf ++ (a ++ b)).length := by simp only [List.length_append]; omega
  have hc1 := consumed_le f.mode.kind (buf ++ a).length
  have hadd := consumed_add f.mode.kind _ _ hL
  -- the pieces of `buf ++ a ++ b`
  have htake : (buf ++ (a ++ b)).take (consumed f.mode.kind (buf ++ (a ++ b)).length) =
      (buf ++ a).take (consumed f.mode.kind (buf ++ a).length) ++
        (((buf ++ a).drop (consumed f.mode.kind (buf ++ a).length)) ++ b).take
          (consumed f.mode.kind ((buf ++ (a ++ b)).length - consumed f.mode.kind (buf ++ a).length)) := by
    rw [← hadd, ← List.append_assoc]
    exact take_split _ _ _ _ hc1
  have hdrop : (buf ++ (a ++ b)).drop (consumed f.mode.kind (buf ++ (a ++ b)).length) =
      (((buf ++ a).drop (consumed f.mode.kind (buf ++ a).length)) ++ b).drop
          (consumed f.mode.kind ((buf ++ (a ++ b)).length - consumed f.mode.kind (buf ++ a).length)) := by
    rw [← hadd, ← List.append_assoc]
    exact drop_split' _ _ _ _ hc1
  have hlen2 : (((buf ++ a).drop (consumed f.mode.kind (buf ++ a).length)) ++ b).length =
      (buf ++ (a ++ b)).length - consumed f.mode.kind (buf ++ a).length := by
    simp only [List.length_append, List.length_drop] at hc1 ⊢; omega
  rw [feed_spec B f buf (a ++ b) hb hseg, feed_spec B f buf a hb hseg, htake]
  rw [process_append B hlen f.dec f.mode _ _ hseg]
  · cases hp1 : process B f.dec f.mode ((buf ++ a).take (consumed f.mode.kind (buf ++ a).length)) with
    | error e => rfl
    | ok r =>
      obtain ⟨m1, o1⟩ := r
      simp only
      have hk1 : m1.kind = f.mode.kind := process_kind B _ _ _ _ _ hp1
      rw [feed_spec B _ ((buf ++ a).drop (consumed f.mode.kind (buf ++ a).length)) b rfl (by rw [hk1]; exact hseg)]
      simp only [hk1, hlen2]
      cases process B f.dec m1 ((((buf ++ a).drop (consumed f.mode.kind (buf ++ a).length)) ++ b).take
          (consumed f.mode.kind ((buf ++ (a ++ b)).length - consumed f.mode.kind (buf ++ a).length))) with
      | error e => rfl
      | ok r2 =>
        obtain ⟨m2, o2⟩ := r2
        simp only [hdrop]
  · rw [List.length_take, Nat.min_eq_left hc1]; exact granule_dvd_consumed _ _
  · rw [List.length_take, hlen2, Nat.min_eq_left (consumed_le _ _)]; exact granule_dvd_consumed _ _

/-- any chunking of the input = one call with everything -/
theorem feedMany_eq (hlen : ∀ key b, (B.enc key b).length = 16) (f : Feeder B) (buf : Bytes) (c : Bytes) (cs : List Bytes)
    (hb : f.buffer = some buf) (hseg : ∀ seg, f.mode.kind = .cfb seg → 0 < seg) :
    feedMany B f (c :: cs) = feed B f (some (c ++ cs.flatten)) := by
  induction cs generalizing f buf c with
  | nil =>
    simp only [feedMany, List.flatten_nil, List.append_nil]
    cases feed B f (some c) with
    | error e => rfl
    | ok r => obtain ⟨f1, o1⟩ := r; simp
  | cons c2 rest ih =>
    rw [List.flatten_cons, feed_append B hlen f buf c _ hb hseg]
    rw [feedMany]
    cases h1 : feed B f (some c) with
    | error e => rfl
    | ok r =>
      obtain ⟨f1, o1⟩ := r
      simp only
      obtain ⟨hk1, _, _, hb1⟩ := feed_ok B f f1 buf c o1 hb hseg h1
      rw [ih f1 _ c2 hb1 (by rw [hk1]; exact hseg)]
      generalize feed B f1 _ = r
      rcases r with _ | ⟨f2, o2⟩ <;> rfl

/-! ### the whole message: `feed(data)` then the finalising `feed()` -/

/-- everything the feeder returns for `data` -/
def feedAll (f : Feeder B) (data : Bytes) : Except Err Bytes :=
  match feed B f (some data) with
  | .error e => .error e
  | .ok (f1, o1) =>
    match feed B f1 none with
    | .error e => .error e
    | .ok (_, o2) => .ok (o1 ++ o2)

/-- the same for input that arrives in pieces -/
def feedAllMany (f : Feeder B) (cs : List Bytes) : Except Err Bytes :=
  match feedMany B f cs with
  | .error e => .error e
  | .ok (f1, o1) =>
    match feed B f1 none with
    | .error e => .error e
    | .ok (_, o2) => .ok (o1 ++ o2)

theorem feedAllMany_eq (hlen : ∀ key b, (B.enc key b).length = 16) (f : Feeder B) (buf : Bytes) (c : Bytes) (cs : List Bytes)
    (hb : f.buffer = some buf) (hseg : ∀ seg, f.mode.kind = .cfb seg → 0 < seg) :
    feedAllMany B f (c :: cs) = feedAll B f (c ++ cs.flatten) := by
  unfold feedAllMany feedAll
  rw [feedMany_eq B hlen f buf c cs hb hseg]

theorem pkcs7_split (d : Bytes) (n : Nat) (h : 16 * n ≤ d.length) :
    pkcs7 d = d.take (16 * n) ++ pkcs7 (d.drop (16 * n)) := by
  unfold pkcs7
  simp only
  have : (d.drop (16 * n)).length % 16 = d.length % 16 := by rw [List.length_drop]; omega
  rw [this, ← List.append_assoc, List.take_append_drop]

theorem process_block (dec : Bool) (m : St B) (d : Bytes) (hk : m.kind = .ecb ∨ m.kind = .cbc) :
    process B dec m d = stepBlocks B dec (d.length / 16) m d := by
  unfold process; rcases hk with h | h <;> simp [h]

theorem final_enc_block (m : St B) (d : Bytes) (hk : m.kind = .ecb ∨ m.kind = .cbc) :
    final B m false .default d =
      if (pkcs7 d).length = 32 then
        match step B m false ((pkcs7 d).take 16) with
        | .error e => .error e
        | .ok (m1, c1) =>
          match step B m1 false ((pkcs7 d).drop 16) with
          | .error e => .error e
          | .ok (m2, c2) => .ok (m2, c1 ++ c2)
      else step B m false (pkcs7 d) := by
  unfold final
  rcases hk with h | h <;>
  · simp only [h, Bool.false_eq_true, if_false, bind, Except.bind, pure, Except.pure]
    split
    · cases step B m false ((pkcs7 d).take 16) with
      | error e => rfl
      | ok r =>
        obtain ⟨m1, c1⟩ := r
        simp only
        cases step B m1 false ((pkcs7 d).drop 16) with
        | error e => rfl
        | ok r2 => rfl
    · rfl

/-- **Encrypter, ECB / CBC, PKCS#7**: the feeder returns the mode applied block by block to the padded message -/
theorem feedAll_enc_block (f : Feeder B) (hk : f.mode.kind = .ecb ∨ f.mode.kind = .cbc) (hdec : f.dec = false)
    (hpad : f.padding = .default) (hb : f.buffer = some []) (data : Bytes) :
    feedAll B f data =
      match stepBlocks B false ((pkcs7 data).length / 16) f.mode (pkcs7 data) with
      | .error e => .error e
      | .ok (_, o) => .ok o := by
  have hseg : ∀ seg, f.mode.kind = .cfb seg → 0 < seg := by
    intro seg h; rcases hk with h' | h' <;> rw [h'] at h <;> cases h
  have hc : consumed f.mode.kind data.length = 16 * (data.length / 16 - 1) := by
    unfold consumed; rcases hk with h | h <;> simp [h]
  have hcle : 16 * (data.length / 16 - 1) ≤ data.length := by omega
  unfold feedAll
  rw [feed_spec B f [] data hb hseg]
  simp only [List.nil_append, hc, hdec]
  rw [process_block B false f.mode _ hk, List.length_take, Nat.min_eq_left hcle]
  have hn : 16 * (data.length / 16 - 1) / 16 = data.length / 16 - 1 := by omega
  rw [hn, stepBlocks_take B false _ _ f.mode data (Nat.le_refl _) hcle]
  -- the right-hand side, split at the same place
  have hrest : (data.drop (16 * (data.length / 16 - 1))).length = data.length - 16 * (data.length / 16 - 1) := by
    rw [List.length_drop]
  have hpl := pkcs7_length (data.drop (16 * (data.length / 16 - 1)))
  have hsplit := pkcs7_split data (data.length / 16 - 1) hcle
  have htl : (data.take (16 * (data.length / 16 - 1))).length = 16 * (data.length / 16 - 1) := by
    rw [List.length_take, Nat.min_eq_left hcle]
  have hjl : (pkcs7 data).length / 16 = (data.length / 16 - 1) + (pkcs7 (data.drop (16 * (data.length / 16 - 1)))).length / 16 := by
    rw [hsplit, List.length_append, htl]; omega
  rw [hjl, stepBlocks_add]
  conv => rhs; rw [hsplit]
  rw [stepBlocks_prefix B false _ f.mode _ _ (Nat.le_of_eq htl.symm),
    stepBlocks_take B false _ _ f.mode data (Nat.le_refl _) hcle]
  cases hs : stepBlocks B false (data.length / 16 - 1) f.mode data with
  | error e => rfl
  | ok r =>
    obtain ⟨m1, o1⟩ := r
    simp only
    have hk1 : m1.kind = .ecb ∨ m1.kind = .cbc := by rw [stepBlocks_kind B _ _ _ _ _ _ hs]; exact hk
    have hd : (data.take (16 * (data.length / 16 - 1)) ++ pkcs7 (data.drop (16 * (data.length / 16 - 1)))).drop
        (16 * (data.length / 16 - 1)) = pkcs7 (data.drop (16 * (data.length / 16 - 1))) := by
      rw [List.drop_append_of_le_length (Nat.le_of_eq htl.symm), List.drop_of_length_le (Nat.le_of_eq htl), List.nil_append]
    rw [hd]
    unfold feed
    simp only [hpad, bind, Except.bind, pure, Except.pure]
    rw [final_enc_block B m1 _ hk1]
    generalize hR : pkcs7 (data.drop (16 * (data.length / 16 - 1))) = R at hpl ⊢
    by_cases h32 : R.length = 32
    · have hj : R.length / 16 = 2 := by omega
      rw [if_pos h32, hj]
      simp only [stepBlocks]
      cases step B m1 false (R.take 16) with
      | error e => rfl
      | ok r1 =>
        obtain ⟨m2, c1⟩ := r1
        simp only
        have : (R.drop 16).take 16 = R.drop 16 := List.take_of_length_le (by rw [List.length_drop]; omega)
        rw [this]
        cases step B m2 false (R.drop 16) with
        | error e => rfl
        | ok r2 => obtain ⟨m3, c2⟩ := r2; simp
    · have h16 : R.length = 16 := by
        rw [hpl, hrest] at *
        omega
      have hj : R.length / 16 = 1 := by omega
      rw [if_neg h32, hj]
      simp only [stepBlocks]
      have : R.take 16 = R := List.take_of_length_le (by omega)
      rw [this]
      cases step B m1 false R with
      | error e => rfl
      | ok r1 => obtain ⟨m2, c1⟩ := r1; simp

/-- **Decrypter, ECB / CBC, PKCS#7**: all blocks but the last go through the mode as they come, the last one is decrypted
by the finalising call and stripped -/
theorem feedAll_dec_block (f : Feeder B) (hk : f.mode.kind = .ecb ∨ f.mode.kind = .cbc) (hdec : f.dec = true)
    (hpad : f.padding = .default) (hb : f.buffer = some []) (c : Bytes) (k : Nat) (hc : c.length = 16 * (k + 1)) :
    feedAll B f c =
      match stepBlocks B true k f.mode c with
      | .error e => .error e
      | .ok (m1, p1) =>
        match step B m1 true (c.drop (16 * k)) with
        | .error e => .error e
        | .ok (_, pl) =>
          match stripPkcs7 pl with
          | .error e => .error e
          | .ok t => .ok (p1 ++ t) := by
  have hseg : ∀ seg, f.mode.kind = .cfb seg → 0 < seg := by
    intro seg h; rcases hk with h' | h' <;> rw [h'] at h <;> cases h
  have hn : c.length / 16 - 1 = k := by omega
  have hcons : consumed f.mode.kind c.length = 16 * k := by
    unfold consumed; rcases hk with h | h <;> simp [h, hn]
  unfold feedAll
  rw [feed_spec B f [] c hb hseg]
  simp only [List.nil_append, hcons, hdec]
  have hle : 16 * k ≤ c.length := by omega
  rw [process_block B true f.mode _ hk, List.length_take, Nat.min_eq_left hle]
  have : 16 * k / 16 = k := by omega
  rw [this, stepBlocks_take B true _ _ f.mode c (Nat.le_refl _) hle]
  cases hs : stepBlocks B true k f.mode c with
  | error e => rfl
  | ok r =>
    obtain ⟨m1, p1⟩ := r
    simp only
    have hk1 : m1.kind = .ecb ∨ m1.kind = .cbc := by rw [stepBlocks_kind B _ _ _ _ _ _ hs]; exact hk
    unfold feed
    simp only [hpad, bind, Except.bind, pure, Except.pure]
    unfold final
    rcases hk1 with h | h <;>
    · simp only [h, if_true, bind, Except.bind, pure, Except.pure]
      cases step B m1 true (c.drop (16 * k)) with
      | error e => rfl
      | ok r1 =>
        obtain ⟨m2, pl⟩ := r1
        simp only
        cases stripPkcs7 pl with
        | error e => rfl
        | ok t => rfl

/-- two mode objects that will stay in step: same kind, key and chaining value -/
def InStep (me md : St B) : Prop := md.kind = me.kind ∧ md.key = me.key ∧ md.reg = me.reg

/-- ECB / CBC over an invertible block cipher: decrypting the blocks that encryption produced returns the input and keeps
the two mode objects in step -/
theorem stepBlocks_dec_enc (hB : BlockInv B) (key : Bytes) (n : Nat) (me md : St B) (x : Bytes)
    (hkey : B.sched key = .ok me.key) (hkind : me.kind = .ecb ∨ me.kind = .cbc) (hsame : InStep B me md)
    (hreg : me.reg.length = 16) (hx : 16 * n ≤ x.length) :
    ∃ me' md' c, stepBlocks B false n me x = .ok (me', c) ∧ c.length = 16 * n ∧
      stepBlocks B true n md c = .ok (md', x.take (16 * n)) ∧ InStep B me' md' ∧ me'.reg.length = 16 ∧
      me'.key = me.key ∧ me'.kind = me.kind := by
  induction n generalizing me md x with
  | zero => exact ⟨me, md, [], by simp [stepBlocks], rfl, by simp [stepBlocks], hsame, hreg, rfl, rfl⟩
  | succ n ih =>
    obtain ⟨hk, hky, hr⟩ := hsame
    have h16 : (x.take 16).length = 16 := by rw [List.length_take]; omega
    have hne : ((x.take 16).length != 16) = false := by rw [h16]; rfl
    -- one block
    have one : ∃ me1 md1 c1, step B me false (x.take 16) = .ok (me1, c1) ∧ c1.length = 16 ∧
        step B md true c1 = .ok (md1, x.take 16) ∧ InStep B me1 md1 ∧ me1.reg.length = 16 ∧ me1.key = me.key ∧
        me1.kind = me.kind := by
      rcases hkind with hke | hkc
      · refine ⟨me, md, B.enc me.key (x.take 16), ?_, hB.encLen _ _, ?_, ⟨hk, hky, hr⟩, hreg, rfl, rfl⟩
        · unfold step; simp only [hke, hne, Bool.false_eq_true, if_false]
        · unfold step
          have : ((B.enc me.key (x.take 16)).length != 16) = false := by rw [hB.encLen]; rfl
          simp only [hk, hke, this, Bool.false_eq_true, if_false, if_true, hky]
          rw [hB.inv key me.key _ hkey h16]
      · have hxl : (xorBytes (x.take 16) me.reg).length = 16 := by rw [xorBytes_length, h16, hreg]; rfl
        refine ⟨{ me with reg := B.enc me.key (xorBytes (x.take 16) me.reg) },
          { md with reg := B.enc me.key (xorBytes (x.take 16) me.reg) }, B.enc me.key (xorBytes (x.take 16) me.reg),
          ?_, hB.encLen _ _, ?_, ⟨hk, hky, rfl⟩, hB.encLen _ _, rfl, rfl⟩
        · unfold step; simp only [hkc, hne, Bool.false_eq_true, if_false]
        · unfold step
          have : ((B.enc me.key (xorBytes (x.take 16) me.reg)).length != 16) = false := by rw [hB.encLen]; rfl
          simp only [hk, hkc, this, Bool.false_eq_true, if_false, if_true, hky, hr]
          rw [hB.inv key me.key _ hkey hxl, xorBytes_cancel _ _ (by rw [h16, hreg])]
    obtain ⟨me1, md1, c1, he1, hc1, hd1, hs1, hr1, hk1, hkd1⟩ := one
    obtain ⟨me', md', c, he, hcl, hd, hs', hr', hk', hkd'⟩ := ih me1 md1 (x.drop 16) (by rw [hk1]; exact hkey)
      (by rw [hkd1]; exact hkind) hs1 hr1 (by rw [List.length_drop]; omega)
    refine ⟨me', md', c1 ++ c, ?_, by rw [List.length_append, hc1, hcl]; omega, ?_, hs', hr', by rw [hk', hk1],
      by rw [hkd', hkd1]⟩
    · simp only [stepBlocks, he1, he]
    · simp only [stepBlocks]
      rw [List.take_append_of_le_length (by omega), List.take_of_length_le (by omega), hd1]
      simp only
      rw [List.drop_append_of_le_length (by omega), List.drop_of_length_le (by omega), List.nil_append, hd]
      simp only
      congr 2
      have : 16 * (n + 1) = 16 + 16 * n := by omega
      rw [this, List.take_add]

/-- **Decrypter ∘ Encrypter = identity** (ECB / CBC with PKCS#7 over an invertible block cipher): the encrypter returns
as many bytes as the padded message has, and a decrypter started from the same key and IV returns the message -/
theorem feeder_roundtrip_block (hB : BlockInv B) (key : Bytes) (me md : St B) (data : Bytes)
    (hkey : B.sched key = .ok me.key) (hkind : me.kind = .ecb ∨ me.kind = .cbc) (hsame : InStep B me md)
    (hreg : me.reg.length = 16) :
    ∃ C, feedAll B { mode := me, dec := false, padding := .default, buffer := some [] } data = .ok C ∧
      C.length = (pkcs7 data).length ∧
      feedAll B { mode := md, dec := true, padding := .default, buffer := some [] } C = .ok data := by
  have hpl := pkcs7_length data
  obtain ⟨N, hN⟩ : ∃ N, (pkcs7 data).length = 16 * (N + 1) := ⟨(pkcs7 data).length / 16 - 1, by omega⟩
  have hdl : 16 * N ≤ data.length := by omega
  have hsplit := pkcs7_split data N hdl
  have htl : (data.take (16 * N)).length = 16 * N := by rw [List.length_take, Nat.min_eq_left hdl]
  have hrl : (pkcs7 (data.drop (16 * N))).length = 16 := by
    have := congrArg List.length hsplit
    rw [List.length_append, List.length_take, Nat.min_eq_left hdl, hN] at this
    omega
  -- the first N blocks, then the last one
  obtain ⟨me1, md1, ca, hea, hcal, hda, hs1, hr1, hk1, hkd1⟩ :=
    stepBlocks_dec_enc B hB key N me md (pkcs7 data) hkey hkind hsame hreg (by omega)
  obtain ⟨me2, md2, cb, heb, hcbl, hdb, _, _, _, _⟩ :=
    stepBlocks_dec_enc B hB key 1 me1 md1 ((pkcs7 data).drop (16 * N)) (by rw [hk1]; exact hkey)
      (by rw [hkd1]; exact hkind) hs1 hr1 (by rw [List.length_drop]; omega)
  have henc : stepBlocks B false (N + 1) me (pkcs7 data) = .ok (me2, ca ++ cb) := by
    rw [stepBlocks_add, hea]; simp only [heb]
  refine ⟨ca ++ cb, ?_, by rw [List.length_append, hcal, hcbl, hN]; omega, ?_⟩
  · rw [feedAll_enc_block B _ hkind rfl rfl rfl]
    have : (pkcs7 data).length / 16 = N + 1 := by omega
    simp only [this, henc]
  · have hmdk : md.kind = .ecb ∨ md.kind = .cbc := by rw [hsame.1]; exact hkind
    rw [feedAll_dec_block B _ hmdk rfl rfl rfl (ca ++ cb) N (by rw [List.length_append, hcal, hcbl]; omega)]
    simp only
    rw [stepBlocks_prefix B true N md ca cb (Nat.le_of_eq hcal.symm), hda]
    simp only
    rw [List.drop_append_of_le_length (Nat.le_of_eq hcal.symm), List.drop_of_length_le (Nat.le_of_eq hcal), List.nil_append]
    -- the last block
    simp only [stepBlocks] at hdb
    have hcb16 : cb.take 16 = cb := List.take_of_length_le (by omega)
    rw [hcb16] at hdb
    cases hst : step B md1 true cb with
    | error e => rw [hst] at hdb; cases hdb
    | ok r =>
      obtain ⟨m3, pl⟩ := r
      rw [hst] at hdb
      simp only at hdb
      injection hdb with hdb
      injection hdb with _ hpl'
      simp only [List.append_nil] at hpl'
      simp only
      have hlast : pl = pkcs7 (data.drop (16 * N)) := by
        rw [hpl']
        have : 16 * 1 = 16 := rfl
        rw [this, List.take_of_length_le]
        · conv => lhs; rw [hsplit]
          rw [List.drop_append_of_le_length (Nat.le_of_eq htl.symm),
            List.drop_of_length_le (Nat.le_of_eq htl), List.nil_append]
        · rw [List.length_drop, hN]; omega
      rw [hlast, stripPkcs7_pkcs7]
      simp only
      have : (pkcs7 data).take (16 * N) = data.take (16 * N) := by
        conv => lhs; rw [hsplit]
        rw [List.take_append_of_le_length (Nat.le_of_eq htl.symm),
          List.take_of_length_le (Nat.le_of_eq htl)]
      rw [this, List.take_append_drop]

/-- **Encrypter / Decrypter over OFB and CTR**: the feeder returns what one call of the mode object on the whole message
returns (the key-stream modes need no padding; the buffering is invisible) -/
theorem feedAll_stream (hlen : ∀ key b, (B.enc key b).length = 16) (f : Feeder B) (hk : f.mode.kind = .ofb ∨ f.mode.kind = .ctr)
    (hb : f.buffer = some []) (data : Bytes) :
    feedAll B f data =
      match step B f.mode f.dec data with
      | .error e => .error e
      | .ok (_, o) => .ok o := by
  have hseg : ∀ seg, f.mode.kind = .cfb seg → 0 < seg := by
    intro seg h; rcases hk with h' | h' <;> rw [h'] at h <;> cases h
  have hsplit : ∀ a b : Bytes, step B f.mode f.dec (a ++ b) =
      (step B f.mode f.dec a >>= fun (s1, o1) => step B s1 f.dec b >>= fun (s2, o2) => .ok (s2, o1 ++ o2)) := by
    intro a b
    rcases hk with h | h
    · exact ofb_split B hlen f.mode h f.dec a b
    · exact ctr_split B hlen f.mode h f.dec a b
  have hfinal : ∀ (m1 : St B) (pad : Padding) (d : Bytes), m1.kind = f.mode.kind → final B m1 f.dec pad d = step B m1 f.dec d := by
    intro m1 pad d h1
    unfold final
    rcases hk with h | h <;> simp [h1, h]
  have hproc : ∀ x : Bytes, process B f.dec f.mode x = if x.isEmpty then .ok (f.mode, []) else step B f.mode f.dec x := by
    intro x
    unfold process
    rcases hk with h | h <;> simp [h]
  unfold feedAll
  rw [feed_spec B f [] data hb hseg]
  simp only [List.nil_append]
  generalize consumed f.mode.kind data.length = c
  rw [hproc]
  have hd : data = data.take c ++ data.drop c := (List.take_append_drop c data).symm
  by_cases he : (data.take c).isEmpty
  · rw [if_pos he]
    simp only
    have hnil : data.take c = [] := by simpa using he
    have hdd : data.drop c = data := by
      have := hd; rw [hnil, List.nil_append] at this; exact this.symm
    unfold feed
    simp only [bind, Except.bind, pure, Except.pure]
    rw [hfinal f.mode _ _ rfl, hdd]
    cases step B f.mode f.dec data with
    | error e => rfl
    | ok r => obtain ⟨m2, o2⟩ := r; simp
  · rw [if_neg he]
    conv => rhs; rw [hd, hsplit]
    simp only [bind, Except.bind]
    cases hs : step B f.mode f.dec (data.take c) with
    | error e => rfl
    | ok r =>
      obtain ⟨m1, o1⟩ := r
      simp only
      unfold feed
      simp only [bind, Except.bind, pure, Except.pure]
      rw [hfinal m1 _ _ (step_kind B _ _ _ _ _ hs)]
      cases step B m1 f.dec (data.drop c) with
      | error e => rfl
      | ok r2 => obtain ⟨m2, o2⟩ := r2; rfl

/-! ### CFB: the whole message -/

/-- CFB output is as long as the input (segments of at most 16 bytes, input a whole number of segments) -/
theorem cfbLoop_out_len (hlen : ∀ key b, (B.enc key b).length = 16) (k : B.K) (seg : Nat) (hseg : 0 < seg) (h16 : seg ≤ 16)
    (dec : Bool) (fuel n : Nat) (data reg out : Bytes) (hd : data.length = n * seg) (hf : data.length < fuel) :
    (cfbLoop B k seg dec fuel data reg out).2.length = out.length + data.length := by
  induction fuel generalizing n data reg out with
  | zero => omega
  | succ fuel ih =>
    unfold cfbLoop
    by_cases he : data.isEmpty
    · have : data = [] := by simpa using he
      subst this
      simp
    · simp only [he, Bool.false_eq_true, if_false]
      have hn : 1 ≤ n := by
        rcases n with _ | n
        · simp at hd; subst hd; simp at he
        · omega
      have hge : seg ≤ data.length := by rw [hd]; exact Nat.le_mul_of_pos_left seg hn
      have hdl : (data.drop seg).length = (n - 1) * seg := by
        rw [List.length_drop, hd, Nat.sub_mul, Nat.one_mul]
      rw [ih (n - 1) _ _ _ hdl (by rw [List.length_drop]; omega)]
      have hxl : (xorBytes (data.take seg) ((B.enc k reg).take (data.take seg).length)).length = seg := by
        rw [xorBytes_length, List.length_take, List.length_take, hlen, Nat.min_eq_left hge]
        omega
      rw [List.length_append, hxl, List.length_drop]
      omega

theorem step_cfb_len (hlen : ∀ key b, (B.enc key b).length = 16) (m m' : St B) (seg : Nat) (hk : m.kind = .cfb seg)
    (hseg : 0 < seg) (h16 : seg ≤ 16) (dec : Bool) (x o : Bytes) (n : Nat) (hx : x.length = n * seg)
    (h : step B m dec x = .ok (m', o)) : o.length = x.length := by
  unfold step at h
  simp only [hk] at h
  split at h
  · cases h
  · split at h
    · cases h
    · injection h with h
      injection h with _ ho
      rw [← ho, cfbLoop_out_len B hlen m.key seg hseg h16 dec _ n x m.reg [] hx (by omega)]
      simp

/-- **Encrypter / Decrypter over CFB** (segments of 1…16 bytes): the message is padded with zero bytes to the next segment
boundary (a whole segment when it already ends on one), goes through the mode object, and the output is cut back to the
length of the message -/
theorem feedAll_cfb (hlen : ∀ key b, (B.enc key b).length = 16) (f : Feeder B) (seg : Nat) (hk : f.mode.kind = .cfb seg)
    (hseg : 0 < seg) (h16 : seg ≤ 16) (hreg : f.mode.listReg = false) (hpad : f.padding = .default)
    (hb : f.buffer = some []) (data : Bytes) :
    feedAll B f data =
      match step B f.mode f.dec (data ++ zeros (seg - data.length % seg)) with
      | .error e => .error e
      | .ok (_, o) => .ok (o.take data.length) := by
  have hsegs : ∀ s, f.mode.kind = .cfb s → 0 < s := by
    intro s h; rw [hk] at h; injection h with h; rw [← h]; exact hseg
  obtain ⟨q, hq⟩ : ∃ q, consumed f.mode.kind data.length = q * seg := by
    obtain ⟨q, hq⟩ := granule_dvd_consumed f.mode.kind data.length
    rw [hk] at hq
    exact ⟨q, by rw [hk, hq]; exact Nat.mul_comm _ _⟩
  have hcle := consumed_le f.mode.kind data.length
  unfold feedAll
  rw [feed_spec B f [] data hb hsegs]
  simp only [List.nil_append]
  generalize consumed f.mode.kind data.length = c at hq hcle
  -- the pieces
  have htl : (data.take c).length = q * seg := by rw [List.length_take, Nat.min_eq_left hcle, hq]
  have hrl : (data.drop c).length % seg = data.length % seg := by
    rw [List.length_drop, hq, Nat.mul_comm, Nat.sub_mul_mod (by rw [Nat.mul_comm, ← hq]; exact hcle)]
  have hRl : ∃ r, (data.drop c ++ zeros (seg - data.length % seg)).length = r * seg := by
    refine ⟨(data.drop c).length / seg + 1, ?_⟩
    have hm := Nat.mod_lt data.length hseg
    have hdm := Nat.div_add_mod (data.drop c).length seg
    rw [List.length_append, zeros, List.length_replicate, Nat.add_mul, Nat.one_mul]
    rw [hrl] at hdm
    have : (data.drop c).length / seg * seg = seg * ((data.drop c).length / seg) := Nat.mul_comm _ _
    omega
  obtain ⟨r, hr⟩ := hRl
  have hwhole : data ++ zeros (seg - data.length % seg) =
      data.take c ++ (data.drop c ++ zeros (seg - data.length % seg)) := by
    rw [← List.append_assoc, List.take_append_drop]
  rw [hwhole, cfb_split B seg hseg f.mode hk hreg f.dec _ _ q r htl hr]
  simp only [bind, Except.bind]
  -- what `feed` did with the first piece
  have hproc : process B f.dec f.mode (data.take c) =
      if (data.take c).isEmpty then .ok (f.mode, []) else step B f.mode f.dec (data.take c) := by
    unfold process; simp [hk]
  rw [hproc]
  have hfinal : ∀ (m1 : St B) (d : Bytes), m1.kind = .cfb seg →
      final B m1 f.dec .default d =
        match step B m1 f.dec (d ++ zeros (seg - d.length % seg)) with
        | .error e => .error e
        | .ok (m', o) => .ok (m', o.take d.length) := by
    intro m1 d h1
    unfold final
    simp only [h1, bind, Except.bind, pure, Except.pure]
    cases step B m1 f.dec (d ++ zeros (seg - d.length % seg)) with
    | error e => rfl
    | ok r => rfl
  by_cases he : (data.take c).isEmpty
  · have hnil : data.take c = [] := by simpa using he
    rw [if_pos he, hnil]
    simp only
    have hstep0 : step B f.mode f.dec [] = .ok (f.mode, []) := by
      generalize f.mode = mm at hk hreg
      obtain ⟨kind, key, reg, rem, counter, listReg⟩ := mm
      simp only at hk hreg
      subst hk hreg
      simp [step, cfbLoop]
    rw [hstep0]
    simp only [List.nil_append]
    have hdd : data.drop c = data := by
      have := List.take_append_drop c data; rw [hnil, List.nil_append] at this; exact this
    unfold feed
    simp only [hpad, bind, Except.bind, pure, Except.pure]
    rw [hfinal f.mode _ hk, hdd]
    cases step B f.mode f.dec (data ++ zeros (seg - data.length % seg)) with
    | error e => rfl
    | ok r2 => obtain ⟨m2, o2⟩ := r2; simp
  · rw [if_neg he]
    cases hs : step B f.mode f.dec (data.take c) with
    | error e => rfl
    | ok r1 =>
      obtain ⟨m1, o1⟩ := r1
      simp only
      have hk1 : m1.kind = .cfb seg := by rw [step_kind B _ _ _ _ _ hs]; exact hk
      have ho1 : o1.length = c := by
        rw [step_cfb_len B hlen f.mode m1 seg hk hseg h16 f.dec _ o1 q htl hs, List.length_take, Nat.min_eq_left hcle]
      unfold feed
      simp only [hpad, bind, Except.bind, pure, Except.pure]
      rw [hfinal m1 _ hk1, hrl]
      cases step B m1 f.dec (data.drop c ++ zeros (seg - data.length % seg)) with
      | error e => rfl
      | ok r2 =>
        obtain ⟨m2, o2⟩ := r2
        simp only
        congr 1
        have hle1 : o1.length ≤ data.length := by omega
        rw [List.take_append, List.take_of_length_le hle1, ho1, List.length_drop]

theorem feedStreamChunks_eq (f : Feeder B) (cs : List Bytes) : feedStreamChunks B f cs = feedAllMany B f cs := rfl

theorem readChunks_flatten (n : Nat) (hn : 0 < n) (fuel : Nat) (d : Bytes) (h : d.length < fuel) :
    (readChunks n fuel d).flatten = d := by
  induction fuel generalizing d with
  | zero => omega
  | succ fuel ih =>
    unfold readChunks
    cases d with
    | nil => rfl
    | cons x xs =>
      simp only [List.isEmpty_cons, Bool.false_eq_true, if_false, List.flatten_cons]
      rw [ih _ (by simp only [List.length_drop, List.length_cons] at *; omega)]
      exact List.take_append_drop n (x :: xs)

theorem readChunks_nonempty (n : Nat) (hn : 0 < n) (fuel : Nat) (d : Bytes) :
    ∀ c ∈ readChunks n fuel d, c ≠ [] := by
  induction fuel generalizing d with
  | zero => intro c hc; simp [readChunks] at hc
  | succ fuel ih =>
    intro c hc
    unfold readChunks at hc
    cases d with
    | nil => simp at hc
    | cons x xs =>
      simp only [List.isEmpty_cons, Bool.false_eq_true, if_false, List.mem_cons] at hc
      rcases hc with rfl | hc
      · cases n with
        | zero => omega
        | succ n => simp
      · exact ih _ c hc

/-- feeding nothing to a feeder that holds nothing changes nothing -/
theorem feed_nil_fresh (f : Feeder B) (hb : f.buffer = some []) : feed B f (some []) = .ok (f, []) := by
  obtain ⟨mode, dec, padding, buffer⟩ := f
  simp only at hb
  subst hb
  simp [feed, feedLoop, bind, Except.bind, pure, Except.pure]

/-- **`encrypt_stream` / `decrypt_stream`**: whatever chunks the `read` calls return, the bytes written are those of one
`feed(data)` followed by `feed()` on the concatenation (same exception, if any) -/
theorem feedStreamChunks_eq_feedAll (hlen : ∀ key b, (B.enc key b).length = 16) (f : Feeder B) (cs : List Bytes)
    (hb : f.buffer = some []) (hseg : ∀ seg, f.mode.kind = .cfb seg → 0 < seg) :
    feedStreamChunks B f cs = feedAll B f cs.flatten := by
  cases cs with
  | nil =>
    simp only [feedStreamChunks, feedMany, feedAll, List.flatten_nil, feed_nil_fresh B f hb, List.nil_append]
    generalize feed B f none = r
    rcases r with _ | ⟨f2, o2⟩ <;> rfl
  | cons c cs =>
    rw [feedStreamChunks_eq, feedAllMany_eq B hlen f [] c cs hb hseg, List.flatten_cons]

/-- … in particular for every block size `> 0` on a stream that reads completely -/
theorem feedStream_eq_feedAll (hlen : ∀ key b, (B.enc key b).length = 16) (f : Feeder B) (n : Nat) (hn : 0 < n) (data : Bytes)
    (hb : f.buffer = some []) (hseg : ∀ seg, f.mode.kind = .cfb seg → 0 < seg) :
    feedStream B f n data = feedAll B f data := by
  unfold feedStream
  rw [feedStreamChunks_eq_feedAll B hlen f _ hb hseg, readChunks_flatten n hn _ data (by omega)]

end Bec2Verif.Modes
