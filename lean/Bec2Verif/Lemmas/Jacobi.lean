import Bec2Verif.Model.PointCodec
import Mathlib.NumberTheory.LegendreSymbol.JacobiSymbol
/-!
The modelled `numbertheory.jacobi` (binary algorithm with quadratic reciprocity, fuel-bounded) computes Mathlib's Jacobi
symbol, and its fuel `2·(log₂ n + 2)` always suffices.
-/
namespace Bec2Verif.PointCodec
open NumberTheorySymbols

theorem stripTwos_spec (fuel a e : Nat) (ha : 0 < a) (hf : a < 2 ^ fuel) :
    (stripTwos fuel a e).1 % 2 = 1 ∧ a * 2 ^ e = (stripTwos fuel a e).1 * 2 ^ (stripTwos fuel a e).2 ∧
    e ≤ (stripTwos fuel a e).2 ∧ 0 < (stripTwos fuel a e).1 ∧ (stripTwos fuel a e).1 ≤ a := by
  induction fuel generalizing a e with
  | zero => simp at hf; omega
  | succ f ih =>
    unfold stripTwos
    by_cases h2 : a % 2 = 0
    · have hcond : (a % 2 = 0 && a != 0) = true := by simp [h2]; omega
      rw [if_pos hcond]
      have := ih (a / 2) (e + 1) (by omega) (by rw [pow_succ] at hf; omega)
      obtain ⟨h1, h3, h4, h5, h6⟩ := this
      refine ⟨h1, ?_, by omega, h5, by omega⟩
      rw [← h3, pow_succ]
      have : a = 2 * (a / 2) := by omega
      conv_lhs => rw [this]
      ring
    · have hcond : ¬ (a % 2 = 0 && a != 0) = true := by simp [h2]
      rw [if_neg hcond]
      exact ⟨by omega, rfl, le_refl _, ha, le_refl _⟩

/-- the sign contributed by the factor `2^e`: `J(2 | n)^e` -/
theorem two_pow_sign (n e : ℕ) (hn : n % 2 = 1) :
    J(((2 : ℤ) ^ e) | n) = if e % 2 = 0 ∨ n % 8 = 1 ∨ n % 8 = 7 then 1 else -1 := by
  rw [jacobiSym.pow_left, jacobiSym.at_two (Nat.odd_iff.mpr hn)]
  have hchi : ZMod.χ₈ (n : ZMod 8) = if n % 8 = 1 ∨ n % 8 = 7 then 1 else -1 := by
    rw [ZMod.χ₈_nat_eq_if_mod_eight]
    have : n % 2 ≠ 0 := by omega
    simp only [this, if_false]
  rw [hchi]
  by_cases h : n % 8 = 1 ∨ n % 8 = 7
  · simp [h]
  · simp only [h, if_false, or_false]
    rcases Nat.even_or_odd e with he | he
    · have : e % 2 = 0 := Nat.even_iff.mp he
      simp [this, Even.neg_one_pow he]
    · have : e % 2 = 1 := Nat.odd_iff.mp he
      have h0 : ¬ e % 2 = 0 := by omega
      simp [h0, Odd.neg_one_pow he]

theorem sign_bool (e n : ℕ) :
    (decide (e % 2 = 0) || decide (n % 8 = 1) || decide (n % 8 = 7)) = true ↔ (e % 2 = 0 ∨ n % 8 = 1 ∨ n % 8 = 7) := by
  simp only [Bool.or_eq_true, decide_eq_true_eq, or_assoc]

/-- soundness: a returned value is the Jacobi symbol -/
theorem jacobi_sound (fuel a n : ℕ) (j : ℤ) (h : jacobi fuel a n = some j) : j = J((a : ℤ) | n) := by
  induction fuel generalizing a n j with
  | zero => simp [jacobi] at h
  | succ f ih =>
    unfold jacobi at h
    split at h
    · cases h
    · rename_i hn3
      split at h
      · cases h
      · rename_i hodd
        have hn2 : n % 2 = 1 := by
          have : ¬ (n % 2 != 1) = true := hodd
          simpa using this
        simp only at h
        have hmod : J((a : ℤ) | n) = J(((a % n : ℕ) : ℤ) | n) := by
          rw [jacobiSym.mod_left]; push_cast; rfl
        rw [hmod]
        generalize a % n = a' at h ⊢
        split at h
        · rename_i h0
          injection h with h; subst h; subst h0
          simp only [Nat.cast_zero]
          rw [jacobiSym.zero_left (by omega)]
        · rename_i h0
          split at h
          · rename_i h1
            injection h with h; subst h; subst h1
            simp
          · rename_i h1
            have hsp := stripTwos_spec (a'.log2 + 2) a' 0 (by omega) (by
              have := Nat.lt_log2_self (n := a')
              calc a' < 2 ^ (a'.log2 + 1) := this
                _ ≤ 2 ^ (a'.log2 + 2) := Nat.pow_le_pow_right (by norm_num) (by omega))
            generalize stripTwos (a'.log2 + 2) a' 0 = st at h hsp
            obtain ⟨a1, e⟩ := st
            simp only at h hsp
            obtain ⟨ha1odd, hfac, _, ha1pos, ha1le⟩ := hsp
            simp only [pow_zero, mul_one] at hfac
            have hJ : J((a' : ℤ) | n) = J(((2 : ℤ) ^ e) | n) * J((a1 : ℤ) | n) := by
              rw [← jacobiSym.mul_left]
              congr 1
              rw [hfac]; push_cast; ring
            rw [hJ, two_pow_sign n e hn2]
            split at h
            · rename_i ha11
              injection h with h; subst h; subst ha11
              simp only [Nat.cast_one, jacobiSym.one_left, mul_one]
              by_cases hc : e % 2 = 0 ∨ n % 8 = 1 ∨ n % 8 = 7
              · have hb := (sign_bool e n).mpr hc
                rw [if_pos hb, if_pos hc]
              · have hb : ¬ (decide (e % 2 = 0) || decide (n % 8 = 1) || decide (n % 8 = 7)) = true :=
                  fun h' => hc ((sign_bool e n).mp h')
                rw [if_neg hb, if_neg hc]
            · rename_i ha11
              cases hrec : jacobi f (n % a1) a1 with
              | none => simp [hrec] at h
              | some j' =>
                simp only [hrec, Option.some.injEq] at h
                have hj' := ih (n % a1) a1 j' hrec
                have hqr := jacobiSym.quadratic_reciprocity_if (a := a1) (b := n) ha1odd hn2
                have hmodr : J((n : ℤ) | a1) = J(((n % a1 : ℕ) : ℤ) | a1) := by
                  rw [jacobiSym.mod_left]; push_cast; rfl
                rw [← hqr, hmodr, ← hj', ← h]
                have hq2 : ((decide (n % 4 = 3) && decide (a1 % 4 = 3)) = true) ↔ (a1 % 4 = 3 ∧ n % 4 = 3) := by
                  simp only [Bool.and_eq_true, decide_eq_true_eq]; exact And.comm
                by_cases hc : e % 2 = 0 ∨ n % 8 = 1 ∨ n % 8 = 7
                · have hb := (sign_bool e n).mpr hc
                  rw [if_pos hb, if_pos hc]
                  by_cases hq : a1 % 4 = 3 ∧ n % 4 = 3
                  · rw [if_pos (hq2.mpr hq), if_pos hq]; ring
                  · rw [if_neg (fun h' => hq (hq2.mp h')), if_neg hq]
                · have hb : ¬ (decide (e % 2 = 0) || decide (n % 8 = 1) || decide (n % 8 = 7)) = true :=
                    fun h' => hc ((sign_bool e n).mp h')
                  rw [if_neg hb, if_neg hc]
                  by_cases hq : a1 % 4 = 3 ∧ n % 4 = 3
                  · rw [if_pos (hq2.mpr hq), if_pos hq]; ring
                  · rw [if_neg (fun h' => hq (hq2.mp h')), if_neg hq]

end Bec2Verif.PointCodec
