import Bec2Verif.Lemmas.Frame
/-! round trips of the BEC2 encryptors and auth blocks -/
namespace Bec2Verif.Bec2
open Bec2Verif Bf3

/-! ### customer-key slot -/

theorem sliceBounds_legal (n pos : Nat) (h : pos + 10 ≤ n) :
    sliceBounds n (pos : Int) ((pos : Int) + (10 : Nat)) = (pos, pos + 10) := by
  simp only [sliceBounds]
  have h1 : ¬ ((pos : Int) < 0) := by omega
  have h2 : ¬ ((pos : Int) > (n : Int)) := by omega
  have h3 : ¬ ((pos : Int) + (10 : Nat) < 0) := by omega
  have h4 : ¬ ((pos : Int) + (10 : Nat) > (n : Int)) := by omega
  simp only [h1, h2, h3, h4, if_false]
  have e1 : (pos : Int).toNat = pos := by omega
  have e2 : ((pos : Int) + (10 : Nat)).toNat = pos + 10 := by omega
  rw [e1, e2]
  have : ¬ (pos + 10 < pos) := by omega
  simp [this]

theorem sliceAssign_legal (x v : Bytes) (pos : Nat) (h : pos + 10 ≤ x.length) :
    sliceAssign x (pos : Int) ((pos : Int) + (10 : Nat)) v = x.take pos ++ v ++ x.drop (pos + 10) := by
  simp only [sliceAssign, sliceBounds_legal x.length pos h]

theorem sliceGet_legal (x : Bytes) (pos : Nat) (h : pos + 10 ≤ x.length) :
    sliceGet x (pos : Int) ((pos : Int) + (10 : Nat)) = (x.take (pos + 10)).drop pos := by
  simp only [sliceGet, sliceBounds_legal x.length pos h]

/-- insert, verify, blank: for every legal slot position -/
theorem custKey_roundtrip (C : Crypto) (hC : CryptoInv C) (key ck p c : Bytes) (pos : Nat)
    (hck : ck.length = 10) (hpos : pos + 10 ≤ p.length)
    (h : custKeyEncrypt C key ck (pos : Int) p = .ok c) :
    custKeyDecrypt C key ck (pos : Int) c = .ok (p.take pos ++ zeros 10 ++ p.drop (pos + 10)) := by
  have hne : ck.isEmpty = false := by
    cases ck with
    | nil => simp at hck
    | cons _ _ => rfl
  have h10 : Gen.CUSTOMER_KEY_SIZE = 10 := rfl
  simp only [custKeyEncrypt, hne, Bool.false_eq_true, if_false, h10] at h
  rw [sliceAssign_legal p ck pos hpos] at h
  have hun := unwrap_wrap C hC key _ c h
  have hlen : pos + 10 ≤ (p.take pos ++ ck ++ p.drop (pos + 10)).length := by
    simp only [List.length_append, List.length_take, List.length_drop, hck]; omega
  have hmin : min pos p.length = pos := by omega
  have hget : sliceGet (p.take pos ++ ck ++ p.drop (pos + 10)) (pos : Int) ((pos : Int) + (10 : Nat)) = ck := by
    rw [sliceGet_legal _ pos hlen]
    have h1 : (p.take pos ++ ck ++ p.drop (pos + 10)).take (pos + 10) = p.take pos ++ ck := by
      apply List.take_left'
      simp only [List.length_append, List.length_take, hck, hmin]
    rw [h1]
    apply List.drop_left'
    simp only [List.length_take, hmin]
  have hblank : sliceAssign (p.take pos ++ ck ++ p.drop (pos + 10)) (pos : Int) ((pos : Int) + (10 : Nat)) (zeros 10)
      = p.take pos ++ zeros 10 ++ p.drop (pos + 10) := by
    rw [sliceAssign_legal _ _ pos hlen]
    have h1 : (p.take pos ++ ck ++ p.drop (pos + 10)).take pos = p.take pos := by
      rw [List.append_assoc]
      apply List.take_left'
      simp only [List.length_take, hmin]
    have h2 : (p.take pos ++ ck ++ p.drop (pos + 10)).drop (pos + 10) = p.drop (pos + 10) := by
      apply List.drop_left'
      simp only [List.length_append, List.length_take, hck, hmin]
    rw [h1, h2]
  simp only [custKeyDecrypt, hun, bind, Except.bind, hne, Bool.false_eq_true, if_false, h10, hget,
    bne_self_eq_false, hblank, pure, Except.pure]

/-- a different customer key is reported as the BEC2 format error -/
theorem custKey_other_rejected (C : Crypto) (hC : CryptoInv C) (key ck ck' p c : Bytes) (pos : Nat)
    (hck : ck.length = 10) (hck' : ck' ≠ []) (hne' : ck' ≠ ck) (hpos : pos + 10 ≤ p.length)
    (h : custKeyEncrypt C key ck (pos : Int) p = .ok c) :
    custKeyDecrypt C key ck' (pos : Int) c = .error .formatBec2 := by
  have hne : ck.isEmpty = false := by
    cases ck with
    | nil => simp at hck
    | cons _ _ => rfl
  have hne2 : ck'.isEmpty = false := by
    cases ck' with
    | nil => exact absurd rfl hck'
    | cons _ _ => rfl
  have h10 : Gen.CUSTOMER_KEY_SIZE = 10 := rfl
  simp only [custKeyEncrypt, hne, Bool.false_eq_true, if_false, h10] at h
  rw [sliceAssign_legal p ck pos hpos] at h
  have hun := unwrap_wrap C hC key _ c h
  have hlen : pos + 10 ≤ (p.take pos ++ ck ++ p.drop (pos + 10)).length := by
    simp only [List.length_append, List.length_take, List.length_drop, hck]; omega
  have hmin : min pos p.length = pos := by omega
  have hget : sliceGet (p.take pos ++ ck ++ p.drop (pos + 10)) (pos : Int) ((pos : Int) + (10 : Nat)) = ck := by
    rw [sliceGet_legal _ pos hlen]
    have h1 : (p.take pos ++ ck ++ p.drop (pos + 10)).take (pos + 10) = p.take pos ++ ck := by
      apply List.take_left'
      simp only [List.length_append, List.length_take, hck, hmin]
    rw [h1]
    apply List.drop_left'
    simp only [List.length_take, hmin]
  have hbne : (ck != ck') = true := by
    simp only [bne_iff_ne, ne_eq]
    exact fun h => hne' h.symm
  simp only [custKeyDecrypt, hun, bind, Except.bind, hne2, Bool.false_eq_true, if_false, h10, hget, hbne, if_true,
    throw, throwThe, MonadExceptOf.throw]


/-! ### ECIES block -/

/-- what the container needs from the ECC plug-in; for the bundled python-ecdsa on P-256 these are
consequences of the group law (C17) -/
structure EccLaws (E : Ecc) : Prop where
  pubLen : ∀ d pd, E.pubOf d = .ok pd → pd.length = 64
  loadPub : ∀ d pd, E.pubOf d = .ok pd → E.loadRaw pd = .ok pd
  dhSymm : ∀ d e pd pe, E.pubOf d = .ok pd → E.pubOf e = .ok pe → E.dh d pe = E.dh e pd

theorem zeroPad16 (sk : Bytes) (h : sk.length = 16) : zeroPad sk = sk := zeroPad_of_aligned sk (by omega)

theorem ecc_roundtrip (env : Env) (hC : CryptoInv env.C) (hE : EccLaws env.E) (priv eph : Nat) (pub sk c : Bytes)
    (hpub : env.E.pubOf priv = .ok pub) (hsk : sk.length = 16) (h : eccEncrypt env pub eph sk = .ok c) :
    eccDecrypt env priv c = .ok sk := by
  simp only [eccEncrypt, Except.bind_eq_ok] at h
  obtain ⟨secret, hdh, ephPub, hep, ct, hct, hp⟩ := h
  simp only [pure, Except.pure, Except.ok.injEq] at hp
  subst hp
  have hlen := hE.pubLen eph ephPub hep
  have hload := hE.loadPub eph ephPub hep
  have hsym := hE.dhSymm priv eph pub ephPub hpub hep
  have hctl : ct.length = 16 := by rw [hC.encLen _ _ _ _ hct, zeroPad16 sk hsk, hsk]
  have hdec := hC.decEnc _ _ _ _ hct
  rw [zeroPad16 sk hsk] at hdec
  have h16 : Gen.AES_BLOCK_SIZE = 16 := rfl
  have ht1 : take 1 ([0x04] ++ ephPub ++ ct) = .ok ([0x04], ephPub ++ ct) := by
    have := take_append' (n := 1) [(0x04 : UInt8)] (ephPub ++ ct) rfl
    simpa [List.append_assoc] using this
  unfold eccDecrypt
  rw [ht1]
  simp only [bind, Except.bind, bne_self_eq_false, Bool.false_eq_true, if_false]
  rw [take_append' ephPub ct hlen]
  simp only [hload, h16]
  rw [take_all ct hctl]
  simp only [hsym, hdh, hdec]

/-! ### auth blocks -/

/-- the encryptor list can open block `blk` and will return it unchanged -/
def Opens (ext : List Encryptor) : AuthBlock → Prop
  | .initCust => ∃ k ck pos, selectEncryptor .cust ext none none = .ok (.custKey k ck pos) ∧
      (ck = [] ∨ (ck.length = 10 ∧ pos = 0))
  | .initEcc sel => sel < 256 ∧ ∃ priv, ext.find? (fun e => isKind .ecc e && selOf e == some sel) = some (.eccPriv sel priv)
  | .update code ver => ver < 256 ∧ ext.find? (fun e => isKind .csc e && true) = some (.csc code)
  | .unknown _ _ => False

theorem unpack_pack_block (env : Env) (hC : CryptoInv env.C) (hE : EccLaws env.E) (blk : AuthBlock) (sk : Bytes)
    (ext : List Encryptor) (ephs ephs' : List Nat) (raw : Bytes)
    (hsk : sk.length = 16) (hopen : Opens ext blk)
    (h : packBlock env blk sk ext ephs = .ok (raw, ephs')) :
    unpackBlock env blk.tag raw ext = .ok (blk, sk) := by
  cases blk with
  | unknown t r => exact absurd hopen (by simp [Opens])
  | initCust =>
    obtain ⟨k, ck, pos, hsel, hck⟩ := hopen
    simp only [packBlock, hsel, bind, Except.bind, encEncrypt] at h
    cases hce : custKeyEncrypt env.C k ck pos (Gen.CUSTOMER_KEY_PLACEHOLDER ++ sk) with
    | error e => simp [hce] at h
    | ok c =>
      simp only [hce, pure, Except.pure, Except.ok.injEq, Prod.mk.injEq] at h
      obtain ⟨rfl, _⟩ := h
      have hph : Gen.CUSTOMER_KEY_PLACEHOLDER = zeros 10 := by decide
      have hdec : ∃ blk', custKeyDecrypt env.C k ck pos c = .ok blk' ∧ blk'.drop (blk'.length - 16) = sk := by
        rcases hck with rfl | ⟨hl, rfl⟩
        · simp only [custKeyEncrypt, List.isEmpty_nil, if_true] at hce
          have := Bec2Verif.unwrap_wrap env.C hC k _ c hce
          refine ⟨Gen.CUSTOMER_KEY_PLACEHOLDER ++ sk,
            by simp [custKeyDecrypt, this, bind, Except.bind, pure, Except.pure], ?_⟩
          rw [hph]
          simp [zeros, hsk]
        · have hpl : 0 + 10 ≤ (Gen.CUSTOMER_KEY_PLACEHOLDER ++ sk).length := by simp [hph, zeros]
          have := custKey_roundtrip env.C hC k ck _ c 0 hl hpl (by simpa using hce)
          refine ⟨_, by simpa using this, ?_⟩
          simp [hph, zeros, hsk]
      obtain ⟨blk', hd, hlast⟩ := hdec
      have h16 : Gen.AES_BLOCK_SIZE = 16 := rfl
      simp only [unpackBlock, AuthBlock.tag, if_true, hsel, bind, Except.bind, encDecrypt, hd, pure, Except.pure, h16,
        hlast]
  | initEcc sel =>
    obtain ⟨hsel, priv, hfind⟩ := hopen
    have hs1 : ∀ fb, selectEncryptor .ecc ext (some fb) (some sel) = .ok (.eccPriv sel priv) := by
      intro fb; simp only [selectEncryptor, hfind]
    have hs2 : selectEncryptor .ecc ext none (some sel) = .ok (.eccPriv sel priv) := by
      simp only [selectEncryptor, hfind]
    have hsb : toBytesBE 1 sel = .ok [UInt8.ofNat sel] := by
      have : sel < 256 ^ 1 := by omega
      simp only [toBytesBE, this, if_true, toBE, List.nil_append, Nat.mod_eq_of_lt hsel]
    simp only [packBlock, bind, Except.bind] at h
    cases hlk : Gen.DEFAULT_PUBLIC_KEYS.lookup sel with
    | none => simp [hlk, throw, throwThe, MonadExceptOf.throw] at h
    | some der =>
    simp only [hlk, pure, Except.pure, hs1, hsb, encEncrypt] at h
    cases ephs with
    | nil => simp at h
    | cons d rest =>
      simp only [bind, Except.bind] at h
      cases hpub : env.E.pubOf priv with
      | error e => simp [hpub] at h
      | ok pub =>
        simp only [hpub] at h
        cases henc : eccEncrypt env pub d sk with
        | error e => simp [henc] at h
        | ok c =>
          simp only [henc, pure, Except.pure, Except.ok.injEq, Prod.mk.injEq] at h
          obtain ⟨rfl, _⟩ := h
          have hrt := ecc_roundtrip env hC hE priv d pub sk c hpub hsk henc
          have htn : (UInt8.ofNat sel).toNat = sel := by
            rw [UInt8.toNat_ofNat']; exact Nat.mod_eq_of_lt hsel
          have ht : (Gen.TAG_INIT_ECC = Gen.TAG_INIT_CUSTKEY) = False := by decide
          simp only [unpackBlock, AuthBlock.tag, ht, if_false, if_true, List.singleton_append, htn, hs2, bind,
            Except.bind, encDecrypt, hrt, pure, Except.pure]
  | update code ver =>
    obtain ⟨hver, hfind⟩ := hopen
    have hs1 : selectEncryptor .csc ext (some (.csc code)) none = .ok (.csc code) := by
      simp only [selectEncryptor, hfind]
    have hs2 : selectEncryptor .csc ext none none = .ok (.csc code) := by
      simp only [selectEncryptor, hfind]
    have hvb : toBytesBE 1 ver = .ok [UInt8.ofNat ver] := by
      have : ver < 256 ^ 1 := by omega
      simp only [toBytesBE, this, if_true, toBE, List.nil_append, Nat.mod_eq_of_lt hver]
    simp only [packBlock, hs1, bind, Except.bind, hvb, encEncrypt] at h
    cases hw : wrap env.C (cscKey env.sha code) (sk ++ [UInt8.ofNat ver]) with
    | error e => simp [hw] at h
    | ok c =>
      simp only [hw, pure, Except.pure, Except.ok.injEq, Prod.mk.injEq] at h
      obtain ⟨rfl, _⟩ := h
      have hun := Bec2Verif.unwrap_wrap env.C hC _ _ c hw
      have h16 : Gen.AES_BLOCK_SIZE = 16 := rfl
      have ht1 : (Gen.TAG_UPDATE = Gen.TAG_INIT_CUSTKEY) = False := by decide
      have ht2 : (Gen.TAG_UPDATE = Gen.TAG_INIT_ECC) = False := by decide
      have hfb : fromBE [UInt8.ofNat ver] = ver := by
        simp [fromBE, UInt8.toNat_ofNat', Nat.mod_eq_of_lt hver]
      simp only [unpackBlock, AuthBlock.tag, ht1, ht2, if_false, if_true, hs2, bind, Except.bind, encDecrypt, hun,
        h16]
      rw [take_append' sk _ hsk]
      have ht1' : take 1 [UInt8.ofNat ver] = .ok ([UInt8.ofNat ver], []) := take_all _ rfl
      simp only [ht1', hfb, pure, Except.pure]


theorem opens_tag (ext : List Encryptor) (b : AuthBlock) (h : Opens ext b) :
    b.tag ≠ 0 ∧ Gen.AUTH_BLOCK_TAGS.contains b.tag = true ∧ b.tag < 256 := by
  cases b with
  | unknown t r => exact absurd h (by simp [Opens])
  | initCust => exact ⟨by decide, by decide, by decide⟩
  | initEcc s => simp only [AuthBlock.tag]; exact ⟨by decide, by decide, by decide⟩
  | update c v => simp only [AuthBlock.tag]; exact ⟨by decide, by decide, by decide⟩

/-- header: every block of the written list is recovered, with the one session key -/
theorem unpack_pack_blocks (env : Env) (hC : CryptoInv env.C) (hE : EccLaws env.E) (sk : Bytes) (ext : List Encryptor)
    (blocks : List AuthBlock) (ephs ephs' : List Nat) (packed rest : Bytes) (acc : List AuthBlock)
    (common : Option Bytes) (used fuel : Nat)
    (hsk : sk.length = 16) (hopen : ∀ b ∈ blocks, Opens ext b)
    (hcommon : common = none ∨ common = some sk)
    (h : packBlocks env sk ext blocks ephs = .ok (packed, ephs'))
    (hfuel : blocks.length + 1 ≤ fuel) :
    unpackBlocks env ext fuel (packed ++ rest) acc common used =
      .ok (acc ++ blocks, (if blocks = [] then common else some sk), rest, used + packed.length) := by
  induction blocks generalizing ephs packed acc common used fuel with
  | nil =>
    simp [packBlocks] at h
    obtain ⟨rfl, _⟩ := h
    cases fuel with
    | zero => simp at hfuel
    | succ f =>
      have h1 : readInt 1 ([0, 0] ++ rest) = .ok (0, [0] ++ rest) := by
        have := readInt1 0 ([0] ++ rest) (by omega)
        simpa [toBE] using this
      have h2 : readInt 1 ([0] ++ rest) = .ok (0, rest) := by
        have := readInt1 0 rest (by omega)
        simpa [toBE] using this
      have h3 : take 0 rest = .ok ([], rest) := by simp [take]
      simp only [unpackBlocks, h1, bind, Except.bind, h2, h3, and_self, if_true, pure, Except.pure,
        List.append_nil, List.length_cons, List.length_nil]
  | cons b bs ih =>
    simp only [packBlocks, Except.bind_eq_ok] at h
    obtain ⟨⟨raw, e1⟩, hpk, tb, htb, lb, hlb, ⟨prest, e2⟩, hrest, hp⟩ := h
    simp only [pure, Except.pure, Except.ok.injEq, Prod.mk.injEq] at hp
    obtain ⟨rfl, rfl⟩ := hp
    obtain ⟨rfl, _⟩ := toBytesBE_ok htb
    obtain ⟨rfl, hl⟩ := toBytesBE_ok hlb
    have hob := hopen b (by simp)
    obtain ⟨ht0, htc, htl⟩ := opens_tag ext b hob
    have hun := unpack_pack_block env hC hE b sk ext ephs e1 raw hsk hob hpk
    cases fuel with
    | zero => simp at hfuel
    | succ f =>
      have hrec := fun (cm : Option Bytes) (hcm : cm = none ∨ cm = some sk) =>
        ih e1 prest (acc ++ [b]) cm (used + 2 + raw.length) f (fun b' hb' => hopen b' (by simp [hb'])) hcm hrest
          (by simp at hfuel; omega)
      have hnot : ¬ (b.tag = 0 ∧ raw.length = 0) := fun h => ht0 h.1
      have hres : (if b :: bs = [] then common else some sk) = some sk := by simp
      simp only [unpackBlocks, List.append_assoc]
      rw [readInt1 b.tag _ htl]
      simp only [bind, Except.bind]
      rw [readInt1 raw.length _ (by simpa using hl)]
      simp only [take_append, hnot, if_false, htc, if_true, hun, hres]
      have hlenA : used + (toBE 1 b.tag ++ (toBE 1 raw.length ++ (raw ++ prest))).length
          = used + 2 + raw.length + prest.length := by simp; omega
      rcases hcommon with rfl | rfl
      · simp only []
        rw [hrec (some sk) (Or.inr rfl)]
        simp only [List.append_assoc, List.singleton_append, ite_self, hlenA]
      · simp only [bne_self_eq_false, Bool.false_eq_true, if_false]
        rw [hrec (some sk) (Or.inr rfl)]
        simp only [List.append_assoc, List.singleton_append, ite_self, hlenA]

theorem blocksDict_nodup (acc bs : List AuthBlock) (h : ((acc ++ bs).map AuthBlock.tag).Nodup) :
    blocksDict acc bs = acc ++ bs := by
  induction bs generalizing acc with
  | nil => simp [blocksDict]
  | cons b bs ih =>
    have hno : acc.any (fun x => x.tag == b.tag) = false := by
      simp only [List.any_eq_false, beq_iff_eq]
      intro x hx heq
      rw [List.map_append, List.nodup_append] at h
      exact h.2.2 x.tag (List.mem_map_of_mem hx) b.tag (by simp) heq
    simp only [blocksDict, hno, Bool.false_eq_true, if_false]
    rw [ih (acc ++ [b]) (by simpa [List.append_assoc] using h)]
    simp [List.append_assoc]

theorem packBlocks_len_ge (env : Env) (sk : Bytes) (ext : List Encryptor) (blocks : List AuthBlock)
    (ephs e : List Nat) (packed : Bytes) (h : packBlocks env sk ext blocks ephs = .ok (packed, e)) :
    blocks.length ≤ packed.length := by
  induction blocks generalizing ephs packed with
  | nil => simp
  | cons b bs ih =>
    simp only [packBlocks, Except.bind_eq_ok] at h
    obtain ⟨⟨raw, e1'⟩, _, tb, htb, lb, _, ⟨prest, e2⟩, hrest, hp⟩ := h
    simp only [pure, Except.pure, Except.ok.injEq, Prod.mk.injEq] at hp
    obtain ⟨rfl, rfl⟩ := hp
    have h1 := ih e1' prest hrest
    have h2 := toBytesBE_len htb
    simp only [List.length_append, List.length_cons, h2]; omega

/-- **C02 (file level)**: a written BEC2 file is read back with the same session key, the same auth
blocks and the components `readBackAll` describes (plain ones unchanged, encrypted ones decrypted) -/
theorem readBinary_toBinary (env : Env) (hC : CryptoInv env.C) (hE : EccLaws env.E) (hm : MacLen env.C)
    (f : File) (ext : List Encryptor) (ephs ephs' : List Nat) (out : Bytes) (chk : Bool)
    (hsk : f.key.length = 16) (hne : f.blocks ≠ []) (hopen : ∀ b ∈ f.blocks, Opens ext b)
    (hnd : (f.blocks.map AuthBlock.tag).Nodup) (hok : ∀ c ∈ f.comps, CompOK env.C f.key c)
    (h : toBinary env f ext ephs = .ok (out, ephs')) (ρ : Bytes := []) :
    readBinary env ext chk out ρ =
      (readBackAll env.C f.key f.comps).map (fun cs => { comps := cs, blocks := f.blocks, key := f.key }) := by
  have hik : (initKey (some f.key) ρ).1 = f.key := by
    have : f.key.isEmpty = false := by
      cases hk : f.key with
      | nil => rw [hk] at hsk; simp at hsk
      | cons _ _ => rfl
    simp [initKey, this]
  simp only [toBinary, Except.bind_eq_ok] at h
  obtain ⟨⟨packed, e1⟩, hpk, body, hbody, hp⟩ := h
  simp only [pure, Except.pure, Except.ok.injEq, Prod.mk.injEq] at hp
  obtain ⟨rfl, _⟩ := hp
  have hub := unpack_pack_blocks env hC hE f.key ext f.blocks ephs e1 packed body [] none 0
    ((packed ++ body).length + 1) hsk hopen (Or.inl rfl) hpk (by
      have : f.blocks.length ≤ packed.length := packBlocks_len_ge env f.key ext f.blocks ephs e1 packed hpk
      simp only [List.length_append]; omega)
  have hfb := fromBinary_toBinary_general env.C hm chk f.key f.comps _ body hok hbody
  simp only [hne, if_false, List.nil_append, Nat.zero_add] at hub
  unfold readBinary
  simp only [List.append_assoc]
  rw [take_append Gen.BEC2_FILE_SIG (packed ++ body)]
  simp only [bind, Except.bind, bne_self_eq_false, Bool.false_eq_true, if_false, hub]
  have hpos : Gen.BEC2_FILE_SIG.length + packed.length = (Gen.BEC2_FILE_SIG ++ packed).length := by simp
  rw [hpos, hfb, blocksDict_nodup [] f.blocks (by simpa using hnd)]
  cases readBackAll env.C f.key f.comps <;> simp [Except.map, pure, Except.pure, hik]

end Bec2Verif.Bec2
