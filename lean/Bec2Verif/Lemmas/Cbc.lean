import Bec2Verif.Lemmas.Adapter
/-!
CBC over an invertible block cipher: the adapter's `decrypt` returns exactly the
zero-padded data that `encrypt` was given (C16, adapter clause), ciphertext length
equals padded length.
-/
namespace Bec2Verif
open Bf3

/-- `dec k (enc k b) = b` on 16-byte blocks, and both preserve the block size -/
structure BlockInv (B : BlockCipher) : Prop where
  encLen : ∀ k b, (B.enc k b).length = 16
  /-- for every key schedule the cipher's own `sched` produces -/
  inv : ∀ key k b, B.sched key = .ok k → b.length = 16 → B.dec k (B.enc k b) = b

theorem xorBytes_length (a b : Bytes) : (xorBytes a b).length = min a.length b.length := by
  simp [xorBytes]

theorem xorBytes_cancel (a b : Bytes) (h : a.length = b.length) : xorBytes (xorBytes a b) b = a := by
  induction a generalizing b with
  | nil => simp [xorBytes]
  | cons x xs ih =>
    cases b with
    | nil => simp at h
    | cons y ys =>
      simp only [List.length_cons, Nat.add_right_cancel_iff] at h
      have := ih ys h
      simp only [xorBytes, List.zipWith_cons_cons] at this ⊢
      rw [this]
      congr 1
      rw [UInt8.xor_assoc, UInt8.xor_self, UInt8.xor_zero]

theorem chunksAux_flatten (n f : Nat) (bs : Bytes) (hn : 0 < n) (hf : bs.length ≤ f) :
    (chunksAux n f bs).flatten = bs := by
  induction f generalizing bs with
  | zero => simp at hf; subst hf; simp [chunksAux]
  | succ f ih =>
    cases bs with
    | nil => simp [chunksAux]
    | cons x xs =>
      simp only [chunksAux, List.isEmpty_cons, Bool.false_eq_true, if_false, List.flatten_cons]
      rw [ih]
      · exact List.take_append_drop n (x :: xs)
      · simp only [List.length_drop, List.length_cons] at hf ⊢; omega

theorem chunks_flatten (n : Nat) (bs : Bytes) (hn : 0 < n) : (chunks n bs).flatten = bs :=
  chunksAux_flatten n bs.length bs hn (Nat.le_refl _)

theorem chunksAux_all_len (n f : Nat) (bs : Bytes) (hn : 0 < n) (hf : bs.length ≤ f) (hd : n ∣ bs.length) :
    ∀ b ∈ chunksAux n f bs, b.length = n := by
  induction f generalizing bs with
  | zero => simp [chunksAux]
  | succ f ih =>
    cases bs with
    | nil => simp [chunksAux]
    | cons x xs =>
      intro b hb
      simp only [chunksAux, List.isEmpty_cons, Bool.false_eq_true, if_false, List.mem_cons] at hb
      obtain ⟨q, hq⟩ := hd
      have hq1 : 1 ≤ q := by
        rcases q with _ | q
        · simp at hq
        · omega
      have hge : n ≤ (x :: xs).length := by
        rw [hq]; exact Nat.le_mul_of_pos_right n hq1
      rcases hb with rfl | hb
      · simp only [List.length_take]; omega
      · apply ih ((x :: xs).drop n) _ _ b hb
        · simp only [List.length_drop, List.length_cons] at hf ⊢; omega
        · refine ⟨q - 1, ?_⟩
          simp only [List.length_drop, hq, Nat.mul_sub, Nat.mul_one]

theorem chunks_all_len (n : Nat) (bs : Bytes) (hn : 0 < n) (hd : n ∣ bs.length) :
    ∀ b ∈ chunks n bs, b.length = n :=
  chunksAux_all_len n bs.length bs hn (Nat.le_refl _) hd

theorem cbcDec_cbcEnc (B : BlockCipher) (hB : BlockInv B) (key : Bytes) (k : B.K) (hk : B.sched key = .ok k)
    (prev : Bytes) (bl : List Bytes)
    (hprev : prev.length = 16) (hbl : ∀ b ∈ bl, b.length = 16) :
    cbcDecBlocks B k prev (cbcEncBlocks B k prev bl) = bl := by
  induction bl generalizing prev with
  | nil => simp [cbcEncBlocks, cbcDecBlocks]
  | cons b bs ih =>
    have hb : b.length = 16 := hbl b (by simp)
    have hx : (xorBytes b prev).length = 16 := by rw [xorBytes_length]; omega
    simp only [cbcEncBlocks, cbcDecBlocks]
    rw [hB.inv key k _ hk hx, xorBytes_cancel b prev (by omega)]
    rw [ih (B.enc k (xorBytes b prev)) (hB.encLen _ _) (fun b' hb' => hbl b' (by simp [hb']))]

theorem cbcEncBlocks_all_len (B : BlockCipher) (hB : BlockInv B) (k : B.K) (prev : Bytes) (bl : List Bytes) :
    ∀ c ∈ cbcEncBlocks B k prev bl, c.length = 16 := by
  induction bl generalizing prev with
  | nil => simp [cbcEncBlocks]
  | cons b bs ih =>
    intro c hc
    simp only [cbcEncBlocks, List.mem_cons] at hc
    rcases hc with rfl | hc
    · exact hB.encLen _ _
    · exact ih _ c hc

theorem zeroPad_len_mod (d : Bytes) : (zeroPad d).length % 16 = 0 := by
  simp only [zeroPad, zeros, List.length_append, List.length_replicate]; omega

theorem zeroPad_of_aligned (d : Bytes) (h : d.length % 16 = 0) : zeroPad d = d := by
  simp [zeroPad, zeros, h]

/-- flattening 16-byte blocks and re-chunking gives the blocks back -/
theorem chunksAux_of_blocks (f : Nat) (bl : List Bytes) (hbl : ∀ b ∈ bl, b.length = 16) (hf : bl.length ≤ f) :
    chunksAux 16 f bl.flatten = bl := by
  induction bl generalizing f with
  | nil => cases f <;> simp [chunksAux]
  | cons b bs ih =>
    have hb : b.length = 16 := hbl b (by simp)
    cases f with
    | zero => simp at hf
    | succ f =>
      have hne : (b ++ bs.flatten).isEmpty = false := by
        cases b with
        | nil => simp at hb
        | cons _ _ => simp
      simp only [List.flatten_cons, chunksAux, hne, Bool.false_eq_true, if_false]
      have ht : (b ++ bs.flatten).take 16 = b := List.take_left' hb
      have hd : (b ++ bs.flatten).drop 16 = bs.flatten := List.drop_left' hb
      rw [ht, hd, ih f (fun b' hb' => hbl b' (by simp [hb'])) (by simp at hf; omega)]

theorem flatten_len_blocks (bl : List Bytes) (hbl : ∀ b ∈ bl, b.length = 16) : bl.flatten.length = 16 * bl.length := by
  induction bl with
  | nil => simp
  | cons b bs ih =>
    simp only [List.flatten_cons, List.length_append, List.length_cons, hbl b (by simp),
      ih (fun b' hb' => hbl b' (by simp [hb']))]
    omega

theorem chunks_of_blocks (bl : List Bytes) (hbl : ∀ b ∈ bl, b.length = 16) : chunks 16 bl.flatten = bl := by
  unfold chunks
  apply chunksAux_of_blocks _ bl hbl
  rw [flatten_len_blocks bl hbl]; omega

/-- ciphertext length = padded plaintext length -/
theorem adapter_encrypt_len (B : BlockCipher) (hB : BlockInv B) (key : Bytes) (iv : Option Bytes) (d c : Bytes)
    (h : Adapter.encrypt B key iv d = .ok c) : c.length = (zeroPad d).length := by
  simp only [Adapter.encrypt] at h
  split at h
  · cases h
  simp only [Except.bind_eq_ok] at h
  obtain ⟨⟨k, ivb⟩, _, blocks, hfeed, hc⟩ := h
  simp only [pure, Except.pure, Except.ok.injEq] at hc
  subst hc
  unfold Adapter.feedAll at hfeed
  split at hfeed
  · cases hfeed
  · injection hfeed with hfeed
    subst hfeed
    rw [cbcEncBlocks_flat_len B hB.encLen]
    have := chunks_flatten 16 (zeroPad d) (by omega)
    have hl := flatten_len_blocks (chunks 16 (zeroPad d))
      (chunks_all_len 16 _ (by omega) (Nat.dvd_of_mod_eq_zero (zeroPad_len_mod d)))
    rw [this] at hl
    omega

/-- C16 (adapter clause): decryption returns exactly the zero-padded data that was encrypted -/
theorem adapter_decrypt_encrypt (B : BlockCipher) (hB : BlockInv B) (key : Bytes) (iv : Option Bytes) (d c : Bytes)
    (h : Adapter.encrypt B key iv d = .ok c) : Adapter.decrypt B key iv c = .ok (zeroPad d) := by
  have hlen := adapter_encrypt_len B hB key iv d c h
  simp only [Adapter.encrypt] at h
  split at h
  · cases h
  simp only [Except.bind_eq_ok] at h
  obtain ⟨⟨k, ivb⟩, hmode, blocks, hfeed, hc⟩ := h
  simp only [pure, Except.pure, Except.ok.injEq] at hc
  have hkiv : B.sched key = .ok k ∧ ivb.length = 16 := by
    cases iv with
    | none =>
      simp only [Adapter.mkMode, pure, Except.pure, bind, Except.bind] at hmode
      cases hs : B.sched key with
      | error e => simp [hs] at hmode
      | ok k' => simp [hs] at hmode; rw [← hmode.2, ← hmode.1]; simp [zeros]
    | some v =>
      simp only [Adapter.mkMode, pure, Except.pure, bind, Except.bind] at hmode
      split at hmode
      · simp [throw, throwThe, MonadExceptOf.throw] at hmode
      · rename_i hne
        cases hs : B.sched key with
        | error e => simp [hs] at hmode
        | ok k' => simp [hs] at hmode; rw [← hmode.2, ← hmode.1]; simpa using hne
  obtain ⟨hk, hivb⟩ := hkiv
  unfold Adapter.feedAll at hfeed
  split at hfeed
  · cases hfeed
  · rename_i hcond
    injection hfeed with hfeed
    subst hfeed
    have hall := chunks_all_len 16 (zeroPad d) (by omega) (Nat.dvd_of_mod_eq_zero (zeroPad_len_mod d))
    have hcall := cbcEncBlocks_all_len B hB k ivb (chunks 16 (zeroPad d))
    have hfeed2 : Adapter.feedAll c = .ok (cbcEncBlocks B k ivb (chunks 16 (zeroPad d))) := by
      unfold Adapter.feedAll
      have h1 : ¬ (c.length = 0 ∨ c.length % 16 ≠ 0) := by
        rw [hlen]; exact hcond
      rw [if_neg h1, ← hc, chunks_of_blocks _ hcall]
    have h1 : ¬ (c.length = 0 ∨ c.length % 16 ≠ 0) := by
      rw [hlen]; exact hcond
    simp only [Adapter.decrypt, if_neg h1, hmode, hfeed2, bind, Except.bind, pure, Except.pure]
    rw [cbcDec_cbcEnc B hB key k hk ivb _ hivb hall, chunks_flatten 16 _ (by omega)]

end Bec2Verif
