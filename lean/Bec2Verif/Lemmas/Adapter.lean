import Bec2Verif.Lemmas.Bf3
/-! the registered adapter returns a 16-byte MAC, for every block cipher with 16-byte output -/
namespace Bec2Verif
open Bf3

def EncLen (B : BlockCipher) : Prop := ∀ k b, (B.enc k b).length = 16

theorem chunksAux_ne_nil (n f : Nat) (bs : Bytes) (h : bs ≠ []) (hf : 0 < f) : chunksAux n f bs ≠ [] := by
  cases f with
  | zero => omega
  | succ f =>
    cases bs with
    | nil => exact absurd rfl h
    | cons x xs => simp [chunksAux]

theorem chunks_ne_nil (n : Nat) (bs : Bytes) (h : bs ≠ []) : chunks n bs ≠ [] := by
  unfold chunks
  apply chunksAux_ne_nil _ _ _ h
  cases bs with
  | nil => exact absurd rfl h
  | cons x xs => simp

theorem cbcEncBlocks_flat_len (B : BlockCipher) (hB : EncLen B) (k : B.K) (prev : Bytes) (bl : List Bytes) :
    (cbcEncBlocks B k prev bl).flatten.length = 16 * bl.length := by
  induction bl generalizing prev with
  | nil => simp [cbcEncBlocks]
  | cons b bs ih =>
    have := hB k (xorBytes b prev)
    simp only [cbcEncBlocks, List.flatten_cons, List.length_append, ih, List.length_cons, this]
    omega

theorem adapter_macLen (B : BlockCipher) (hB : EncLen B) : MacLen (Adapter.crypto B) := by
  intro k iv d m h
  simp only [Adapter.crypto, Adapter.mac, Adapter.encrypt] at h
  split at h
  · simp [bind, Except.bind] at h
  simp only [Except.bind_eq_ok] at h
  obtain ⟨c, ⟨⟨ks, ivb⟩, hmode, blocks, hfeed, hc⟩, hm⟩ := h
  simp only [pure, Except.pure, Except.ok.injEq] at hc hm
  subst hc; subst hm
  unfold Adapter.feedAll at hfeed
  split at hfeed
  · cases hfeed
  · rename_i hcond
    injection hfeed with hfeed
    subst hfeed
    have hne : zeroPad d ≠ [] := by
      intro h0; apply hcond; left; simp [h0]
    have hpos : 0 < (chunks 16 (zeroPad d)).length := by
      have := chunks_ne_nil 16 _ hne
      exact List.length_pos_iff.mpr this
    simp only [List.length_drop, cbcEncBlocks_flat_len B hB]
    show _ = 16
    omega

theorem aes_encLen : EncLen aesCipher := by
  intro k b
  simp [aesCipher, Aes.encryptBlock, List.range, List.range.loop]

theorem aes_macLen : MacLen aesCrypto := adapter_macLen aesCipher aes_encLen

end Bec2Verif
