import Bec2Verif.Lemmas.Total
import Bec2Verif.Model.Bf2
/-! C14 for the BF2 importer, the configuration-identifier parser and the platform-filter formatter -/
namespace Bec2Verif

theorem Errs.foldlM_inv {α β : Type} {P : Err → Prop} {Inv : β → Prop} (f : β → α → Except Err β) (l : List α) (init : β)
    (h0 : Inv init)
    (hstep : ∀ b a, a ∈ l → Inv b → Errs P (f b a) ∧ ∀ b', f b a = .ok b' → Inv b') :
    Errs P (l.foldlM f init) ∧ ∀ r, l.foldlM f init = .ok r → Inv r := by
  induction l generalizing init with
  | nil =>
    simp only [List.foldlM, pure, Except.pure]
    exact ⟨Errs.ok _, fun r h => by cases h; exact h0⟩
  | cons a l ih =>
    rw [List.foldlM_cons]
    have hs := hstep init a (by simp) h0
    cases hfa : f init a with
    | error e =>
      refine ⟨⟨?_⟩, ?_⟩
      · intro e' he'
        change Except.error e = Except.error e' at he'
        cases he'
        exact hs.1.out _ hfa
      · intro r hr
        change Except.error e = Except.ok r at hr
        cases hr
    | ok b' =>
      have hb' := hs.2 b' hfa
      exact ih b' hb' (fun b a ha hb => hstep b a (by simp [ha]) hb)

theorem Errs.mapM {α β : Type} {P : Err → Prop} (f : α → Except Err β) (l : List α) (h : ∀ a, Errs P (f a)) :
    Errs P (l.mapM f) := by
  induction l with
  | nil => simp only [List.mapM_nil]; exact Errs.pure' _
  | cons a l ih =>
    simp only [List.mapM_cons]
    refine Errs.bind (h a) ?_
    intro b _
    exact Errs.bind ih (fun _ _ => Errs.pure' _)

namespace ConfigId

theorem fromStr_total (s : Text.Str) : Total (fromStr s) := by
  unfold fromStr
  split
  · exact Errs.ok _
  · split
    · exact Errs.ok _
    · exact Errs.error rfl

end ConfigId

namespace Bf2
open Bf3 Text

theorem pfid2FilterToStr_total (f : Bytes) : Total (pfid2FilterToStr f) := by
  unfold pfid2FilterToStr
  split
  · exact Errs.ite (fun _ => Errs.error rfl) (fun _ => Errs.ok _)
  · exact Errs.error rfl

/-! ### text front end -/

theorem unhexlify_errs (s : Str) : Errs (· = .valueError) (unhexlify s) := by
  induction s using unhexlify.induct with
  | case1 => unfold unhexlify; exact Errs.ok _
  | case2 => unfold unhexlify; exact Errs.error rfl
  | case3 a b r x y hx hy ih =>
    unfold unhexlify
    simp only [hx, hy]
    exact Errs.bind ih (fun _ _ => Errs.pure' _)
  | case4 a b r h =>
    unfold unhexlify
    split
    · rename_i x y hx hy
      exact absurd hy (h x y hx)
    · exact Errs.error rfl

theorem hex2bin_errs (s : Str) : Errs (· = .valueError) (hex2bin s) := by
  unfold hex2bin
  exact unhexlify_errs _

theorem parseBinLine_errs (r : Bytes) : Errs (· = .valueError) (parseBinLine r) := by
  unfold parseBinLine
  refine Errs.bind (readInt_errs _ _) ?_
  rintro ⟨ndx, r1⟩ _
  refine Errs.bind (readInt_errs _ _) ?_
  rintro ⟨typ, r2⟩ _
  refine Errs.bind (readInt_errs _ _) ?_
  rintro ⟨len, r3⟩ _
  refine Errs.bind (take_errs _ _) ?_
  rintro ⟨tag, r4⟩ _
  exact Errs.pure' _

theorem parseParams_errs (ps : Str) : Errs (· = .valueError) (parseParams ps) := by
  unfold parseParams
  refine (Errs.foldlM_inv (Inv := fun _ => True) _ _ _ trivial ?_).1
  intro acc p _ _
  refine ⟨?_, fun _ _ => trivial⟩
  refine Errs.ite (fun _ => Errs.pure' _) (fun _ => ?_)
  split
  · exact Errs.pure' _
  · exact Errs.throw' rfl

/-- the objects the line parser yields: a `load` always carries at least one line -/
def ObjOK : Obj → Prop
  | .load ls => ls ≠ []
  | .instr _ _ => True

theorem parseLine_spec (fw : List Line) (line : Str) :
    Errs (· = .valueError) (parseLine fw line) ∧
      ∀ fw' o, parseLine fw line = .ok (fw', some o) → ObjOK o := by
  unfold parseLine
  split
  · -- data line
    constructor
    · refine Errs.bind (hex2bin_errs _) ?_
      intro rdata _
      refine Errs.bind (parseBinLine_errs _) ?_
      intro l _
      refine Errs.ite (fun _ => Errs.pure' _) (fun _ => ?_)
      exact Errs.ite (fun _ => Errs.pure' _) (fun _ => Errs.pure' _)
    · intro fw' o h
      simp only [Except.bind_eq_ok] at h
      obtain ⟨rdata, _, l, _, h⟩ := h
      split at h
      · split at h
        · simp [pure, Except.pure] at h
        · rename_i hne
          simp only [pure, Except.pure, Except.ok.injEq, Prod.mk.injEq, Option.some.injEq] at h
          rw [← h.2]
          intro h0; apply hne; simp [h0]
      · split at h <;> simp [pure, Except.pure] at h
  · split
    · constructor
      · split
        · exact Errs.error rfl
        · exact Errs.pure' _
        · exact Errs.bind (parseParams_errs _) (fun _ _ => Errs.pure' _)
        · exact Errs.error rfl
      · intro fw' o h
        split at h
        · cases h
        · simp only [pure, Except.pure, Except.ok.injEq, Prod.mk.injEq, Option.some.injEq] at h
          rw [← h.2]; trivial
        · simp only [Except.bind_eq_ok] at h
          obtain ⟨p, _, h⟩ := h
          simp only [pure, Except.pure, Except.ok.injEq, Prod.mk.injEq, Option.some.injEq] at h
          rw [← h.2]; trivial
        · cases h
    · split
      · constructor
        · split
          · exact Errs.pure' _
          · exact Errs.error rfl
        · intro fw' o h
          split at h
          · simp only [pure, Except.pure, Except.ok.injEq, Prod.mk.injEq, Option.some.injEq] at h
            rw [← h.2]; trivial
          · cases h
      · exact ⟨Errs.pure' _, fun fw' o h => by simp [pure, Except.pure] at h⟩

theorem parseFile_spec (text : Str) :
    Errs (· = .valueError) (parseFile text) ∧ ∀ objs, parseFile text = .ok objs → ∀ o ∈ objs, ObjOK o := by
  unfold parseFile
  have h := Errs.foldlM_inv (P := (· = .valueError)) (Inv := fun (acc : List Line × List Obj) => ∀ o ∈ acc.2, ObjOK o)
    (fun (acc : List Line × List Obj) line => do
      let (fw, o) ← parseLine acc.1 line
      pure (fw, match o with | some x => acc.2 ++ [x] | none => acc.2))
    (linesOf (text.length + 1) text) ([], []) (by simp) (by
      intro acc line _ hacc
      have hp := parseLine_spec acc.1 line
      constructor
      · refine Errs.bind hp.1 ?_
        rintro ⟨fw, o⟩ _
        exact Errs.pure' _
      · intro b' hb'
        simp only [Except.bind_eq_ok] at hb'
        obtain ⟨⟨fw, o⟩, hpl, hb'⟩ := hb'
        simp only [pure, Except.pure, Except.ok.injEq] at hb'
        subst hb'
        cases o with
        | none => exact hacc
        | some x =>
          intro o ho
          simp only [List.mem_append, List.mem_singleton] at ho
          rcases ho with ho | ho
          · exact hacc o ho
          · subst ho; exact hp.2 fw _ hpl)
  constructor
  · refine Errs.bind h.1 ?_
    rintro ⟨fw, objs⟩ _
    exact Errs.pure' _
  · intro objs hobjs
    simp only [Except.bind_eq_ok] at hobjs
    obtain ⟨⟨fw, objs'⟩, hfold, hobjs⟩ := hobjs
    simp only [pure, Except.pure, Except.ok.injEq] at hobjs
    subst hobjs
    exact h.2 _ hfold

/-! ### instruction execution -/

/-- the exception classes `emit_bf3comp` converts into `Bf3FileFormatError("Invalid BF2 Instruction")` -/
def Conv (e : Err) : Prop :=
  e = .valueError ∨ e = .indexError ∨ e = .keyError ∨ e = .typeError ∨ e = .overflowError ∨ e = .formatBf3

theorem conv_of_value {α : Type} {r : Except Err α} (h : Errs (· = .valueError) r) : Errs Conv r :=
  h.mono (fun _ h => Or.inl h)

theorem itext_errs (v : IVal) : Errs Conv (itext v) := by
  cases v with
  | text s => exact Errs.ok _
  | params p => exact Errs.error (by simp [Conv])

theorem iparam_errs (v : IVal) (k : Str) : Errs Conv (iparam v k) := by
  cases v with
  | text s => exact Errs.error (by simp [Conv])
  | params p =>
    unfold iparam
    simp only
    split
    · exact Errs.ok _
    · exact Errs.error (by simp [Conv])

theorem pyInt_errs (b : Nat) (s : Str) : Errs (· = .valueError) (pyInt b s) := by
  unfold pyInt
  simp only
  split
  · exact Errs.ok _
  · exact Errs.error rfl

theorem toBytesBE_errs (k n : Nat) : Errs (· = .overflowError) (toBytesBE k n) := by
  unfold toBytesBE
  exact Errs.ite (fun _ => Errs.ok _) (fun _ => Errs.error rfl)

theorem intToBytes_errs (n : Nat) (x : Int) : Errs Conv (intToBytes n x) := by
  unfold intToBytes
  refine Errs.ite (fun _ => Errs.error (by simp [Conv])) (fun _ => ?_)
  exact (toBytesBE_errs _ _).mono (fun _ h => by simp [Conv, h])

theorem typeOf_errs (d : Desc) : Errs Conv (typeOf d) := by
  unfold typeOf
  split
  · exact Errs.ok _
  · exact Errs.error (by simp [Conv])

theorem stepCrc_errs (desc : Desc) (ins : Instrs) : Errs Conv (stepCrc desc ins) := by
  unfold stepCrc
  split
  · exact Errs.ok _
  · refine Errs.bind (itext_errs _) ?_
    intro s _
    refine Errs.bind (conv_of_value (pyInt_errs _ _)) ?_
    intro x _
    exact Errs.bind (intToBytes_errs _ _) (fun _ _ => Errs.pure' _)

theorem stepSelect_errs (desc : Desc) (ins : Instrs) : Errs Conv (stepSelect desc ins) := by
  unfold stepSelect
  split
  · exact Errs.ok _
  · refine Errs.bind (iparam_errs _ _) ?_
    intro f _
    refine Errs.bind (conv_of_value (hex2bin_errs _)) ?_
    intro pf _
    refine Errs.bind (typeOf_errs _) ?_
    intro t _
    refine Errs.ite (fun _ => ?_) (fun _ => Errs.pure' _)
    simp only
    split
    · refine Errs.bind ((toBytesBE_errs _ _).mono (fun _ h => by simp [Conv, h])) (fun _ _ => Errs.pure' _)
    · exact Errs.ite (fun _ => Errs.pure' _) (fun _ => Errs.throw' (by simp [Conv]))

theorem stepFwver_errs (desc : Desc) (ins : Instrs) : Errs Conv (stepFwver desc ins) := by
  unfold stepFwver
  split
  · exact Errs.ok _
  · rename_i v _
    simp only
    have hi := iparam_errs v "VERSIONDESC".toList
    split
    · rename_i e he
      exact Errs.error (hi.out _ he)
    · refine Errs.ite (fun _ => Errs.ok _) (fun _ => ?_)
      rename_i vd _ _
      have hh := hex2bin_errs vd
      split
      · rename_i e he
        exact Errs.error (Or.inl (hh.out _ he))
      · split
        · exact Errs.error (by simp [Conv])
        · exact Errs.ok _

theorem stepFirmwareCm_errs (ins : Instrs) (cm : Comments) : Errs Conv (stepFirmwareCm ins cm) := by
  unfold stepFirmwareCm
  split
  · exact Errs.ok _
  · exact Errs.bind (itext_errs _) (fun _ _ => Errs.pure' _)

theorem stepFirmware_errs (desc : Desc) (ins : Instrs) : Errs Conv (stepFirmware desc ins) := by
  unfold stepFirmware
  split
  · exact Errs.ok _
  · refine Errs.bind (itext_errs _) ?_
    intro f _
    refine Errs.ite (fun _ => Errs.pure' _) (fun _ => ?_)
    refine Errs.bind (conv_of_value (pyInt_errs _ _)) ?_
    intro idn _
    refine Errs.bind (intToBytes_errs _ _) ?_
    intro idb _
    refine Errs.bind (conv_of_value (Errs.mapM _ _ (fun a => pyInt_errs _ a))) ?_
    intro parts _
    refine Errs.bind (conv_of_value (Errs.mapM _ _ (fun x => ?_))) ?_
    · exact Errs.ite (fun _ => Errs.error rfl) (fun _ => Errs.ok _)
    intro vb _
    refine Errs.bind (typeOf_errs _) ?_
    intro t _
    exact Errs.ite (fun _ => Errs.pure' _) (fun _ => Errs.pure' _)

theorem stepCreator_errs (ins : Instrs) (cm : Comments) : Errs Conv (stepCreator ins cm) := by
  unfold stepCreator
  split
  · exact Errs.ok _
  · exact Errs.ok _
  · exact Errs.error (by simp [Conv])

theorem stepSelectIf_errs (desc : Desc) (ins : Instrs) (e : Err) (h : stepSelectIf desc ins = .error e) : Conv e := by
  unfold stepSelectIf at h
  split at h
  · cases h
  · rename_i v _
    have hi := iparam_errs v "PROTOCOL".toList
    split at h
    · rename_i e' he'
      injection h with h
      subst h
      exact hi.out _ he'
    · split at h
      · cases h
      · split at h <;> cases h

/-- every exception that leaves `exec_bf2instrs` is of a class that `emit_bf3comp` converts -/
theorem execInstrs_errs (ins : Instrs) (desc : Desc) (cm : Comments) (e : Err) (i : Instrs) (c : Comments)
    (h : execInstrs ins desc cm = (.error e, i, c)) : Conv e := by
  unfold execInstrs at h
  simp only at h
  split at h
  · rename_i e' he'
    simp only [Prod.mk.injEq, ExecResult.error.injEq] at h
    rw [← h.1]; exact (stepCrc_errs _ _).out _ he'
  · split at h
    · rename_i e' he'
      simp only [Prod.mk.injEq, ExecResult.error.injEq] at h
      rw [← h.1]; exact (stepSelect_errs _ _).out _ he'
    · split at h
      · rename_i e' he'
        simp only [Prod.mk.injEq, ExecResult.error.injEq] at h
        rw [← h.1]; exact (stepFwver_errs _ _).out _ he'
      · split at h
        · rename_i e' he'
          simp only [Prod.mk.injEq, ExecResult.error.injEq] at h
          rw [← h.1]; exact (stepFirmwareCm_errs _ _).out _ he'
        · split at h
          · rename_i e' he'
            simp only [Prod.mk.injEq, ExecResult.error.injEq] at h
            rw [← h.1]; exact (stepFirmware_errs _ _).out _ he'
          · split at h
            · rename_i e' he'
              simp only [Prod.mk.injEq, ExecResult.error.injEq] at h
              rw [← h.1]; exact (stepCreator_errs _ _).out _ he'
            · simp only [Prod.mk.injEq] at h
              exact stepSelectIf_errs _ _ _ h.1

/-! ### what the description of an emitted component always contains -/

theorem lookup_map_ne (d : Desc) (k k' : Nat) (v : Bytes) (h : k ≠ k') :
    (d.map (fun p => if p.1 == k then (k, v) else p)).lookup k' = d.lookup k' := by
  induction d with
  | nil => rfl
  | cons p r ih =>
    obtain ⟨a, b⟩ := p
    simp only [List.map_cons]
    by_cases hak : a = k
    · subst hak
      have h3 : (k' == a) = false := by simp; exact fun h' => h h'.symm
      simp only [beq_self_eq_true, if_true, List.lookup, h3]
      exact ih
    · have h1 : (a == k) = false := by simp [hak]
      simp only [h1, Bool.false_eq_true, if_false]
      by_cases hk' : k' = a
      · subst hk'; simp [List.lookup]
      · have h3 : (k' == a) = false := by simp [hk']
        simp only [List.lookup, h3]
        exact ih

theorem lookup_append_ne (d : Desc) (k k' : Nat) (v : Bytes) (h : k ≠ k') :
    (d ++ [(k, v)]).lookup k' = d.lookup k' := by
  induction d with
  | nil =>
    have : (k' == k) = false := by simp; exact fun h' => h h'.symm
    simp [List.lookup, this]
  | cons p r ih =>
    obtain ⟨a, b⟩ := p
    simp only [List.cons_append, List.lookup]
    split <;> simp_all

theorem lookup_descSet_ne (d : Desc) (k k' : Nat) (v : Bytes) (h : k ≠ k') :
    (descSet d k v).lookup k' = d.lookup k' := by
  unfold descSet
  split
  · exact lookup_map_ne d k k' v h
  · exact lookup_append_ne d k k' v h

theorem lookup_descSet_eq (d : Desc) (k : Nat) (v : Bytes) : (descSet d k v).lookup k = some v := by
  unfold descSet
  split
  · rename_i hany
    induction d with
    | nil => simp at hany
    | cons p r ih =>
      obtain ⟨a, b⟩ := p
      simp only [List.map_cons]
      by_cases hak : a = k
      · subst hak; simp [List.lookup]
      · have h1 : (a == k) = false := by simp [hak]
        have h2 : (k == a) = false := by simp; exact fun h' => hak h'.symm
        simp only [h1, Bool.false_eq_true, if_false, List.lookup, h2]
        apply ih
        simpa [h1] using hany
  · rename_i hany
    induction d with
    | nil => simp [List.lookup]
    | cons p r ih =>
      obtain ⟨a, b⟩ := p
      simp only [List.any_cons, Bool.or_eq_true, not_or] at hany
      have h2 : (k == a) = false := by
        have := hany.1; simp at this ⊢; exact fun h' => this h'.symm
      simp only [List.cons_append, List.lookup, h2]
      exact ih (by simpa using hany.2)

/-- `ty` is the component type from the tag-type map -/
structure DescOK (ty : Nat) (d : Desc) : Prop where
  typ : d.lookup Gen.BF3TAG_TYPE = some [UInt8.ofNat ty]
  hw : ty = Gen.BF3TYPE_PERIPHERAL → (d.lookup Gen.BF3TAG_HWCID).isSome
  intf : ∀ b, d.lookup Gen.BF3TAG_INTF = some b → ∃ n, n < 6 ∧ b = [UInt8.ofNat n]

theorem DescOK.set_other {ty : Nat} {d : Desc} (h : DescOK ty d) (k : Nat) (v : Bytes)
    (h1 : k ≠ Gen.BF3TAG_TYPE) (h2 : k ≠ Gen.BF3TAG_HWCID) (h3 : k ≠ Gen.BF3TAG_INTF) : DescOK ty (descSet d k v) :=
  ⟨by rw [lookup_descSet_ne _ _ _ _ h1]; exact h.typ,
   by rw [lookup_descSet_ne _ _ _ _ h2]; exact h.hw,
   by rw [lookup_descSet_ne _ _ _ _ h3]; exact h.intf⟩

theorem DescOK.set_hw {ty : Nat} {d : Desc} (h : DescOK ty d) (v : Bytes) : DescOK ty (descSet d Gen.BF3TAG_HWCID v) :=
  ⟨by rw [lookup_descSet_ne _ _ _ _ (by decide)]; exact h.typ,
   by intro _; rw [lookup_descSet_eq]; rfl,
   by rw [lookup_descSet_ne _ _ _ _ (by decide)]; exact h.intf⟩

theorem DescOK.set_intf {ty : Nat} {d : Desc} (h : DescOK ty d) (n : Nat) (hn : n < 6) :
    DescOK ty (descSet d Gen.BF3TAG_INTF [UInt8.ofNat n]) :=
  ⟨by rw [lookup_descSet_ne _ _ _ _ (by decide)]; exact h.typ,
   by rw [lookup_descSet_ne _ _ _ _ (by decide)]; exact h.hw,
   by intro b hb; rw [lookup_descSet_eq] at hb; injection hb with hb; exact ⟨n, hn, hb.symm⟩⟩

theorem stepReboot_ok {ty : Nat} {d : Desc} (h : DescOK ty d) (ins : Instrs) : DescOK ty (stepReboot d ins).1 := by
  unfold stepReboot
  split
  · exact h.set_other _ _ (by decide) (by decide) (by decide)
  · exact h

theorem stepCrc_ok {ty : Nat} {d d' : Desc} {ins ins' : Instrs} (h : DescOK ty d)
    (hs : stepCrc d ins = .ok (d', ins')) : DescOK ty d' := by
  unfold stepCrc at hs
  split at hs
  · injection hs with hs; injection hs with h1 h2; subst h1; exact h
  · simp only [Except.bind_eq_ok] at hs
    obtain ⟨s, _, x, _, b, _, hs⟩ := hs
    simp only [pure, Except.pure, Except.ok.injEq, Prod.mk.injEq] at hs
    rw [← hs.1]
    exact h.set_other _ _ (by decide) (by decide) (by decide)

theorem stepSelect_ok {ty : Nat} {d d' : Desc} {ins : Instrs} (h : DescOK ty d)
    (hs : stepSelect d ins = .ok d') : DescOK ty d' := by
  unfold stepSelect at hs
  split at hs
  · injection hs with hs; subst hs; exact h
  · simp only [Except.bind_eq_ok] at hs
    obtain ⟨f, _, pf, _, t, _, hs⟩ := hs
    have h1 : DescOK ty (descSet d Gen.BF3TAG_PFID2 pf) := h.set_other _ _ (by decide) (by decide) (by decide)
    split at hs
    · split at hs
      · simp only [Except.bind_eq_ok] at hs
        obtain ⟨hb, _, hs⟩ := hs
        simp only [pure, Except.pure, Except.ok.injEq] at hs
        rw [← hs]; exact h1.set_hw _
      · split at hs
        · simp only [pure, Except.pure, Except.ok.injEq] at hs
          rw [← hs]; exact h1.set_hw _
        · cases hs
    · simp only [pure, Except.pure, Except.ok.injEq] at hs
      rw [← hs]; exact h1

theorem stepFwver_ok {ty : Nat} {d d' : Desc} {ins ins' : Instrs} (h : DescOK ty d)
    (hs : stepFwver d ins = .ok (d', ins')) : DescOK ty d' := by
  unfold stepFwver at hs
  split at hs
  · injection hs with hs; injection hs with h1 h2; subst h1; exact h
  · simp only at hs
    split at hs
    · cases hs
    · split at hs
      · injection hs with hs; injection hs with h1 h2; subst h1; exact h
      · split at hs
        · cases hs
        · split at hs
          · cases hs
          · injection hs with hs; injection hs with h1 h2
            rw [← h1]
            exact h.set_other _ _ (by decide) (by decide) (by decide)

theorem stepFirmware_ok {ty : Nat} {d d' : Desc} {ins : Instrs} (h : DescOK ty d)
    (hs : stepFirmware d ins = .ok d') : DescOK ty d' := by
  unfold stepFirmware at hs
  split at hs
  · injection hs with hs; subst hs; exact h
  · simp only [Except.bind_eq_ok] at hs
    obtain ⟨f, _, hs⟩ := hs
    split at hs
    · simp only [pure, Except.pure, Except.ok.injEq] at hs
      rw [← hs]; exact h
    · simp only [Except.bind_eq_ok] at hs
      obtain ⟨idn, _, idb, _, parts, _, vb, _, t, _, hs⟩ := hs
      split at hs
      · simp only [pure, Except.pure, Except.ok.injEq] at hs
        rw [← hs]; exact h.set_other _ _ (by decide) (by decide) (by decide)
      · simp only [pure, Except.pure, Except.ok.injEq] at hs
        rw [← hs]; exact h

theorem interfaces_small : ∀ p ∈ Gen.BF2_INTERFACES, p.2 < 6 := by decide

theorem stepSelectIf_ok {ty : Nat} {d d' : Desc} {ins : Instrs} (h : DescOK ty d)
    (hs : stepSelectIf d ins = .ok d') : DescOK ty d' := by
  unfold stepSelectIf at hs
  split at hs
  · injection hs with hs; subst hs; exact h
  · split at hs
    · cases hs
    · split at hs
      · injection hs with hs; subst hs; exact h
      · split at hs
        · cases hs
        · rename_i nm n hfind
          injection hs with hs
          rw [← hs]
          exact h.set_intf n (interfaces_small _ (List.mem_of_find?_eq_some hfind))

theorem execInstrs_ok {ty : Nat} {desc d' : Desc} (ins i : Instrs) (cm c : Comments) (h : DescOK ty desc)
    (hs : execInstrs ins desc cm = (.ok d', i, c)) : DescOK ty d' := by
  unfold execInstrs at hs
  simp only at hs
  have h0 := stepReboot_ok h ins
  split at hs
  · simp at hs
  · rename_i d1 i1 h1
    have h1' := stepCrc_ok h0 h1
    split at hs
    · simp at hs
    · rename_i d2 h2
      have h2' := stepSelect_ok h1' h2
      split at hs
      · simp at hs
      · rename_i d3 i3 h3
        have h3' := stepFwver_ok h2' h3
        split at hs
        · simp at hs
        · split at hs
          · simp at hs
          · rename_i d5 h5
            have h5' := stepFirmware_ok h3' h5
            split at hs
            · simp at hs
            · simp only [Prod.mk.injEq] at hs
              exact stepSelectIf_ok h5' hs.1

/-! ### payload conversion -/

theorem linePayload_errs (st : Nat) (l : Line) : Errs (· = .valueError) (linePayload st l) := by
  unfold linePayload
  refine Errs.bind (readInt_errs _ _) ?_
  rintro ⟨lenb, r1⟩ _
  refine Errs.bind (readInt_errs _ _) ?_
  rintro ⟨offs, r2⟩ _
  refine Errs.ite (fun _ => Errs.bind (Errs.pure' _) (fun _ _ => Errs.pure' _)) (fun _ => ?_)
  refine Errs.bind ?_ (fun _ _ => Errs.pure' _)
  refine Errs.bind (take_errs _ _) ?_
  rintro ⟨p, r⟩ _
  exact Errs.pure' _

theorem unpackStep_errs (st : Nat) (s : UState) (l : Line) : Errs (· = .valueError) (unpackStep st s l) := by
  unfold unpackStep
  refine Errs.bind (linePayload_errs _ _) ?_
  rintro ⟨offs, payload⟩ _
  refine Errs.bind (readInt_errs _ _) ?_
  rintro ⟨lenb, r⟩ _
  exact Errs.pure' _

theorem unpackLoop_errs (st : Nat) (ls : List Line) (s : UState) : Errs (· = .valueError) (unpackLoop st ls s) := by
  induction ls generalizing s with
  | nil => unfold unpackLoop; exact Errs.ok _
  | cons l ls ih =>
    unfold unpackLoop
    exact Errs.bind (unpackStep_errs _ _ _) (fun _ _ => ih _)

/-- the two formats the tag-type map uses: conversion of a non-empty section raises `ValueError` (short data line)
or the format error (BLOB not starting at 0 / with gaps), nothing else -/
theorem convertPayload_total (lines : List Line) (fmt : Nat) (hne : lines ≠ [])
    (hfmt : fmt = Gen.BF3FMT_BLOB ∨ fmt = Gen.BF3FMT_BF2COMPATIBLE) : Total (convertPayload lines fmt) := by
  unfold convertPayload
  refine Errs.ite (fun _ => Errs.ok _) (fun h2 => ?_)
  refine Errs.ite (fun _ => ?_) (fun h0 => ?_)
  · refine Errs.bind ?_ ?_
    · cases lines with
      | nil => exact absurd rfl hne
      | cons l0 ls =>
        unfold unpackPayload
        refine Errs.bind ((unpackLoop_errs _ _ _).mono (by intro e h; subst h; rfl)) (fun _ _ => Errs.pure' _)
    · intro blocks _
      split
      · exact Errs.ite (fun _ => Errs.pure' _) (fun _ => Errs.throw' rfl)
      · exact Errs.throw' rfl
  · rcases hfmt with h | h
    · exact absurd h h0
    · exact absurd h h2

/-! ### the tag-type map -/

def MapEntryOK (x : Nat × (Option Nat × Option Nat × Option Nat × Option Nat)) : Bool :=
  match x.2 with
  | (some ty, hw, fmt, intf) =>
    (fmt.getD 0 == Gen.BF3FMT_BLOB || fmt.getD 0 == Gen.BF3FMT_BF2COMPATIBLE) && decide (ty < 256)
      && (ty != Gen.BF3TYPE_PERIPHERAL || hw.isSome) && (match intf with | some i => decide (i < 6) | none => true)
  | (none, _, _, _) => true

theorem map_ok : ∀ x ∈ Gen.BF2_TAGTYPE_MAP, MapEntryOK x = true := by decide

theorem lookup_mem {α β : Type} [BEq α] [LawfulBEq α] (l : List (α × β)) (k : α) (v : β) (h : l.lookup k = some v) :
    (k, v) ∈ l := by
  induction l with
  | nil => cases h
  | cons p r ih =>
    obtain ⟨a, b⟩ := p
    simp only [List.lookup] at h
    split at h
    · rename_i hk
      injection h with h
      subst h
      have : k = a := by simpa using hk
      subst this
      simp
    · exact List.mem_cons_of_mem _ (ih h)

theorem rev_intf_total : ∀ n, n < 6 → (Gen.REV_INTF_MAP.find? (fun p => p.1 == fromBE [UInt8.ofNat n])).isSome = true := by
  decide

theorem fromBE_single (n : Nat) (h : n < 256) : fromBE [UInt8.ofNat n] = n := by
  simp [fromBE, UInt8.toNat_ofNat']
  omega

/-! ### the section state machine -/

def CompOK (c : Comp) : Prop := ∃ ty, ty < 256 ∧ DescOK ty c.desc

def StOK (s : IState) : Prop := ∀ c ∈ s.comps, CompOK c

theorem conv_cond (e : Err) (h : Conv e) :
    (e == .valueError || e == .indexError || e == .keyError || e == .typeError || e == .overflowError
      || e == .formatBf3) = true := by
  rcases h with rfl | rfl | rfl | rfl | rfl | rfl <;> rfl

theorem desc0_ok (ty fmtN : Nat) (hw intf : Option Nat) (hhw : ty = Gen.BF3TYPE_PERIPHERAL → hw.isSome)
    (hintf : ∀ i, intf = some i → i < 6) : DescOK ty (desc0 ty fmtN hw intf) := by
  unfold desc0
  cases hw with
  | none =>
    cases intf with
    | none =>
      refine ⟨rfl, ?_, ?_⟩
      · intro h; exact absurd (hhw h) (by simp)
      · intro b hb; simp [List.lookup, Gen.BF3TAG_INTF, Gen.BF3TAG_FMT, Gen.BF3TAG_TYPE] at hb
    | some i =>
      refine ⟨rfl, ?_, ?_⟩
      · intro h; exact absurd (hhw h) (by simp)
      · intro b hb
        simp [List.lookup, Gen.BF3TAG_INTF, Gen.BF3TAG_FMT, Gen.BF3TAG_TYPE] at hb
        exact ⟨i, hintf i rfl, hb.symm⟩
  | some h =>
    cases intf with
    | none =>
      refine ⟨rfl, fun _ => rfl, ?_⟩
      intro b hb; simp [List.lookup, Gen.BF3TAG_INTF, Gen.BF3TAG_FMT, Gen.BF3TAG_TYPE, Gen.BF3TAG_HWCID] at hb
    | some i =>
      refine ⟨rfl, fun _ => rfl, ?_⟩
      intro b hb
      simp [List.lookup, Gen.BF3TAG_INTF, Gen.BF3TAG_FMT, Gen.BF3TAG_TYPE, Gen.BF3TAG_HWCID] at hb
      exact ⟨i, hintf i rfl, hb.symm⟩

theorem emit_spec (s : IState) (hs : StOK s) : Total (emit s) ∧ ∀ s', emit s = .ok s' → StOK s' := by
  unfold emit
  cases hfw : s.fwdata with
  | nil => exact ⟨Errs.error rfl, fun _ h => by cases h⟩
  | cons l0 rest =>
    simp only
    cases hmap : Gen.BF2_TAGTYPE_MAP.lookup l0.typ with
    | none => exact ⟨Errs.error rfl, fun _ h => by cases h⟩
    | some ent =>
      obtain ⟨oty, hw, fmt, intf⟩ := ent
      cases oty with
      | none => exact ⟨Errs.ok _, fun s' h => by cases h; exact hs⟩
      | some ty =>
        have hent := map_ok _ (lookup_mem _ _ _ hmap)
        simp only [MapEntryOK, Bool.and_eq_true, Bool.or_eq_true, beq_iff_eq, decide_eq_true_eq, bne_iff_ne, ne_eq] at hent
        obtain ⟨⟨⟨hfmt, hty⟩, hhw⟩, hintf⟩ := hent
        have hd0 := desc0_ok ty (fmt.getD 0) hw intf
          (by intro h; rcases hhw with h' | h'
              · exact absurd h h'
              · exact h')
          (by intro i hi; subst hi; simpa using hintf)
        simp only
        generalize hdesc : desc0 ty (fmt.getD 0) hw intf = desc at hd0 ⊢
        generalize hex : execInstrs s.instrs desc s.comments = res
        obtain ⟨r, ins, cm⟩ := res
        cases r with
        | unsupported => exact ⟨Errs.ok _, fun s' h => by cases h; exact hs⟩
        | error e =>
          simp only [conv_cond e (execInstrs_errs _ _ _ _ _ _ hex), if_true]
          exact ⟨Errs.error rfl, fun _ h => by cases h⟩
        | ok d =>
          have hd := execInstrs_ok _ _ _ _ hd0 hex
          simp only
          constructor
          · refine Errs.bind (convertPayload_total _ _ (by simp) hfmt) ?_
            intro content _
            exact Errs.pure' _
          · intro s' h
            simp only [Except.bind_eq_ok] at h
            obtain ⟨content, _, h⟩ := h
            simp only [pure, Except.pure, Except.ok.injEq] at h
            subst h
            intro c hc
            simp only [List.mem_append, List.mem_singleton] at hc
            rcases hc with hc | hc
            · exact hs c hc
            · subst hc
              exact ⟨ty, hty, hd⟩

theorem importStep_spec (s : IState) (o : Obj) (ho : ObjOK o) (hs : StOK s) :
    Total (importStep s o) ∧ ∀ s', importStep s o = .ok s' → StOK s' := by
  unfold importStep
  cases o with
  | load lines =>
    cases lines with
    | nil => exact absurd rfl ho
    | cons l0 rest =>
      simp only
      refine ⟨?_, ?_⟩
      · refine Errs.ite (fun _ => Errs.error rfl) (fun _ => ?_)
        refine Errs.ite (fun _ => ?_) (fun _ => Errs.pure' _)
        exact Errs.bind (emit_spec s hs).1 (fun _ _ => Errs.pure' _)
      · intro s' h
        split at h
        · cases h
        · split at h
          · simp only [Except.bind_eq_ok] at h
            obtain ⟨s1, h1, h⟩ := h
            simp only [pure, Except.pure, Except.ok.injEq] at h
            subst h
            exact (emit_spec s hs).2 s1 h1
          · simp only [pure, Except.pure, Except.ok.injEq] at h
            subst h
            exact hs
  | instr name v =>
    simp only
    have h1 : Total (if name == "CHECK_FWVER".toList && (lookupS s.instrs "CHECK_FWVER".toList).isSome then emit s else .ok s) ∧
        ∀ s1, (if name == "CHECK_FWVER".toList && (lookupS s.instrs "CHECK_FWVER".toList).isSome then emit s else .ok s) = .ok s1 → StOK s1 := by
      split
      · exact emit_spec s hs
      · exact ⟨Errs.ok _, fun s1 h => by cases h; exact hs⟩
    refine ⟨?_, ?_⟩
    · refine Errs.bind h1.1 ?_
      intro s1 hs1
      have hs1' := h1.2 s1 hs1
      refine Errs.ite (fun _ => ?_) (fun _ => Errs.ok _)
      exact (emit_spec _ (by exact hs1')).1
    · intro s' h
      simp only [Except.bind_eq_ok] at h
      obtain ⟨s1, hs1, h⟩ := h
      have hs1' := h1.2 s1 hs1
      split at h
      · exact (emit_spec _ (by exact hs1')).2 s' h
      · simp only [Except.ok.injEq] at h
        subst h
        exact hs1'

/-! ### annotations -/

theorem versionStr_total (name : Str) (ver : Option Bytes) : Total (versionStr name ver) := by
  unfold versionStr
  split
  · exact Errs.ok _
  · exact Errs.ok _
  · refine Errs.ite (fun _ => Errs.ok _) (fun _ => ?_)
    refine Errs.ite (fun _ => ?_) (fun _ => Errs.ok _)
    split
    · exact Errs.ok _
    · exact Errs.error rfl

theorem annotation_total (c : Comp) (hc : CompOK c) : Total (annotation c) := by
  obtain ⟨ty, hty, hd⟩ := hc
  unfold annotation
  refine Errs.bind ?_ ?_
  · unfold baseName
    rw [hd.typ]
    simp only [fromBE_single ty hty]
    refine Errs.ite (fun _ => Errs.ok _) (fun _ => ?_)
    refine Errs.ite (fun _ => ?_) (fun _ => ?_)
    · -- loader
      unfold loaderName
      cases hi : c.desc.lookup Gen.BF3TAG_INTF with
      | none => exact Errs.error rfl
      | some b =>
        obtain ⟨n, hn, hb⟩ := hd.intf b hi
        subst hb
        simp only
        have := rev_intf_total n hn
        cases hf : Gen.REV_INTF_MAP.find? (fun p => p.1 == fromBE [UInt8.ofNat n]) with
        | none => rw [hf] at this; cases this
        | some p => exact Errs.ok _
    · refine Errs.ite (fun hper => ?_) (fun _ => Errs.error rfl)
      -- peripheral
      unfold peripheralName
      have hhw := hd.hw hper
      cases hh : c.desc.lookup Gen.BF3TAG_HWCID with
      | none => rw [hh] at hhw; cases hhw
      | some hb =>
        simp only
        exact Errs.bind (versionStr_total _ _) (fun _ _ => Errs.ok _)
  · intro base _
    split
    · exact Errs.ok _
    · exact Errs.bind (pfid2FilterToStr_total _) (fun _ _ => Errs.ok _)

theorem mem_insertByType (c x : Comp) (l : List Comp) (h : c ∈ insertByType x l) : c = x ∨ c ∈ l := by
  induction l with
  | nil => simp [insertByType] at h; exact Or.inl h
  | cons y ys ih =>
    unfold insertByType at h
    split at h
    · simp only [List.mem_cons] at h ⊢
      exact h
    · simp only [List.mem_cons] at h ⊢
      rcases h with h | h
      · exact Or.inr (Or.inl h)
      · rcases ih h with h | h
        · exact Or.inl h
        · exact Or.inr (Or.inr h)

theorem mem_sortComps (c : Comp) (cs : List Comp) (h : c ∈ sortComps cs) : c ∈ cs := by
  unfold sortComps at h
  induction cs with
  | nil => simp at h
  | cons x xs ih =>
    simp only [List.foldr_cons] at h
    rcases mem_insertByType _ _ _ h with h | h
    · simp [h]
    · exact List.mem_cons_of_mem _ (ih h)

theorem annotate_total (i : Nat) (cs : List Comp) (cm : Comments) (h : ∀ c ∈ cs, CompOK c) : Total (annotate i cs cm) := by
  induction cs generalizing i cm with
  | nil => unfold annotate; exact Errs.ok _
  | cons c cs ih =>
    unfold annotate
    refine Errs.bind (annotation_total c (h c (by simp))) ?_
    intro a _
    exact ih _ _ (fun c' hc' => h c' (by simp [hc']))

/-- C14, BF2 importer: whatever the text is, the import returns or raises a format error / ValueError -/
theorem bf2Import_total (text : Str) (enforce : Bool) : Total (bf2Import text enforce) := by
  unfold bf2Import
  have hp := parseFile_spec text
  refine Errs.bind ?_ ?_
  · unfold parseObjs
    cases hpf : parseFile text with
    | ok o => exact Errs.ok _
    | error e =>
      have := hp.1.out _ hpf
      subst this
      exact Errs.error rfl
  · intro objs hobjs
    have hobjs' : parseFile text = .ok objs := by
      unfold parseObjs at hobjs
      cases hpf : parseFile text with
      | ok o => rw [hpf] at hobjs; exact hobjs
      | error e =>
        rw [hpf] at hobjs
        simp only at hobjs
        split at hobjs <;> cases hobjs
    have hok := hp.2 objs hobjs'
    have hfold := Errs.foldlM_inv (P := Err.Allowed) (Inv := StOK) importStep objs
      { fwdata := [], instrs := [], comps := [], comments := [] } (by intro c hc; simp at hc)
      (fun b a ha hb => importStep_spec b a (hok a ha) hb)
    refine Errs.bind hfold.1 ?_
    intro s hs
    have hsok := hfold.2 s hs
    unfold finish
    have h2 : Total (if s.fwdata.isEmpty then .ok s else emit s) ∧
        ∀ s2, (if s.fwdata.isEmpty then .ok s else emit s) = .ok s2 → StOK s2 := by
      split
      · exact ⟨Errs.ok _, fun s2 h => by cases h; exact hsok⟩
      · exact emit_spec s hsok
    refine Errs.bind h2.1 ?_
    intro s2 hs2
    have hs2ok := h2.2 s2 hs2
    refine Errs.ite (fun _ => Errs.error rfl) (fun _ => ?_)
    refine Errs.bind (annotate_total _ _ _ (fun c hc => hs2ok c (mem_sortComps c _ hc))) ?_
    intro cm _
    exact Errs.ok _

end Bf2
end Bec2Verif
