import Bec2Verif.Lemmas.AesWords
/-!
`encryptBlock` of the model (pyaes `AES.encrypt`) is the FIPS-197 Cipher with the round keys it was given, and
`decryptBlock` the equivalent inverse cipher (§5.3.5) with the decryption keys.
-/
namespace Bec2Verif.AesW
open Bec2Verif Bec2Verif.Aes Bec2Verif.Gen Bec2Verif.Spec.Gf Bec2Verif.Spec.Fips Bec2Verif.AesGf

/-- the byte state held in four packed words -/
def stOf (t : Array Nat) : State := (colOf (t.getD 0 0), colOf (t.getD 1 0), colOf (t.getD 2 0), colOf (t.getD 3 0))

/-- round key `r` of a flat word schedule, as a state -/
def rkSt (k : Array Nat) (r : Nat) : State := (colOf (rk k r 0), colOf (rk k r 1), colOf (rk k r 2), colOf (rk k r 3))

theorem stOf_mk (a b c d : Nat) : stOf #[a, b, c, d] = (colOf a, colOf b, colOf c, colOf d) := rfl

theorem stOf_byte (t : Array Nat) : ByteSt (stOf t) := ⟨colOf_byte _, colOf_byte _, colOf_byte _, colOf_byte _⟩
theorem rkSt_byte (k : Array Nat) (r : Nat) : ByteSt (rkSt k r) := ⟨colOf_byte _, colOf_byte _, colOf_byte _, colOf_byte _⟩

theorem encRound_st (ke : Array Nat) (r : Nat) (t : Array Nat) :
    stOf (encRound ke r t) = addRoundKey (mixColumns (shiftRows (subBytes (stOf t)))) (rkSt ke r) := by
  have e : encRound ke r t =
      #[tab T1 (b0 (t.getD 0 0)) ^^^ tab T2 (b1 (t.getD 1 0)) ^^^ tab T3 (b2 (t.getD 2 0)) ^^^ tab T4 (b3 (t.getD 3 0)) ^^^ rk ke r 0,
        tab T1 (b0 (t.getD 1 0)) ^^^ tab T2 (b1 (t.getD 2 0)) ^^^ tab T3 (b2 (t.getD 3 0)) ^^^ tab T4 (b3 (t.getD 0 0)) ^^^ rk ke r 1,
        tab T1 (b0 (t.getD 2 0)) ^^^ tab T2 (b1 (t.getD 3 0)) ^^^ tab T3 (b2 (t.getD 0 0)) ^^^ tab T4 (b3 (t.getD 1 0)) ^^^ rk ke r 2,
        tab T1 (b0 (t.getD 3 0)) ^^^ tab T2 (b1 (t.getD 0 0)) ^^^ tab T3 (b2 (t.getD 1 0)) ^^^ tab T4 (b3 (t.getD 2 0)) ^^^ rk ke r 3] := rfl
  rw [e, stOf_mk, encWord _ _ _ _ _ (b0_lt _) (b1_lt _) (b2_lt _) (b3_lt _),
    encWord _ _ _ _ _ (b0_lt _) (b1_lt _) (b2_lt _) (b3_lt _), encWord _ _ _ _ _ (b0_lt _) (b1_lt _) (b2_lt _) (b3_lt _),
    encWord _ _ _ _ _ (b0_lt _) (b1_lt _) (b2_lt _) (b3_lt _)]
  rfl

/-- the round of the equivalent inverse cipher: InvShiftRows, InvSubBytes, InvMixColumns, AddRoundKey(dw) -/
theorem decRound_st (kd : Array Nat) (r : Nat) (t : Array Nat) :
    stOf (decRound kd r t) = addRoundKey (invMixColumns (invSubBytes (invShiftRows (stOf t)))) (rkSt kd r) := by
  have e : decRound kd r t =
      #[tab T5 (b0 (t.getD 0 0)) ^^^ tab T6 (b1 (t.getD 3 0)) ^^^ tab T7 (b2 (t.getD 2 0)) ^^^ tab T8 (b3 (t.getD 1 0)) ^^^ rk kd r 0,
        tab T5 (b0 (t.getD 1 0)) ^^^ tab T6 (b1 (t.getD 0 0)) ^^^ tab T7 (b2 (t.getD 3 0)) ^^^ tab T8 (b3 (t.getD 2 0)) ^^^ rk kd r 1,
        tab T5 (b0 (t.getD 2 0)) ^^^ tab T6 (b1 (t.getD 1 0)) ^^^ tab T7 (b2 (t.getD 0 0)) ^^^ tab T8 (b3 (t.getD 3 0)) ^^^ rk kd r 2,
        tab T5 (b0 (t.getD 3 0)) ^^^ tab T6 (b1 (t.getD 2 0)) ^^^ tab T7 (b2 (t.getD 1 0)) ^^^ tab T8 (b3 (t.getD 0 0)) ^^^ rk kd r 3] := rfl
  rw [e, stOf_mk, decWord _ _ _ _ _ (b0_lt _) (b1_lt _) (b2_lt _) (b3_lt _),
    decWord _ _ _ _ _ (b0_lt _) (b1_lt _) (b2_lt _) (b3_lt _), decWord _ _ _ _ _ (b0_lt _) (b1_lt _) (b2_lt _) (b3_lt _),
    decWord _ _ _ _ _ (b0_lt _) (b1_lt _) (b2_lt _) (b3_lt _)]
  rfl

theorem encLoop_st (ke : Array Nat) (n r : Nat) (t : Array Nat) :
    stOf (roundsLoop (encRound ke) n r t) =
      loop (fun r s => addRoundKey (mixColumns (shiftRows (subBytes s))) (rkSt ke r)) n r (stOf t) := by
  induction n generalizing r t with
  | zero => rfl
  | succ n ih => rw [roundsLoop, loop, ih, encRound_st]

theorem decLoop_st (kd : Array Nat) (n r : Nat) (t : Array Nat) :
    stOf (roundsLoop (decRound kd) n r t) =
      loop (fun r s => addRoundKey (invMixColumns (invSubBytes (invShiftRows s))) (rkSt kd r)) n r (stOf t) := by
  induction n generalizing r t with
  | zero => rfl
  | succ n ih => rw [roundsLoop, loop, ih, decRound_st]

/-! ### whitening and the last round -/

theorem list16 (l : List Nat) (h : l.length = 16) :
    ∃ p0 p1 p2 p3 p4 p5 p6 p7 p8 p9 p10 p11 p12 p13 p14 p15,
      l = [p0, p1, p2, p3, p4, p5, p6, p7, p8, p9, p10, p11, p12, p13, p14, p15] := by
  match l, h with
  | [p0, p1, p2, p3, p4, p5, p6, p7, p8, p9, p10, p11, p12, p13, p14, p15], _ =>
    exact ⟨p0, p1, p2, p3, p4, p5, p6, p7, p8, p9, p10, p11, p12, p13, p14, p15, rfl⟩

/-- `(S[x] ^ (k >> s)) & 0xFF` is the S-box byte XOR the key byte -/
theorem lastByte (x v : Nat) (hx : x < 256) : (tab S x ^^^ v) &&& 0xFF = sbox x ^^^ (v &&& 0xFF) := by
  rw [Nat.and_xor_distrib_right, (enc_tabs x hx).2.2.2.2]
  have h : (0xFF : Nat) = 2 ^ 8 - 1 := rfl
  rw [h, Nat.and_two_pow_sub_one_eq_mod, Nat.mod_eq_of_lt (sbox_lt x hx)]

theorem lastByteInv (x v : Nat) (hx : x < 256) : (tab Si x ^^^ v) &&& 0xFF = invSbox x ^^^ (v &&& 0xFF) := by
  rw [Nat.and_xor_distrib_right, (dec_tabs x hx).2.2.2.2]
  have h : (0xFF : Nat) = 2 ^ 8 - 1 := rfl
  rw [h, Nat.and_two_pow_sub_one_eq_mod, Nat.mod_eq_of_lt (invSbox_lt x hx)]

/-- the initial state of both directions: input block XOR the first round key -/
theorem whiten_st (k : Array Nat) (pt : List Nat) (hl : pt.length = 16) (hb : ∀ x ∈ pt, x < 256) :
    stOf #[(wordsOf pt).getD 0 0 ^^^ rk k 0 0, (wordsOf pt).getD 1 0 ^^^ rk k 0 1,
           (wordsOf pt).getD 2 0 ^^^ rk k 0 2, (wordsOf pt).getD 3 0 ^^^ rk k 0 3] =
      addRoundKey (stateOfBytes pt) (rkSt k 0) := by
  obtain ⟨p0, p1, p2, p3, p4, p5, p6, p7, p8, p9, p10, p11, p12, p13, p14, p15, rfl⟩ := list16 pt hl
  have hw : wordsOf [p0, p1, p2, p3, p4, p5, p6, p7, p8, p9, p10, p11, p12, p13, p14, p15] =
      [compact p0 p1 p2 p3, compact p4 p5 p6 p7, compact p8 p9 p10 p11, compact p12 p13 p14 p15] := rfl
  rw [hw, stOf_mk]
  simp only [List.getD_cons_zero, List.getD_cons_succ, colOf_xor]
  rw [colOf_compact p0 p1 p2 p3 (hb _ (by simp)) (hb _ (by simp)) (hb _ (by simp)) (hb _ (by simp)),
    colOf_compact p4 p5 p6 p7 (hb _ (by simp)) (hb _ (by simp)) (hb _ (by simp)) (hb _ (by simp)),
    colOf_compact p8 p9 p10 p11 (hb _ (by simp)) (hb _ (by simp)) (hb _ (by simp)) (hb _ (by simp)),
    colOf_compact p12 p13 p14 p15 (hb _ (by simp)) (hb _ (by simp)) (hb _ (by simp)) (hb _ (by simp))]
  rfl

theorem b_shift (w : Nat) : (w >>> 24) &&& 0xFF = b0 w ∧ (w >>> 16) &&& 0xFF = b1 w ∧ (w >>> 8) &&& 0xFF = b2 w ∧
    w &&& 0xFF = b3 w := ⟨rfl, rfl, rfl, rfl⟩

/-- **`AES.encrypt` = FIPS-197 Cipher** with the round keys stored in `ke` -/
theorem encryptBlock_eq (k : Keys) (pt : List Nat) (hl : pt.length = 16) (hb : ∀ x ∈ pt, x < 256) :
    encryptBlock k pt = bytesOfState (cipher (rkSt k.ke) k.rounds (stateOfBytes pt)) := by
  unfold encryptBlock cipher
  simp only
  rw [← whiten_st k.ke pt hl hb, ← encLoop_st]
  generalize roundsLoop (encRound k.ke) (k.rounds - 1) 1 _ = t
  have hf : ∀ f : Nat → List Nat, (List.range 4).flatMap f = f 0 ++ f 1 ++ f 2 ++ f 3 := by
    intro f; simp [List.range, List.range.loop, List.flatMap]
  rw [hf]
  simp only [lastByte _ _ (b0_lt _), lastByte _ _ (b1_lt _), lastByte _ _ (b2_lt _), lastByte _ _ (b3_lt _),
    (b_shift _).1, (b_shift _).2.1, (b_shift _).2.2.1, (b_shift _).2.2.2]
  rfl

/-- the equivalent inverse cipher (§5.3.5) with decryption keys `dw` -/
def eqInvCipher (dw : Nat → State) (nr : Nat) (inp : State) : State :=
  let s := addRoundKey inp (dw 0)
  let s := loop (fun r s => addRoundKey (invMixColumns (invSubBytes (invShiftRows s))) (dw r)) (nr - 1) 1 s
  addRoundKey (invSubBytes (invShiftRows s)) (dw nr)

theorem decryptBlock_eq (k : Keys) (ct : List Nat) (hl : ct.length = 16) (hb : ∀ x ∈ ct, x < 256) :
    decryptBlock k ct = bytesOfState (eqInvCipher (rkSt k.kd) k.rounds (stateOfBytes ct)) := by
  unfold decryptBlock eqInvCipher
  simp only
  rw [← whiten_st k.kd ct hl hb, ← decLoop_st]
  generalize roundsLoop (decRound k.kd) (k.rounds - 1) 1 _ = t
  have hf : ∀ f : Nat → List Nat, (List.range 4).flatMap f = f 0 ++ f 1 ++ f 2 ++ f 3 := by
    intro f; simp [List.range, List.range.loop, List.flatMap]
  rw [hf]
  simp only [lastByteInv _ _ (b0_lt _), lastByteInv _ _ (b1_lt _), lastByteInv _ _ (b2_lt _), lastByteInv _ _ (b3_lt _),
    (b_shift _).1, (b_shift _).2.1, (b_shift _).2.2.1, (b_shift _).2.2.2]
  rfl

end Bec2Verif.AesW
