import Bec2Verif.Lemmas.Bf3
import Bec2Verif.Spec.Layout
/-!
Soundness and completeness of the BF3 reader with respect to the declarative layout
(`Spec/Layout.lean`): the reader accepts a binary exactly when it is well-formed and authentic,
and then returns the components its fields denote (C05).
-/
namespace Bec2Verif.Bf3
open Bec2Verif Bec2Verif.Spec.Layout

/-! ### tag lists -/

def TagsLt (d : List (Nat × Bytes)) : Prop := ∀ p ∈ d, p.1 < 256 ∧ p.2.length < 256

theorem tlvEntries_of_tagsLt (d : List (Nat × Bytes)) (h : TagsLt d) : tlvEntries d = .ok (tlvBytes d) := by
  induction d with
  | nil => rfl
  | cons p r ih =>
    obtain ⟨t, v⟩ := p
    have hp := h (t, v) (by simp)
    have ihr := ih (fun q hq => h q (by simp [hq]))
    have h1 : toBytesBE 1 t = .ok (toBE 1 t) := by simp [toBytesBE, hp.1]
    have h2 : toBytesBE 1 v.length = .ok (toBE 1 v.length) := by simp [toBytesBE, hp.2]
    simp [tlvEntries, h1, h2, ihr, tlvBytes, bind, Except.bind, pure, Except.pure]

theorem tlvEntries_ok (d : List (Nat × Bytes)) (tl : Bytes) (h : tlvEntries d = .ok tl) :
    tl = tlvBytes d ∧ TagsLt d := by
  induction d generalizing tl with
  | nil => simp [tlvEntries] at h; subst h; exact ⟨rfl, fun _ hp => by simp at hp⟩
  | cons p r ih =>
    obtain ⟨t, v⟩ := p
    simp only [tlvEntries, Except.bind_eq_ok] at h
    obtain ⟨tb, htb, lb, hlb, rest, hrest, hp⟩ := h
    simp only [pure, Except.pure, Except.ok.injEq] at hp
    obtain ⟨rfl, ht⟩ := toBytesBE_ok htb
    obtain ⟨rfl, hv⟩ := toBytesBE_ok hlb
    obtain ⟨rfl, hr⟩ := ih rest hrest
    subst hp
    refine ⟨rfl, ?_⟩
    intro q hq
    simp only [List.mem_cons] at hq
    rcases hq with rfl | hq
    · exact ⟨by simpa using ht, by simpa using hv⟩
    · exact hr q hq

/-- the tag parser accepts only the canonical encoding of the tag list it returns -/
theorem parseDesc_sound (fuel : Nat) (bs : Bytes) (acc d : List (Nat × Bytes))
    (h : parseDesc fuel bs acc = .ok d) (hfuel : bs.length ≤ fuel) (hacc : (acc.map Prod.fst).Nodup) :
    ∃ d', d = acc ++ d' ∧ bs = tlvBytes d' ∧ TagsLt d' ∧ (d.map Prod.fst).Nodup := by
  induction fuel generalizing bs acc with
  | zero =>
    have : bs = [] := List.length_eq_zero_iff.mp (by omega)
    subst this
    simp [parseDesc] at h; subst h
    exact ⟨[], by simp, rfl, fun _ hp => by simp at hp, hacc⟩
  | succ f ih =>
    unfold parseDesc at h
    by_cases hbs : bs.isEmpty
    · simp only [hbs, if_true] at h
      injection h with h; subst h
      have : bs = [] := by simpa using hbs
      subst this
      exact ⟨[], by simp, rfl, fun _ hp => by simp at hp, hacc⟩
    · simp only [hbs, Bool.false_eq_true, if_false, Except.bind_eq_ok] at h
      obtain ⟨⟨tag, r1⟩, h1, ⟨len, r2⟩, h2, ⟨val, r3⟩, h3, h4⟩ := h
      obtain ⟨rfl, htag⟩ := readInt_ok h1
      obtain ⟨rfl, hlen⟩ := readInt_ok h2
      obtain ⟨rfl, hvl⟩ := take_ok h3
      by_cases hdup : acc.any (fun p => p.1 == tag)
      · simp [hdup, throw, throwThe, MonadExceptOf.throw, bind, Except.bind] at h4
      · simp only [hdup, Bool.false_eq_true, if_false] at h4
        have h4' : parseDesc f r3 (acc ++ [(tag, val)]) = .ok d := by
          simpa [bind, Except.bind, pure, Except.pure] using h4
        have hacc' : ((acc ++ [(tag, val)]).map Prod.fst).Nodup := by
          rw [List.map_append, List.nodup_append]
          refine ⟨hacc, by simp, ?_⟩
          intro a ha b hb
          simp only [List.map_cons, List.map_nil, List.mem_singleton] at hb
          subst hb
          intro heq
          subst heq
          apply hdup
          simp only [List.mem_map] at ha
          obtain ⟨q, hq, rfl⟩ := ha
          simp only [List.any_eq_true, beq_iff_eq]
          exact ⟨q, hq, rfl⟩
        obtain ⟨d', hd, hb, hlt, hnd⟩ := ih r3 (acc ++ [(tag, val)]) h4'
          (by simp only [List.length_append, toBE_length] at hfuel; omega) hacc'
        refine ⟨(tag, val) :: d', by rw [hd]; simp, ?_, ?_, hnd⟩
        · simp only [tlvBytes, hvl, hb, List.append_assoc]
        · intro q hq
          simp only [List.mem_cons] at hq
          rcases hq with rfl | hq
          · exact ⟨by simpa using htag, by rw [hvl]; simpa using hlen⟩
          · exact hlt q hq


/-! ### one directory entry -/

/-- an entry as stored: the fields the reader keeps, and the entry MAC -/
abbrev EntM := Entry × Bytes

def entBody (p : EntM) : Bytes :=
  toBE 4 p.1.adr ++ toBE 4 p.1.total ++ toBE 4 p.1.declared ++ p.1.pmac ++
    toBE 1 (tlvBytes p.1.desc).length ++ tlvBytes p.1.desc

def entBytes (p : EntM) : Bytes := entBody p ++ p.2

/-- what the directory phase of the reader checks about one entry (`ndx` = 1-based index = MAC IV) -/
structure EntFacts (C : Crypto) (chk : Bool) (key : Bytes) (ndx : Nat) (p : EntM) : Prop where
  adrLt : p.1.adr < 256 ^ 4
  totalLt : p.1.total < 256 ^ 4
  declLe : p.1.declared ≤ p.1.total
  pmacLen : p.1.pmac.length = Gen.CMAC_SIZE
  emacLen : p.2.length = Gen.CMAC_SIZE
  tagsLt : TagsLt p.1.desc
  tagsNodup : (p.1.desc.map Prod.fst).Nodup
  descLt : (tlvBytes p.1.desc).length < 256
  emacOk : chk = true → C.mac key (some (toBE Gen.CMAC_SIZE ndx)) (entBody p) = .ok p.2

theorem parseEntry_sound (C : Crypto) (chk : Bool) (key : Bytes) (ndx : Nat) (e : Bytes) (ent : Entry)
    (h : parseEntry C chk key ndx e = .ok (ent, [])) :
    ∃ em, e = entBytes (ent, em) ∧ EntFacts C chk key ndx (ent, em) := by
  unfold parseEntry at h
  simp only [Except.bind_eq_ok] at h
  obtain ⟨⟨adr, r1⟩, h1, ⟨total, r2⟩, h2, ⟨declared, r3⟩, h3, h4⟩ := h
  obtain ⟨rfl, hadr⟩ := readInt_ok h1
  obtain ⟨rfl, htot⟩ := readInt_ok h2
  obtain ⟨rfl, hdecl⟩ := readInt_ok h3
  clear h1 h2 h3
  by_cases hlt : total < declared
  · simp [hlt, throw, throwThe, MonadExceptOf.throw, bind, Except.bind] at h4
  · simp only [hlt, if_false, pure, Except.pure, bind, Except.bind] at h4
    cases ht4 : take Gen.CMAC_SIZE r3 with
    | error err => simp [ht4] at h4
    | ok v4 =>
      obtain ⟨pmac, r4⟩ := v4
      simp only [ht4] at h4
      obtain ⟨rfl, hpm⟩ := take_ok ht4
      clear ht4
      cases ht5 : readInt 1 r4 with
      | error err => simp [ht5] at h4
      | ok v5 =>
        obtain ⟨dlen, r5⟩ := v5
        simp only [ht5] at h4
        obtain ⟨rfl, hdl⟩ := readInt_ok ht5
        clear ht5
        cases ht6 : take dlen r5 with
        | error err => simp [ht6] at h4
        | ok v6 =>
          obtain ⟨db, r6⟩ := v6
          simp only [ht6] at h4
          obtain ⟨rfl, hdb⟩ := take_ok ht6
          clear ht6
          subst hdb
          cases hpd : parseDesc db.length db [] with
          | error err => simp [hpd] at h4
          | ok desc =>
            simp only [hpd] at h4
            obtain ⟨d', hd, hb, hlt', hnd⟩ := parseDesc_sound _ _ _ _ hpd (Nat.le_refl _) (by simp)
            simp only [List.nil_append] at hd
            subst hd
            subst hb
            clear hpd
            cases ht7 : take Gen.CMAC_SIZE r6 with
            | error err => simp [ht7] at h4
            | ok v7 =>
              obtain ⟨stored, r7⟩ := v7
              simp only [ht7] at h4
              obtain ⟨rfl, hst⟩ := take_ok ht7
              clear ht7
              have hfacts : ∀ (hm : chk = true → C.mac key (some (toBE Gen.CMAC_SIZE ndx))
                  (entBody (({ adr := adr, total := total, declared := declared, pmac := pmac, desc := desc } : Entry), stored))
                  = .ok stored),
                  EntFacts C chk key ndx (({ adr := adr, total := total, declared := declared, pmac := pmac, desc := desc } : Entry), stored) :=
                fun hm => { adrLt := hadr, totalLt := htot, declLe := by simp only; omega, pmacLen := hpm,
                            emacLen := hst, tagsLt := hlt', tagsNodup := hnd,
                            descLt := by simpa using hdl, emacOk := hm }
              cases chk with
              | false =>
                simp only [Bool.false_eq_true, if_false, Except.ok.injEq, Prod.mk.injEq] at h4
                obtain ⟨hent, hr7⟩ := h4
                subst hr7; subst hent
                exact ⟨stored, by simp only [entBytes, entBody, List.append_assoc, List.append_nil],
                  hfacts (fun hc => by cases hc)⟩
              | true =>
                simp only [if_true] at h4
                generalize hmac : cmac C _ key (some (toBE Gen.CMAC_SIZE ndx)) = mres at h4
                cases mres with
                | error err => simp at h4
                | ok actual =>
                  simp only [] at h4
                  by_cases hne : (stored != actual) = true
                  · simp [hne, throw, throwThe, MonadExceptOf.throw] at h4
                  · simp only [hne, Bool.false_eq_true, if_false, Except.ok.injEq, Prod.mk.injEq] at h4
                    obtain ⟨hent, hr7⟩ := h4
                    subst hr7; subst hent
                    have heq : stored = actual := by simpa using hne
                    subst heq
                    refine ⟨stored, by simp only [entBytes, entBody, List.append_assoc, List.append_nil], hfacts ?_⟩
                    intro _
                    have htk : ∀ (body : Bytes), (body ++ stored).take ((body ++ stored).length - Gen.CMAC_SIZE) = body := by
                      intro body
                      rw [List.length_append, hst, Nat.add_sub_cancel, List.take_left']
                      rfl
                    have hsplit : toBE 4 adr ++ (toBE 4 total ++ (toBE 4 declared ++ (pmac ++
                        (toBE 1 (tlvBytes desc).length ++ (tlvBytes desc ++ (stored ++ [])))))) =
                        entBody (({ adr := adr, total := total, declared := declared, pmac := pmac, desc := desc } : Entry), stored)
                          ++ stored := by
                      simp only [entBody, List.append_assoc, List.append_nil]
                    rw [hsplit, htk] at hmac
                    exact hmac

/-! ### the directory -/

def entsBytes : List EntM → Bytes
  | [] => []
  | p :: ps => toBE 1 (entBytes p).length ++ entBytes p ++ entsBytes ps

def EntsFacts (C : Crypto) (chk : Bool) (key : Bytes) : Nat → List EntM → Prop
  | _, [] => True
  | ndx, p :: ps => EntFacts C chk key ndx p ∧ (entBytes p).length < 256 ∧ EntsFacts C chk key (ndx + 1) ps

theorem ensureEof_ok {bs : Bytes} (h : ensureEof bs = .ok ()) : bs = [] := by
  unfold ensureEof at h
  split at h
  · rename_i he; simpa using he
  · cases h

theorem parseEntries_sound (C : Crypto) (chk : Bool) (key : Bytes) (fuel ndx len : Nat) (dir : Bytes)
    (ents : List Entry) (h : parseEntries C chk key fuel ndx len dir = .ok ents) (hlen : len < 256) :
    ∃ l : List EntM, l.map Prod.fst = ents ∧ toBE 1 len ++ dir = entsBytes l ++ [0] ∧
      EntsFacts C chk key ndx l := by
  induction fuel generalizing ndx len dir ents with
  | zero => simp [parseEntries] at h
  | succ f ih =>
    unfold parseEntries at h
    by_cases h0 : len = 0
    · subst h0
      simp only [if_true, Except.bind_eq_ok] at h
      obtain ⟨_, heof, hp⟩ := h
      simp only [pure, Except.pure, Except.ok.injEq] at hp
      subst hp
      have := ensureEof_ok heof
      subst this
      exact ⟨[], rfl, rfl, trivial⟩
    · simp only [h0, if_false, Except.bind_eq_ok] at h
      obtain ⟨⟨e, r⟩, ht, ⟨entry, erest⟩, hpe, ⟨len', r'⟩, hri, _, heof, rest, hrec, hp⟩ := h
      simp only [pure, Except.pure, Except.ok.injEq] at hp
      subst hp
      obtain ⟨rfl, hel⟩ := take_ok ht
      obtain ⟨rfl, hl'⟩ := readInt_ok hri
      have := ensureEof_ok heof
      subst this
      obtain ⟨em, he, hfacts⟩ := parseEntry_sound C chk key ndx e entry hpe
      obtain ⟨l', hmap, hbytes, hfs⟩ := ih (ndx + 1) len' r' rest hrec (by simpa using hl')
      refine ⟨(entry, em) :: l', by simp [hmap], ?_, ⟨hfacts, by rw [← he, hel]; exact hlen, hfs⟩⟩
      simp only [entsBytes, ← he, hel, List.append_assoc]
      rw [hbytes]

/-! ### payloads, and the whole body: soundness -/

def toEntM (re : RawEntry) : EntM :=
  ({ adr := re.adr, total := re.payload.length, declared := re.declared, pmac := re.pmac, desc := re.desc }, re.emac)

theorem entryBody_eq (re : RawEntry) : entryBody re = entBody (toEntM re) := rfl
theorem entryBytes_eq (re : RawEntry) : entryBytes re = entBytes (toEntM re) := rfl

theorem dirEntriesBytes_eq (res : List RawEntry) : dirEntriesBytes res = entsBytes (res.map toEntM) := by
  induction res with
  | nil => rfl
  | cons re rs ih => simp only [dirEntriesBytes, List.map_cons, entsBytes, ih, entryBytes_eq]

/-- what the payload phase of the reader checks -/
def AdrFacts (C : Crypto) (chk : Bool) (key : Bytes) : Nat → List RawEntry → Prop
  | _, [] => True
  | pos, re :: rs => re.adr = pos ∧ (chk = true → C.mac key none re.payload = .ok re.pmac) ∧
      AdrFacts C chk key (pos + re.payload.length) rs

theorem readComps_sound (C : Crypto) (chk : Bool) (key : Bytes) (l : List EntM) (pos : Nat) (bs : Bytes)
    (comps : List Comp) (rest : Bytes)
    (h : readComps C chk key (l.map Prod.fst) pos bs = .ok (comps, rest)) :
    ∃ res : List RawEntry, res.map toEntM = l ∧ bs = payloads res ++ rest ∧ AdrFacts C chk key pos res ∧
      compsOf C key res = .ok comps := by
  induction l generalizing pos bs comps with
  | nil =>
    simp [readComps] at h
    obtain ⟨rfl, rfl⟩ := h
    exact ⟨[], rfl, rfl, trivial, rfl⟩
  | cons p l' ih =>
    obtain ⟨ent, em⟩ := p
    simp only [List.map_cons, readComps] at h
    by_cases hadr : (ent.adr != pos) = true
    · simp [hadr, throw, throwThe, MonadExceptOf.throw, bind, Except.bind] at h
    · simp only [hadr, Bool.false_eq_true, if_false, pure, Except.pure, bind, Except.bind] at h
      have hadr' : ent.adr = pos := by simpa using hadr
      cases ht : take ent.total bs with
      | error err => simp [ht] at h
      | ok v =>
        obtain ⟨payload, r⟩ := v
        simp only [ht] at h
        obtain ⟨rfl, hpl⟩ := take_ok ht
        let re : RawEntry := { adr := ent.adr, declared := ent.declared, pmac := ent.pmac, desc := ent.desc,
                               emac := em, payload := payload }
        have hre : toEntM re = (ent, em) := by
          simp only [toEntM, re, hpl]
        -- split on every scrutinee first, then let simp evaluate the hypothesis
        have hmac : chk = true → C.mac key none payload = .ok ent.pmac := by
          intro hc
          subst hc
          simp only [if_true] at h
          cases hm : cmac C payload key none with
          | error err => simp [hm] at h
          | ok m =>
            simp only [hm] at h
            by_cases hne : (m != ent.pmac) = true
            · simp [hne, throw, throwThe, MonadExceptOf.throw] at h
            · have : m = ent.pmac := by simpa using hne
              subst this
              exact hm
        cases hrec : readComps C chk key (List.map Prod.fst l') (pos + ent.total) r with
        | error err =>
          exfalso
          cases chk <;> (try cases hm : cmac C payload key none) <;>
            (try by_cases hne : (_ != ent.pmac) = true) <;>
            by_cases hcond : (List.lookup Gen.BF3TAG_ENC ent.desc == some sessionKeyEnc) = true <;>
            cases hdec : C.decrypt key none payload <;>
            simp_all [throw, throwThe, MonadExceptOf.throw] <;> (try (split at h <;> simp_all))
        | ok v =>
          obtain ⟨cs, rr⟩ := v
          obtain ⟨res', hmap, hbs, hfacts, hcs⟩ := ih (pos + ent.total) r cs (by
            have : rr = rest := by
              cases chk <;> (try cases hm : cmac C payload key none) <;>
                (try by_cases hne : (_ != ent.pmac) = true) <;>
                by_cases hcond : (List.lookup Gen.BF3TAG_ENC ent.desc == some sessionKeyEnc) = true <;>
                cases hdec : C.decrypt key none payload <;>
                simp_all [throw, throwThe, MonadExceptOf.throw] <;> (try (split at h <;> simp_all))
            rw [← this]; exact hrec)
          have hcomp : ∃ comp, compOf C key re = .ok comp ∧ comps = comp :: cs := by
            simp only [compOf, re, bind, Except.bind, pure, Except.pure]
            cases chk <;> (try cases hm : cmac C payload key none) <;>
              (try by_cases hne : (_ != ent.pmac) = true) <;>
              by_cases hcond : (List.lookup Gen.BF3TAG_ENC ent.desc == some sessionKeyEnc) = true <;>
              cases hdec : C.decrypt key none payload <;>
              simp_all [throw, throwThe, MonadExceptOf.throw] <;> (try (split at h <;> simp_all))
          obtain ⟨comp, hc, rfl⟩ := hcomp
          refine ⟨re :: res', by simp [hre, hmap], ?_, ⟨hadr', hmac, by simpa [re, hpl] using hfacts⟩, ?_⟩
          · simp only [payloads, re, hbs, List.append_assoc]
          · simp [compsOf, hc, hcs, bind, Except.bind, pure, Except.pure]

theorem entriesWF_of_facts (C : Crypto) (chk : Bool) (key : Bytes) (i adr : Nat) (res : List RawEntry)
    (h1 : EntsFacts C chk key (1 + i) (res.map toEntM)) (h2 : AdrFacts C chk key adr res) :
    EntriesWF C chk key i adr res := by
  induction res generalizing i adr with
  | nil => trivial
  | cons re rs ih =>
    obtain ⟨hf, hlen, hrest⟩ := h1
    obtain ⟨ha, hm, hr⟩ := h2
    refine ⟨?_, ih (i + 1) _ (by rw [show 1 + (i + 1) = 1 + i + 1 by omega]; exact hrest) hr⟩
    exact { adrEq := ha, adrLt := hf.adrLt, storedLt := hf.totalLt, declLe := hf.declLe,
            pmacLen := hf.pmacLen, emacLen := hf.emacLen, tagsLt := hf.tagsLt, tagsNodup := hf.tagsNodup,
            descLt := hf.descLt, entryLt := hlen, emacOk := hf.emacOk, pmacOk := hm }

/-- **soundness of the reader**: whatever `from_binary` accepts is a well-formed, authentic body,
and the returned components are what its fields say -/
theorem fromBinary_sound (C : Crypto) (chk : Bool) (key : Bytes) (pos : Nat) (bin : Bytes) (comps : List Comp)
    (h : fromBinary C chk key pos bin = .ok comps) :
    ∃ es, WellFormed C chk key pos bin es ∧ compsOf C key es = .ok comps := by
  simp only [fromBinary, dirFromBinary, Except.bind_eq_ok] at h
  obtain ⟨⟨ents, r, used⟩, ⟨⟨size, r1⟩, hsz, ⟨dir, r2⟩, hdir, ⟨len, d1⟩, hlen, ents', hpe, hp1⟩,
    ⟨cs, r'⟩, hrc, _, heof, hp2⟩ := h
  simp only [pure, Except.pure, Except.ok.injEq, Prod.mk.injEq] at hp1 hp2
  obtain ⟨rfl, rfl, rfl⟩ := hp1
  subst hp2
  obtain ⟨rfl, hsize⟩ := readInt_ok hsz
  obtain ⟨rfl, hdl⟩ := take_ok hdir
  obtain ⟨rfl, hl⟩ := readInt_ok hlen
  have := ensureEof_ok heof
  subst this
  obtain ⟨l, hmap, hbytes, hfacts⟩ := parseEntries_sound C chk key _ 1 len d1 ents' hpe (by simpa using hl)
  subst hmap
  obtain ⟨res, hres, hbs, hadr, hcomps⟩ := readComps_sound C chk key l _ _ cs [] hrc
  subst hres
  simp only [List.append_nil] at hbs hadr hdl
  subst hbs
  have hdirb : dirBytes res = toBE 1 len ++ d1 := by
    simp only [dirBytes, dirEntriesBytes_eq, hbytes]
  refine ⟨res, ⟨?_, ?_, ?_⟩, hcomps⟩
  · simp only [bodyBytes, hdirb, hdl, List.append_assoc]
  · rw [hdirb, hdl]; exact hsize
  · apply entriesWF_of_facts C chk key 0 _ res (by simpa using hfacts)
    rw [hdirb, hdl]
    simpa [Nat.add_assoc] using hadr

/-! ### completeness: a well-formed authentic body is accepted -/

theorem parseEntry_complete (C : Crypto) (chk : Bool) (key : Bytes) (i adr : Nat) (re : RawEntry)
    (hwf : EntryWF C chk key i adr re) :
    parseEntry C chk key (1 + i) (entryBytes re) = .ok ((toEntM re).1, []) := by
  have htl := tlvEntries_of_tagsLt re.desc hwf.tagsLt
  have hdesc := parseDesc_tlv re.desc (tlvBytes re.desc) [] (tlvBytes re.desc).length htl
    (tlv_len_ge _ _ htl) (by simpa using hwf.tagsNodup)
  have hnlt : ¬ (re.payload.length < re.declared) := by have := hwf.declLe; omega
  have hdl : (tlvBytes re.desc).length < 256 ^ 1 := by simpa using hwf.descLt
  have htake : (entryBody re ++ re.emac).take ((entryBody re ++ re.emac).length - Gen.CMAC_SIZE) = entryBody re := by
    rw [List.length_append, hwf.emacLen, Nat.add_sub_cancel, List.take_left']
    rfl
  unfold parseEntry
  simp only [entryBytes] at htake ⊢
  simp only [entryBody, List.append_assoc] at htake ⊢
  rw [readInt_toBE 4 re.adr _ hwf.adrLt]
  simp only [bind, Except.bind]
  rw [readInt_toBE 4 re.payload.length _ hwf.storedLt]
  simp only []
  have hdeclt : re.declared < 256 ^ 4 := by have := hwf.declLe; have := hwf.storedLt; omega
  rw [readInt_toBE 4 re.declared _ hdeclt]
  simp only [hnlt, if_false]
  rw [take_append' re.pmac _ hwf.pmacLen]
  simp only []
  rw [readInt_toBE 1 _ _ hdl]
  simp only [take_append, List.nil_append] at hdesc ⊢
  rw [hdesc]
  simp only []
  rw [take_all re.emac hwf.emacLen]
  simp only [htake]
  cases chk with
  | false => simp [pure, Except.pure, toEntM]
  | true =>
    have hem := hwf.emacOk rfl
    simp only [entryBody, List.append_assoc] at hem
    simp only [cmac]
    simp [hem, pure, Except.pure, toEntM]

theorem entryBytes_pos (re : RawEntry) : 0 < (entryBytes re).length := by
  simp only [entryBytes, entryBody, List.length_append, toBE_length]; omega

theorem parseEntries_complete (C : Crypto) (chk : Bool) (key : Bytes) (i adr : Nat) (es : List RawEntry)
    (fuel : Nat) (hwf : EntriesWF C chk key i adr es) (hfuel : es.length + 1 ≤ fuel) :
    ∃ len dir, dirBytes es = toBE 1 len ++ dir ∧ len < 256 ∧
      parseEntries C chk key fuel (1 + i) len dir = .ok (es.map (fun re => (toEntM re).1)) := by
  induction es generalizing i adr fuel with
  | nil =>
    refine ⟨0, [], rfl, by omega, ?_⟩
    cases fuel with
    | zero => simp at hfuel
    | succ f => simp [parseEntries, ensureEof, bind, Except.bind, pure, Except.pure]
  | cons re rs ih =>
    obtain ⟨hre, hrs⟩ := hwf
    cases fuel with
    | zero => simp at hfuel
    | succ f =>
      obtain ⟨len', dir', hsplit, hlen', hrec⟩ := ih (i + 1) _ f hrs (by simp at hfuel; omega)
      refine ⟨(entryBytes re).length, entryBytes re ++ dirBytes rs, by simp [dirBytes, dirEntriesBytes],
        hre.entryLt, ?_⟩
      have hne : ¬ ((entryBytes re).length = 0) := by have := entryBytes_pos re; omega
      have h1 : 1 + i + 1 = 1 + (i + 1) := by omega
      simp only [parseEntries, hne, if_false, take_append, bind, Except.bind,
        parseEntry_complete C chk key i adr re hre, hsplit, readInt1 len' dir' hlen', ensureEof,
        List.isEmpty_nil, if_true, h1, hrec, pure, Except.pure, List.map_cons]

theorem readComps_complete (C : Crypto) (chk : Bool) (key : Bytes) (i adr : Nat) (es : List RawEntry)
    (tail : Bytes) (hwf : EntriesWF C chk key i adr es) :
    readComps C chk key (es.map (fun re => (toEntM re).1)) adr (payloads es ++ tail) =
      (compsOf C key es).map (fun cs => (cs, tail)) := by
  induction es generalizing i adr with
  | nil => simp [readComps, payloads, compsOf, Except.map]
  | cons re rs ih =>
    obtain ⟨hre, hrs⟩ := hwf
    have ih' := ih (i + 1) _ hrs
    have hadr : (re.adr != adr) = false := by simp [hre.adrEq]
    simp only [List.map_cons, readComps, toEntM, hadr, Bool.false_eq_true, if_false, payloads,
      List.append_assoc, take_append, bind, Except.bind, pure, Except.pure, compsOf, compOf]
    simp only [toEntM] at ih'
    rw [hre.adrEq, ih']
    cases chk with
    | false =>
      simp only [Bool.false_eq_true, if_false]
      split <;> (try cases C.decrypt key none re.payload) <;> cases compsOf C key rs <;> simp [Except.map]
    | true =>
      have hpm := hre.pmacOk rfl
      simp only [cmac, hpm, if_true, bne_self_eq_false, Bool.false_eq_true, if_false]
      split <;> (try cases C.decrypt key none re.payload) <;> cases compsOf C key rs <;> simp [Except.map]

/-- **completeness of the reader** -/
theorem fromBinary_complete (C : Crypto) (chk : Bool) (key : Bytes) (pos : Nat) (bin : Bytes)
    (es : List RawEntry) (hwf : WellFormed C chk key pos bin es) :
    fromBinary C chk key pos bin = compsOf C key es := by
  obtain ⟨rfl, hsz, hents⟩ := hwf
  have hlenge : es.length + 1 ≤ (dirBytes es).length + 1 := by
    have : es.length ≤ (dirEntriesBytes es).length := by
      clear hents hsz
      induction es with
      | nil => simp
      | cons re rs ih =>
        have := entryBytes_pos re
        simp only [dirEntriesBytes, List.length_append, List.length_cons, toBE_length]; omega
    simp only [dirBytes, List.length_append, List.length_cons, List.length_nil]; omega
  obtain ⟨len, dir, hsplit, hlen, hparse⟩ :=
    parseEntries_complete C chk key 0 _ es ((dirBytes es).length + 1) hents hlenge
  have hrc := readComps_complete C chk key 0 _ es [] hents
  simp only [List.append_nil] at hrc
  unfold fromBinary dirFromBinary
  simp only [bodyBytes, List.append_assoc]
  rw [readInt_toBE 4 _ _ hsz]
  simp only [bind, Except.bind]
  rw [take_append (dirBytes es) (payloads es)]
  simp only []
  rw [hsplit, readInt1 len dir hlen]
  simp only [← hsplit]
  simp only [Nat.add_zero] at hparse
  rw [hparse]
  simp only [pure, Except.pure]
  rw [show pos + (4 + (dirBytes es).length) = pos + 4 + (dirBytes es).length by omega, hrc]
  cases compsOf C key es <;> simp [Except.map, ensureEof]

/-- **C05**: the reader accepts a binary exactly when it is well-formed and authentic, and then
returns the components the fields denote -/
theorem fromBinary_ok_iff (C : Crypto) (chk : Bool) (key : Bytes) (pos : Nat) (bin : Bytes) (comps : List Comp) :
    fromBinary C chk key pos bin = .ok comps ↔
      ∃ es, WellFormed C chk key pos bin es ∧ compsOf C key es = .ok comps := by
  constructor
  · exact fromBinary_sound C chk key pos bin comps
  · rintro ⟨es, hwf, hc⟩
    rw [fromBinary_complete C chk key pos bin es hwf, hc]
end Bec2Verif.Bf3
