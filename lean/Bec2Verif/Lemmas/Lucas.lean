import Mathlib.NumberTheory.LucasPrimality
import Mathlib.Data.ZMod.Basic
import Mathlib.Algebra.BigOperators.Group.List.Basic
/-!
Primality certificates (Lucas / Pratt) that the kernel can check: modular exponentiation by squaring on `Nat`, its
correctness, and `lucas_cert`: `a^(p-1) ≡ 1` and `a^((p-1)/q) ≢ 1` for every prime `q` of a given factorisation of `p − 1`.
-/
namespace Bec2Verif.Lucas

/-- `b^e mod m` by squaring (`fuel` ≥ bit length of `e`) -/
def pm (b m : Nat) : Nat → Nat → Nat
  | 0, _ => 1 % m
  | f+1, e =>
    if e = 0 then 1 % m else
    let h := pm b m f (e / 2)
    let s := h * h % m
    if e % 2 = 1 then s * b % m else s

theorem pm_spec (b m : Nat) (f e : Nat) (he : e < 2 ^ f) : pm b m f e = b ^ e % m := by
  induction f generalizing e with
  | zero =>
    have : e = 0 := by simpa using he
    subst this; simp [pm]
  | succ f ih =>
    unfold pm
    by_cases h0 : e = 0
    · subst h0; simp
    · simp only [h0, if_false]
      have hh := ih (e / 2) (by rw [pow_succ] at he; omega)
      rw [hh]
      have hdecomp : e = 2 * (e / 2) + e % 2 := (Nat.div_add_mod e 2).symm
      generalize hx : b ^ (e / 2) = x
      by_cases hodd : e % 2 = 1
      · simp only [hodd, if_true]
        have hpow : b ^ e = x * x * b := by
          conv_lhs => rw [hdecomp, hodd, pow_succ, pow_mul, sq, mul_pow]
          rw [hx]
        rw [hpow, Nat.mul_mod (x * x) b m, Nat.mul_mod x x m, Nat.mul_mod ((x % m) * (x % m) % m) b m, Nat.mod_mod]
      · have hev : e % 2 = 0 := by omega
        simp only [hodd, if_false]
        have hpow : b ^ e = x * x := by
          conv_lhs => rw [hdecomp, hev, add_zero, pow_mul, sq, mul_pow]
          rw [hx]
        rw [hpow, Nat.mul_mod x x m]

theorem zmod_pow_eq_one_iff (p a e : ℕ) (hp : 1 < p) : ((a : ZMod p) ^ e = 1) ↔ a ^ e % p = 1 := by
  have : ((a : ZMod p) ^ e) = ((a ^ e : ℕ) : ZMod p) := by push_cast; rfl
  rw [this]
  have h1 : (1 : ZMod p) = ((1 : ℕ) : ZMod p) := by simp
  rw [h1, ZMod.natCast_eq_natCast_iff', Nat.mod_eq_of_lt hp]

/-- every prime divisor of a product of prime powers is one of the primes -/
theorem prime_dvd_prod_pow (qs : List (ℕ × ℕ)) (hq : ∀ x ∈ qs, x.1.Prime) (q : ℕ) (hqp : q.Prime)
    (h : q ∣ (qs.map (fun x => x.1 ^ x.2)).prod) : q ∈ qs.map Prod.fst := by
  induction qs with
  | nil => simp at h; exact absurd h hqp.one_lt.ne'
  | cons x xs ih =>
    simp only [List.map_cons, List.prod_cons] at h
    rcases (Nat.Prime.dvd_mul hqp).mp h with h1 | h1
    · have := Nat.Prime.dvd_of_dvd_pow hqp h1
      have := (Nat.prime_dvd_prime_iff_eq hqp (hq x (by simp))).mp this
      simp [this]
    · have := ih (fun y hy => hq y (by simp [hy])) h1
      simp only [List.map_cons, List.mem_cons]
      right; exact this

/-- **Lucas certificate**: `p − 1 = ∏ qᵢ^eᵢ` with all `qᵢ` prime, `a^(p−1) ≡ 1` and `a^((p−1)/qᵢ) ≢ 1 (mod p)` -/
theorem lucas_cert (p a : ℕ) (qs : List (ℕ × ℕ)) (fuel : ℕ) (hp : 1 < p) (hfuel : p < 2 ^ fuel)
    (hq : ∀ x ∈ qs, x.1.Prime) (hfac : p - 1 = (qs.map (fun x => x.1 ^ x.2)).prod)
    (h1 : pm a p fuel (p - 1) = 1)
    (h2 : qs.all (fun x => pm a p fuel ((p - 1) / x.1) != 1) = true) : p.Prime := by
  apply lucas_primality p (a : ZMod p)
  · rw [zmod_pow_eq_one_iff p a _ hp, ← pm_spec a p fuel (p - 1) (by omega)]
    exact h1
  · intro q hqp hdvd
    rw [hfac] at hdvd
    have hmem := prime_dvd_prod_pow qs hq q hqp hdvd
    obtain ⟨x, hx, rfl⟩ := List.mem_map.mp hmem
    have := List.all_eq_true.mp h2 x hx
    rw [Ne, zmod_pow_eq_one_iff p a _ hp, ← pm_spec a p fuel _ (by
      have : (p - 1) / x.1 ≤ p - 1 := Nat.div_le_self _ _
      omega)]
    simpa using this

end Bec2Verif.Lucas
