import Bec2Verif.Lemmas.Codec
import Bec2Verif.Model.KeyDer
/-!
Private keys of NIST P-256 in SEC1 (`ssleay`) and PKCS #8 form decode to the secret they encode
(`SigningKey.from_der ∘ to_der`), for every 32-byte secret in range and any embedded public-key string.
-/
set_option linter.unusedVariables false
namespace Bec2Verif.KeyDer
open Bec2Verif Der PointCodec

theorem beBytes_len2 (n : Nat) (h : n < 65536) : (beBytes n).length ≤ 2 := by
  unfold beBytes
  by_cases h1 : n < 256
  · unfold beAux
    simp [h1]
  · have hn : n + 1 = (n - 1) + 1 + 1 := by omega
    rw [hn]
    unfold beAux
    simp only [h1, if_false]
    unfold beAux
    have : n / 256 < 256 := by omega
    simp [this]

theorem encodable_lt (n : Nat) (h : n < 65536) : Encodable n := by
  unfold Encodable
  have := beBytes_len2 n h
  omega

theorem encodeLength_len (n : Nat) (h : n < 65536) : (encodeLength n).length ≤ 3 := by
  unfold encodeLength
  split
  · simp
  · simp only [List.length_cons]
    have := beBytes_len2 n h
    omega

theorem len_oct (b : Bytes) (h : b.length < 65536) : (encodeOctetString b).length ≤ 4 + b.length := by
  have := encodeLength_len b.length h
  simp only [encodeOctetString, List.length_cons, List.length_append]; omega

theorem len_cons (t : Nat) (v : Bytes) (h : v.length < 65536) : (encodeConstructed t v).length ≤ 4 + v.length := by
  have := encodeLength_len v.length h
  simp only [encodeConstructed, List.length_cons, List.length_append]; omega

theorem len_bit (v : Bytes) (h : v.length + 1 < 65536) : (encodeBitstring0 v).length ≤ 5 + v.length := by
  have := encodeLength_len (v.length + 1) h
  simp only [encodeBitstring0, List.length_cons, List.length_append]; omega

theorem len_seq (ps : List Bytes) (h : ps.flatten.length < 65536) : (encodeSequence ps).length ≤ 4 + ps.flatten.length := by
  have := encodeLength_len ps.flatten.length h
  simp only [encodeSequence, List.length_cons, List.length_append]; omega

theorem enc1 : encodeInteger 1 = [0x02, 0x01, 0x01] := by decide

theorem rmint1 (rest : Bytes) : removeInteger ([0x02, 0x01, 0x01] ++ rest) = .ok (1, rest) := by
  have := removeInteger_encode 1 rest (by decide)
  rwa [enc1] at this

theorem isSeq_oct (b rest : Bytes) : isSequence (encodeOctetString b ++ rest) = false := by
  simp [isSequence, encodeOctetString]

theorem isSeq_seq (ps : List Bytes) (rest : Bytes) : isSequence (encodeSequence ps ++ rest) = true := by
  simp [isSequence, encodeSequence]

theorem find_p256 : findCurve p256oid = some Gen.NIST256p := by rfl

theorem curveFromDer_p256 : curveFromDer (encOid p256oid) = .ok Gen.NIST256p := by
  unfold curveFromDer
  rw [encOid_p256]
  have hseq : isSequence [0x06, 0x08, 0x2A, 0x86, 0x48, 0xCE, 0x3D, 0x03, 0x01, 0x07] = false := by decide
  have h3 := rmobj_p256 []
  simp only [List.append_nil] at h3
  simp only [hseq, Bool.false_eq_true, if_false, h3, bind, Except.bind, List.isEmpty_nil, Bool.not_true, find_p256]

/-- the tail of both formats: OCTET STRING with the secret, then whatever follows -/
theorem secret_tail (priv : Bytes) (hl : priv.length = 32) (h1 : 1 ≤ fromBE priv) (h2 : (fromBE priv : Int) < Gen.NIST256p.n) :
    (let padded := zeros (Gen.NIST256p.baselen - priv.length) ++ priv
     if padded.length != Gen.NIST256p.baselen then (Except.error Err.malformedPoint : Except Err (Gen.CurveRec × Nat)) else
     let secexp := fromBE padded
     if secexp < 1 || (secexp : Int) ≥ Gen.NIST256p.n then .error .malformedPoint else .ok (Gen.NIST256p, secexp)) =
    .ok (Gen.NIST256p, fromBE priv) := by
  have hb : Gen.NIST256p.baselen = 32 := rfl
  simp only [hb, hl, Nat.sub_self, zeros, List.replicate_zero, List.nil_append, bne_self_eq_false, Bool.false_eq_true, if_false]
  have c1 : ¬ (fromBE priv < 1) := by omega
  have c2 : ¬ ((fromBE priv : Int) ≥ Gen.NIST256p.n) := by omega
  simp [c1, c2]

theorem ssleay_roundtrip (priv pub : Bytes) (hl : priv.length = 32) (hp : pub.length ≤ 1000)
    (h1 : 1 ≤ fromBE priv) (h2 : (fromBE priv : Int) < Gen.NIST256p.n) :
    privFromDer (privToDer .ssleay p256oid priv pub) = .ok (Gen.NIST256p, fromBE priv) := by
  unfold privToDer ecPrivateKey privFromDer
  simp only [if_true, List.cons_append, List.nil_append]
  have hflat : [encodeInteger 1, encodeOctetString priv, encodeConstructed 0 (encOid p256oid),
      encodeConstructed 1 (encodeBitstring0 pub)].flatten =
      [0x02, 0x01, 0x01] ++ (encodeOctetString priv ++ (encodeConstructed 0 (encOid p256oid) ++
        (encodeConstructed 1 (encodeBitstring0 pub) ++ []))) := by
    simp [enc1]
  have l1 := len_oct priv (by omega)
  have l2 := len_cons 0 (encOid p256oid) (by rw [encOid_p256]; decide)
  have l2' : (encOid p256oid).length = 10 := by rw [encOid_p256]; rfl
  have l3 := len_bit pub (by omega)
  have l4 := len_cons 1 (encodeBitstring0 pub) (by omega)
  have e1 : Encodable [encodeInteger 1, encodeOctetString priv, encodeConstructed 0 (encOid p256oid),
      encodeConstructed 1 (encodeBitstring0 pub)].flatten.length := by
    apply encodable_lt
    rw [hflat]
    simp only [List.length_append, List.length_cons, List.length_nil]
    omega
  have hs := removeSequence_encode _ [] e1
  simp only [List.append_nil] at hs
  rw [hs]
  simp only [bind, Except.bind, List.isEmpty_nil, Bool.not_true, Bool.false_eq_true, if_false]
  rw [hflat, rmint1]
  simp only [isSeq_oct, Bool.false_eq_true, if_false]
  rw [removeOctetString_encode priv _ (encodable_lt _ (by omega))]
  simp only [bne_self_eq_false, Bool.false_eq_true, if_false]
  rw [removeConstructed_encode 0 (by decide) (encOid p256oid) _ (encodable_lt _ (by omega))]
  simp only [bne_self_eq_false, Bool.false_eq_true, if_false, curveFromDer_p256]
  exact secret_tail priv hl h1 h2

theorem pkcs8_roundtrip (priv pub : Bytes) (hl : priv.length = 32) (hp : pub.length ≤ 1000)
    (h1 : 1 ≤ fromBE priv) (h2 : (fromBE priv : Int) < Gen.NIST256p.n) :
    privFromDer (privToDer .pkcs8 p256oid priv pub) = .ok (Gen.NIST256p, fromBE priv) := by
  unfold privToDer ecPrivateKey privFromDer
  simp only [Bool.false_eq_true, if_false, List.append_nil, List.cons_append, List.nil_append]
  have l1 := len_oct priv (by omega)
  have l3 := len_bit pub (by omega)
  have l4 := len_cons 1 (encodeBitstring0 pub) (by omega)
  have hflat0 : [encodeInteger 1, encodeOctetString priv, encodeConstructed 1 (encodeBitstring0 pub)].flatten =
      [0x02, 0x01, 0x01] ++ (encodeOctetString priv ++ (encodeConstructed 1 (encodeBitstring0 pub) ++ [])) := by
    simp [enc1]
  have hf0len : [encodeInteger 1, encodeOctetString priv, encodeConstructed 1 (encodeBitstring0 pub)].flatten.length ≤ 1100 := by
    rw [hflat0]; simp only [List.length_append, List.length_cons, List.length_nil]; omega
  have l5 := len_seq [encodeInteger 1, encodeOctetString priv, encodeConstructed 1 (encodeBitstring0 pub)] (by omega)
  generalize hinner : encodeSequence [encodeInteger 1, encodeOctetString priv, encodeConstructed 1 (encodeBitstring0 pub)] = inner at l5 ⊢
  have l6 := len_oct inner (by omega)
  have hflat : [encodeInteger 1, encodeSequence [encOid oidEcPublicKey, encOid p256oid], encodeOctetString inner].flatten =
      [0x02, 0x01, 0x01] ++ (encodeSequence [encOid oidEcPublicKey, encOid p256oid] ++ (encodeOctetString inner ++ [])) := by
    simp [enc1]
  have e1 : Encodable [encodeInteger 1, encodeSequence [encOid oidEcPublicKey, encOid p256oid],
      encodeOctetString inner].flatten.length := by
    apply encodable_lt
    rw [hflat, inner_const]
    simp only [List.length_append, List.length_cons, List.length_nil]
    omega
  have hs := removeSequence_encode _ [] e1
  simp only [List.append_nil] at hs
  rw [hs]
  simp only [bind, Except.bind, List.isEmpty_nil, Bool.not_true, Bool.false_eq_true, if_false]
  rw [hflat, rmint1]
  simp only [isSeq_seq, if_true]
  unfold pkcs8Inner
  have hv : ((1 : Nat) != 0 && (1 : Nat) != 1) = false := by decide
  simp only [hv, Bool.false_eq_true, if_false, bind, Except.bind]
  have e2 : Encodable [encOid oidEcPublicKey, encOid p256oid].flatten.length := by
    apply small_encodable; rw [encOid_ecpk, encOid_p256]; decide
  rw [removeSequence_encode [encOid oidEcPublicKey, encOid p256oid] _ e2]
  simp only [List.flatten_cons, List.flatten_nil, List.append_nil]
  rw [encOid_ecpk, rmobj_ecpk]
  have hno : (oidEcPublicKey == oidEd25519 || oidEcPublicKey == oidEd448) = false := by decide
  have hyes : (!(oidEcPublicKey == oidEcPublicKey || oidEcPublicKey == oidEcDH || oidEcPublicKey == oidEcMQV)) = false := by decide
  simp only [hno, hyes, Bool.false_eq_true, if_false, curveFromDer_p256]
  have ho := removeOctetString_encode inner [] (encodable_lt _ (by omega))
  simp only [List.append_nil] at ho
  rw [ho]
  simp only
  rw [← hinner]
  have hs2 := removeSequence_encode [encodeInteger 1, encodeOctetString priv, encodeConstructed 1 (encodeBitstring0 pub)] []
    (encodable_lt _ (by omega))
  simp only [List.append_nil] at hs2
  rw [hs2]
  simp only [List.isEmpty_nil, Bool.not_true, Bool.false_eq_true, if_false]
  rw [hflat0, rmint1]
  simp only [bne_self_eq_false, Bool.false_eq_true, if_false]
  rw [removeOctetString_encode priv _ (encodable_lt _ (by omega))]
  simp only
  exact secret_tail priv hl h1 h2

end Bec2Verif.KeyDer
