import Bec2Verif.Lemmas.Cbc
/-!
The CBC-MAC of the adapter (`encrypt(data)[-16:]` of zero-padded CBC) over an invertible block cipher cannot collide on two
messages of equal length that differ in ONE 16-byte block - in particular not on a message and its copy with one byte
replaced: the chaining values differ from the changed block on, because each step is injective in the chaining value.
-/
namespace Bec2Verif

/-- the chaining value after the blocks `bl` (= the last ciphertext block when `bl` is not empty) -/
def cbcState (B : BlockCipher) (k : B.K) (prev : Bytes) (bl : List Bytes) : Bytes :=
  bl.foldl (fun s b => B.enc k (xorBytes b s)) prev

theorem xorBytes_comm (a b : Bytes) : xorBytes a b = xorBytes b a := by
  induction a generalizing b with
  | nil => cases b <;> simp [xorBytes]
  | cons x xs ih =>
    cases b with
    | nil => simp [xorBytes]
    | cons y ys =>
      have := ih ys
      simp only [xorBytes, List.zipWith_cons_cons] at this ⊢
      rw [this, UInt8.xor_comm]

theorem xorBytes_inj_right (b s s' : Bytes) (hs : s.length = b.length) (hs' : s'.length = b.length)
    (h : xorBytes b s = xorBytes b s') : s = s' := by
  have h1 := xorBytes_cancel s b hs
  have h2 := xorBytes_cancel s' b hs'
  rw [xorBytes_comm s b, h, xorBytes_comm b s', h2] at h1
  exact h1.symm

theorem xorBytes_inj_left (b b' s : Bytes) (hb : b.length = s.length) (hb' : b'.length = s.length)
    (h : xorBytes b s = xorBytes b' s) : b = b' := by
  have h1 := xorBytes_cancel b s hb
  have h2 := xorBytes_cancel b' s hb'
  rw [h, h2] at h1
  exact h1.symm

theorem enc_inj (B : BlockCipher) (hB : BlockInv B) (key : Bytes) (k : B.K) (hk : B.sched key = .ok k) (x y : Bytes)
    (hx : x.length = 16) (hy : y.length = 16) (h : B.enc k x = B.enc k y) : x = y := by
  have := congrArg (B.dec k) h
  rwa [hB.inv key k x hk hx, hB.inv key k y hk hy] at this

theorem cbcState_len (B : BlockCipher) (hB : BlockInv B) (k : B.K) (prev : Bytes) (hp : prev.length = 16) (bl : List Bytes) :
    (cbcState B k prev bl).length = 16 := by
  induction bl generalizing prev with
  | nil => exact hp
  | cons b bs ih => exact ih _ (hB.encLen _ _)

theorem cbcState_append (B : BlockCipher) (k : B.K) (prev : Bytes) (a c : List Bytes) :
    cbcState B k prev (a ++ c) = cbcState B k (cbcState B k prev a) c := by
  simp [cbcState, List.foldl_append]

/-- different chaining values stay different -/
theorem cbcState_ne (B : BlockCipher) (hB : BlockInv B) (key : Bytes) (k : B.K) (hk : B.sched key = .ok k) (s s' : Bytes)
    (hs : s.length = 16) (hs' : s'.length = 16) (hne : s ≠ s') (c : List Bytes) (hc : ∀ b ∈ c, b.length = 16) :
    cbcState B k s c ≠ cbcState B k s' c := by
  induction c generalizing s s' with
  | nil => exact hne
  | cons b bs ih =>
    have hb : b.length = 16 := hc b (by simp)
    refine ih _ _ (hB.encLen _ _) (hB.encLen _ _) ?_ (fun x hx => hc x (by simp [hx]))
    intro h
    have h1 := enc_inj B hB key k hk _ _ (by rw [xorBytes_length]; omega) (by rw [xorBytes_length]; omega) h
    exact hne (xorBytes_inj_right b s s' (by omega) (by omega) h1)

/-- **one changed block changes the final chaining value** -/
theorem cbcState_one_block (B : BlockCipher) (hB : BlockInv B) (key : Bytes) (k : B.K) (hk : B.sched key = .ok k)
    (prev : Bytes) (hp : prev.length = 16) (a : List Bytes) (b b' : Bytes) (c : List Bytes)
    (hb : b.length = 16) (hb' : b'.length = 16) (hc : ∀ x ∈ c, x.length = 16) (hne : b ≠ b') :
    cbcState B k prev (a ++ b :: c) ≠ cbcState B k prev (a ++ b' :: c) := by
  rw [cbcState_append, cbcState_append]
  have hs := cbcState_len B hB k prev hp a
  generalize cbcState B k prev a = s at hs
  show cbcState B k (B.enc k (xorBytes b s)) c ≠ cbcState B k (B.enc k (xorBytes b' s)) c
  refine cbcState_ne B hB key k hk _ _ (hB.encLen _ _) (hB.encLen _ _) ?_ c hc
  intro h
  have h1 := enc_inj B hB key k hk _ _ (by rw [xorBytes_length]; omega) (by rw [xorBytes_length]; omega) h
  exact hne (xorBytes_inj_left b b' s (by omega) (by omega) h1)

/-- the last 16 bytes of the CBC ciphertext are the final chaining value -/
theorem cbcEnc_last (B : BlockCipher) (hB : BlockInv B) (k : B.K) (prev : Bytes) (bl : List Bytes) (hne : bl ≠ []) :
    (cbcEncBlocks B k prev bl).flatten.drop ((cbcEncBlocks B k prev bl).flatten.length - 16) = cbcState B k prev bl := by
  induction bl generalizing prev with
  | nil => exact absurd rfl hne
  | cons b bs ih =>
    cases bs with
    | nil =>
      simp only [cbcEncBlocks, List.flatten_cons, List.flatten_nil, List.append_nil, cbcState, List.foldl_cons, List.foldl_nil]
      rw [hB.encLen]
      rfl
    | cons b2 rest =>
      have ih' := ih (B.enc k (xorBytes b prev)) (by simp)
      have e : cbcEncBlocks B k prev (b :: b2 :: rest) =
          B.enc k (xorBytes b prev) :: cbcEncBlocks B k (B.enc k (xorBytes b prev)) (b2 :: rest) := rfl
      have es : cbcState B k prev (b :: b2 :: rest) = cbcState B k (B.enc k (xorBytes b prev)) (b2 :: rest) := rfl
      rw [e, es, List.flatten_cons, List.length_append]
      generalize hT : (cbcEncBlocks B k (B.enc k (xorBytes b prev)) (b2 :: rest)).flatten = T at ih' ⊢
      have hl : 16 ≤ T.length := by
        rw [← hT]
        simp only [cbcEncBlocks, List.flatten_cons, List.length_append, hB.encLen]; omega
      have hc1 : (B.enc k (xorBytes b prev)).length = 16 := hB.encLen _ _
      rw [show (B.enc k (xorBytes b prev)).length + T.length - 16 =
        (B.enc k (xorBytes b prev)).length + (T.length - 16) by omega, List.drop_length_add_append]
      exact ih'

theorem chunks_append_aligned (a r : Bytes) (ha : 16 ∣ a.length) (hr : 16 ∣ r.length) :
    chunks 16 (a ++ r) = chunks 16 a ++ chunks 16 r := by
  have h1 := chunks_flatten 16 a (by omega)
  have h2 := chunks_flatten 16 r (by omega)
  have l1 := chunks_all_len 16 a (by omega) ha
  have l2 := chunks_all_len 16 r (by omega) hr
  conv => lhs; rw [← h1, ← h2, ← List.flatten_append]
  exact chunks_of_blocks _ (fun b hb => by
    rcases List.mem_append.mp hb with h | h
    · exact l1 b h
    · exact l2 b h)

theorem chunks_single (b : Bytes) (hb : b.length = 16) : chunks 16 b = [b] := by
  have := chunks_of_blocks [b] (by simp [hb])
  simpa using this

theorem zeroPad_ne_nil (d : Bytes) (hd : d.length ≠ 0) : (zeroPad d).length ≠ 0 := by
  unfold zeroPad
  simp only [List.length_append]
  omega

/-- the MAC in terms of the chaining value -/
theorem adapter_mac_unfold (B : BlockCipher) (hB : BlockInv B) (key : Bytes) (iv : Option Bytes) (d : Bytes) (hd : d.length ≠ 0)
    (k : B.K) (ivb : Bytes) (hm : Adapter.mkMode B key iv = .ok (k, ivb)) :
    Adapter.mac B key iv d = .ok (cbcState B k ivb (chunks 16 (zeroPad d))) := by
  have hz := zeroPad_ne_nil d hd
  have hmod := zeroPad_len_mod d
  have hfeed : Adapter.feedAll (zeroPad d) = .ok (chunks 16 (zeroPad d)) := by
    unfold Adapter.feedAll
    rw [if_neg (by omega)]
  have hne : chunks 16 (zeroPad d) ≠ [] := by
    intro h
    have := chunks_flatten 16 (zeroPad d) (by omega)
    rw [h] at this
    simp only [List.flatten_nil] at this
    rw [← this] at hz
    exact hz rfl
  simp only [Adapter.mac, Adapter.encrypt, if_neg hd, hm, hfeed, bind, Except.bind, pure, Except.pure]
  rw [cbcEnc_last B hB k ivb _ hne]

theorem mkMode_facts (B : BlockCipher) (key : Bytes) (iv : Option Bytes) (k : B.K) (ivb : Bytes)
    (h : Adapter.mkMode B key iv = .ok (k, ivb)) : B.sched key = .ok k ∧ ivb.length = 16 := by
  unfold Adapter.mkMode at h
  cases iv with
  | none =>
    simp only [bind, Except.bind, pure, Except.pure] at h
    cases hs : B.sched key with
    | error e => rw [hs] at h; cases h
    | ok k' =>
      rw [hs] at h
      injection h with h
      injection h with h1 h2
      subst h1 h2
      exact ⟨rfl, by simp [zeros]⟩
  | some v =>
    simp only [bind, Except.bind, pure, Except.pure] at h
    by_cases hv : (v.length != 16) = true
    · rw [if_pos hv] at h; cases h
    · rw [if_neg hv] at h
      cases hs : B.sched key with
      | error e => rw [hs] at h; cases h
      | ok k' =>
        rw [hs] at h
        injection h with h
        injection h with h1 h2
        subst h1 h2
        refine ⟨rfl, ?_⟩
        simpa using hv

/-- **the adapter's MAC does not collide on a message and its copy with one byte replaced** (any key, IV, position and
length), for every block cipher whose decryption inverts its encryption - AES by `aes_blockInv` -/
theorem mac_one_byte (B : BlockCipher) (hB : BlockInv B) (key : Bytes) (iv : Option Bytes) (x y : Bytes) (v v' : UInt8)
    (hne : v ≠ v') (m m' : Bytes) (h : Adapter.mac B key iv (x ++ v :: y) = .ok m)
    (h' : Adapter.mac B key iv (x ++ v' :: y) = .ok m') : m ≠ m' := by
  -- the mode object exists
  have hmode : ∃ k ivb, Adapter.mkMode B key iv = .ok (k, ivb) := by
    cases hmm : Adapter.mkMode B key iv with
    | error e =>
      simp [Adapter.mac, Adapter.encrypt, hmm, bind, Except.bind] at h
    | ok r => exact ⟨r.1, r.2, rfl⟩
  obtain ⟨k, ivb, hm⟩ := hmode
  obtain ⟨hk, hivb⟩ := mkMode_facts B key iv k ivb hm
  rw [adapter_mac_unfold B hB key iv _ (by simp) k ivb hm] at h h'
  injection h with h
  injection h' with h'
  subst h h'
  -- the padded messages
  have hlen : (x ++ v :: y).length = (x ++ v' :: y).length := by simp
  generalize hz : (16 - (x ++ v :: y).length % 16) % 16 = z
  have hz' : (16 - (x ++ v' :: y).length % 16) % 16 = z := by rw [← hlen]; exact hz
  have hP : zeroPad (x ++ v :: y) = x ++ v :: (y ++ zeros z) := by unfold zeroPad; rw [hz]; simp
  have hP' : zeroPad (x ++ v' :: y) = x ++ v' :: (y ++ zeros z) := by unfold zeroPad; rw [hz']; simp
  have hmod : (x ++ v :: (y ++ zeros z)).length % 16 = 0 := by rw [← hP]; exact zeroPad_len_mod _
  rw [hP, hP']
  generalize y ++ zeros z = t at hmod ⊢
  -- cut at the block that holds the changed byte
  have hx := List.take_append_drop (16 * (x.length / 16)) x
  generalize hx1 : x.take (16 * (x.length / 16)) = x1 at hx
  generalize hx2 : x.drop (16 * (x.length / 16)) = x2 at hx
  have lx1 : x1.length = 16 * (x.length / 16) := by
    rw [← hx1, List.length_take]; have := Nat.div_mul_le_self x.length 16; omega
  have lx2 : x2.length = x.length % 16 := by
    rw [← hx2, List.length_drop]; have := Nat.div_add_mod x.length 16; omega
  have ht := List.take_append_drop (15 - x.length % 16) t
  generalize ht1 : t.take (15 - x.length % 16) = t1 at ht
  generalize ht2 : t.drop (15 - x.length % 16) = t2 at ht
  have hxl : x.length = x1.length + x2.length := by rw [← hx]; simp
  have hmod' : (x1.length + x2.length + 1 + t.length) % 16 = 0 := by
    have : (x ++ v :: t).length = x1.length + x2.length + 1 + t.length := by simp [hxl]; omega
    rw [← this]; exact hmod
  have hr : x.length % 16 < 16 := Nat.mod_lt _ (by omega)
  have htl : 15 - x.length % 16 ≤ t.length := by omega
  have lt1 : t1.length = 15 - x.length % 16 := by rw [← ht1, List.length_take]; omega
  have lt2 : t2.length = t.length - (15 - x.length % 16) := by rw [← ht2, List.length_drop]
  have e : ∀ w : UInt8, x ++ w :: t = x1 ++ ((x2 ++ w :: t1) ++ t2) := by
    intro w
    rw [← hx, ← ht]
    simp
  have lb : ∀ w : UInt8, (x2 ++ w :: t1).length = 16 := by
    intro w; simp only [List.length_append, List.length_cons]; omega
  have d1 : 16 ∣ x1.length := ⟨x.length / 16, lx1⟩
  have d2 : 16 ∣ t2.length := by
    apply Nat.dvd_of_mod_eq_zero
    omega
  have hch : ∀ w : UInt8, chunks 16 (x ++ w :: t) = chunks 16 x1 ++ (x2 ++ w :: t1) :: chunks 16 t2 := by
    intro w
    rw [e w, chunks_append_aligned x1 _ d1 (by rw [List.length_append, lb w]; exact Nat.dvd_add (by omega) d2),
      chunks_append_aligned _ t2 (by rw [lb w]; omega) d2, chunks_single _ (lb w)]
    rfl
  rw [hch v, hch v']
  exact cbcState_one_block B hB key k hk ivb hivb (chunks 16 x1) _ _ (chunks 16 t2) (lb v) (lb v')
    (chunks_all_len 16 t2 (by omega) d2) (fun hh => hne (by
      have := List.append_cancel_left hh
      injection this))

end Bec2Verif
