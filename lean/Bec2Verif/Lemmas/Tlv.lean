import Bec2Verif.Spec.TlvGrammar
import Bec2Verif.Lemmas.Bytes
/-! the configuration encoder produces blocks that decode to the sorted operations (C10) -/
namespace Bec2Verif.Tlv
open Bec2Verif Bec2Verif.Spec.TlvGrammar

theorem dec_nil (f : Nat) (cur : Option Nat) : dec f cur [] = some ([], cur) := by
  cases f <;> cases cur <;> rfl

theorem dec_zero_cons (cur : Option Nat) (x : UInt8) (xs : Bytes) : dec 0 cur (x :: xs) = none := rfl

theorem dec_none3 (f : Nat) (t kh kl : UInt8) (r : Bytes) :
    dec (f + 1) none (t :: kh :: kl :: r) =
      if t = 0x02 then (dec f none r).map fun p => (Op.delKey (kh.toNat * 256 + kl.toNat) :: p.1, p.2)
      else if t = 0x01 then dec f (some (kh.toNat * 256 + kl.toNat)) r
      else none := rfl

theorem dec_none1 (f : Nat) (x : UInt8) : dec (f + 1) none [x] = none := rfl
theorem dec_none2 (f : Nat) (x y : UInt8) : dec (f + 1) none [x, y] = none := rfl

theorem dec_some (f k : Nat) (v : UInt8) (r : Bytes) :
    dec (f + 1) (some k) (v :: r) =
      if v = 0xFF then dec f none r else
      match r with
      | [] => none
      | len :: r' =>
        if len = 0xFF then (dec f (some k) r').map fun p => (Op.delVal k v.toNat :: p.1, p.2)
        else if len.toNat ≤ r'.length then
          (dec f (some k) (r'.drop len.toNat)).map fun p => (Op.set k v.toNat (r'.take len.toNat) :: p.1, p.2)
        else none := by
  cases r with
  | nil => simp [dec]
  | cons len r' => simp [dec]

theorem map_some_mono {α β : Type} {x y : Option α} {g : α → β} {r : β}
    (h : x.map g = some r) (hxy : ∀ p, x = some p → y = some p) : y.map g = some r := by
  cases x with
  | none => simp at h
  | some p => rw [hxy p rfl]; exact h

theorem dec_mono (f : Nat) (cur : Option Nat) (a : Bytes) (r : List Op × Option Nat)
    (h : dec f cur a = some r) (f' : Nat) (hf : f ≤ f') : dec f' cur a = some r := by
  induction f generalizing cur a r f' with
  | zero =>
    cases a with
    | nil => rw [dec_nil] at h ⊢; exact h
    | cons x xs => rw [dec_zero_cons] at h; cases h
  | succ f ih =>
    cases f' with
    | zero => omega
    | succ f' =>
      have hf' : f ≤ f' := by omega
      cases a with
      | nil => rw [dec_nil] at h ⊢; exact h
      | cons x xs =>
        cases cur with
        | none =>
          match xs, h with
          | [], h => rw [dec_none1] at h; cases h
          | [_], h => rw [dec_none2] at h; cases h
          | kh :: kl :: r', h =>
            rw [dec_none3] at h ⊢
            split at h
            · rename_i ht
              rw [if_pos ht]
              exact map_some_mono h (fun p hp => ih none r' p hp f' hf')
            · rename_i ht
              rw [if_neg ht]
              split at h
              · rename_i ht2
                rw [if_pos ht2]
                exact ih _ _ _ h f' hf'
              · cases h
        | some k =>
          rw [dec_some] at h ⊢
          split at h
          · rename_i hv
            rw [if_pos hv]
            exact ih _ _ _ h f' hf'
          · rename_i hv
            rw [if_neg hv]
            match xs, h with
            | [], h => cases h
            | len :: r', h =>
              simp only at h ⊢
              split at h
              · rename_i hl
                rw [if_pos hl]
                exact map_some_mono h (fun p hp => ih _ _ p hp f' hf')
              · rename_i hl
                rw [if_neg hl]
                split at h
                · rename_i hle
                  rw [if_pos hle]
                  exact map_some_mono h (fun p hp => ih _ _ p hp f' hf')
                · cases h


theorem map_some_bind {α β : Type} {x : Option α} {g : α → β} {r : β} (h : x.map g = some r) :
    ∃ p, x = some p ∧ g p = r := by
  cases x with
  | none => simp at h
  | some p => exact ⟨p, rfl, by simpa using h⟩

/-- decoding is compositional on fully decoded pieces -/
theorem dec_append (f1 f2 : Nat) (cur : Option Nat) (a b : Bytes) (ops1 ops2 : List Op) (st1 st2 : Option Nat)
    (h1 : dec f1 cur a = some (ops1, st1)) (h2 : dec f2 st1 b = some (ops2, st2)) :
    dec (f1 + f2) cur (a ++ b) = some (ops1 ++ ops2, st2) := by
  induction f1 generalizing cur a ops1 with
  | zero =>
    cases a with
    | nil =>
      rw [dec_nil] at h1
      injection h1 with h1; simp only [Prod.mk.injEq] at h1
      obtain ⟨rfl, rfl⟩ := h1
      simpa using dec_mono _ _ _ _ h2 _ (by omega)
    | cons x xs => rw [dec_zero_cons] at h1; cases h1
  | succ f ih =>
    cases a with
    | nil =>
      rw [dec_nil] at h1
      injection h1 with h1; simp only [Prod.mk.injEq] at h1
      obtain ⟨rfl, rfl⟩ := h1
      simpa using dec_mono _ _ _ _ h2 _ (by omega)
    | cons x xs =>
      have hfe : f + 1 + f2 = (f + f2) + 1 := by omega
      rw [hfe]
      cases cur with
      | none =>
        match xs, h1 with
        | [], h1 => rw [dec_none1] at h1; cases h1
        | [_], h1 => rw [dec_none2] at h1; cases h1
        | kh :: kl :: r', h1 =>
          rw [dec_none3] at h1
          simp only [List.cons_append]
          rw [dec_none3]
          split at h1
          · rename_i ht
            rw [if_pos ht]
            obtain ⟨p, hp, hr⟩ := map_some_bind h1
            simp only [Prod.mk.injEq] at hr
            obtain ⟨rfl, rfl⟩ := hr
            rw [ih none r' p.1 (by rw [hp])]
            simp
          · rename_i ht
            rw [if_neg ht]
            split at h1
            · rename_i ht2
              rw [if_pos ht2]
              exact ih _ _ _ h1
            · cases h1
      | some k =>
        rw [dec_some] at h1
        simp only [List.cons_append]
        rw [dec_some]
        split at h1
        · rename_i hv
          rw [if_pos hv]
          exact ih _ _ _ h1
        · rename_i hv
          rw [if_neg hv]
          match xs, h1 with
          | [], h1 => cases h1
          | len :: r', h1 =>
            simp only [List.cons_append] at h1 ⊢
            split at h1
            · rename_i hl
              rw [if_pos hl]
              obtain ⟨p, hp, hr⟩ := map_some_bind h1
              simp only [Prod.mk.injEq] at hr
              obtain ⟨rfl, rfl⟩ := hr
              rw [ih (some k) r' p.1 (by rw [hp])]
              simp
            · rename_i hl
              rw [if_neg hl]
              split at h1
              · rename_i hle
                have hle2 : len.toNat ≤ (r' ++ b).length := by simp only [List.length_append]; omega
                rw [if_pos hle2]
                obtain ⟨p, hp, hr⟩ := map_some_bind h1
                simp only [Prod.mk.injEq] at hr
                obtain ⟨rfl, rfl⟩ := hr
                rw [List.drop_append_of_le_length hle, List.take_append_of_le_length hle,
                  ih (some k) _ p.1 (by rw [hp])]
                simp
              · cases h1


/-! ### parts -/

/-- the property's quantifier for one entry: key 0..0xFFFF, value id 0..0xFE, content 0..254 bytes -/
def EntryOK (e : Entry) : Prop :=
  e.key < 65536 ∧ (∀ v, e.value = some v → v ≤ 0xFE) ∧ (∀ c, e.content = some c → c.length ≤ 254)

def keyHi (k : Nat) : UInt8 := UInt8.ofNat (k / 256)
def keyLo (k : Nat) : UInt8 := UInt8.ofNat (k % 256)

theorem key_decode (k : Nat) (h : k < 65536) : (keyHi k).toNat * 256 + (keyLo k).toNat = k := by
  simp only [keyHi, keyLo, UInt8.toNat_ofNat']
  omega

theorem ofNat_ne_ff (v : Nat) (h : v ≤ 0xFE) : UInt8.ofNat v ≠ 0xFF := by
  intro hc
  have := congrArg UInt8.toNat hc
  simp [UInt8.toNat_ofNat'] at this
  omega

theorem toNat_ofNat_lt (v : Nat) (h : v < 256) : (UInt8.ofNat v).toNat = v := by
  rw [UInt8.toNat_ofNat']; exact Nat.mod_eq_of_lt h

/-- decoding behaviour of the three pieces of one entry -/
inductive PartSem : (Bytes × Bytes × Bytes) → Op → Prop
  | group (k : Nat) (data : Bytes) (op : Op) (hk : k < 65536) (hlen : 2 ≤ data.length)
      (hd : ∀ f, dec (f + 2) (some k) data = some ([op], some k)) :
      PartSem ([0x01, keyHi k, keyLo k], data, [0xFF]) op
  | delKey (k : Nat) (hk : k < 65536) : PartSem ([0x02, keyHi k, keyLo k], [], []) (Op.delKey k)

theorem part_sem (e : Entry) (hok : EntryOK e) (p : Bytes × Bytes × Bytes) (h : part e = .ok p) :
    PartSem p (opOf e) := by
  obtain ⟨hk, hv, hc⟩ := hok
  unfold part at h
  have hnk : ¬ (e.key ≥ 65536) := by omega
  rw [if_neg hnk] at h
  cases hval : e.value with
  | none =>
    simp only [hval] at h
    injection h with h; subst h
    have : opOf e = Op.delKey e.key := by simp [opOf, hval]
    rw [this]
    exact PartSem.delKey e.key hk
  | some v =>
    have hv' := hv v hval
    cases hcon : e.content with
    | none =>
      simp only [hval, hcon] at h
      have hnv : ¬ (v ≥ 256) := by omega
      rw [if_neg hnv] at h
      injection h with h; subst h
      have hop : opOf e = Op.delVal e.key v := by simp [opOf, hval, hcon]
      rw [hop]
      refine PartSem.group e.key _ _ hk (by simp) ?_
      intro f
      rw [dec_some, if_neg (ofNat_ne_ff v hv')]
      simp only [if_true, dec_nil, Option.map_some, toNat_ofNat_lt v (by omega)]
    | some c =>
      have hc' := hc c hcon
      simp only [hval, hcon] at h
      have hnv : ¬ ((v ≥ 256 || c.length ≥ 256) = true) := by simp; omega
      rw [if_neg hnv] at h
      injection h with h; subst h
      have hop : opOf e = Op.set e.key v c := by simp [opOf, hval, hcon]
      rw [hop]
      refine PartSem.group e.key _ _ hk (by simp) ?_
      intro f
      have hlen : (UInt8.ofNat c.length).toNat = c.length := toNat_ofNat_lt _ (by omega)
      simp only [List.cons_append, List.nil_append]
      rw [dec_some, if_neg (ofNat_ne_ff v hv')]
      simp only [if_neg (ofNat_ne_ff c.length (by omega)), hlen, Nat.le_refl, if_true, List.drop_length,
        List.take_length, dec_nil, Option.map_some, toNat_ofNat_lt v (by omega)]

theorem dec_group_pre (k : Nat) (hk : k < 65536) : dec 1 none [0x01, keyHi k, keyLo k] = some ([], some k) := by
  rw [dec_none3]
  simp [dec_nil, key_decode k hk]

theorem dec_delkey_pre (k : Nat) (hk : k < 65536) : dec 1 none [0x02, keyHi k, keyLo k] = some ([Op.delKey k], none) := by
  rw [dec_none3]
  simp [dec_nil, key_decode k hk]

theorem dec_close (k : Nat) : dec 1 (some k) [0xFF] = some ([], none) := by
  rw [dec_some]; simp [dec_nil]

theorem group_pre_inj (k k' : Nat) (hk : k < 65536) (hk' : k' < 65536)
    (h : ([0x01, keyHi k, keyLo k] : Bytes) = [0x01, keyHi k', keyLo k']) : k = k' := by
  simp only [List.cons.injEq, and_true, true_and] at h
  rw [← key_decode k hk, ← key_decode k' hk', h.1, h.2]


/-! ### the merge loop -/

/-- decode with fuel = length (always enough) -/
def D (cur : Option Nat) (a : Bytes) : Option (List Op × Option Nat) := dec a.length cur a

theorem D_append (cur : Option Nat) (a b : Bytes) (o1 o2 : List Op) (s1 s2 : Option Nat)
    (h1 : D cur a = some (o1, s1)) (h2 : D s1 b = some (o2, s2)) : D cur (a ++ b) = some (o1 ++ o2, s2) := by
  unfold D at *
  rw [List.length_append]
  exact dec_append _ _ _ _ _ _ _ _ _ h1 h2

theorem D_of_dec (f : Nat) (cur : Option Nat) (a : Bytes) (r : List Op × Option Nat) (h : dec f cur a = some r)
    (hf : f ≤ a.length) : D cur a = some r := dec_mono f cur a r h _ hf

theorem D_nil (cur : Option Nat) : D cur [] = some ([], cur) := dec_nil _ _

theorem decodeBlocks_append (xs : List Bytes) (b : Bytes) (o1 o2 : List Op)
    (h1 : decodeBlocks xs = some o1) (h2 : decodeBlock b = some o2) : decodeBlocks (xs ++ [b]) = some (o1 ++ o2) := by
  induction xs generalizing o1 with
  | nil => simp [decodeBlocks] at h1; subst h1; simp [decodeBlocks, h2]
  | cons x xs ih =>
    simp only [decodeBlocks, Option.bind_eq_bind] at h1
    cases hx : decodeBlock x with
    | none => simp [hx] at h1
    | some ox =>
      cases hxs : decodeBlocks xs with
      | none => simp [hx, hxs] at h1
      | some oxs =>
        simp [hx, hxs] at h1
        subst h1
        simp [decodeBlocks, hx, ih oxs hxs, List.append_assoc]

def Inv (s : MState) (ops : List Op) : Prop :=
  ∃ opsC opsL st, decodeBlocks s.closed = some opsC ∧ D none s.last = some (opsL, st) ∧ ops = opsC ++ opsL ∧
    ((∃ k, k < 65536 ∧ s.post = [0xFF] ∧ st = some k ∧ s.pre = [0x01, keyHi k, keyLo k]) ∨ (s.post = [] ∧ st = none))

theorem D_close (s : MState) (opsL : List Op) (st : Option Nat) (h : D none s.last = some (opsL, st))
    (hpost : (∃ k, k < 65536 ∧ s.post = [0xFF] ∧ st = some k ∧ s.pre = [0x01, keyHi k, keyLo k]) ∨ (s.post = [] ∧ st = none)) :
    D none (s.last ++ s.post) = some (opsL, none) := by
  rcases hpost with ⟨k, _, hp, rfl, _⟩ | ⟨hp, rfl⟩
  · rw [hp]
    have := D_append none s.last [0xFF] opsL [] (some k) none h (D_of_dec 1 _ _ _ (dec_close k) (by simp))
    simpa using this
  · rw [hp]; simpa using h

theorem D_part (p : Bytes × Bytes × Bytes) (op : Op) (h : PartSem p op) :
    ∃ st, D none (p.1 ++ p.2.1) = some ([op], st) ∧
      ((∃ k, k < 65536 ∧ p.2.2 = [0xFF] ∧ st = some k ∧ p.1 = [0x01, keyHi k, keyLo k] ∧
          D (some k) p.2.1 = some ([op], some k)) ∨ (p.2.2 = [] ∧ st = none)) := by
  cases h with
  | group k data op hk hlen hd =>
    have h2 := D_of_dec 2 (some k) data _ (hd 0) hlen
    refine ⟨some k, ?_, Or.inl ⟨k, hk, rfl, rfl, rfl, h2⟩⟩
    have h1 := D_of_dec 1 none _ _ (dec_group_pre k hk) (by simp)
    simpa using D_append none _ data [] [op] (some k) (some k) h1 h2
  | delKey k hk =>
    refine ⟨none, ?_, Or.inr ⟨rfl, rfl⟩⟩
    simpa using D_of_dec 1 none _ _ (dec_delkey_pre k hk) (by simp)

theorem mergeStep_inv (s : MState) (ops : List Op) (p : Bytes × Bytes × Bytes) (op : Op)
    (hinv : Inv s ops) (hsem : PartSem p op) (hdiff : p.2.2 = [] → p.1 ≠ s.pre) :
    Inv (mergeStep s p) (ops ++ [op]) ∧ (mergeStep s p).pre = p.1 := by
  obtain ⟨opsC, opsL, st, hC, hL, rfl, hpost⟩ := hinv
  obtain ⟨pre, data, post⟩ := p
  obtain ⟨stp, hDp, hpp⟩ := D_part (pre, data, post) op hsem
  simp only at hDp hpp hdiff
  unfold mergeStep
  simp only
  have hpp' : (∃ k, k < 65536 ∧ post = [0xFF] ∧ stp = some k ∧ pre = [0x01, keyHi k, keyLo k]) ∨ (post = [] ∧ stp = none) := by
    rcases hpp with ⟨k, a, b, c, d, _⟩ | h
    · exact Or.inl ⟨k, a, b, c, d⟩
    · exact Or.inr h
  split
  · -- overflow: close the last block, start a new one
    refine ⟨⟨opsC ++ opsL, [op], stp, ?_, hDp, by simp [List.append_assoc], hpp'⟩, rfl⟩
    apply decodeBlocks_append _ _ _ _ hC
    have := D_close s opsL st hL hpost
    simp only [decodeBlock, D] at this ⊢
    rw [this]; rfl
  · split
    · -- same preface and postface: append the data to the open group
      rename_i _ hsame
      simp only [Bool.and_eq_true, beq_iff_eq] at hsame
      obtain ⟨hpre, hpo⟩ := hsame
      refine ⟨?_, hpre.symm ▸ rfl⟩
      rcases hpp with ⟨k, hk, hpk, rfl, hprek, hdata⟩ | ⟨hp0, rfl⟩
      · -- group part: the open group has the same key
        rcases hpost with ⟨k', hk', hs, rfl, hsp⟩ | ⟨hs, _⟩
        · have hkk : k = k' := group_pre_inj k k' hk hk' (by rw [← hprek, ← hsp, hpre])
          subst hkk
          exact ⟨opsC, opsL ++ [op], some k, hC, D_append none s.last data opsL [op] (some k) (some k) hL hdata,
            by simp [List.append_assoc], Or.inl ⟨k, hk, hs, rfl, hsp⟩⟩
        · rw [hs] at hpo; rw [hpk] at hpo; cases hpo
      · exact absurd hpre (hdiff hp0)
    · -- different group: close the open one, then preface and data
      refine ⟨⟨opsC, opsL ++ [op], stp, hC, ?_, by simp [List.append_assoc], hpp'⟩, rfl⟩
      have hcl := D_close s opsL st hL hpost
      have := D_append none (s.last ++ s.post) (pre ++ data) opsL [op] none stp hcl hDp
      simpa [List.append_assoc] using this


def NoRepeatB (prev : Bytes) : List (Bytes × Bytes × Bytes) → Prop
  | [] => True
  | p :: ps => (p.2.2 = [] → p.1 ≠ prev) ∧ NoRepeatB p.1 ps

theorem merge_fold (l : List Entry) (ps : List (Bytes × Bytes × Bytes)) (hparts : parts l = .ok ps)
    (hok : ∀ e ∈ l, EntryOK e) (s : MState) (ops : List Op) (hinv : Inv s ops) (hnr : NoRepeatB s.pre ps) :
    Inv (ps.foldl mergeStep s) (ops ++ l.map opOf) := by
  induction l generalizing ps s ops with
  | nil => simp [parts] at hparts; subst hparts; simpa using hinv
  | cons e es ih =>
    simp only [parts, Except.bind_eq_ok] at hparts
    obtain ⟨p, hp, ps', hps', hpure⟩ := hparts
    simp only [pure, Except.pure, Except.ok.injEq] at hpure
    subst hpure
    obtain ⟨hd, hrest⟩ := hnr
    have hsem := part_sem e (hok e (by simp)) p hp
    obtain ⟨hinv', hpre'⟩ := mergeStep_inv s ops p (opOf e) hinv hsem hd
    have := ih ps' hps' (fun e' he' => hok e' (by simp [he'])) (mergeStep s p) (ops ++ [opOf e]) hinv' (by rw [hpre']; exact hrest)
    simpa [List.foldl_cons, List.append_assoc] using this

theorem decodeBlock_nil : decodeBlock [] = some [] := by simp [decodeBlock, dec_nil]

theorem merge_decodes (l : List Entry) (ps : List (Bytes × Bytes × Bytes)) (hparts : parts l = .ok ps)
    (hok : ∀ e ∈ l, EntryOK e) (hnr : NoRepeatB [] ps) : decodeBlocks (merge ps) = some (l.map opOf) := by
  have hinit : Inv { closed := [], last := [], pre := [], post := [] } [] :=
    ⟨[], [], none, rfl, D_nil none, rfl, Or.inr ⟨rfl, rfl⟩⟩
  obtain ⟨opsC, opsL, st, hC, hL, hops, _⟩ := merge_fold l ps hparts hok _ [] hinit hnr
  simp only [List.nil_append] at hops
  have hall : decodeBlocks ((ps.foldl mergeStep { closed := [], last := [], pre := [], post := [] }).closed ++
      [(ps.foldl mergeStep { closed := [], last := [], pre := [], post := [] }).last]) = some (l.map opOf) := by
    rw [hops]
    apply decodeBlocks_append _ _ _ _ hC
    simp only [decodeBlock, D] at hL ⊢
    rw [hL]; rfl
  unfold merge
  simp only
  split
  · rename_i rest heq
    rw [heq] at hall
    simpa [decodeBlocks, decodeBlock_nil] using hall
  · exact hall

/-! ### ordering -/

theorem insertSorted_perm (e : Entry) (l : List Entry) : (insertSorted e l).Perm (e :: l) := by
  induction l with
  | nil => exact List.Perm.refl _
  | cons x xs ih =>
    unfold insertSorted
    split
    · exact List.Perm.refl _
    · exact ((List.Perm.cons x ih).trans (List.Perm.swap e x xs))

theorem sort_perm (l : List Entry) : (sort l).Perm l := by
  induction l with
  | nil => exact List.Perm.refl _
  | cons x xs ih => exact (insertSorted_perm x (sort xs)).trans (List.Perm.cons x ih)

def Sorted : List Entry → Prop
  | [] => True
  | [_] => True
  | a :: b :: r => le a b = true ∧ Sorted (b :: r)

theorem le_total (a b : Entry) : le a b = true ∨ le b a = true := by
  unfold le
  rcases Nat.lt_trichotomy a.key b.key with h | h | h
  · left; simp [h]
  · cases ha : a.value <;> cases hb : b.value <;> simp [h]
    rename_i x y
    omega
  · right; simp [h]

theorem insertSorted_sorted (e : Entry) (l : List Entry) (h : Sorted l) : Sorted (insertSorted e l) := by
  induction l with
  | nil => trivial
  | cons x xs ih =>
    unfold insertSorted
    split
    · rename_i hle; exact ⟨hle, h⟩
    · rename_i hnle
      have hxe : le x e = true := by
        rcases le_total e x with h1 | h1
        · exact absurd h1 hnle
        · exact h1
      cases xs with
      | nil => exact ⟨hxe, trivial⟩
      | cons y ys =>
        have ih' := ih h.2
        unfold insertSorted at ih' ⊢
        split
        · rename_i hey; exact ⟨hxe, hey, h.2⟩
        · rename_i hney
          simp only [hney, if_false] at ih'
          exact ⟨h.1, ih'⟩

theorem sort_sorted (l : List Entry) : Sorted (sort l) := by
  induction l with
  | nil => trivial
  | cons x xs ih => exact insertSorted_sorted x _ ih


/-! ### no two consecutive delete-key parts with the same preface (dict keys are unique) -/

def kv (e : Entry) : Nat × Option Nat := (e.key, e.value)

theorem delkey_pre_inj (k k' : Nat) (hk : k < 65536) (hk' : k' < 65536)
    (h : ([0x02, keyHi k, keyLo k] : Bytes) = [0x02, keyHi k', keyLo k']) : k = k' := by
  simp only [List.cons.injEq, and_true, true_and] at h
  rw [← key_decode k hk, ← key_decode k' hk', h.1, h.2]

theorem part_cases (e : Entry) (hok : EntryOK e) (p : Bytes × Bytes × Bytes) (hp : part e = .ok p) :
    (e.value = none ∧ p = ([0x02, keyHi e.key, keyLo e.key], [], [])) ∨
    (e.value ≠ none ∧ p.1 = [0x01, keyHi e.key, keyLo e.key] ∧ p.2.2 = [0xFF]) := by
  unfold part at hp
  rw [if_neg (by have := hok.1; omega)] at hp
  cases hv : e.value with
  | none =>
    simp only [hv] at hp
    injection hp with hp
    exact Or.inl ⟨rfl, hp.symm⟩
  | some v =>
    right
    refine ⟨by simp, ?_⟩
    simp only [hv] at hp
    cases hc : e.content with
    | none =>
      simp only [hc] at hp
      split at hp
      · cases hp
      · injection hp with hp; subst hp; exact ⟨rfl, rfl⟩
    | some c =>
      simp only [hc] at hp
      split at hp
      · cases hp
      · injection hp with hp; subst hp; exact ⟨rfl, rfl⟩

theorem noRepeat_of_nodup (l : List Entry) (ps : List (Bytes × Bytes × Bytes)) (hparts : parts l = .ok ps)
    (hok : ∀ e ∈ l, EntryOK e) (hnd : (l.map kv).Nodup) (prev : Bytes)
    (hprev : ∀ e ∈ l, e.value = none → prev ≠ [0x02, keyHi e.key, keyLo e.key]) : NoRepeatB prev ps := by
  induction l generalizing ps prev with
  | nil => simp [parts] at hparts; subst hparts; trivial
  | cons e es ih =>
    simp only [parts, Except.bind_eq_ok] at hparts
    obtain ⟨p, hp, ps', hps', hpure⟩ := hparts
    simp only [pure, Except.pure, Except.ok.injEq] at hpure
    subst hpure
    have heok := hok e (by simp)
    simp only [List.map_cons, List.nodup_cons] at hnd
    refine ⟨?_, ih ps' hps' (fun e' he' => hok e' (by simp [he'])) hnd.2 p.1 ?_⟩
    · intro hpost
      rcases part_cases e heok p hp with ⟨hval, rfl⟩ | ⟨_, _, hff⟩
      · exact fun h => (hprev e (by simp) hval) h.symm
      · rw [hff] at hpost; cases hpost
    · intro e' he' hval'
      rcases part_cases e heok p hp with ⟨hval, rfl⟩ | ⟨_, hpre, _⟩
      · intro heq
        have hkk : e.key = e'.key := delkey_pre_inj e.key e'.key heok.1 (hok e' (by simp [he'])).1 heq
        apply hnd.1
        simp only [List.mem_map]
        exact ⟨e', he', by simp [kv, hval', hval, hkk]⟩
      · rw [hpre]; simp

/-! ### size invariants: blocks are non-empty, and at most 117 bytes when every entry fits -/

def partSize (p : Bytes × Bytes × Bytes) : Nat := p.1.length + p.2.1.length + p.2.2.length

def LenInv (s : MState) : Prop :=
  (∀ b ∈ s.closed, b.length ≤ Gen.MAX_TLVBLOCK_SIZE) ∧ s.last.length + s.post.length ≤ Gen.MAX_TLVBLOCK_SIZE

theorem mergeStep_len (s : MState) (p : Bytes × Bytes × Bytes) (h : LenInv s) (hp : partSize p ≤ Gen.MAX_TLVBLOCK_SIZE) :
    LenInv (mergeStep s p) := by
  obtain ⟨pre, data, post⟩ := p
  obtain ⟨hc, hl⟩ := h
  simp only [partSize] at hp
  unfold mergeStep
  simp only
  split
  · refine ⟨?_, by simp only [List.length_append]; omega⟩
    intro b hb
    simp only [List.mem_append, List.mem_singleton] at hb
    rcases hb with hb | rfl
    · exact hc b hb
    · simpa using hl
  · rename_i hno
    simp only [List.length_append, Nat.not_lt] at hno
    split
    · rename_i hsame
      simp only [Bool.and_eq_true, beq_iff_eq] at hsame
      refine ⟨hc, ?_⟩
      simp only [List.length_append]
      rw [← hsame.2]; omega
    · exact ⟨hc, by simp only [List.length_append]; omega⟩

theorem fold_len (ps : List (Bytes × Bytes × Bytes)) (s : MState) (h : LenInv s)
    (hp : ∀ p ∈ ps, partSize p ≤ Gen.MAX_TLVBLOCK_SIZE) : LenInv (ps.foldl mergeStep s) := by
  induction ps generalizing s with
  | nil => exact h
  | cons p ps ih => exact ih _ (mergeStep_len s p h (hp p (by simp))) (fun q hq => hp q (by simp [hq]))

theorem merge_bounded (ps : List (Bytes × Bytes × Bytes)) (hp : ∀ p ∈ ps, partSize p ≤ Gen.MAX_TLVBLOCK_SIZE) :
    ∀ b ∈ merge ps, b.length ≤ Gen.MAX_TLVBLOCK_SIZE := by
  have hinit : LenInv { closed := [], last := [], pre := [], post := [] } := ⟨by simp, by decide⟩
  obtain ⟨hc, hl⟩ := fold_len ps _ hinit hp
  have hall : ∀ b ∈ (ps.foldl mergeStep { closed := [], last := [], pre := [], post := [] }).closed ++
      [(ps.foldl mergeStep { closed := [], last := [], pre := [], post := [] }).last], b.length ≤ Gen.MAX_TLVBLOCK_SIZE := by
    intro b hb
    simp only [List.mem_append, List.mem_singleton] at hb
    rcases hb with hb | rfl
    · exact hc b hb
    · omega
  unfold merge
  simp only
  split
  · rename_i rest heq
    intro b hb
    exact hall b (by rw [heq]; simp [hb])
  · exact hall

/-- only the very first closed block can be empty; once a part was merged the open block is non-empty -/
def NEInv (s : MState) : Prop :=
  (∀ b ∈ s.closed.drop 1, b ≠ []) ∧ (s.closed ≠ [] → s.last ≠ []) ∧ (s.last = [] → s.pre = [])

theorem mergeStep_ne (s : MState) (p : Bytes × Bytes × Bytes) (h : NEInv s) (hp : p.1 ≠ []) :
    NEInv (mergeStep s p) ∧ (mergeStep s p).last ≠ [] := by
  obtain ⟨pre, data, post⟩ := p
  obtain ⟨hc, hl, hpre0⟩ := h
  simp only at hp
  unfold mergeStep
  simp only
  have hpd : pre ++ data ≠ [] := by simp [hp]
  split
  · refine ⟨⟨?_, fun _ => hpd, fun h0 => absurd h0 hpd⟩, hpd⟩
    intro b hb
    cases hcl : s.closed with
    | nil => simp [hcl] at hb
    | cons c cs =>
      simp only [hcl, List.cons_append, List.drop_succ_cons, List.drop_zero, List.mem_append, List.mem_singleton] at hb
      rcases hb with hb | rfl
      · exact hc b (by simp [hcl, hb])
      · have := hl (by simp [hcl])
        simp [this]
  · split
    · rename_i hsame
      simp only [Bool.and_eq_true, beq_iff_eq] at hsame
      have hlast : s.last ≠ [] := by
        intro h0
        exact hp (hsame.1.trans (hpre0 h0))
      exact ⟨⟨hc, fun _ => by simp [hlast], fun h0 => by simp [hlast] at h0⟩, by simp [hlast]⟩
    · have : s.last ++ s.post ++ pre ++ data ≠ [] := by simp [hp]
      exact ⟨⟨hc, fun _ => this, fun h0 => absurd h0 this⟩, this⟩

theorem fold_ne (ps : List (Bytes × Bytes × Bytes)) (s : MState) (h : NEInv s) (hp : ∀ p ∈ ps, p.1 ≠ []) :
    NEInv (ps.foldl mergeStep s) ∧ (ps ≠ [] → (ps.foldl mergeStep s).last ≠ []) := by
  induction ps generalizing s with
  | nil => exact ⟨h, fun h0 => absurd rfl h0⟩
  | cons p ps ih =>
    obtain ⟨h1, h2⟩ := mergeStep_ne s p h (hp p (by simp))
    obtain ⟨h3, h4⟩ := ih (mergeStep s p) h1 (fun q hq => hp q (by simp [hq]))
    refine ⟨h3, fun _ => ?_⟩
    cases ps with
    | nil => exact h2
    | cons q qs => exact h4 (by simp)

theorem merge_nonempty (ps : List (Bytes × Bytes × Bytes)) (hp : ∀ p ∈ ps, p.1 ≠ []) : ∀ b ∈ merge ps, b ≠ [] := by
  have hinit : NEInv { closed := [], last := [], pre := [], post := [] } := ⟨by simp, by simp, fun _ => rfl⟩
  obtain ⟨⟨hc, hl, _⟩, hlast⟩ := fold_ne ps _ hinit hp
  unfold merge
  simp only
  generalize hs : ps.foldl mergeStep { closed := [], last := [], pre := [], post := [] } = s at hc hl hlast
  cases hcl : s.closed with
  | nil =>
    simp only [List.nil_append]
    by_cases hle : s.last = []
    · simp [hle]
    · intro b hb
      cases hsl : s.last with
      | nil => exact absurd hsl hle
      | cons x xs => simp [hsl] at hb; subst hb; simp
  | cons c cs =>
    have hln := hl (by simp [hcl])
    have hcs : ∀ b ∈ cs, b ≠ [] := fun b hb => hc b (by simp [hcl, hb])
    simp only [List.cons_append]
    cases c with
    | nil =>
      intro b hb
      simp only [List.mem_append, List.mem_singleton] at hb
      rcases hb with hb | rfl
      · exact hcs b hb
      · exact hln
    | cons x xs =>
      intro b hb
      simp only [List.mem_cons, List.mem_append, List.mem_singleton, List.not_mem_nil, or_false] at hb
      rcases hb with rfl | hb | rfl
      · simp
      · exact hcs b hb
      · exact hln

end Bec2Verif.Tlv
