import Bec2Verif.Model.RwLock
/-!
Inductive invariant of the reader-writer lock model, for ANY number of reader and writer threads.
All facts are about how many threads sit in certain line ranges (`List.countP`), so that every case of the
transition relation becomes linear arithmetic.
-/
namespace Bec2Verif.RwLock

/-! ### counting threads in line ranges -/

def isR (t : Thread) : Bool := t.role == .reader
def isW (t : Thread) : Bool := t.role == .writer

/-- reader between `counter += 1` and `counter -= 1` (lines 5..13 still to execute) -/
def cntd (t : Thread) : Bool := isR t && decide (5 ≤ t.pc) && decide (t.pc ≤ 13)
/-- reader holding the read switch's mutex -/
def rmh (t : Thread) : Bool := isR t && ((decide (4 ≤ t.pc) && decide (t.pc ≤ 7)) || (decide (13 ≤ t.pc) && decide (t.pc ≤ 16)))
/-- counted and holding the mutex -/
def rmc (t : Thread) : Bool := isR t && ((decide (5 ≤ t.pc) && decide (t.pc ≤ 7)) || t.pc == 13)
/-- counted, mutex released: between the two switch operations -/
def mid (t : Thread) : Bool := isR t && decide (8 ≤ t.pc) && decide (t.pc ≤ 12)
/-- reader for which the read switch is on (`no_writers` held by the readers as a group) -/
def rin (t : Thread) : Bool := isR t && decide (7 ≤ t.pc) && decide (t.pc ≤ 15)
/-- writer holding `no_writers` -/
def wh (t : Thread) : Bool := isW t && decide (7 ≤ t.pc) && decide (t.pc ≤ 8)
def at6 (t : Thread) : Bool := isR t && t.pc == 6
def at15 (t : Thread) : Bool := isR t && t.pc == 15

/-- reader holding `readers_queue` / holding `no_readers` individually -/
def rqh (t : Thread) : Bool := isR t && decide (1 ≤ t.pc) && decide (t.pc ≤ 9)
def nrh (t : Thread) : Bool := isR t && decide (2 ≤ t.pc) && decide (t.pc ≤ 8)
/-- the write switch, symmetric to the read switch -/
def wcn (t : Thread) : Bool := isW t && decide (3 ≤ t.pc) && decide (t.pc ≤ 11)
def wmh (t : Thread) : Bool := isW t && ((decide (2 ≤ t.pc) && decide (t.pc ≤ 5)) || (decide (11 ≤ t.pc) && decide (t.pc ≤ 14)))
def wmc (t : Thread) : Bool := isW t && ((decide (3 ≤ t.pc) && decide (t.pc ≤ 5)) || t.pc == 11)
def wmid (t : Thread) : Bool := isW t && decide (6 ≤ t.pc) && decide (t.pc ≤ 10)
/-- writer for which the write switch is on (`no_readers` held by the writers as a group) -/
def won (t : Thread) : Bool := isW t && decide (5 ≤ t.pc) && decide (t.pc ≤ 13)
def at4w (t : Thread) : Bool := isW t && t.pc == 4
def at13w (t : Thread) : Bool := isW t && t.pc == 13

theorem countP_set {α : Type} (P : α → Bool) (l : List α) (i : Nat) (h : i < l.length) (x : α) :
    (l.set i x).countP P + (if P l[i] then 1 else 0) = l.countP P + (if P x then 1 else 0) := by
  induction l generalizing i with
  | nil => simp at h
  | cons y ys ih =>
    cases i with
    | zero =>
      simp only [List.set_cons_zero, List.countP_cons, List.getElem_cons_zero]
      split <;> split <;> simp_all <;> omega
    | succ j =>
      simp only [List.set_cons_succ, List.countP_cons, List.getElem_cons_succ]
      have := ih j (by simpa using h)
      omega

theorem countP_le_add {α : Type} (P Q R : α → Bool) (hc : ∀ x, P x = true → Q x = true ∨ R x = true) (l : List α) :
    l.countP P ≤ l.countP Q + l.countP R := by
  induction l with
  | nil => simp
  | cons y ys ih =>
    simp only [List.countP_cons]
    have := hc y
    cases hP : P y <;> cases hQ : Q y <;> cases hR : R y <;> simp_all <;> omega

/-- `Q ⊆ P` pointwise, and element `i` is in `P` but not in `Q`: strictly fewer in `Q` -/
theorem countP_lt_of_mem {α : Type} (P Q : α → Bool) (hQP : ∀ x, Q x = true → P x = true) (l : List α) (i : Nat)
    (h : i < l.length) (hP : P l[i] = true) (hQ : Q l[i] = false) : l.countP Q + 1 ≤ l.countP P := by
  induction l generalizing i with
  | nil => simp at h
  | cons y ys ih =>
    have hmono : ys.countP Q ≤ ys.countP P := by
      have := countP_le_add Q P (fun _ => false) (fun x hx => Or.inl (hQP x hx)) ys
      simpa using this
    cases i with
    | zero =>
      simp only [List.getElem_cons_zero] at hP hQ
      simp only [List.countP_cons, hP, hQ, if_true]
      simp; omega
    | succ j =>
      simp only [List.getElem_cons_succ] at hP hQ
      have := ih j (by simpa using h) hP hQ
      simp only [List.countP_cons]
      have := hQP y
      cases hQy : Q y <;> cases hPy : P y <;> simp_all <;> omega

theorem countP_pos_of_mem {α : Type} (P : α → Bool) (l : List α) (i : Nat) (h : i < l.length) (hP : P l[i] = true) :
    0 < l.countP P := by
  have := countP_lt_of_mem P (fun _ => false) (fun _ hx => by simp at hx) l i h hP rfl
  omega

end Bec2Verif.RwLock

namespace Bec2Verif.RwLock

def cnt (P : Thread → Bool) (s : State) : Nat := s.threads.countP P

/-- the inductive invariant, in arithmetic form: every mutex has exactly the holders the line ranges say (the two
switch mutexes and `readers_queue` at most one holder; `no_writers` at most one writer or the readers as a group;
`no_readers` at most one reader or the writers as a group), the two counters count the threads between increment and
decrement, and the branch decisions at the `if` lines are still valid when the guarded lines execute -/
structure Inv (s : State) : Prop where
  rc_eq : s.rc = cnt cntd s
  rm_eq : s.rm.toNat = cnt rmh s
  nw_eq : s.nw.toNat = cnt wh s + min 1 (cnt rin s)
  s6 : 0 < cnt at6 s → s.rc = 1
  s15 : 0 < cnt at15 s → s.rc = 0
  wc_eq : s.wc = cnt wcn s
  wm_eq : s.wm.toNat = cnt wmh s
  nr_eq : s.nr.toNat = cnt nrh s + min 1 (cnt won s)
  rq_eq : s.rq.toNat = cnt rqh s
  s4 : 0 < cnt at4w s → s.wc = 1
  s13 : 0 < cnt at13w s → s.wc = 0

/-- pointwise inclusion facts: destruct the thread, evaluate the range predicates, finish by arithmetic -/
macro "pw" : tactic => `(tactic| (
  intro t h
  obtain ⟨r, pc⟩ := t
  cases r <;> simp [cntd, rmh, rmc, mid, rin, wh, at6, at15, rqh, nrh, wcn, wmh, wmc, wmid, won, at4w, at13w, isR, isW] at h ⊢ <;> omega))

theorem le_of_imp (P Q : Thread → Bool) (h : ∀ t, P t = true → Q t = true) (s : State) : cnt P s ≤ cnt Q s := by
  have := countP_le_add P Q (fun _ => false) (fun t ht => Or.inl (h t ht)) s.threads
  simpa [cnt] using this

/-- facts that hold for every thread list -/
theorem facts (s : State) :
    cnt cntd s ≤ cnt rmc s + cnt mid s ∧ cnt mid s ≤ cnt rin s ∧ cnt rin s ≤ cnt mid s + cnt rmh s ∧
    cnt rmc s ≤ cnt rmh s ∧ cnt at6 s ≤ cnt rmh s ∧ cnt at15 s ≤ cnt rmh s ∧ cnt mid s ≤ cnt cntd s ∧
    cnt wcn s ≤ cnt wmc s + cnt wmid s ∧ cnt wmid s ≤ cnt won s ∧ cnt won s ≤ cnt wmid s + cnt wmh s ∧
    cnt wmc s ≤ cnt wmh s ∧ cnt at4w s ≤ cnt wmh s ∧ cnt at13w s ≤ cnt wmh s ∧ cnt wmid s ≤ cnt wcn s := by
  refine ⟨?_, ?_, ?_, ?_, ?_, ?_, ?_, ?_, ?_, ?_, ?_, ?_, ?_, ?_⟩
  · exact countP_le_add _ _ _ (by pw) _
  · exact le_of_imp _ _ (by pw) s
  · exact countP_le_add _ _ _ (by pw) _
  · exact le_of_imp _ _ (by pw) s
  · exact le_of_imp _ _ (by pw) s
  · exact le_of_imp _ _ (by pw) s
  · exact le_of_imp _ _ (by pw) s
  · exact countP_le_add _ _ _ (by pw) _
  · exact le_of_imp _ _ (by pw) s
  · exact countP_le_add _ _ _ (by pw) _
  · exact le_of_imp _ _ (by pw) s
  · exact le_of_imp _ _ (by pw) s
  · exact le_of_imp _ _ (by pw) s
  · exact le_of_imp _ _ (by pw) s

/-- facts about the thread that moves: it is counted in every class it belongs to, and a class strictly inside
another one that does not contain it is smaller -/
theorem facts_at (s : State) (i : Nat) (hi : i < s.threads.length) :
    (∀ P : Thread → Bool, P s.threads[i] = true → 0 < cnt P s) ∧
    (∀ P Q : Thread → Bool, (∀ t, Q t = true → P t = true) → P s.threads[i] = true → Q s.threads[i] = false →
      cnt Q s + 1 ≤ cnt P s) :=
  ⟨fun P hP => countP_pos_of_mem P _ i hi hP, fun P Q hQP h1 h2 => countP_lt_of_mem P Q hQP _ i hi h1 h2⟩

end Bec2Verif.RwLock
