/-
Bounded universal facts by kernel evaluation: a structurally recursive Bool
checker plus one generic lemma.  (`decide` over `∀ v < n` through the
`Nat.decidableBallLT` instance times out for n ≥ 2^16 on this image.)
-/
namespace Bec2Verif

def allBelow (p : Nat → Bool) : Nat → Bool
  | 0 => true
  | n+1 => p n && allBelow p n

theorem allBelow_spec (p : Nat → Bool) (n : Nat) (h : allBelow p n = true) :
    ∀ v, v < n → p v = true := by
  induction n with
  | zero => intro v hv; omega
  | succ n ih =>
    simp only [allBelow, Bool.and_eq_true] at h
    intro v hv
    rcases Nat.lt_succ_iff_lt_or_eq.mp hv with h' | h'
    · exact ih h.2 v h'
    · exact h' ▸ h.1

end Bec2Verif
