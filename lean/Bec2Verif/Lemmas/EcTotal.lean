import Bec2Verif.Lemmas.EcMulAdd
import Bec2Verif.Lemmas.EcInverse
/-!
The point multiplications always return a point on a curve over a prime field: every inversion they perform is of a
value that is invertible (or the literal 0, for which `inverse_mod` returns 0), and the table of a generator never
runs into the point at infinity when no `2^j • G` vanishes (odd order).
-/
set_option linter.style.nameCheck false
set_option linter.unusedVariables false
namespace Bec2Verif.EcC
open Bec2Verif Ec EcF WeierstrassCurve

variable {p : ℕ} [hp : Fact p.Prime] {a b : ℤ}

theorem inverseMod_some {Z : ℤ} (hwf : WFz p Z) : ∃ zi, inverseMod Z p = some zi := by
  by_cases hz : (Z : ZMod p) = 0
  · have := hwf hz
    subst this
    exact ⟨0, by simp [inverseMod]⟩
  · apply inverseMod_complete p hp.out
    intro hd
    exact hz ((ZMod.intCast_zmod_eq_zero_iff_dvd Z p).mpr hd)

theorem scale_some (c : Curve) (hcp : c.p = p) {P : (W (a : ZMod p) (b : ZMod p)).Point} {X Y Z : ℤ}
    (h : TRep p a b P (X, Y, Z)) : ∃ t, scale c X Y Z = some t := by
  unfold scale
  split
  · exact ⟨_, rfl⟩
  · obtain ⟨zi, hzi⟩ := inverseMod_some (p := p) h.2.1
    rw [hcp, hzi]
    exact ⟨_, rfl⟩

theorem affineXY_some (c : Curve) (hcp : c.p = p) {P : (W (a : ZMod p) (b : ZMod p)).Point} {X Y Z : ℤ}
    (h : TRep p a b P (X, Y, Z)) : ∃ t, affineXY c X Y Z = some t := by
  unfold affineXY
  split
  · exact ⟨_, rfl⟩
  · obtain ⟨zi, hzi⟩ := inverseMod_some (p := p) h.2.1
    rw [hcp, hzi]
    exact ⟨_, rfl⟩

theorem mulNaf_some (c : Curve) (hcp : c.p = p) (order : ℤ) {P : (W (a : ZMod p) (b : ZMod p)).Point} {pt : Pt}
    (hP : PRep p a b P pt) (k : ℤ) : ∃ R, mulNaf c order pt k = some R := by
  unfold mulNaf
  cases pt with
  | inf => exact ⟨_, rfl⟩
  | jac X Y Z =>
    simp only
    split
    · exact ⟨_, rfl⟩
    · split
      · exact ⟨_, rfl⟩
      · obtain ⟨t, ht⟩ := scale_some c hcp (P := P) hP
        obtain ⟨X2, Y2, Z2⟩ := t
        rw [ht]
        exact ⟨_, rfl⟩

theorem precomputeLoop_some (hc : CurveOK p a b) (c : Curve) (hcp : c.p = p) (hca : c.a = a) (fuel : ℕ) (i o : ℤ)
    (D : (W (a : ZMod p) (b : ZMod p)).Point) (t : Triple) (hD : TRep p a b D t)
    (hnz : ∀ j : ℕ, (2 ^ j : ℕ) • D ≠ 0) (acc : List (ℤ × ℤ)) : ∃ tab, precomputeLoop c fuel i o t acc = some tab := by
  induction fuel generalizing i D t acc with
  | zero => exact ⟨_, rfl⟩
  | succ f ih =>
    obtain ⟨X, Y, Z⟩ := t
    unfold precomputeLoop
    split
    · have hdr := double_rep hc c hcp hca (pt := .jac X Y Z) hD
      have hne : D + D ≠ 0 := by
        have := hnz 1
        simpa [two_nsmul] using this
      cases hdd : Ec.double c (.jac X Y Z) with
      | inf =>
        rw [hdd] at hdr
        exact absurd hdr hne
      | jac X' Y' Z' =>
        rw [hdd] at hdr
        simp only
        obtain ⟨t', ht'⟩ := scale_some c hcp (P := D + D) hdr
        obtain ⟨x, y, z⟩ := t'
        rw [ht']
        simp only
        have hsr := (scale_rep c hcp hdr ht').1
        apply ih _ (D + D) _ hsr
        intro j
        have := hnz (j + 1)
        rw [pow_succ, mul_smul, two_nsmul] at this
        exact this
    · exact ⟨_, rfl⟩

theorem mulGen_some (hc : CurveOK p a b) (c : Curve) (hcp : c.p = p) (hca : c.a = a) (order : ℤ)
    {P : (W (a : ZMod p) (b : ZMod p)).Point} {pt : Pt} (hP : PRep p a b P pt)
    (hnz : ∀ j : ℕ, (2 ^ j : ℕ) • P ≠ 0) (k : ℤ) : ∃ R, mulGen c order pt k = some R := by
  unfold mulGen
  cases pt with
  | inf => exact ⟨_, rfl⟩
  | jac X Y Z =>
    simp only
    split
    · exact ⟨_, rfl⟩
    · split
      · exact ⟨_, rfl⟩
      · have : ∃ tab, precompute c order X Y Z = some tab := by
          unfold precompute
          obtain ⟨xy, hxy⟩ := affineXY_some c hcp (P := P) hP
          obtain ⟨x, y⟩ := xy
          rw [hxy]
          exact precomputeLoop_some hc c hcp hca _ _ _ P _ hP hnz _
        obtain ⟨tab, htab⟩ := this
        rw [htab]
        exact ⟨_, rfl⟩

theorem pjMul_some (hc : CurveOK p a b) (c : Curve) (hcp : c.p = p) (hca : c.a = a) (P : PJ)
    {A : (W (a : ZMod p) (b : ZMod p)).Point} (hP : PRep p a b A P.pt)
    (hgen : P.gen = true → ∀ j : ℕ, (2 ^ j : ℕ) • A ≠ 0) (k : ℤ) : ∃ R, pjMul c P k = some R := by
  unfold pjMul
  split
  · rename_i hg
    exact mulGen_some hc c hcp hca _ hP (hgen hg) k
  · exact mulNaf_some c hcp _ hP k

theorem optAdd_some (c : Curve) {x y : Option Pt} (hx : ∃ r, x = some r) (hy : ∃ r, y = some r) :
    ∃ R, optAdd c x y = some R := by
  obtain ⟨r1, rfl⟩ := hx
  obtain ⟨r2, rfl⟩ := hy
  exact ⟨_, rfl⟩

/-- `mul_add` with a second operand that is not a generator object (a public key never is) -/
theorem mulAdd_some (hc : CurveOK p a b) (c : Curve) (hcp : c.p = p) (hca : c.a = a) (P : PJ) (Q : PJ)
    {A B : (W (a : ZMod p) (b : ZMod p)).Point} (hP : PRep p a b A P.pt) (hQ : PRep p a b B Q.pt)
    (hgen : P.gen = true → ∀ j : ℕ, (2 ^ j : ℕ) • A ≠ 0) (hQg : Q.gen = false) (k1 k2 : ℤ) :
    ∃ R, mulAdd c P k1 (some Q) k2 = some R := by
  have hQgen : Q.gen = true → ∀ j : ℕ, (2 ^ j : ℕ) • B ≠ 0 := by rw [hQg]; intro h; cases h
  unfold mulAdd
  simp only
  split
  · exact pjMul_some hc c hcp hca P hP hgen k1
  · split
    · exact pjMul_some hc c hcp hca Q hQ hQgen k2
    · split
      · exact optAdd_some c (pjMul_some hc c hcp hca P hP hgen _) (pjMul_some hc c hcp hca Q hQ hQgen _)
      · obtain ⟨P1, h1⟩ := scale_some c hcp (P := A) hP
        obtain ⟨P2, h2⟩ := scale_some c hcp (P := B) hQ
        have r1 := (scale_rep c hcp hP h1).1
        have r2 := (scale_rep c hcp hQ h2).1
        simp only [h1, h2]
        split
        · apply optAdd_some
          · exact pjMul_some hc c hcp hca { P with X := P1.1, Y := P1.2.1, Z := P1.2.2 } r1 hgen _
          · exact pjMul_some hc c hcp hca { Q with X := P2.1, Y := P2.2.1, Z := P2.2.2 } r2 hQgen _
        · exact ⟨_, rfl⟩

end Bec2Verif.EcC
