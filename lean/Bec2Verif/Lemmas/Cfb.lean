import Bec2Verif.Model.Modes
/-!
CFB mode (`AESModeOfOperationCFB`, any segment size): splitting the input at a segment boundary across two calls changes
neither the output nor the shift register.
-/
namespace Bec2Verif.Modes
open Bec2Verif

variable (B : BlockCipher) (k : B.K)

theorem cfbLoop_succ (seg : Nat) (dec : Bool) (f : Nat) (data reg out : Bytes) (h : data.isEmpty = false) :
    cfbLoop B k seg dec (f + 1) data reg out =
      cfbLoop B k seg dec f (data.drop seg)
        (reg.drop (if dec then data.take seg else xorBytes (data.take seg) ((B.enc k reg).take (data.take seg).length)).length ++
          (if dec then data.take seg else xorBytes (data.take seg) ((B.enc k reg).take (data.take seg).length)))
        (out ++ xorBytes (data.take seg) ((B.enc k reg).take (data.take seg).length)) := by
  simp [cfbLoop, h]

/-- more fuel than bytes is always enough, and then the amount does not matter -/
theorem cfbLoop_fuel (seg : Nat) (hseg : 0 < seg) (dec : Bool) (f1 f2 : Nat) (data reg out : Bytes)
    (h1 : data.length < f1) (h2 : data.length < f2) :
    cfbLoop B k seg dec f1 data reg out = cfbLoop B k seg dec f2 data reg out := by
  induction f1 generalizing f2 data reg out with
  | zero => omega
  | succ f ih =>
    cases f2 with
    | zero => omega
    | succ g =>
      unfold cfbLoop
      by_cases he : data.isEmpty
      · simp [he]
      · simp only [he, Bool.false_eq_true, if_false]
        have hpos : 0 < data.length := by
          cases data with
          | nil => simp at he
          | cons _ _ => simp
        apply ih
        · simp only [List.length_drop]; omega
        · simp only [List.length_drop]; omega

/-- the loop over `a ++ b` is the loop over `a` followed by the loop over `b`, when `a` is a whole number of segments -/
theorem cfbLoop_append (seg : Nat) (hseg : 0 < seg) (dec : Bool) (n : Nat) (a b reg out : Bytes) (fa fab fb : Nat)
    (ha : a.length = n * seg) (hfa : a.length < fa) (hfab : (a ++ b).length < fab) (hfb : b.length < fb) :
    cfbLoop B k seg dec fab (a ++ b) reg out =
      cfbLoop B k seg dec fb b (cfbLoop B k seg dec fa a reg out).1 (cfbLoop B k seg dec fa a reg out).2 := by
  induction n generalizing a reg out fa fab with
  | zero =>
    have : a = [] := List.length_eq_zero_iff.mp (by simpa using ha)
    subst this
    cases fa with
    | zero => omega
    | succ f =>
      have e : cfbLoop B k seg dec (f + 1) [] reg out = (reg, out) := by simp [cfbLoop]
      rw [e]
      simp only [List.nil_append]
      exact cfbLoop_fuel B k seg hseg dec _ _ _ _ _ (by simpa using hfab) hfb
  | succ n ih =>
    have halen : seg ≤ a.length := by rw [ha]; exact Nat.le_mul_of_pos_left seg (by omega)
    cases fa with
    | zero => omega
    | succ f =>
      cases fab with
      | zero => omega
      | succ g =>
        have hne : a.isEmpty = false := by
          cases a with
          | nil => simp at halen; omega
          | cons _ _ => rfl
        have hne2 : (a ++ b).isEmpty = false := by
          cases a with
          | nil => simp at hne
          | cons _ _ => rfl
        rw [cfbLoop_succ B k seg dec g (a ++ b) reg out hne2, cfbLoop_succ B k seg dec f a reg out hne]
        have ht : (a ++ b).take seg = a.take seg := List.take_append_of_le_length halen
        have hd : (a ++ b).drop seg = a.drop seg ++ b := List.drop_append_of_le_length halen
        rw [ht, hd]
        apply ih
        · rw [List.length_drop, ha, Nat.succ_mul]; omega
        · simp only [List.length_drop]; omega
        · simp only [List.length_append, List.length_drop] at hfab ⊢; omega

/-- **split independence** for CFB: `a` a whole number of segments -/
theorem cfb_split (seg : Nat) (hseg : 0 < seg) (s : St B) (hk : s.kind = .cfb seg) (hreg : s.listReg = false) (dec : Bool)
    (a b : Bytes) (n m : Nat) (ha : a.length = n * seg) (hb : b.length = m * seg) :
    step B s dec (a ++ b) =
      (step B s dec a >>= fun (s1, o1) => step B s1 dec b >>= fun (s2, o2) => .ok (s2, o1 ++ o2)) := by
  have hmod : ∀ l : Bytes, ∀ j, l.length = j * seg → (l.length % seg != 0) = false := by
    intro l j h; rw [h]; simp
  have hab : (a ++ b).length = (n + m) * seg := by rw [List.length_append, ha, hb, Nat.add_mul]
  unfold step
  simp only [hk, hmod _ _ hab, hmod _ _ ha, hreg, Bool.false_and, Bool.false_eq_true, if_false, bind, Except.bind,
    hmod _ _ hb]
  have key := cfbLoop_append B s.key seg hseg dec n a b s.reg [] (a.length + 1) ((a ++ b).length + 1) (b.length + 1) ha
    (by omega) (by omega) (by omega)
  rw [key]
  -- the second call starts with an empty output: outputs concatenate
  have hout : ∀ (f : Nat) (d r o : Bytes), cfbLoop B s.key seg dec f d r o =
      ((cfbLoop B s.key seg dec f d r []).1, o ++ (cfbLoop B s.key seg dec f d r []).2) := by
    intro f
    induction f with
    | zero => intro d r o; simp [cfbLoop]
    | succ f ih =>
      intro d r o
      unfold cfbLoop
      by_cases he : d.isEmpty
      · simp [he]
      · simp only [he, Bool.false_eq_true, if_false]
        rw [ih _ _ (o ++ _), ih _ _ ([] ++ _)]
        simp [List.append_assoc]
  rw [hout (b.length + 1) b _ (cfbLoop B s.key seg dec (a.length + 1) a s.reg []).2]

end Bec2Verif.Modes
