import Bec2Verif.Lemmas.Reader
/-!
C03: the writer refines the declarative layout.  `to_binary` (two passes, running address) produces
exactly `Spec.Layout.bodyBytes` of the entries `rawEntriesOf` (closed form), and these entries are
well-formed and authentic.
-/
namespace Bec2Verif.Bf3
open Bec2Verif Bec2Verif.Spec.Layout

/-- the entry the layout prescribes for component `c` with index `ndx` (0-based) stored at `adr` -/
def rawEntryOf (C : Crypto) (key : Bytes) (c : Comp) (ndx adr : Nat) : Except Err RawEntry := do
  let raw ← getRawData C key c
  let pm ← cmac C raw key none
  let pre : RawEntry := { adr := adr, declared := c.actualLen, pmac := pm, desc := c.desc, emac := [], payload := raw }
  let em ← cmac C (entryBody pre) key (some (toBE Gen.CMAC_SIZE (1 + ndx)))
  pure { pre with emac := em }

def rawEntriesOf (C : Crypto) (key : Bytes) : List Comp → Nat → Nat → Except Err (List RawEntry)
  | [], _, _ => .ok []
  | c :: cs, ndx, adr => do
    let re ← rawEntryOf C key c ndx adr
    let rest ← rawEntriesOf C key cs (ndx + 1) (adr + re.payload.length)
    pure (re :: rest)

/-- what the writer's own `to_bytes` calls guarantee about an entry -/
structure WriterFacts (re : RawEntry) : Prop where
  adrLt : re.adr < 256 ^ 4
  storedLt : re.payload.length < 256 ^ 4
  declLt : re.declared < 256 ^ 4
  tagsLt : TagsLt re.desc
  descLt : (tlvBytes re.desc).length < 256

theorem dirEntry_layout (C : Crypto) (key : Bytes) (c : Comp) (ndx adr : Nat) (e : Bytes) (n : Nat)
    (h : dirEntry C key c ndx adr = .ok (e, n)) :
    ∃ re, rawEntryOf C key c ndx adr = .ok re ∧ e = entryBytes re ∧ n = re.payload.length ∧
      WriterFacts re ∧ re.adr = adr ∧ re.desc = c.desc ∧ re.declared = c.actualLen ∧
      getRawData C key c = .ok re.payload ∧
      C.mac key none re.payload = .ok re.pmac ∧
      C.mac key (some (toBE Gen.CMAC_SIZE (1 + ndx))) (entryBody re) = .ok re.emac := by
  simp only [dirEntry, Except.bind_eq_ok] at h
  obtain ⟨raw, hraw, pm, hpm, a, ha, l, hl, al, hal', tl, htl, dl, hdl, em, hem, hpure⟩ := h
  simp only [pure, Except.pure, Except.ok.injEq, Prod.mk.injEq] at hpure
  obtain ⟨he, hn⟩ := hpure
  obtain ⟨rfl, hadr⟩ := toBytesBE_ok ha
  obtain ⟨rfl, hlen⟩ := toBytesBE_ok hl
  obtain ⟨rfl, hact⟩ := toBytesBE_ok hal'
  obtain ⟨rfl, hdlen⟩ := toBytesBE_ok hdl
  obtain ⟨rfl, htags⟩ := tlvEntries_ok _ _ htl
  have hbody : entryBody { adr := adr, declared := c.actualLen, pmac := pm, desc := c.desc, emac := [], payload := raw }
      = toBE 4 adr ++ toBE 4 raw.length ++ toBE 4 c.actualLen ++ pm ++ toBE 1 (tlvBytes c.desc).length ++ tlvBytes c.desc := by
    simp only [entryBody, List.append_assoc]
  refine ⟨{ adr := adr, declared := c.actualLen, pmac := pm, desc := c.desc, emac := em, payload := raw },
    ?_, ?_, hn.symm, ⟨hadr, hlen, hact, htags, by simpa using hdlen⟩, rfl, rfl, rfl, hraw, hpm, ?_⟩
  · simp only [rawEntryOf, hraw, hpm, bind, Except.bind, hbody, pure, Except.pure]
    simp only [cmac] at hem ⊢
    rw [hem]
  · rw [← he]; simp only [entryBytes, entryBody, List.append_assoc]
  · simp only [cmac] at hem
    simpa [entryBody, List.append_assoc] using hem

theorem dirEntries_layout (C : Crypto) (key : Bytes) (comps : List Comp) (ndx adr : Nat) (es : Bytes)
    (h : dirEntries C key comps ndx adr = .ok es) :
    ∃ res, rawEntriesOf C key comps ndx adr = .ok res ∧ es = dirEntriesBytes res ∧
      rawDatas C key comps = .ok (payloads res) ∧
      res.map (fun re => (re.desc, re.declared)) = comps.map (fun c => (c.desc, c.actualLen)) ∧
      (∀ re ∈ res, WriterFacts re ∧ (entryBytes re).length < 256) ∧
      (∀ (k : Nat) (hk : k < res.length),
        C.mac key none res[k].payload = .ok res[k].pmac ∧
        C.mac key (some (toBE Gen.CMAC_SIZE (1 + (ndx + k)))) (entryBody res[k]) = .ok res[k].emac) ∧
      (∀ (k : Nat) (hk : k < res.length), res[k].adr = adr + ((res.take k).map (fun re => re.payload.length)).sum) := by
  induction comps generalizing ndx adr es with
  | nil =>
    simp [dirEntries] at h; subst h
    exact ⟨[], rfl, rfl, rfl, rfl, by simp, by simp, by simp⟩
  | cons c cs ih =>
    simp only [dirEntries, Except.bind_eq_ok] at h
    obtain ⟨⟨e, rawLen⟩, hde, el, hel, rest, hrest, hpure⟩ := h
    simp only [pure, Except.pure, Except.ok.injEq] at hpure
    subst hpure
    obtain ⟨rfl, hel256⟩ := toBytesBE_ok hel
    obtain ⟨re, hre, rfl, rfl, hwf, hadr, hdesc, hdecl, hraw, hpm, hem⟩ := dirEntry_layout C key c ndx adr e rawLen hde
    obtain ⟨res', hres', rfl, hraws, hmap, hfacts, hmacs, hadrs⟩ := ih (ndx + 1) (adr + re.payload.length) rest hrest
    refine ⟨re :: res', ?_, by simp [dirEntriesBytes], ?_, by simp [hdesc, hdecl, hmap], ?_, ?_, ?_⟩
    · simp [rawEntriesOf, hre, hres', bind, Except.bind, pure, Except.pure]
    · simp [rawDatas, hraw, hraws, payloads, bind, Except.bind, pure, Except.pure]
    · intro r hr
      simp only [List.mem_cons] at hr
      rcases hr with rfl | hr
      · exact ⟨hwf, by simpa using hel256⟩
      · exact hfacts r hr
    · intro k hk
      cases k with
      | zero => simpa using ⟨hpm, hem⟩
      | succ k =>
        have := hmacs k (by simpa using hk)
        simpa [show 1 + (ndx + 1 + k) = 1 + (ndx + (k + 1)) by omega] using this
    · intro k hk
      cases k with
      | zero => simpa using hadr
      | succ k =>
        have := hadrs k (by simpa using hk)
        simp only [List.getElem_cons_succ, List.take_succ_cons, List.map_cons, List.sum_cons]
        rw [this]; omega


/-- entry list and component list correspond position by position -/
def Matches (C : Crypto) (key : Bytes) : List RawEntry → List Comp → Prop
  | [], [] => True
  | re :: rs, c :: cs =>
    (re.desc = c.desc ∧ re.declared = c.actualLen ∧ getRawData C key c = .ok re.payload) ∧ Matches C key rs cs
  | _, _ => False

/-- recursive form of what the writer guarantees for a run of entries -/
def WriterWF (C : Crypto) (key : Bytes) : Nat → Nat → List RawEntry → Prop
  | _, _, [] => True
  | ndx, adr, re :: rs =>
    WriterFacts re ∧ (entryBytes re).length < 256 ∧ re.adr = adr ∧
    C.mac key none re.payload = .ok re.pmac ∧
    C.mac key (some (toBE Gen.CMAC_SIZE (1 + ndx))) (entryBody re) = .ok re.emac ∧
    WriterWF C key (ndx + 1) (adr + re.payload.length) rs

theorem dirEntries_writerWF (C : Crypto) (key : Bytes) (comps : List Comp) (ndx adr : Nat) (es : Bytes)
    (h : dirEntries C key comps ndx adr = .ok es) :
    ∃ res, rawEntriesOf C key comps ndx adr = .ok res ∧ es = dirEntriesBytes res ∧
      rawDatas C key comps = .ok (payloads res) ∧
      Matches C key res comps ∧
      WriterWF C key ndx adr res := by
  induction comps generalizing ndx adr es with
  | nil =>
    simp [dirEntries] at h; subst h
    exact ⟨[], rfl, rfl, rfl, trivial, trivial⟩
  | cons c cs ih =>
    simp only [dirEntries, Except.bind_eq_ok] at h
    obtain ⟨⟨e, rawLen⟩, hde, el, hel, rest, hrest, hpure⟩ := h
    simp only [pure, Except.pure, Except.ok.injEq] at hpure
    subst hpure
    obtain ⟨rfl, hel256⟩ := toBytesBE_ok hel
    obtain ⟨re, hre, rfl, rfl, hwf, hadr, hdesc, hdecl, hraw, hpm, hem⟩ := dirEntry_layout C key c ndx adr e rawLen hde
    obtain ⟨res', hres', rfl, hraws, hall, hww⟩ := ih (ndx + 1) (adr + re.payload.length) rest hrest
    refine ⟨re :: res', ?_, by simp [dirEntriesBytes], ?_, ⟨⟨hdesc, hdecl, hraw⟩, hall⟩,
      ⟨hwf, by simpa using hel256, hadr, hpm, hem, hww⟩⟩
    · simp [rawEntriesOf, hre, hres', bind, Except.bind, pure, Except.pure]
    · simp [rawDatas, hraw, hraws, payloads, bind, Except.bind, pure, Except.pure]

theorem entriesWF_of_writerWF (C : Crypto) (hm : MacLen C) (key : Bytes) (ndx adr : Nat) (res : List RawEntry)
    (comps : List Comp)
    (hall : Matches C key res comps)
    (hok : ∀ c ∈ comps, CompOK C key c)
    (h : WriterWF C key ndx adr res) : EntriesWF C true key ndx adr res := by
  induction res generalizing ndx adr comps with
  | nil => trivial
  | cons re rs ih =>
    cases comps with
    | nil => exact absurd hall (by simp [Matches])
    | cons c cs =>
      obtain ⟨hrc, hall'⟩ := hall
      obtain ⟨hf, hel, hadr, hpm, hem, hrest⟩ := h
      obtain ⟨hdesc, hdecl, hraw⟩ := hrc
      have hcok := hok c (by simp)
      refine ⟨?_, ih _ _ cs hall' (fun c' hc' => hok c' (by simp [hc'])) hrest⟩
      exact { adrEq := hadr, adrLt := hf.adrLt, storedLt := hf.storedLt,
              declLe := by rw [hdecl]; exact hcok.2 _ hraw,
              pmacLen := hm _ _ _ _ hpm, emacLen := hm _ _ _ _ hem, tagsLt := hf.tagsLt,
              tagsNodup := by rw [hdesc]; exact hcok.1, descLt := hf.descLt, entryLt := hel,
              emacOk := fun _ => hem, pmacOk := fun _ => hpm }

/-- **C03 (body)**: the writer's output is the declarative layout of the prescribed entries, with
absolute addresses starting right after the directory; under `MacLen` and the per-component
conditions it is well-formed and authentic. -/
theorem toBinary_layout (C : Crypto) (hm : MacLen C) (key : Bytes) (comps : List Comp) (off : Nat) (b : Bytes)
    (h : toBinary C comps off key = .ok b) :
    ∃ res, rawEntriesOf C key comps 0 (off + 4 + (dirBytes res).length) = .ok res ∧ b = bodyBytes res ∧
      (dirBytes res).length < 256 ^ 4 ∧ WriterWF C key 0 (off + 4 + (dirBytes res).length) res ∧
      Matches C key res comps := by
  simp only [toBinary, Except.bind_eq_ok] at h
  obtain ⟨d0, hd0, rawDir, hdir, raws, hraws, hp⟩ := h
  simp only [pure, Except.pure, Except.ok.injEq] at hp
  subst hp
  have hlen0 := dirToBinary_len hm hd0
  simp only [dirToBinary, Except.bind_eq_ok] at hdir
  obtain ⟨es, hes, len, hlen, hp⟩ := hdir
  simp only [pure, Except.pure, Except.ok.injEq] at hp
  subst hp
  obtain ⟨rfl, hsz⟩ := toBytesBE_ok hlen
  obtain ⟨res, hres, rfl, hraws', hall, hww⟩ := dirEntries_writerWF C key comps 0 _ es hes
  rw [hraws'] at hraws
  injection hraws with hraws
  subst hraws
  have hdl : d0.length = 4 + (dirBytes res).length := by
    rw [hlen0, ← dirEntries_len hm comps hes]; simp [dirBytes]
  have hadr : off + d0.length = off + 4 + (dirBytes res).length := by omega
  rw [hadr] at hres hww
  exact ⟨res, hres, by simp [bodyBytes, dirBytes, List.append_assoc], by simpa [dirBytes] using hsz, hww, hall⟩

theorem toBinary_wellformed (C : Crypto) (hm : MacLen C) (key : Bytes) (comps : List Comp) (off : Nat) (b : Bytes)
    (hok : ∀ c ∈ comps, CompOK C key c) (h : toBinary C comps off key = .ok b) :
    ∃ res, WellFormed C true key off b res ∧ rawEntriesOf C key comps 0 (off + 4 + (dirBytes res).length) = .ok res := by
  obtain ⟨res, hres, hb, hsz, hww, hall⟩ := toBinary_layout C hm key comps off b h
  exact ⟨res, ⟨hb, hsz, entriesWF_of_writerWF C hm key 0 _ res comps hall hok hww⟩, hres⟩

end Bec2Verif.Bf3
