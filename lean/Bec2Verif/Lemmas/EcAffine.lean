import Bec2Verif.Lemmas.EcMul
/-!
The affine `Point` class of python-ecdsa (`__add__`, `double`, `__neg__`): whenever an operation returns a point,
it is the group-law result.  (The class asserts that every constructed point lies on the curve; a failed assertion
or a failed inversion is an exception, about which nothing is claimed here.)
-/
set_option linter.style.nameCheck false
namespace Bec2Verif.EcC
open Bec2Verif Ec EcF WeierstrassCurve

variable {p : ℕ} [hp : Fact p.Prime] {a b : ℤ}

/-- an affine `Point` object represents a group element: coordinates are compared in the field -/
def ARep (p : ℕ) [Fact p.Prime] (a b : ℤ) (A : (W (a : ZMod p) (b : ZMod p)).Point) : APt → Prop
  | .inf => A = 0
  | .pt x y => ∃ h : (W (a : ZMod p) (b : ZMod p)).Nonsingular (x : ZMod p) (y : ZMod p), A = .some _ _ h

/-- `inverse_mod` returning a value for a non-zero integer means the residue is invertible, with that inverse -/
theorem inverseMod_sound' (v zi : ℤ) (hv : v ≠ 0) (h : inverseMod v p = some zi) :
    (zi : ZMod p) * (v : ZMod p) = 1 := by
  unfold inverseMod at h
  have hv0 : (v == 0) = false := by simpa using hv
  simp only [hv0, Bool.false_eq_true, if_false] at h
  have hinv := egcd_inv (p := p) (2 * (p : ℤ).toNat.log2 + 4) (v % (p : ℤ)) (v % (p : ℤ)) (p : ℤ) 1 0
    (by simp) (by simp)
  split at h
  · rename_i hg
    injection h with h
    subst h
    have hg1 := beq_iff_eq.mp hg
    rw [hg1, cast_emod] at hinv
    rw [cast_emod]
    simpa using hinv.symm
  · cases h

theorem mkPoint_ok {c : Curve} {x y : ℤ} {r : APt} (h : mkPoint c x y = .ok r) : r = .pt x y := by
  unfold mkPoint at h
  split at h
  · injection h with h; exact h.symm
  · cases h

/-- a triple with `Z = 1` representing a non-zero group element gives the affine representation -/
theorem arep_of_rep {A : (W (a : ZMod p) (b : ZMod p)).Point} {u v : ℤ}
    (h : Rep A ((u : ZMod p), (v : ZMod p), (1 : ZMod p))) (hA : A ≠ 0) : ARep p a b A (.pt u v) := by
  cases A with
  | zero => exact absurd rfl hA
  | some x y hns =>
    obtain ⟨_, hX, hY⟩ := h
    simp only [one_pow, mul_one] at hX hY
    subst hX hY
    exact ⟨hns, rfl⟩

/-- `Point.double` -/
theorem aDouble_rep (hc : CurveOK p a b) (c : Curve) (hcp : c.p = p) (hca : c.a = a)
    {A : (W (a : ZMod p) (b : ZMod p)).Point} {P r : APt} (hP : ARep p a b A P) (h : aDouble c P = .ok r) :
    ARep p a b (A + A) r := by
  cases P with
  | inf =>
    have : A = 0 := hP
    subst this
    simp only [aDouble, Except.ok.injEq] at h
    subst h
    show (0 : (W (a : ZMod p) (b : ZMod p)).Point) + 0 = 0
    simp
  | pt x y =>
    obtain ⟨hns, rfl⟩ := hP
    have hy : (y : ZMod p) ≠ 0 := hc.noY0 _ _ hns.1
    unfold aDouble at h
    simp only [hcp, hca] at h
    cases hi : invOrErr (2 * y) p with
    | error e => simp [hi, bind, Except.bind] at h
    | ok i =>
      simp only [hi, bind, Except.bind] at h
      have hr := mkPoint_ok h
      subst hr
      have hi' : inverseMod (2 * y) p = some i := by
        unfold invOrErr at hi
        split at hi
        · injection hi with hi; subst hi; assumption
        · cases hi
      have h2y : (2 * y : ℤ) ≠ 0 := by
        intro h0
        apply hy
        have : y = 0 := by omega
        simp [this]
      have hinv := inverseMod_sound' (p := p) (2 * y) i h2y hi'
      have hiF : (i : ZMod p) = (2 * (y : ZMod p))⁻¹ := by
        push_cast at hinv
        exact eq_inv_of_mul_eq_one_left hinv
      have hne : Affine.Point.some _ _ hns + Affine.Point.some _ _ hns ≠ 0 := by
        intro h0
        have hneg : (y : ZMod p) = (W (a : ZMod p) (b : ZMod p)).negY x y := by
          by_contra hne'
          rw [Affine.Point.add_self_of_Y_ne hne'] at h0
          exact Affine.Point.some_ne_zero _ h0
        rw [W_negY] at hneg
        have : 2 * (y : ZMod p) = 0 := by linear_combination hneg
        exact (mul_ne_zero hc.two hy) this
      apply arep_of_rep _ hne
      apply rep_dbl hns hy hc.two
      refine ⟨by simp, ?_, ?_⟩
      · simp only [cast_emod, Int.cast_mul, Int.cast_add, Int.cast_sub, Int.cast_ofNat, hiF, tanX,
          one_pow, mul_one, div_eq_mul_inv]
        ring
      · simp only [cast_emod, Int.cast_mul, Int.cast_add, Int.cast_sub, Int.cast_ofNat, hiF, tanY, tanX,
          one_pow, mul_one, div_eq_mul_inv]
        ring

/-- `Point.__add__` -/
theorem aAdd_rep (hc : CurveOK p a b) (c : Curve) (hcp : c.p = p) (hca : c.a = a)
    {A B : (W (a : ZMod p) (b : ZMod p)).Point} {P Q r : APt} (hP : ARep p a b A P) (hQ : ARep p a b B Q)
    (h : aAdd c P Q = .ok r) : ARep p a b (A + B) r := by
  cases Q with
  | inf =>
    have : B = 0 := hQ
    subst this
    cases P <;> (simp only [aAdd, Except.ok.injEq] at h; subst h; rw [add_zero]; exact hP)
  | pt x2 y2 =>
    cases P with
    | inf =>
      have : A = 0 := hP
      subst this
      simp only [aAdd, Except.ok.injEq] at h
      subst h
      rw [zero_add]; exact hQ
    | pt x1 y1 =>
      obtain ⟨h1, rfl⟩ := hP
      obtain ⟨h2, rfl⟩ := hQ
      unfold aAdd at h
      simp only [hcp] at h
      by_cases hx : x1 = x2
      · subst hx
        simp only [beq_self_eq_true, if_true] at h
        by_cases hy : ((y1 + y2) % (p : ℤ) == 0) = true
        · simp only [hy, if_true, Except.ok.injEq] at h
          subst h
          show _ = 0
          apply add_inverse h1 h2 rfl
          have := (mod_beq_zero _).mp hy
          push_cast at this
          linear_combination this
        · simp only [hy, Bool.false_eq_true, if_false] at h
          -- same x, not inverse: the same point
          have hyy : (y1 : ZMod p) = (y2 : ZMod p) := by
            rcases y_eq_or_neg h1.1 h2.1 with h' | h'
            · exact h'
            · exfalso
              apply hy
              rw [mod_beq_zero]
              push_cast
              rw [h']; ring
          rw [← point_ext h1 h2 rfl hyy]
          exact aDouble_rep hc c hcp hca (P := .pt x1 y1) ⟨h1, rfl⟩ h
      · have : (x1 == x2) = false := by simpa using hx
        simp only [this, Bool.false_eq_true, if_false] at h
        cases hi : invOrErr (x2 - x1) p with
        | error e => simp [hi, bind, Except.bind] at h
        | ok i =>
          simp only [hi, bind, Except.bind] at h
          have hr := mkPoint_ok h
          subst hr
          have hi' : inverseMod (x2 - x1) p = some i := by
            unfold invOrErr at hi
            split at hi
            · injection hi with hi; subst hi; assumption
            · cases hi
          have hinv := inverseMod_sound' (p := p) (x2 - x1) i (by omega) hi'
          push_cast at hinv
          have hiF : (i : ZMod p) = ((x2 : ZMod p) - (x1 : ZMod p))⁻¹ := eq_inv_of_mul_eq_one_left hinv
          have hxF : (x1 : ZMod p) ≠ (x2 : ZMod p) := by
            intro he
            rw [he, sub_self, mul_zero] at hinv
            exact zero_ne_one hinv
          have hne : Affine.Point.some _ _ h1 + Affine.Point.some _ _ h2 ≠ 0 := by
            rw [Affine.Point.add_of_X_ne hxF]
            exact Affine.Point.some_ne_zero _
          apply arep_of_rep _ hne
          apply rep_add_of_X_ne h1 h2 hxF
          refine ⟨by simp, ?_, ?_⟩
          · simp only [cast_emod, Int.cast_mul, Int.cast_add, Int.cast_sub, hiF, chordX, one_pow, mul_one, div_eq_mul_inv]
            have : ((x1 : ZMod p) - (x2 : ZMod p))⁻¹ = -((x2 : ZMod p) - (x1 : ZMod p))⁻¹ := by
              rw [← neg_sub, neg_inv]
            rw [this]; ring
          · simp only [cast_emod, Int.cast_mul, Int.cast_add, Int.cast_sub, hiF, chordY, chordX, one_pow, mul_one,
              div_eq_mul_inv]
            have : ((x1 : ZMod p) - (x2 : ZMod p))⁻¹ = -((x2 : ZMod p) - (x1 : ZMod p))⁻¹ := by
              rw [← neg_sub, neg_inv]
            rw [this]; ring

/-- `Point.__neg__` -/
theorem aNeg_rep (c : Curve) (hcp : c.p = p) {A : (W (a : ZMod p) (b : ZMod p)).Point} {P r : APt}
    (hP : ARep p a b A P) (h : aNeg c P = .ok r) : ARep p a b (-A) r := by
  cases P with
  | inf => simp [aNeg] at h
  | pt x y =>
    obtain ⟨hns, rfl⟩ := hP
    simp only [aNeg] at h
    have hr := mkPoint_ok h
    subst hr
    rw [Affine.Point.neg_some]
    have hy : (W (a : ZMod p) (b : ZMod p)).negY (x : ZMod p) (y : ZMod p) = ((c.p - y : ℤ) : ZMod p) := by
      rw [W_negY, hcp]; push_cast; simp
    have hns' : (W (a : ZMod p) (b : ZMod p)).Nonsingular (x : ZMod p) (((c.p - y : ℤ)) : ZMod p) := by
      rw [← hy]; exact (Affine.nonsingular_neg _ _).mpr hns
    refine ⟨hns', ?_⟩
    congr 1

end Bec2Verif.EcC
