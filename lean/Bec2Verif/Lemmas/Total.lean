import Bec2Verif.Lemmas.Bytes
import Bec2Verif.Model.Text
import Bec2Verif.Model.Bf3
import Bec2Verif.Model.Crypto
/-!
Error-class reasoning for C14: `Errs P r` says that *if* `r` is an error, its class satisfies `P`.
Combinators make the proofs follow the shape of the model definitions (bind, if, match).
-/
namespace Bec2Verif

/-- the exception classes C14 permits a parsing entry point to raise: the library's format errors and
`ValueError` (with its subclass `UnicodeDecodeError`) -/
def Err.allowed : Err → Bool
  | .valueError | .unicodeError
  | .formatError | .formatBf3 | .formatBec2 | .formatCfgId | .missingPrjName | .missingDevName
  | .unsupportedInstr | .unsupportedTagType | .unsupportedLegacy => true
  | _ => false

structure Errs {α : Type} (P : Err → Prop) (r : Except Err α) : Prop where
  out : ∀ e, r = .error e → P e

namespace Errs
variable {α β : Type} {P Q : Err → Prop}

theorem ok (a : α) : Errs P (.ok a : Except Err α) := ⟨by intro e h; cases h⟩
theorem pure' (a : α) : Errs P (pure a : Except Err α) := ok a
theorem error {e : Err} (h : P e) : Errs P (.error e : Except Err α) := ⟨by
  intro e' h'; cases h'; exact h⟩
theorem throw' {e : Err} (h : P e) : Errs P (throw e : Except Err α) := error h

theorem bind {x : Except Err α} {f : α → Except Err β} (hx : Errs P x) (hf : ∀ a, x = .ok a → Errs P (f a)) :
    Errs P (x >>= f) := ⟨by
  intro e h
  cases hxa : x with
  | error e' =>
    rw [hxa] at h
    simp only [Bind.bind, Except.bind] at h
    cases h
    exact hx.out _ hxa
  | ok a =>
    rw [hxa] at h
    exact (hf a hxa).out e h⟩

/-- the early-exit shape of `do` blocks: `throw e >>= continuation` -/
theorem throw_bind {e : Err} {f : α → Except Err β} (h : P e) : Errs P ((throw e : Except Err α) >>= f) :=
  bind (throw' h) (fun a ha => by cases ha)

theorem mono (h : ∀ e, P e → Q e) {r : Except Err α} (hr : Errs P r) : Errs Q r := ⟨fun e he => h e (hr.out e he)⟩

theorem ite {c : Prop} [Decidable c] {a b : Except Err α} (ha : c → Errs P a) (hb : ¬ c → Errs P b) :
    Errs P (if c then a else b) := by
  split
  · exact ha ‹_›
  · exact hb ‹_›

theorem of_eq {r r' : Except Err α} (h : r = r') (hr : Errs P r') : Errs P r := h ▸ hr

end Errs

def Err.Allowed (e : Err) : Prop := e.allowed = true

abbrev Total {α : Type} (r : Except Err α) : Prop := Errs Err.Allowed r

/-! ### byte reader -/
namespace Bf3

theorem take_errs (n : Nat) (bs : Bytes) : Errs (· = .valueError) (take n bs) := by
  unfold take; split
  · exact Errs.ok _
  · exact Errs.error rfl

theorem readInt_errs (n : Nat) (bs : Bytes) : Errs (· = .valueError) (readInt n bs) := by
  unfold readInt
  exact Errs.bind (take_errs n bs) (fun _ _ => Errs.ok _)

theorem ensureEof_errs (bs : Bytes) : Errs (· = .valueError) (ensureEof bs) := by
  unfold ensureEof; split
  · exact Errs.ok _
  · exact Errs.error rfl

theorem take_total (n : Nat) (bs : Bytes) : Total (take n bs) :=
  (take_errs n bs).mono (by intro e h; subst h; rfl)
theorem readInt_total (n : Nat) (bs : Bytes) : Total (readInt n bs) :=
  (readInt_errs n bs).mono (by intro e h; subst h; rfl)
theorem ensureEof_total (bs : Bytes) : Total (ensureEof bs) :=
  (ensureEof_errs bs).mono (by intro e h; subst h; rfl)

theorem take_len {n : Nat} {bs a r : Bytes} (h : take n bs = .ok (a, r)) : r.length = bs.length - n ∧ n ≤ bs.length := by
  unfold take at h
  split at h
  · injection h with h; injection h with h1 h2; subst h2; simp; assumption
  · cases h

theorem readInt_len {n v : Nat} {bs r : Bytes} (h : readInt n bs = .ok (v, r)) : r.length = bs.length - n ∧ n ≤ bs.length := by
  unfold readInt at h
  cases ht : take n bs with
  | error e => simp [ht, bind, Except.bind] at h
  | ok p =>
    obtain ⟨a, r'⟩ := p
    simp only [ht, bind, Except.bind, pure, Except.pure, Except.ok.injEq, Prod.mk.injEq] at h
    obtain ⟨_, rfl⟩ := h
    exact take_len ht

end Bf3
end Bec2Verif

namespace Bec2Verif
namespace Bf3

/-- every crypto plug-in error is a permitted class (the registered adapter: `adapter_cryptoTotal`) -/
structure CryptoTotal (C : Crypto) : Prop where
  enc : ∀ k iv d, Total (C.encrypt k iv d)
  dec : ∀ k iv d, Total (C.decrypt k iv d)
  mac : ∀ k iv d, Total (C.mac k iv d)

theorem parseDesc_total (fuel : Nat) (bs : Bytes) (acc : List (Nat × Bytes)) : Total (parseDesc fuel bs acc) := by
  induction fuel generalizing bs acc with
  | zero => unfold parseDesc; exact Errs.ok _
  | succ f ih =>
    unfold parseDesc
    apply Errs.ite (fun _ => Errs.ok _)
    intro _
    refine Errs.bind (readInt_total _ _) ?_
    rintro ⟨tag, r1⟩ _
    refine Errs.bind (readInt_total _ _) ?_
    rintro ⟨len, r2⟩ _
    refine Errs.bind (take_total _ _) ?_
    rintro ⟨val, r3⟩ _
    exact Errs.ite (fun _ => Errs.throw_bind rfl) (fun _ => ih _ _)

theorem parseEntry_total (C : Crypto) (hC : CryptoTotal C) (chk : Bool) (key : Bytes) (ndx : Nat) (e : Bytes) :
    Total (parseEntry C chk key ndx e) := by
  unfold parseEntry
  refine Errs.bind (readInt_total _ _) ?_
  rintro ⟨adr, r1⟩ _
  refine Errs.bind (readInt_total _ _) ?_
  rintro ⟨total, r2⟩ _
  refine Errs.bind (readInt_total _ _) ?_
  rintro ⟨declared, r3⟩ _
  refine Errs.ite (fun _ => Errs.throw_bind rfl) (fun _ => ?_)
  refine Errs.bind (take_total _ _) ?_
  rintro ⟨pmac, r4⟩ _
  refine Errs.bind (readInt_total _ _) ?_
  rintro ⟨dlen, r5⟩ _
  refine Errs.bind (take_total _ _) ?_
  rintro ⟨dbytes, r6⟩ _
  refine Errs.bind (parseDesc_total _ _ _) ?_
  rintro desc _
  refine Errs.bind (take_total _ _) ?_
  rintro ⟨stored, r7⟩ _
  show Errs _ (if chk = true then _ else _)
  refine Errs.ite (fun _ => ?_) (fun _ => Errs.pure' _)
  refine Errs.bind (hC.mac _ _ _) ?_
  intro actual _
  exact Errs.ite (fun _ => Errs.throw_bind rfl) (fun _ => Errs.pure' _)

end Bf3
end Bec2Verif

namespace Bec2Verif
namespace Bf3

/-- the entry loop never runs out of fuel: every iteration consumes at least two directory bytes -/
theorem parseEntries_total (C : Crypto) (hC : CryptoTotal C) (chk : Bool) (key : Bytes) (fuel ndx len : Nat) (dir : Bytes)
    (hf : dir.length < fuel) : Total (parseEntries C chk key fuel ndx len dir) := by
  induction fuel generalizing ndx len dir with
  | zero => omega
  | succ f ih =>
    unfold parseEntries
    refine Errs.ite (fun _ => ?_) (fun hlen => ?_)
    · exact Errs.bind (ensureEof_total _) (fun _ _ => Errs.pure' _)
    · refine Errs.bind (take_total _ _) ?_
      rintro ⟨e, r⟩ he
      refine Errs.bind (parseEntry_total C hC _ _ _ _) ?_
      rintro ⟨entry, erest⟩ _
      refine Errs.bind (readInt_total _ _) ?_
      rintro ⟨len', r'⟩ hr
      refine Errs.bind (ensureEof_total _) ?_
      intro _ _
      have h1 := take_len he
      have h2 := readInt_len hr
      refine Errs.bind (ih _ _ _ (by omega)) ?_
      intro _ _
      exact Errs.pure' _

theorem dirFromBinary_total (C : Crypto) (hC : CryptoTotal C) (chk : Bool) (key bs : Bytes) :
    Total (dirFromBinary C chk key bs) := by
  unfold dirFromBinary
  refine Errs.bind (readInt_total _ _) ?_
  rintro ⟨size, r1⟩ _
  refine Errs.bind (take_total _ _) ?_
  rintro ⟨dir, r2⟩ _
  refine Errs.bind (readInt_total _ _) ?_
  rintro ⟨len, d1⟩ hd
  have := readInt_len hd
  refine Errs.bind (parseEntries_total C hC _ _ _ _ _ _ (by omega)) ?_
  intro _ _
  exact Errs.pure' _

theorem readComps_total (C : Crypto) (hC : CryptoTotal C) (chk : Bool) (key : Bytes) (es : List Entry) (pos : Nat) (bs : Bytes) :
    Total (readComps C chk key es pos bs) := by
  induction es generalizing pos bs with
  | nil => unfold readComps; exact Errs.ok _
  | cons e es ih =>
    unfold readComps
    refine Errs.ite (fun _ => Errs.throw_bind rfl) (fun _ => ?_)
    refine Errs.bind (take_total _ _) ?_
    rintro ⟨payload, r⟩ _
    show Errs _ (if chk = true then _ else _)
    have hrest : ∀ u : Unit, Total (do
        let comp ←
          if e.desc.lookup Gen.BF3TAG_ENC == some sessionKeyEnc then do
            let plain ← C.decrypt key none payload
            pure (mkComp e.desc plain (some e.declared) true)
          else pure (mkComp e.desc payload (some e.declared) false)
        let (rest, r') ← readComps C chk key es (pos + e.total) r
        pure (comp :: rest, r')) := by
      intro _
      have hjp : ∀ comp : Comp, Total (do
          let (rest, r') ← readComps C chk key es (pos + e.total) r
          pure (comp :: rest, r')) := by
        intro comp
        refine Errs.bind (ih _ _) ?_
        rintro ⟨rest, r'⟩ _
        exact Errs.pure' _
      refine Errs.ite (fun _ => ?_) (fun _ => ?_)
      · refine Errs.bind (hC.dec _ _ _) ?_
        intro plain _
        exact Errs.bind (Errs.pure' _) (fun _ _ => hjp _)
      · exact Errs.bind (Errs.pure' _) (fun _ _ => hjp _)
    refine Errs.ite (fun _ => ?_) (fun _ => hrest ())
    refine Errs.bind (hC.mac _ _ _) ?_
    intro m _
    exact Errs.ite (fun _ => Errs.throw_bind rfl) (fun _ => hrest ())

theorem fromBinary_total (C : Crypto) (hC : CryptoTotal C) (chk : Bool) (key : Bytes) (pos : Nat) (bs : Bytes) :
    Total (fromBinary C chk key pos bs) := by
  unfold fromBinary
  refine Errs.bind (dirFromBinary_total C hC _ _ _) ?_
  rintro ⟨es, r, used⟩ _
  refine Errs.bind (readComps_total C hC _ _ _ _ _) ?_
  rintro ⟨comps, r'⟩ _
  exact Errs.bind (ensureEof_total _) (fun _ _ => Errs.pure' _)

theorem readBinary_total (C : Crypto) (hC : CryptoTotal C) (chk : Bool) (key bin : Bytes) :
    Total (readBinary C chk key bin) := by
  unfold readBinary
  refine Errs.bind (take_total _ _) ?_
  rintro ⟨sig, r⟩ _
  exact Errs.ite (fun _ => Errs.throw_bind rfl) (fun _ => fromBinary_total C hC _ _ _ _)

end Bf3
end Bec2Verif

namespace Bec2Verif
namespace Text

theorem readLine_len (s : Str) : (readLine s).2.length ≤ s.length ∧ (s ≠ [] → (readLine s).2.length < s.length) := by
  induction s with
  | nil => simp [readLine]
  | cons c r ih =>
    unfold readLine
    split
    · simp
    · simp only [ne_eq, reduceCtorEq, not_false_eq_true, List.length_cons, forall_const]
      omega

/-- the comment loop never runs out of fuel: every iteration consumes a line, and an empty read (end of file) ends
the loop with the format error -/
theorem parseComments_total (fuel : Nat) (s : Str) (acc : List (Str × Str)) (hf : s.length < fuel) :
    Total (parseComments fuel s acc) := by
  induction fuel generalizing s acc with
  | zero => omega
  | succ f ih =>
    unfold parseComments
    cases hs : s with
    | nil =>
      simp only [readLine]
      refine Errs.ite (fun _ => Errs.ok _) (fun _ => ?_)
      simp only [splitColon]
      exact Errs.error rfl
    | cons c r =>
      have hl := (readLine_len (c :: r)).2 (by simp)
      generalize hrl : readLine (c :: r) = p at hl
      obtain ⟨line, rest⟩ := p
      simp only
      refine Errs.ite (fun _ => Errs.ok _) (fun _ => ?_)
      cases hsp : splitColon line with
      | none => exact Errs.error rfl
      | some kv =>
        obtain ⟨k, v⟩ := kv
        simp only
        apply ih
        subst hs
        simp only [List.length_cons] at hf hl
        omega

theorem parseText_total (s : Str) : Total (parseText s) := by
  unfold parseText
  refine Errs.bind (parseComments_total _ _ _ (by omega)) ?_
  rintro ⟨comments, rest⟩ _
  simp only
  cases hex2bin rest with
  | ok b => exact Errs.pure' _
  | error e => exact Errs.throw' rfl

end Text

/-! ### the registered adapter -/

theorem mkMode_errs (B : BlockCipher) (hB : ∀ key, Total (B.sched key)) (key : Bytes) (iv : Option Bytes) :
    Total (Adapter.mkMode B key iv) := by
  unfold Adapter.mkMode
  have hjp : ∀ ivb : Bytes, Total (do let k ← B.sched key; pure (k, ivb)) :=
    fun ivb => Errs.bind (hB key) (fun _ _ => Errs.pure' _)
  cases iv with
  | none => exact Errs.bind (Errs.pure' _) (fun _ _ => hjp _)
  | some v =>
    exact Errs.ite (fun _ => Errs.throw_bind rfl) (fun _ => Errs.bind (Errs.pure' _) (fun _ _ => hjp _))

theorem feedAll_zeroPad (d : Bytes) (h : d.length ≠ 0) : Adapter.feedAll (zeroPad d) = .ok (chunks 16 (zeroPad d)) := by
  unfold Adapter.feedAll
  have h1 : ¬ ((zeroPad d).length = 0 ∨ (zeroPad d).length % 16 ≠ 0) := by
    intro hh
    rcases hh with hh | hh
    · simp [zeroPad] at hh; exact h (by simp [hh.1])
    · apply hh
      simp only [zeroPad, zeros, List.length_append, List.length_replicate]
      omega
  rw [if_neg h1]

/-- after the repair the adapter raises nothing but `ValueError` (and what the key schedule raises) -/
theorem adapter_cryptoTotal (B : BlockCipher) (hB : ∀ key, Total (B.sched key)) : Bf3.CryptoTotal (Adapter.crypto B) := by
  have henc : ∀ k iv d, Total (Adapter.encrypt B k iv d) := by
    intro k iv d
    unfold Adapter.encrypt
    refine Errs.ite (fun _ => Errs.error rfl) (fun hne => ?_)
    refine Errs.bind (mkMode_errs B hB _ _) ?_
    rintro ⟨ks, ivb⟩ _
    rw [feedAll_zeroPad d hne]
    exact Errs.bind (Errs.ok _) (fun _ _ => Errs.pure' _)
  refine ⟨henc, ?_, ?_⟩
  · intro k iv d
    show Total (Adapter.decrypt B k iv d)
    unfold Adapter.decrypt
    refine Errs.ite (fun _ => Errs.error rfl) (fun hne => ?_)
    refine Errs.bind (mkMode_errs B hB _ _) ?_
    rintro ⟨ks, ivb⟩ _
    have : Adapter.feedAll d = .ok (chunks 16 d) := by
      unfold Adapter.feedAll; rw [if_neg hne]
    rw [this]
    exact Errs.bind (Errs.ok _) (fun _ _ => Errs.pure' _)
  · intro k iv d
    show Total (Adapter.mac B k iv d)
    unfold Adapter.mac
    exact Errs.bind (henc _ _ _) (fun _ _ => Errs.pure' _)

theorem aes_sched_total (key : Bytes) : Total (aesCipher.sched key) := by
  show Total (Aes.mkKeys key)
  unfold Aes.mkKeys
  split
  · exact Errs.error rfl
  · exact Errs.ok _

theorem aes_cryptoTotal : Bf3.CryptoTotal aesCrypto := adapter_cryptoTotal aesCipher aes_sched_total

end Bec2Verif
