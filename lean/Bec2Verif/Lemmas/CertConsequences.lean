import Bec2Verif.Lemmas.CurveCerts
import Bec2Verif.Lemmas.EcdsaSound
/-!
What the certificates buy: on every certified curve, with nothing assumed, the library's Diffie-Hellman is symmetric and
(when the order is certified prime) its ECDSA signatures verify.
-/
set_option linter.style.nameCheck false
set_option linter.unusedVariables false
namespace Bec2Verif.Cert
open Bec2Verif Bec2Verif.Ec Bec2Verif.EcC Bec2Verif.EcF Bec2Verif.Ecdsa Bec2Verif.EcdsaC WeierstrassCurve

variable {p : ℕ} [hp : Fact p.Prime] {a b : ℤ}

/-- the value of `ECDH._get_shared_secret`: an error exactly when `priv • Q` is infinity, else the canonical
representative of the affine x-coordinate of `priv • Q` -/
theorem sharedSecret_value (hc : CurveOK p a b) (d : Domain) (hcp : d.curve.p = p) (hca : d.curve.a = a)
    {Q : (W (a : ZMod p) (b : ZMod p)).Point} {x y : ℤ} (hQ : TRep p a b Q (x, y, 1)) (hx : 0 ≤ x ∧ x < (p : ℤ))
    (priv : ℤ) :
    (priv • Q = 0 → sharedSecret d priv x y = .error .invalidSharedSecret) ∧
    (∀ x' y' hns, priv • Q = .some x' y' hns → sharedSecret d priv x y = .ok (x'.val : ℤ)) := by
  have hpp : (0 : ℤ) < d.curve.p := by rw [hcp]; exact_mod_cast hp.out.pos
  obtain ⟨R, hR⟩ := mulNaf_some d.curve hcp 0 (pt := .jac x y 1) hQ priv
  have hrep := mulNaf_rep hc d.curve hcp hca 0 (pt := .jac x y 1) hQ (fun h => absurd rfl h) priv hR
  have hxc := mulNaf_xc d.curve hpp 0 (.jac x y 1) (by show 0 ≤ x ∧ x < d.curve.p; rw [hcp]; exact hx) priv R hR
  unfold sharedSecret
  rw [hR]
  simp only
  constructor
  · intro h0
    rw [h0] at hrep
    have : isInf R = true := (isInf_rep hc hrep).mpr rfl
    simp [this]
  · intro x' y' hns hq
    rw [hq] at hrep
    have hni : ¬ isInf R = true := fun h => by
      have := (isInf_rep hc hrep).mp h
      cases this
    simp only [hni, if_false]
    cases R with
    | inf => exact absurd rfl hni
    | jac X Y Z =>
      have hni' : ¬ (Y == 0 || Z == 0) = true := hni
      obtain ⟨uv, huv⟩ := affineXY_some d.curve hcp hrep
      have hsp := affineXY_spec d.curve hcp hrep huv
      have hxr := affineXY_xc d.curve hpp X Y Z hxc uv.1 uv.2 huv
      rw [hcp] at hxr
      have hval : (x'.val : ℤ) = uv.1 := by
        rw [← hsp.1, ZMod.val_intCast, Int.emod_eq_of_lt hxr.1 hxr.2]
      simp only [Ec.toAffine, hni', Bool.false_eq_true, if_false, huv, Option.map_some, hval]

/-- both parties of an exchange obtain the same *result* (value or error), not only congruent values -/
theorem ecdh_same_result (hc : CurveOK p a b) (d : Domain) (hcp : d.curve.p = p) (hca : d.curve.a = a)
    (Gen : (W (a : ZMod p) (b : ZMod p)).Point) (da db : ℤ) {xA yA xB yB : ℤ}
    (hA : TRep p a b (da • Gen) (xA, yA, 1)) (hB : TRep p a b (db • Gen) (xB, yB, 1))
    (hxA : 0 ≤ xA ∧ xA < (p : ℤ)) (hxB : 0 ≤ xB ∧ xB < (p : ℤ)) :
    sharedSecret d da xB yB = sharedSecret d db xA yA := by
  have s1 := sharedSecret_value hc d hcp hca hB hxB da
  have s2 := sharedSecret_value hc d hcp hca hA hxA db
  have hcomm : da • db • Gen = db • da • Gen := smul_comm _ _ _
  cases hz : da • db • Gen with
  | zero => rw [s1.1 hz, s2.1 (by rw [← hcomm]; exact hz)]
  | some x' y' hns => rw [s1.2 x' y' hns hz, s2.2 x' y' hns (by rw [← hcomm]; exact hz)]

/-! ### the library's own key generation on a certified curve -/

def genOf (r : Gen.CurveRec) : PJ := { X := r.gx, Y := r.gy, Z := 1, order := r.n, gen := true }
def domOf (r : Gen.CurveRec) : Domain := { curve := curveOf r, gx := r.gx, gy := r.gy, n := r.n, h := r.h }

/-- affine public point of the private scalar `k`: `generator * k`, then `x()`, `y()` -/
def pubAffine (r : Gen.CurveRec) (k : ℤ) : Option (ℤ × ℤ) :=
  match pjMul (curveOf r) (genOf r) k with
  | some (.jac X Y Z) => if Y == 0 || Z == 0 then none else affineXY (curveOf r) X Y Z
  | _ => none

theorem odd_order_nz {Gp : (W (a : ZMod p) (b : ZMod p)).Point} (n : ℤ) (hn : 0 < n) (hodd : n % 2 = 1)
    (hord : n • Gp = 0) (hne : Gp ≠ 0) : ∀ j : ℕ, (2 ^ j : ℕ) • Gp ≠ 0 := by
  intro j h
  have h1 : addOrderOf Gp ∣ 2 ^ j := addOrderOf_dvd_of_nsmul_eq_zero h
  have h2 : addOrderOf Gp ∣ n.toNat := by
    apply addOrderOf_dvd_of_nsmul_eq_zero
    have : ((n.toNat : ℕ) : ℤ) • Gp = 0 := by rw [Int.toNat_of_nonneg hn.le]; exact hord
    rwa [natCast_zsmul] at this
  have hcop : Nat.Coprime (2 ^ j) n.toNat := by
    apply Nat.Coprime.pow_left
    rw [Nat.coprime_two_left, Nat.odd_iff]
    omega
  have : addOrderOf Gp = 1 := Nat.eq_one_of_dvd_coprimes hcop h1 h2
  exact hne (AddMonoid.addOrderOf_eq_one_iff.mp this)

/-- `pubAffine r k` is the reduced affine form of `k • G` -/
theorem pubAffine_spec (r : Gen.CurveRec) (p : ℕ) [Fact p.Prime] (Gp : (W ((r.a : ℤ) : ZMod p) ((r.b : ℤ) : ZMod p)).Point)
    (hrp : r.p = (p : ℤ)) (hc : CurveOK p r.a r.b) (hG : TRep p r.a r.b Gp (r.gx, r.gy, 1))
    (hgx : 0 ≤ r.gx ∧ r.gx < (p : ℤ)) (hgy : 0 ≤ r.gy ∧ r.gy < (p : ℤ)) (hn : 0 < r.n) (hodd : r.n % 2 = 1)
    (hord : r.n • Gp = 0) (hne : Gp ≠ 0) (k : ℤ) (xy : ℤ × ℤ) (h : pubAffine r k = some xy) :
    TRep p r.a r.b (k • Gp) (xy.1, xy.2, 1) ∧ (0 ≤ xy.1 ∧ xy.1 < (p : ℤ)) := by
  have hpp : (0 : ℤ) < (curveOf r).p := by show (0 : ℤ) < r.p; rw [hrp]; exact_mod_cast (Fact.out : p.Prime).pos
  have hcp : (curveOf r).p = p := hrp
  unfold pubAffine at h
  split at h
  · rename_i X Y Z hR
    split at h
    · cases h
    · rename_i hni
      have hGpt : PRep p r.a r.b Gp (genOf r).pt := hG
      have hrep := pjMul_rep hc (curveOf r) hcp rfl (genOf r) hGpt (fun _ => hord) (fun _ => hn) k hR
      have hxc := pjMul_xc (curveOf r) hpp (genOf r) (by show 0 ≤ r.gx ∧ r.gx < r.p; rw [hrp]; exact hgx) k _ hR
      have hyr := mulGen_yr hc (curveOf r) hcp rfl r.n hn hG (by show 0 ≤ r.gy ∧ r.gy < r.p; rw [hrp]; exact hgy)
        (odd_order_nz r.n hn hodd hord hne) k (R := .jac X Y Z) (by
          have : pjMul (curveOf r) (genOf r) k = mulGen (curveOf r) r.n (.jac r.gx r.gy 1) k := rfl
          rw [← this]; exact hR)
      have hY : Y ≠ 0 := by intro h0; apply hni; simp [h0]
      obtain ⟨x, y⟩ := xy
      have hent := affineXY_entry (curveOf r) hcp hrep hY h
      have hxr := affineXY_xc (curveOf r) hpp X Y Z hxc x y h
      rw [hcp] at hxr
      exact ⟨hent, hxr⟩
  · cases h

/-- **ECDH on a certified curve**: two parties whose public points were computed by the library obtain the same result -/
theorem ecdh_certified (r : Gen.CurveRec) (hcert : GroupCert r) (da db : ℤ) (A B : ℤ × ℤ)
    (hA : pubAffine r da = some A) (hB : pubAffine r db = some B) :
    sharedSecret (domOf r) da B.1 B.2 = sharedSecret (domOf r) db A.1 A.2 := by
  obtain ⟨p, hp, Gp, hrp, hc, hG, hgx, hgy, hn, hodd, hord, hne⟩ := hcert
  obtain ⟨tA, xA⟩ := pubAffine_spec r p Gp hrp hc hG hgx hgy hn hodd hord hne da A hA
  obtain ⟨tB, xB⟩ := pubAffine_spec r p Gp hrp hc hG hgx hgy hn hodd hord hne db B hB
  exact ecdh_same_result hc (domOf r) hrp rfl Gp da db tA tB xA xB

/-- **ECDSA on a curve with certified prime order**: a signature made by `sign` verifies under the public point the
library derives from the secret -/
theorem ecdsa_certified (r : Gen.CurveRec) (hcert : GroupCert r) (hocert : OrderCert r)
    (secret hash randomK rr ss X Y Z : ℤ)
    (hpub : pjMul (curveOf r) (genOf r) secret = some (.jac X Y Z))
    (hs : sign (domOf r) secret hash randomK = .ok (rr, ss)) :
    verifies (domOf r) { X := X, Y := Y, Z := Z, order := r.n, gen := false } hash rr ss = .ok true := by
  obtain ⟨p, hp, Gp, hrp, hc, hG, hgx, hgy, hn, hodd, hord, hne⟩ := hcert
  obtain ⟨N, hN, hNp, hN2⟩ := hocert
  have hpp : (0 : ℤ) < (curveOf r).p := by show (0 : ℤ) < r.p; rw [hrp]; exact_mod_cast (Fact.out : p.Prime).pos
  have hGpt : PRep p r.a r.b Gp (genOf r).pt := hG
  have hrep := pjMul_rep hc (curveOf r) hrp rfl (genOf r) hGpt (fun _ => hord) (fun _ => hn) secret hpub
  have hxc := pjMul_xc (curveOf r) hpp (genOf r) (by show 0 ≤ r.gx ∧ r.gx < r.p; rw [hrp]; exact hgx) secret _ hpub
  have hxc' : XCPt (p : ℤ) (.jac X Y Z) := by
    have : (curveOf r).p = (p : ℤ) := hrp
    rw [← this]; exact hxc
  have hordN : (N : ℤ) • Gp = 0 := by rw [← hN]; exact hord
  exact sign_verifies hc (domOf r) hrp rfl N hN hNp hN2 Gp hG hgx (order_exact N hNp Gp hordN hne) secret
    { X := X, Y := Y, Z := Z, order := r.n, gen := false } hrep hxc' (Or.inr rfl) rfl hash randomK rr ss hs

end Bec2Verif.Cert
