import Bec2Verif.Lemmas.EcMulAdd
import Bec2Verif.Lemmas.EcCanon
import Bec2Verif.Lemmas.EcTotal
import Bec2Verif.Model.Ecdsa
import Bec2Verif.Lemmas.EcdsaCodec
/-!
ECDSA over the modelled point arithmetic: a signature produced by `sign` is accepted by `verifies`.
The scalar side lives in `ZMod N` (`N` the group order; no primality needed for this direction), the point side in
Mathlib's group of the curve through the C17 representation theorems.
-/
set_option linter.style.nameCheck false
set_option linter.unusedVariables false
namespace Bec2Verif.EcdsaC
open Bec2Verif Ec EcC EcF Ecdsa WeierstrassCurve

/-! ### `inverse_mod` for an arbitrary modulus -/

theorem egcd_inv_gen {N : ℕ} (fuel : ℕ) (v r0 r1 s0 s1 : ℤ)
    (h0 : (r0 : ZMod N) = (s0 : ZMod N) * (v : ZMod N)) (h1 : (r1 : ZMod N) = (s1 : ZMod N) * (v : ZMod N)) :
    (((egcd fuel r0 r1 s0 s1).1 : ℤ) : ZMod N) = (((egcd fuel r0 r1 s0 s1).2 : ℤ) : ZMod N) * (v : ZMod N) := by
  induction fuel generalizing r0 r1 s0 s1 with
  | zero => simpa [egcd] using h0
  | succ f ih =>
    unfold egcd
    split
    · simpa using h0
    · apply ih
      · exact h1
      · push_cast
        rw [h0, h1]; ring

theorem inverseMod_sound_gen {N : ℕ} (v zi : ℤ) (hv : v ≠ 0) (h : inverseMod v N = some zi) :
    (zi : ZMod N) * (v : ZMod N) = 1 := by
  unfold inverseMod at h
  have hv0 : (v == 0) = false := by simpa using hv
  simp only [hv0, Bool.false_eq_true, if_false] at h
  have hinv := egcd_inv_gen (N := N) (2 * (N : ℤ).toNat.log2 + 4) (v % (N : ℤ)) (v % (N : ℤ)) (N : ℤ) 1 0
    (by simp) (by simp)
  split at h
  · rename_i hg
    injection h with h
    subst h
    have hg1 := beq_iff_eq.mp hg
    rw [hg1, cast_emod] at hinv
    rw [cast_emod]
    simpa using hinv.symm
  · cases h

/-! ### the affine x of a finite point -/

variable {p : ℕ} [hp : Fact p.Prime] {a b : ℤ}

theorem xOf_spec (c : Curve) (hcp : c.p = p) {x' y' : ZMod p} {hns : (W (a : ZMod p) (b : ZMod p)).Nonsingular x' y'}
    {R : Pt} (hR : PRep p a b (.some x' y' hns) R) (hxc : XCPt c.p R) {x : ℤ} (hx : xOf c R = some x) :
    (x : ZMod p) = x' ∧ 0 ≤ x ∧ x < (p : ℤ) := by
  cases R with
  | inf => simp [xOf] at hx
  | jac X Y Z =>
    simp only [xOf] at hx
    cases hxy : affineXY c X Y Z with
    | none => simp [hxy] at hx
    | some uv =>
      obtain ⟨u, v⟩ := uv
      simp only [hxy, Option.map_some, Option.some.injEq] at hx
      subst hx
      have hpp : (0 : ℤ) < c.p := by rw [hcp]; exact_mod_cast hp.out.pos
      have := affineXY_xc c hpp X Y Z hxc u v hxy
      rw [hcp] at this
      exact ⟨(affineXY_spec c hcp hR hxy).1, this⟩

theorem int_eq_of_cast_eq {x1 x2 : ℤ} (h : (x1 : ZMod p) = (x2 : ZMod p)) (h1 : 0 ≤ x1 ∧ x1 < (p : ℤ))
    (h2 : 0 ≤ x2 ∧ x2 < (p : ℤ)) : x1 = x2 := by
  rw [ZMod.intCast_eq_intCast_iff'] at h
  rw [Int.emod_eq_of_lt h1.1 h1.2, Int.emod_eq_of_lt h2.1 h2.2] at h
  exact h

/-! ### sign, then verify -/

/-- what `sign` returns, spelled out -/
theorem sign_ok (d : Domain) (secret hash randomK r s : ℤ) (h : sign d secret hash randomK = .ok (r, s)) :
    ∃ kk p1 x ki, (kk = randomK % d.n + d.n ∨ kk = randomK % d.n + d.n + d.n) ∧ pjMul d.curve d.G kk = some p1 ∧
      xOf d.curve p1 = some x ∧ r = x % d.n ∧ r ≠ 0 ∧ inverseMod (randomK % d.n) d.n = some ki ∧
      s = ki * (hash + (secret * r) % d.n) % d.n ∧ s ≠ 0 := by
  unfold sign at h
  simp only at h
  split at h
  · cases h
  · rename_i p1 hp1
    split at h
    · cases h
    · rename_i x hx
      split at h
      · cases h
      · rename_i hr
        split at h
        · cases h
        · rename_i ki hki
          split at h
          · cases h
          · rename_i hs
            injection h with h
            injection h with h1 h2
            refine ⟨_, p1, x, ki, ?_, hp1, hx, h1.symm, ?_, hki, (by rw [← h1]; exact h2.symm), ?_⟩
            · split
              · right; rfl
              · left; rfl
            · rw [← h1]; exact hr
            · rw [← h2]; exact hs

/-- **sign → verify.**  `Gp` is the group element of the generator, of exact order `N = d.n`; the public point `Q`
represents `secret • Gp` with a reduced x-coordinate and carries either no order or the group order.  Then a
signature returned by `sign` is never rejected by `verifies`: the only other outcome the model leaves open is an
error from a modular inversion that `inverse_mod` fails to compute (its completeness is not part of this theorem). -/
theorem sign_verifies_sound (hc : CurveOK p a b) (d : Domain) (hcp : d.curve.p = p) (hca : d.curve.a = a)
    (N : ℕ) (hN : d.n = (N : ℤ)) (hN0 : 0 < N)
    (Gp : (W (a : ZMod p) (b : ZMod p)).Point) (hG : TRep p a b Gp (d.gx, d.gy, 1)) (hgx : 0 ≤ d.gx ∧ d.gx < (p : ℤ))
    (hGord : ∀ k : ℤ, k • Gp = 0 ↔ (N : ℤ) ∣ k)
    (secret : ℤ) (Q : PJ) (hQ : PRep p a b (secret • Gp) Q.pt) (hQx : XCPt (p : ℤ) Q.pt)
    (hQo : Q.order = 0 ∨ Q.order = d.n) (hQg : Q.gen = true → 0 < Q.order)
    (hash randomK r s : ℤ) (hs : sign d secret hash randomK = .ok (r, s)) :
    verifies d Q hash r s = .ok true ∨ verifies d Q hash r s = .error .valueError := by
  obtain ⟨kk, p1, x, ki, hkk, hp1, hx, hr, hr0, hki, hsv, hs0⟩ := sign_ok d secret hash randomK r s hs
  have hn0 : (0 : ℤ) < d.n := by rw [hN]; exact_mod_cast hN0
  have hpp : (0 : ℤ) < d.curve.p := by rw [hcp]; exact_mod_cast hp.out.pos
  have hnG : d.n • Gp = 0 := by rw [hN]; exact (hGord _).mpr (dvd_refl _)
  set k := randomK % d.n with hk
  -- the signer's point
  have hGpt : PRep p a b Gp d.G.pt := hG
  have hGxc : XCPt d.curve.p d.G.pt := by rw [hcp]; exact hgx
  have hp1rep := pjMul_rep hc d.curve hcp hca d.G hGpt (fun _ => hnG) (fun _ => hn0) kk hp1
  have hkkG : kk • Gp = k • Gp := by
    rcases hkk with h | h
    · rw [h, add_zsmul, hnG, add_zero]
    · rw [h, add_zsmul, add_zsmul, hnG, add_zero, add_zero]
  rw [hkkG] at hp1rep
  have hp1xc := pjMul_xc d.curve hpp d.G hGxc kk p1 hp1
  -- k is not 0: otherwise ki = 0 and s = 0
  have hk0 : k ≠ 0 := by
    intro h0
    rw [h0] at hki
    have : ki = 0 := by simp [inverseMod] at hki; exact hki.symm
    rw [this] at hsv
    simp at hsv
    exact hs0 hsv
  have hkN : ¬ (N : ℤ) ∣ k := by
    intro hdvd
    have h1 : 0 ≤ k := Int.emod_nonneg _ (by omega)
    have h2 : k < d.n := Int.emod_lt_of_pos _ hn0
    rw [hN] at h2
    have := Int.eq_zero_of_dvd_of_nonneg_of_lt h1 h2 hdvd
    exact hk0 this
  have hkG : k • Gp ≠ 0 := fun h => hkN ((hGord k).mp h)
  -- scalar side, in ZMod N
  have e1 : (ki : ZMod N) * (k : ZMod N) = 1 := inverseMod_sound_gen k ki hk0 (by rw [← hN]; exact hki)
  have hrange : ∀ v : ℤ, v % d.n ≠ 0 → ¬ (v % d.n < 1 || v % d.n > d.n - 1) = true := by
    intro v hv
    have h1 : 0 ≤ v % d.n := Int.emod_nonneg _ (by omega)
    have h2 : v % d.n < d.n := Int.emod_lt_of_pos _ hn0
    simp only [Bool.or_eq_true, decide_eq_true_eq, not_or, not_lt]
    omega
  have hrr : ¬ (r < 1 || r > d.n - 1) = true := by rw [hr]; rw [hr] at hr0; exact hrange x hr0
  have hss : ¬ (s < 1 || s > d.n - 1) = true := by rw [hsv]; rw [hsv] at hs0; exact hrange _ hs0
  unfold verifies
  simp only [hrr, hss, if_false]
  cases hc' : inverseMod s d.n with
  | none => right; rfl
  | some c =>
    simp only
    have e3 : (c : ZMod N) * (s : ZMod N) = 1 := inverseMod_sound_gen s c hs0 (by rw [← hN]; exact hc')
    cases hxy : mulAdd d.curve d.G (hash * c % d.n) (some Q) (r * c % d.n) with
    | none => right; rfl
    | some xy =>
      simp only
      have hB : d.n • (secret • Gp) = 0 := by rw [smul_comm, hnG, zsmul_zero]
      have hrep := mulAdd_rep hc d.curve hcp hca d.G (some Q) (A := Gp) (B := secret • Gp) hGpt hQ
        (fun _ => hnG) (fun _ => hB)
        (fun Q' hQ' ho => by
          injection hQ' with hQ'; subst hQ'
          rcases hQo with h | h
          · exact absurd h ho
          · rw [h]; exact hB)
        (fun _ => hn0) (fun Q' hQ' hg => by injection hQ' with hQ'; subst hQ'; exact hQg hg)
        (hash * c % d.n) (r * c % d.n) hxy
      have hxyxc := mulAdd_xc d.curve hpp d.G (some Q) hGxc
        (fun Q' hQ' => by injection hQ' with hQ'; subst hQ'; rw [hcp]; exact hQx) _ _ xy hxy
      -- u1 + u2 * secret ≡ k  (mod N)
      have e2 : (s : ZMod N) = (ki : ZMod N) * ((hash : ZMod N) + (secret : ZMod N) * (r : ZMod N)) := by
        rw [hsv, hN]; simp only [cast_emod, Int.cast_mul, Int.cast_add]
      have hscal : (((hash * c % d.n + r * c % d.n * secret : ℤ)) : ZMod N) = (k : ZMod N) := by
        rw [hN]; simp only [Int.cast_add, Int.cast_mul, cast_emod]
        linear_combination (-((c : ZMod N) * ((hash : ZMod N) + (r : ZMod N) * (secret : ZMod N)))) * e1
          + (-((k : ZMod N) * (c : ZMod N))) * e2 + (k : ZMod N) * e3
      have hsum : (hash * c % d.n) • Gp + (r * c % d.n) • secret • Gp = k • Gp := by
        rw [smul_smul, ← add_zsmul]
        rw [ZMod.intCast_eq_intCast_iff_dvd_sub] at hscal
        have := (hGord _).mpr hscal
        rw [sub_zsmul] at this
        exact (eq_of_sub_eq_zero (by rw [sub_eq_add_neg]; exact this)).symm
      rw [hsum] at hrep
      have hninf : ¬ isInf xy = true := fun h => hkG ((isInf_rep hc hrep).mp h)
      simp only [hninf, if_false]
      cases hx2 : xOf d.curve xy with
      | none => right; rfl
      | some x2 =>
        left
        simp only
        cases hkp : k • Gp with
        | zero => exact absurd hkp hkG
        | some x' y' hns =>
          rw [hkp] at hp1rep hrep
          have s1 := xOf_spec d.curve hcp hp1rep hp1xc hx
          have s2 := xOf_spec d.curve hcp hrep hxyxc hx2
          have : x2 = x := int_eq_of_cast_eq (s2.1.trans s1.1.symm) s2.2 s1.2
          rw [this, hr]
          simp

/-! ### full strength: prime group order, public key not a generator object -/

/-- a point of prime order `N`: `k • P = 0 ↔ N ∣ k` -/
theorem order_exact (N : ℕ) (hNp : N.Prime) (P : (W (a : ZMod p) (b : ZMod p)).Point) (hNP : (N : ℤ) • P = 0) (hP0 : P ≠ 0) (k : ℤ) :
    k • P = 0 ↔ (N : ℤ) ∣ k := by
  have hdvd : addOrderOf P ∣ N := by
    apply addOrderOf_dvd_of_nsmul_eq_zero
    have : ((N : ℕ) : ℤ) • P = 0 := hNP
    rwa [natCast_zsmul] at this
  have hord : addOrderOf P = N := by
    rcases (Nat.dvd_prime hNp).mp hdvd with h | h
    · exact absurd (AddMonoid.addOrderOf_eq_one_iff.mp h) hP0
    · exact h
  rw [← hord]
  exact (addOrderOf_dvd_iff_zsmul_eq_zero).symm



theorem pow_two_smul_ne_zero (N : ℕ) (hNp : N.Prime) (hN2 : N ≠ 2) (Gp : (W (a : ZMod p) (b : ZMod p)).Point)
    (hGord : ∀ k : ℤ, k • Gp = 0 ↔ (N : ℤ) ∣ k) : ∀ j : ℕ, (2 ^ j : ℕ) • Gp ≠ 0 := by
  intro j h
  have h' : ((2 ^ j : ℕ) : ℤ) • Gp = 0 := by rw [natCast_zsmul]; exact h
  have hd := (hGord _).mp h'
  have hd' : N ∣ 2 ^ j := by exact_mod_cast hd
  have := (Nat.Prime.dvd_of_dvd_pow hNp hd')
  have := (Nat.prime_dvd_prime_iff_eq hNp Nat.prime_two).mp this
  exact hN2 this

/-- `verifies` never raises on a prime-order domain: it answers `True` or `False` for every `(hash, r, s)` -/
theorem verifies_total (hc : CurveOK p a b) (d : Domain) (hcp : d.curve.p = p) (hca : d.curve.a = a)
    (N : ℕ) (hN : d.n = (N : ℤ)) (hNp : N.Prime) (hN2 : N ≠ 2)
    (Gp : (W (a : ZMod p) (b : ZMod p)).Point) (hG : TRep p a b Gp (d.gx, d.gy, 1))
    (hGord : ∀ k : ℤ, k • Gp = 0 ↔ (N : ℤ) ∣ k)
    (B : (W (a : ZMod p) (b : ZMod p)).Point) (hBo : d.n • B = 0) (Q : PJ) (hQ : PRep p a b B Q.pt)
    (hQo : Q.order = 0 ∨ Q.order = d.n) (hQg : Q.gen = false)
    (hash r s : ℤ) : ∃ v, verifies d Q hash r s = .ok v := by
  have hn0 : (0 : ℤ) < d.n := by rw [hN]; exact_mod_cast hNp.pos
  have hnG : d.n • Gp = 0 := by rw [hN]; exact (hGord _).mpr (dvd_refl _)
  have hGpt : PRep p a b Gp d.G.pt := hG
  have hnz := pow_two_smul_ne_zero N hNp hN2 Gp hGord
  unfold verifies
  simp only
  split
  · exact ⟨_, rfl⟩
  · rename_i hr
    split
    · exact ⟨_, rfl⟩
    · rename_i hs
      simp only [Bool.or_eq_true, decide_eq_true_eq, not_or, not_lt] at hs
      have hsN : ¬ (N : ℤ) ∣ s := by
        intro hd
        rw [hN] at hs
        have := Int.le_of_dvd (by omega) hd
        omega
      obtain ⟨c, hcv⟩ := inverseMod_complete N hNp s hsN
      rw [hN, hcv, ← hN]
      simp only
      obtain ⟨xy, hxy⟩ := mulAdd_some hc d.curve hcp hca d.G Q hGpt hQ (fun _ => hnz) hQg
        (hash * c % d.n) (r * c % d.n)
      rw [hxy]
      simp only
      split
      · exact ⟨_, rfl⟩
      · rename_i hninf
        have hrep := mulAdd_rep hc d.curve hcp hca d.G (some Q) (A := Gp) (B := B) hGpt hQ
          (fun _ => hnG) (fun _ => hBo)
          (fun Q' hQ' ho => by
            injection hQ' with hQ'; subst hQ'
            rcases hQo with h | h
            · exact absurd h ho
            · rw [h]; exact hBo)
          (fun _ => hn0) (fun Q' hQ' hg => by injection hQ' with hQ'; subst hQ'; rw [hQg] at hg; cases hg)
          (hash * c % d.n) (r * c % d.n) hxy
        cases xy with
        | inf => exact absurd rfl hninf
        | jac X Y Z =>
          obtain ⟨uv, huv⟩ := affineXY_some d.curve hcp hrep
          simp only [xOf, huv, Option.map_some]
          exact ⟨_, rfl⟩

/-- **sign → verify, full strength**: on a curve over a prime field with a generator of odd prime order, a
signature returned by `sign` under the secret `secret` verifies under the public point `secret • G`, whatever
the hash value and the nonce were -/
theorem sign_verifies (hc : CurveOK p a b) (d : Domain) (hcp : d.curve.p = p) (hca : d.curve.a = a)
    (N : ℕ) (hN : d.n = (N : ℤ)) (hNp : N.Prime) (hN2 : N ≠ 2)
    (Gp : (W (a : ZMod p) (b : ZMod p)).Point) (hG : TRep p a b Gp (d.gx, d.gy, 1)) (hgx : 0 ≤ d.gx ∧ d.gx < (p : ℤ))
    (hGord : ∀ k : ℤ, k • Gp = 0 ↔ (N : ℤ) ∣ k)
    (secret : ℤ) (Q : PJ) (hQ : PRep p a b (secret • Gp) Q.pt) (hQx : XCPt (p : ℤ) Q.pt)
    (hQo : Q.order = 0 ∨ Q.order = d.n) (hQg : Q.gen = false)
    (hash randomK r s : ℤ) (hs : sign d secret hash randomK = .ok (r, s)) :
    verifies d Q hash r s = .ok true := by
  have hnG : d.n • Gp = 0 := by rw [hN]; exact (hGord _).mpr (dvd_refl _)
  have hB : d.n • (secret • Gp) = 0 := by rw [smul_comm, hnG, zsmul_zero]
  rcases sign_verifies_sound hc d hcp hca N hN hNp.pos Gp hG hgx hGord secret Q hQ hQx hQo
      (by rw [hQg]; intro h; cases h) hash randomK r s hs with h | h
  · exact h
  · obtain ⟨v, hv⟩ := verifies_total hc d hcp hca N hN hNp hN2 Gp hG hGord _ hB Q hQ hQo hQg hash r s
    rw [hv] at h
    cases h

/-! ### what `verifies` decides: the textbook equation -/

theorem smul_eq_of_dvd_sub {N : ℕ} {P : (W (a : ZMod p) (b : ZMod p)).Point} (hP : (N : ℤ) • P = 0) {u v : ℤ}
    (h : (N : ℤ) ∣ u - v) : u • P = v • P := by
  obtain ⟨m, hm⟩ := h
  have : u = v + m * N := by rw [mul_comm, ← hm]; ring
  rw [this, add_zsmul, mul_zsmul, hP, zsmul_zero, add_zero]

theorem emod_smul {N : ℕ} {P : (W (a : ZMod p) (b : ZMod p)).Point} (hP : (N : ℤ) • P = 0) (v : ℤ) :
    (v % (N : ℤ)) • P = v • P := by
  apply smul_eq_of_dvd_sub hP
  exact ⟨-(v / (N : ℤ)), by rw [Int.emod_def]; ring⟩

/-- `verifies` returns `True` exactly for the pairs in range whose point `(h·s⁻¹)·G + (r·s⁻¹)·Q` is finite with
`x mod n = r` (`x` the canonical representative of the affine x-coordinate) — the definition of ECDSA verification -/
theorem verifies_iff (hc : CurveOK p a b) (d : Domain) (hcp : d.curve.p = p) (hca : d.curve.a = a)
    (N : ℕ) (hN : d.n = (N : ℤ)) (hNp : N.Prime) (hN2 : N ≠ 2)
    (Gp : (W (a : ZMod p) (b : ZMod p)).Point) (hG : TRep p a b Gp (d.gx, d.gy, 1)) (hgx : 0 ≤ d.gx ∧ d.gx < (p : ℤ))
    (hGord : ∀ k : ℤ, k • Gp = 0 ↔ (N : ℤ) ∣ k)
    (B : (W (a : ZMod p) (b : ZMod p)).Point) (hBo : d.n • B = 0) (Q : PJ) (hQ : PRep p a b B Q.pt)
    (hQx : XCPt (p : ℤ) Q.pt) (hQo : Q.order = 0 ∨ Q.order = d.n) (hQg : Q.gen = false)
    (hash r s : ℤ) :
    verifies d Q hash r s = .ok true ↔
      (1 ≤ r ∧ r ≤ d.n - 1) ∧ (1 ≤ s ∧ s ≤ d.n - 1) ∧
      ∃ (c : ℤ) (x' y' : ZMod p) (hns : (W (a : ZMod p) (b : ZMod p)).Nonsingular x' y'),
        (c : ZMod N) * (s : ZMod N) = 1 ∧ (hash * c) • Gp + (r * c) • B = .some x' y' hns ∧
        ((x'.val : ℤ) % d.n = r) := by
  have hn0 : (0 : ℤ) < d.n := by rw [hN]; exact_mod_cast hNp.pos
  have hpp : (0 : ℤ) < d.curve.p := by rw [hcp]; exact_mod_cast hp.out.pos
  have hnG : (N : ℤ) • Gp = 0 := (hGord _).mpr (dvd_refl _)
  have hnB : (N : ℤ) • B = 0 := by rw [← hN]; exact hBo
  have hGpt : PRep p a b Gp d.G.pt := hG
  have hGxc : XCPt d.curve.p d.G.pt := by rw [hcp]; exact hgx
  have hnz := pow_two_smul_ne_zero N hNp hN2 Gp hGord
  by_cases hrange : r < 1 ∨ r > d.n - 1 ∨ s < 1 ∨ s > d.n - 1
  · rw [verifies_range d Q hash r s hrange]
    constructor
    · intro h; cases h
    · rintro ⟨h1, h2, _⟩; omega
  · have hr : ¬ (r < 1 || r > d.n - 1) = true := by
      simp only [Bool.or_eq_true, decide_eq_true_eq]; omega
    have hs : ¬ (s < 1 || s > d.n - 1) = true := by
      simp only [Bool.or_eq_true, decide_eq_true_eq]; omega
    have hsN : ¬ (N : ℤ) ∣ s := by
      intro hd
      have h1 : 1 ≤ s := by omega
      have := Int.le_of_dvd (by omega) hd
      omega
    have hs0 : s ≠ 0 := by omega
    obtain ⟨c, hcv⟩ := inverseMod_complete N hNp s hsN
    have e3 : (c : ZMod N) * (s : ZMod N) = 1 := inverseMod_sound_gen s c hs0 hcv
    obtain ⟨xy, hxy⟩ := mulAdd_some hc d.curve hcp hca d.G Q hGpt hQ (fun _ => hnz) hQg
      (hash * c % d.n) (r * c % d.n)
    have hrep := mulAdd_rep hc d.curve hcp hca d.G (some Q) (A := Gp) (B := B) hGpt hQ
      (fun _ => by show d.n • Gp = 0; rw [hN]; exact hnG) (fun _ => hBo)
      (fun Q' hQ' ho => by
        injection hQ' with hQ'; subst hQ'
        rcases hQo with h | h
        · exact absurd h ho
        · rw [h]; exact hBo)
      (fun _ => hn0) (fun Q' hQ' hg => by injection hQ' with hQ'; subst hQ'; rw [hQg] at hg; cases hg)
      (hash * c % d.n) (r * c % d.n) hxy
    have hxyxc := mulAdd_xc d.curve hpp d.G (some Q) hGxc
      (fun Q' hQ' => by injection hQ' with hQ'; subst hQ'; rw [hcp]; exact hQx) _ _ xy hxy
    rw [hN, emod_smul hnG, emod_smul hnB] at hrep
    -- any other inverse of s gives the same point
    have hsame : ∀ c' : ℤ, (c' : ZMod N) * (s : ZMod N) = 1 →
        (hash * c') • Gp + (r * c') • B = (hash * c) • Gp + (r * c) • B := by
      intro c' hc'
      have hcc : (c' : ZMod N) = (c : ZMod N) := by
        calc (c' : ZMod N) = c' * (c * s) := by rw [e3, mul_one]
          _ = (c' * s) * c := by ring
          _ = c := by rw [hc', one_mul]
      have hd : (N : ℤ) ∣ c' - c := by
        have := (ZMod.intCast_eq_intCast_iff_dvd_sub c c' N).mp hcc.symm
        exact this
      rw [smul_eq_of_dvd_sub hnG (u := hash * c') (v := hash * c) (by rw [← mul_sub]; exact Dvd.dvd.mul_left hd _),
        smul_eq_of_dvd_sub hnB (u := r * c') (v := r * c) (by rw [← mul_sub]; exact Dvd.dvd.mul_left hd _)]
    unfold verifies
    simp only [hr, hs, if_false]
    rw [hN, hcv, ← hN]
    simp only [hxy]
    cases hS : (hash * c) • Gp + (r * c) • B with
    | zero =>
      rw [hS] at hrep
      have hinf : isInf xy = true := (isInf_rep hc hrep).mpr rfl
      simp only [hinf, if_true]
      constructor
      · intro h; cases h
      · rintro ⟨_, _, c', x', y', hns, hc', hpt, _⟩
        rw [hsame c' hc', hS] at hpt
        cases hpt
    | some x' y' hns =>
      rw [hS] at hrep
      have hninf : ¬ isInf xy = true := fun h => by
        have := (isInf_rep hc hrep).mp h
        cases this
      simp only [hninf, if_false]
      cases xy with
      | inf => exact absurd rfl hninf
      | jac X Y Z =>
        obtain ⟨uv, huv⟩ := affineXY_some d.curve hcp hrep
        have hx2 : xOf d.curve (.jac X Y Z) = some uv.1 := by simp [xOf, huv]
        have sp := xOf_spec d.curve hcp hrep hxyxc hx2
        have hval : (x'.val : ℤ) = uv.1 := by
          rw [← sp.1, ZMod.val_intCast, Int.emod_eq_of_lt sp.2.1 sp.2.2]
        rw [hx2]
        simp only
        constructor
        · intro h
          injection h with h
          have h' : uv.1 % d.n = r := by simpa using h
          exact ⟨by omega, by omega, c, x', y', hns, e3, hS, by rw [hval]; exact h'⟩
        · rintro ⟨_, _, c', x'', y'', hns', hc', hpt, hxr⟩
          rw [hsame c' hc', hS] at hpt
          injection hpt with hx hy
          subst hx
          rw [hval] at hxr
          simp [hxr]

/-- ECDSA's malleability, as the `_canonize` encoders rely on it: `(r, n − s)` is valid exactly when `(r, s)` is -/
theorem verifies_neg_s (hc : CurveOK p a b) (d : Domain) (hcp : d.curve.p = p) (hca : d.curve.a = a)
    (N : ℕ) (hN : d.n = (N : ℤ)) (hNp : N.Prime) (hN2 : N ≠ 2)
    (Gp : (W (a : ZMod p) (b : ZMod p)).Point) (hG : TRep p a b Gp (d.gx, d.gy, 1)) (hgx : 0 ≤ d.gx ∧ d.gx < (p : ℤ))
    (hGord : ∀ k : ℤ, k • Gp = 0 ↔ (N : ℤ) ∣ k)
    (B : (W (a : ZMod p) (b : ZMod p)).Point) (hBo : d.n • B = 0) (Q : PJ) (hQ : PRep p a b B Q.pt)
    (hQx : XCPt (p : ℤ) Q.pt) (hQo : Q.order = 0 ∨ Q.order = d.n) (hQg : Q.gen = false)
    (hash r s : ℤ) :
    verifies d Q hash r (d.n - s) = .ok true ↔ verifies d Q hash r s = .ok true := by
  have key : ∀ s : ℤ, verifies d Q hash r s = .ok true → verifies d Q hash r (d.n - s) = .ok true := by
    intro s h
    rw [verifies_iff hc d hcp hca N hN hNp hN2 Gp hG hgx hGord B hBo Q hQ hQx hQo hQg] at h ⊢
    obtain ⟨h1, h2, c, x', y', hns, hcs, hpt, hx⟩ := h
    refine ⟨h1, by omega, -c, x', (W (a : ZMod p) (b : ZMod p)).negY x' y', ((Affine.nonsingular_neg x' y').mpr hns), ?_, ?_, hx⟩
    · rw [hN]; push_cast; simp only [ZMod.natCast_self, zero_sub]; rw [neg_mul_neg]; exact hcs
    · have : (hash * -c) • Gp + (r * -c) • B = -((hash * c) • Gp + (r * c) • B) := by
        rw [mul_neg, mul_neg, neg_zsmul, neg_zsmul, neg_add]
      rw [this, hpt, Affine.Point.neg_some]
  constructor
  · intro h
    have := key _ h
    rwa [sub_sub_cancel] at this
  · exact key s
