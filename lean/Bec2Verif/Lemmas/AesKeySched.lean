import Bec2Verif.Lemmas.AesKeyStep
/-!
`expandKey` (the key schedule of `AES.__init__`) = FIPS-197 KeyExpansion, hence `AES.encrypt` / `AES.decrypt` of the
model are the standard's AES-128/192/256 Cipher and InvCipher under the given key.
-/
namespace Bec2Verif.AesW
open Bec2Verif Bec2Verif.Aes Bec2Verif.Gen Bec2Verif.Spec.Gf Bec2Verif.Spec.Fips Bec2Verif.AesGf

def cw (l : List Nat) : List Col := l.map colOf

theorem cw_getD (l : List Nat) (j : Nat) : (cw l).getD j z = colOf (l.getD j 0) := by
  unfold cw
  rw [List.getD_eq_getElem?_getD, List.getD_eq_getElem?_getD, List.getElem?_map]
  cases l[j]? <;> rfl

theorem getD_append_nat (a b : List Nat) (j : Nat) :
    (a ++ b).getD j 0 = if j < a.length then a.getD j 0 else b.getD (j - a.length) 0 := by
  rw [List.getD_eq_getElem?_getD, List.getD_eq_getElem?_getD, List.getD_eq_getElem?_getD]
  split
  · rename_i h; rw [List.getElem?_append_left h]
  · rename_i h; rw [List.getElem?_append_right (by omega)]

theorem list4 (l : List Nat) (h : l.length = 4) : ∃ a b c d, l = [a, b, c, d] := by
  match l, h with
  | [a, b, c, d], _ => exact ⟨a, b, c, d, rfl⟩

theorem list6 (l : List Nat) (h : l.length = 6) : ∃ a b c d e f, l = [a, b, c, d, e, f] := by
  match l, h with
  | [a, b, c, d, e, f], _ => exact ⟨a, b, c, d, e, f, rfl⟩

theorem list8 (l : List Nat) (h : l.length = 8) : ∃ a b c d e f g i, l = [a, b, c, d, e, f, g, i] := by
  match l, h with
  | [a, b, c, d, e, f, g, i], _ => exact ⟨a, b, c, d, e, f, g, i, rfl⟩

theorem expandStep_ok (kc : Nat) (tk : List Nat) (rp : Nat) (hk : kc = 4 ∨ kc = 6 ∨ kc = 8) (htk : tk.length = kc)
    (hrp : rp < 30) : StepOK kc tk rp (expandStep kc tk rp) := by
  rcases hk with rfl | rfl | rfl
  · obtain ⟨a, b, c, d, rfl⟩ := list4 tk htk
    exact expandStep_4 a b c d rp hrp
  · obtain ⟨a, b, c, d, e, f, rfl⟩ := list6 tk htk
    exact expandStep_6 a b c d e f rp hrp
  · obtain ⟨a, b, c, d, e, f, g, i, rfl⟩ := list8 tk htk
    exact expandStep_8 a b c d e f g i rp hrp

/-- appending a correct block keeps the recurrence -/
theorem rec_extend (kc : Nat) (hk : 1 ≤ kc) (acc tk tk' : List Nat) (rp : Nat) (hlen : acc.length = (rp + 1) * kc)
    (htk : tk = acc.drop (acc.length - kc)) (hok : StepOK kc tk rp tk') (hrec : Rec kc (cw acc)) :
    Rec kc (cw (acc ++ tk')) := by
  obtain ⟨hl', hstep⟩ := hok
  have hkn : kc ≤ acc.length := by
    rw [hlen]; exact Nat.le_mul_of_pos_left kc (by omega)
  intro i h1 h2
  have hcl : (cw (acc ++ tk')).length = acc.length + kc := by simp [cw, hl']
  rw [hcl] at h2
  rw [cw_getD, cw_getD, cw_getD]
  by_cases hi : i < acc.length
  · rw [getD_append_nat, getD_append_nat, getD_append_nat, if_pos hi, if_pos (by omega), if_pos (by omega)]
    have := hrec i h1 (by simp [cw]; exact hi)
    rw [cw_getD, cw_getD, cw_getD] at this
    exact this
  · have ht : i - acc.length < kc := by omega
    rw [getD_append_nat, if_neg hi, hstep _ ht]
    have hidx : (rp + 1) * kc + (i - acc.length) = i := by omega
    rw [hidx]
    have htkg : ∀ j, tk.getD j 0 = acc.getD (acc.length - kc + j) 0 := by
      intro j
      rw [htk, List.getD_eq_getElem?_getD, List.getElem?_drop, ← List.getD_eq_getElem?_getD]
    congr 2
    · by_cases ht0 : i - acc.length = 0
      · rw [if_pos ht0, htkg, getD_append_nat, if_pos (by omega)]
        congr 1; omega
      · rw [if_neg ht0, getD_append_nat, if_neg (by omega)]
        congr 1; omega
    · rw [htkg, getD_append_nat, if_pos (by omega)]
      congr 1; omega

theorem expandLoop_rec (kc rkc : Nat) (hk : kc = 4 ∨ kc = 6 ∨ kc = 8) (hrkc : rkc ≤ 60) (fuel : Nat) (tk : List Nat)
    (rp : Nat) (acc : List Nat) (hlen : acc.length = (rp + 1) * kc) (htk : tk = acc.drop (acc.length - kc))
    (hrec : Rec kc (cw acc)) :
    Rec kc (cw (expandLoop kc rkc fuel tk rp acc)) ∧ (expandLoop kc rkc fuel tk rp acc).take kc = acc.take kc := by
  induction fuel generalizing tk rp acc with
  | zero => exact ⟨hrec, rfl⟩
  | succ f ih =>
    unfold expandLoop
    split
    · rename_i hlt
      have hrp : rp < 30 := by
        rw [hlen] at hlt
        have : (rp + 1) * 4 ≤ (rp + 1) * kc := Nat.mul_le_mul_left _ (by omega)
        omega
      have htkl : tk.length = kc := by
        rw [htk, List.length_drop]
        have : kc ≤ acc.length := by rw [hlen]; exact Nat.le_mul_of_pos_left kc (by omega)
        omega
      have hok := expandStep_ok kc tk rp hk htkl hrp
      have hl' := hok.1
      have hrec' := rec_extend kc (by omega) acc tk _ rp hlen htk hok hrec
      have := ih (expandStep kc tk rp) (rp + 1) (acc ++ expandStep kc tk rp)
        (by simp only [List.length_append, hl', hlen]; rw [Nat.add_mul (rp + 1) 1 kc]; omega)
        (by
          simp only [List.length_append, hl']
          rw [show acc.length + kc - kc = acc.length by omega, List.drop_left])
        hrec'
      refine ⟨this.1, ?_⟩
      rw [this.2, List.take_append_of_le_length]
      rw [hlen]; exact Nat.le_mul_of_pos_left kc (by omega)
    · exact ⟨hrec, rfl⟩

theorem rec_take (nk : Nat) (W : List Col) (m : Nat) (h : Rec nk W) : Rec nk (W.take m) := by
  intro i h1 h2
  rw [List.length_take] at h2
  have g : ∀ j, j < m → (W.take m).getD j z = W.getD j z := by
    intro j hj
    rw [List.getD_eq_getElem?_getD, List.getD_eq_getElem?_getD, List.getElem?_take_of_lt hj]
  rw [g i (by omega), g (i - 1) (by omega), g (i - nk) (by omega)]
  exact h i h1 (by omega)

theorem cw_wordsOf : ∀ l : List Nat, (∀ x ∈ l, x < 256) → cw (wordsOf l) = colsOfBytes l
  | [], _ => by simp [wordsOf, cw, colsOfBytes]
  | [_], _ => by simp [wordsOf, cw, colsOfBytes]
  | [_, _], _ => by simp [wordsOf, cw, colsOfBytes]
  | [_, _, _], _ => by simp [wordsOf, cw, colsOfBytes]
  | a :: b :: c :: d :: rest, h => by
    have ih := cw_wordsOf rest (fun x hx => h x (by simp [hx]))
    simp only [wordsOf, cw, List.map_cons, colsOfBytes]
    rw [colOf_compact a b c d (h a (by simp)) (h b (by simp)) (h c (by simp)) (h d (by simp))]
    congr 1

theorem colsOfBytes_length : ∀ l : List Nat, (colsOfBytes l).length = l.length / 4
  | [] => by simp [colsOfBytes]
  | [_] => by simp [colsOfBytes]
  | [_, _] => by simp [colsOfBytes]
  | [_, _, _] => by simp [colsOfBytes]
  | _ :: _ :: _ :: _ :: rest => by
    simp only [colsOfBytes, List.length_cons, colsOfBytes_length rest]; omega

/-- **the key schedule is FIPS-197's KeyExpansion** (words as 4-byte columns) -/
theorem expandKey_eq (key : List Nat) (rounds : Nat) (hb : ∀ x ∈ key, x < 256)
    (h : (key.length = 16 ∧ rounds = 10) ∨ (key.length = 24 ∧ rounds = 12) ∨ (key.length = 32 ∧ rounds = 14)) :
    cw (expandKey key rounds) = keyExpansion (colsOfBytes key) rounds := by
  have hkc : key.length / 4 = 4 ∨ key.length / 4 = 6 ∨ key.length / 4 = 8 := by omega
  have hwl := wordsOf_length key
  have hcl := colsOfBytes_length key
  have hloop := expandLoop_rec (key.length / 4) ((rounds + 1) * 4) hkc (by omega) ((rounds + 1) * 4) (wordsOf key) 0
    (wordsOf key) (by rw [hwl]; omega) (by rw [hwl]; simp) (by
      intro i h1 h2
      simp only [cw, List.length_map, hwl] at h2
      omega)
  obtain ⟨hspec1, hspec2, hspec3⟩ := keyExpansion_spec (colsOfBytes key) rounds (by rw [hcl]; omega) (by rw [hcl]; omega)
  rw [hcl] at hspec1 hspec2
  apply rec_unique (key.length / 4) (by omega)
  · rw [hspec3]; simp only [cw, List.length_map, expandKey_length key rounds h]; omega
  · rw [hspec2]
    unfold expandKey
    simp only
    have : (cw ((expandLoop (key.length / 4) ((rounds + 1) * 4) ((rounds + 1) * 4) (wordsOf key) 0 (wordsOf key)).take
        ((rounds + 1) * 4))).take (key.length / 4) =
        cw ((expandLoop (key.length / 4) ((rounds + 1) * 4) ((rounds + 1) * 4) (wordsOf key) 0 (wordsOf key)).take
          (key.length / 4)) := by
      unfold cw
      rw [← List.map_take, List.take_take]
      congr 2
      omega
    rw [this, hloop.2, List.take_of_length_le (by omega), cw_wordsOf key hb]
  · unfold expandKey
    simp only
    have : cw ((expandLoop (key.length / 4) ((rounds + 1) * 4) ((rounds + 1) * 4) (wordsOf key) 0 (wordsOf key)).take
        ((rounds + 1) * 4)) =
        (cw (expandLoop (key.length / 4) ((rounds + 1) * 4) ((rounds + 1) * 4) (wordsOf key) 0 (wordsOf key))).take
          ((rounds + 1) * 4) := by
      unfold cw; rw [List.map_take]
    rw [this]
    exact rec_take _ _ _ hloop.1
  · exact hspec1

/-- round key `r` of the stored schedule = round key `r` of the FIPS key expansion -/
theorem rkSt_eq (key : List Nat) (rounds : Nat) (hb : ∀ x ∈ key, x < 256)
    (h : (key.length = 16 ∧ rounds = 10) ∨ (key.length = 24 ∧ rounds = 12) ∨ (key.length = 32 ∧ rounds = 14)) (r : Nat) :
    rkSt (expandKey key rounds).toArray r = roundKey (keyExpansion (colsOfBytes key) rounds) r := by
  rw [← expandKey_eq key rounds hb h]
  unfold rkSt roundKey rk
  simp only [getD_toArray, cw_getD]
  have e : ∀ i, r * 4 + i = 4 * r + i := by intro i; omega
  simp only [e, Nat.add_zero]

theorem key_bytes (key : Bytes) : ∀ x ∈ key.map UInt8.toNat, x < 256 := by
  intro x hx
  obtain ⟨y, _, rfl⟩ := List.mem_map.mp hx
  exact y.toNat_lt

theorem mkKeys_rounds (key : Bytes) (k : Keys) (h : mkKeys key = .ok k) :
    ((key.map UInt8.toNat).length = 16 ∧ k.rounds = 10) ∨ ((key.map UInt8.toNat).length = 24 ∧ k.rounds = 12) ∨
    ((key.map UInt8.toNat).length = 32 ∧ k.rounds = 14) := by
  have := roundsFor_cases _ _ (mkKeys_spec key k h).2.2.2.2
  simpa using this

/-- **`AES(key).encrypt(block)` of the model is FIPS-197 AES encryption** (Cipher over KeyExpansion) for every key of
16, 24 or 32 bytes and every 16-byte block -/
theorem encrypt_eq_fips (key : Bytes) (k : Keys) (h : mkKeys key = .ok k) (pt : List Nat) (hl : pt.length = 16)
    (hb : ∀ x ∈ pt, x < 256) : encryptBlock k pt = aesEncrypt (key.map UInt8.toNat) pt := by
  have hr := mkKeys_rounds key k h
  have hke := (mkKeys_spec key k h).1
  rw [encryptBlock_eq k pt hl hb]
  unfold aesEncrypt
  simp only
  have hnr : (colsOfBytes (key.map UInt8.toNat)).length + 6 = k.rounds := by
    rw [colsOfBytes_length]; omega
  rw [hnr]
  congr 2
  funext r
  rw [hke]
  exact rkSt_eq _ _ (key_bytes key) hr r

/-- **`AES(key).decrypt(block)` of the model is FIPS-197's InvCipher** under the same key expansion -/
theorem decrypt_eq_fips (key : Bytes) (k : Keys) (h : mkKeys key = .ok k) (ct : List Nat) (hl : ct.length = 16)
    (hb : ∀ x ∈ ct, x < 256) : decryptBlock k ct = aesDecrypt (key.map UInt8.toNat) ct := by
  have hr := mkKeys_rounds key k h
  obtain ⟨hke, hkd, hlen, hr1, _⟩ := mkKeys_spec key k h
  rw [decryptBlock_eq k ct hl hb]
  have hwb : ∀ r, ByteSt (rkSt k.ke r) := rkSt_byte k.ke
  have hdk : ∀ r, r ≤ k.rounds → rkSt k.kd r =
      if 1 ≤ r ∧ r < k.rounds then invMixColumns (rkSt k.ke (k.rounds - r)) else rkSt k.ke (k.rounds - r) := by
    intro r hr
    rw [hkd, hke]
    exact decKeys_st _ _ hlen r hr
  rw [eqInv_eq_inv (rkSt k.ke) (rkSt k.kd) hwb k.rounds
    (by rw [hdk 0 (by omega)]; simp)
    (fun r h1 h2 => by rw [hdk r (by omega)]; simp [h1, h2])
    (by rw [hdk k.rounds (Nat.le_refl _)]; simp) _ (stateOfBytes_byte ct hl hb).1]
  unfold aesDecrypt
  simp only
  have hnr : (colsOfBytes (key.map UInt8.toNat)).length + 6 = k.rounds := by
    rw [colsOfBytes_length]; omega
  rw [hnr]
  congr 2
  funext r
  rw [hke]
  exact rkSt_eq _ _ (key_bytes key) hr r

end Bec2Verif.AesW
